// Harness for C05 — resolvers only ever observe spec-coerced, type-conforming inputs.
//
// A *group* is one argument `a: T [= default]` of an echo field (or of the directive @probe, or the
// `if` of @skip / @include) and one abstract client value for it; the group is executed in many
// *spellings* (literal, $variable, variable nested in a literal, variable default, unset variable →
// argument / field default, explicit null through nullable variables with defaults …) through the
// real graphql.ParseAndValidate + graphql.Execute. Per spelling we compare with the Lean model
// (driver c05model):
//
//	(1) the outcome: invalid | reqerr | fielderr | the canonical dump of the arguments the resolver
//	    (directive filter) observed;   (2) what the cost function observed under ValidateCost;
//
// and, model-free, (3) conformance of every observed argument map to the declared types,
// (4) equality with an independent Go reference coercion of the client value, (5) agreement of the
// spellings with each other, (6) for @skip/@include that the field ran iff the condition says so.
// Function-level ties: schema.CoerceLiteral / schema.CoerceVariableValue against the model and the
// reference, and the reference against the Lean specification.
package main

import (
	"encoding/json"
	"fmt"
	"math/big"
	"os"
	"sort"
	"strings"
	"time"

	"github.com/ccbrown/api-fu/graphql/parser"
	"github.com/ccbrown/api-fu/graphql/schema"

	"verifharness/hx"
)

type harness struct {
	run      *hx.Run
	model    *hx.Model
	dtKnown  map[string]bool
	verbose  bool
	obs      map[string]*obligation
	obOrder  []string
	reported map[string]int
	// one case in cloneShare is repeated against Clone(), one in routeShare through apifu.API
	cloneShare, routeShare int
}

type obligation struct {
	kind   string
	cases  int
	ok     bool
	detail string
}

const (
	obOutcome  = "correspondence: outcome (validation, CoerceVariableValues, CoerceArgumentValues, arguments observed by resolver / directive filter) = model"
	obCost     = "correspondence: arguments observed by the cost function under ValidateCost = model"
	obUngated  = "correspondence: validator.CoerceVariableValues + CoerceArgumentValues on the unvalidated document = model coerceCase"
	obLit      = "correspondence: schema.CoerceLiteral = model coerceLit"
	obVar      = "correspondence: schema.CoerceVariableValue = model coerceVar"
	obSpec     = "correspondence: Go reference coercion = Lean Spec.coerce"
	orConf     = "oracle: every observed argument map conforms to the declared types (resolver, filter, cost function)"
	orRef      = "oracle: observed value = reference coercion of the client value, or an error and no invocation"
	orAgree    = "oracle: all JSON-faithful spellings of one client value give the same result"
	orSkip     = "oracle: @skip/@include run the field iff the coerced condition says so"
	orHook     = "oracle: InputCoercion hooks are invoked exactly once per hooked object, after its fields, and their result is what is observed"
	orSound    = "oracle: a variable value of a non-JSON Go kind is refused or coerces to the reference's value"
	obTree     = "correspondence: tree model (ApiFu/C05/Model.lean) = implementation on the cases it can express"
	obGoKinds  = "correspondence: schema.CoerceVariableValue on Go kinds other than JSON's = model"
	obDateTime = "correspondence: time.Time.UnmarshalText accepts a string ⇔ Rfc3339.accepts (Lean); RFC 3339 proper ⊆ accepted"
)

// ob records one evaluation of an obligation. A failure that carries the key of a known finding is
// reported through Violate but does not turn the obligation red on its own.
func (h *harness) ob(name, kind string, ok bool, detail string) {
	o := h.obs[name]
	if o == nil {
		o = &obligation{kind: kind, ok: true}
		h.obs[name] = o
		h.obOrder = append(h.obOrder, name)
	}
	o.cases++
	if !ok {
		o.ok = false
		if o.detail == "" {
			o.detail = detail
		}
	}
}

type failure struct {
	kind    string // property | correspondence | crash
	what    string
	key     string
	noInput bool
	idx     int // index of the spelling (−1: the group as a whole)
}

func canon(s string) string {
	x, err := hx.ParseSexp(s)
	if err != nil {
		return s
	}
	return x.String()
}

// registerStrings extends the model's RFC 3339 table with Go's verdict on every string mentioned.
func (h *harness) registerStrings(lines []string, x hx.Sexp) []string {
	if x.IsList {
		if len(x.List) == 2 && x.List[0].Atom == "str" && !x.List[1].IsList {
			s := x.List[1].Atom
			if !h.dtKnown[s] {
				h.dtKnown[s] = true
				if c, ok := parseDateTime(s); ok {
					lines = append(lines, hx.N("dt", hx.A(s), hx.N("some", hx.A(c))).String())
				} else {
					lines = append(lines, hx.N("dt", hx.A(s), hx.A("none")).String())
				}
			}
			return lines
		}
		for _, e := range x.List {
			lines = h.registerStrings(lines, e)
		}
	}
	return lines
}

type prepared struct {
	g         *Group
	cases     []Case
	lossy     []bool
	gap       []bool
	sound     []bool
	direct    bool // function-level lines: lit, var, spec (+ the tree model's, + a Go-kind re-encoding)
	varOK     bool // the value survives JSON exactly (the `var` line is meaningful)
	goRaw     hx.Sexp
	goDenotes bool
}

// answers are the model's replies for one group ("" = line not sent).
type answers struct {
	have                       bool
	caseR                      []string // generalised model, per spelling
	caseTree                   []string // tree model, per spelling it can express
	caseAlt                    []string // multi-operation documents: the case with the other operation's variable definitions
	lit, vr, spec, goVar       string
	treeLit, treeVar, treeSpec string
}

// evalGroups runs a batch of groups on both sides and reports failures.
func (h *harness) evalGroups(groups []*Group, random int, report bool) map[*Group][]failure {
	out := map[*Group][]failure{}
	type slot struct {
		p        *prepared
		caseR    []int
		caseTree []int
		caseAlt  []int
		direct   [7]int
	}
	var lines []string
	add := func(l string) int {
		if l == "" {
			return -1
		}
		lines = append(lines, l)
		return len(lines) - 1
	}
	slots := make([]slot, len(groups))
	for gi, g := range groups {
		r := h.run.Rand.Fork()
		p := &prepared{g: g}
		p.cases, p.lossy, p.gap, p.sound = g.spellings(r, random)
		// table lines first
		for i := range p.cases {
			for _, part := range []string{p.cases[i].Env, p.cases[i].ArgDefs, p.cases[i].VarDefs, p.cases[i].Args, p.cases[i].Raw} {
				if x, err := hx.ParseSexp(part); err == nil {
					lines = h.registerStrings(lines, x)
				}
			}
		}
		if g.v != nil {
			lines = h.registerStrings(lines, *g.v)
		}
		s := slot{p: p}
		for i := range s.direct {
			s.direct[i] = -1
		}
		if g.Site == "poly" {
			for i := range p.cases {
				for _, l := range polyLines(&p.cases[i]) {
					s.caseR = append(s.caseR, add(l))
				}
			}
			slots[gi] = s
			continue
		}
		for i := range p.cases {
			s.caseR = append(s.caseR, add(p.cases[i].modelLine()))
			tree := ""
			if pc, err := p.cases[i].parse(); err == nil {
				tree = p.cases[i].treeLine(pc)
			}
			alt := ""
			if p.cases[i].AltVarDefs != "" {
				// the whole document is valid only if the other operation is valid too
				other := p.cases[i]
				other.VarDefs = other.AltVarDefs
				if x, err := hx.ParseSexp(other.VarDefs); err == nil {
					lines = h.registerStrings(lines, x)
				}
				alt, tree = other.modelLine(), ""
			}
			s.caseTree = append(s.caseTree, add(tree))
			s.caseAlt = append(s.caseAlt, add(alt))
		}
		for i := range s.direct {
			s.direct[i] = -1
		}
		if g.v != nil {
			p.direct, p.varOK = true, jsonExact(*g.v)
			ts, env := g.t.Sexp().String(), g.Env
			if env == "" {
				env = "()"
			}
			s.direct[0] = add("(rlit " + env + " " + ts + " " + cvToLit(*g.v).String() + ")")
			s.direct[1] = add("(rvar " + env + " " + ts + " " + cvToJSON(*g.v).String() + ")")
			s.direct[2] = add("(rspec " + env + " " + ts + " " + g.v.String() + ")")
			if p.varOK {
				p.goDenotes = true
				p.goRaw = goKindOf(r, *g.v, &p.goDenotes)
				lines = h.registerStrings(lines, p.goRaw)
				s.direct[3] = add("(rvar " + env + " " + ts + " " + p.goRaw.String() + ")")
			}
			if treeExpressible(g.t, map[string]bool{}) {
				tt := g.t.TreeSexp().String()
				s.direct[4] = add("(lit " + tt + " " + cvToLit(*g.v).String() + " ())")
				s.direct[5] = add("(var " + tt + " " + cvToJSON(*g.v).String() + ")")
				s.direct[6] = add("(spec " + tt + " " + g.v.String() + ")")
			}
		}
		slots[gi] = s
	}
	var replies []string
	if h.model != nil {
		var err error
		replies, err = h.model.AskAll(lines)
		if err != nil {
			fmt.Fprintln(os.Stderr, "model driver failed:", err)
			os.Exit(2)
		}
	}
	get := func(i int) string {
		if replies == nil || i < 0 {
			return ""
		}
		return nilEnums(replies[i])
	}
	for gi, g := range groups {
		s := slots[gi]
		an := &answers{have: replies != nil}
		if g.Site == "poly" {
			var rs []string
			if replies != nil {
				for _, li := range s.caseR {
					rs = append(rs, get(li))
				}
			}
			if fs := h.judgePoly(s.p, rs); len(fs) > 0 {
				out[g] = fs
				if report {
					h.report(g, s.p, fs)
				}
			}
			continue
		}
		for i := range s.caseR {
			an.caseR = append(an.caseR, get(s.caseR[i]))
			an.caseTree = append(an.caseTree, get(s.caseTree[i]))
			an.caseAlt = append(an.caseAlt, get(s.caseAlt[i]))
		}
		an.lit, an.vr, an.spec, an.goVar = get(s.direct[0]), get(s.direct[1]), get(s.direct[2]), get(s.direct[3])
		an.treeLit, an.treeVar, an.treeSpec = get(s.direct[4]), get(s.direct[5]), get(s.direct[6])
		fs := h.judge(s.p, an)
		if len(fs) > 0 {
			out[g] = fs
			if report {
				h.report(g, s.p, fs)
			}
		}
	}
	return out
}

// splitRes reads `(res o1 o3)` (generalised model) or `(res o1 o2 o3)` (tree model): the outcome
// and the coercion without the validation gate.
func splitRes(reply string) (o1, o3 string, ok bool) {
	x, err := hx.ParseSexp(reply)
	if err != nil || !x.IsList || len(x.List) < 3 || x.List[0].Atom != "res" {
		return "", "", false
	}
	return x.List[1].String(), x.List[len(x.List)-1].String(), true
}

// focus extracts the focus argument from an `(ok (name goval)…)` dump.
func focus(args string, name string) (val string, present bool) {
	x, err := hx.ParseSexp(args)
	if err != nil || !x.IsList {
		return "", false
	}
	for _, e := range x.List[1:] {
		if e.IsList && len(e.List) == 2 && e.List[0].Atom == name {
			return e.List[1].String(), true
		}
	}
	return "", false
}

// conformsArgs: every observed argument conforms to its definition; no undeclared argument.
func conformsArgs(p *pcase, args string) (bool, string) {
	x, err := hx.ParseSexp(args)
	if err != nil || !x.IsList {
		return false, "unreadable dump"
	}
	seen := map[string]hx.Sexp{}
	for _, e := range x.List[1:] {
		seen[e.List[0].Atom] = e.List[1]
	}
	for _, d := range p.argDefs {
		v, ok := seen[d.Name]
		delete(seen, d.Name)
		if !ok {
			if d.Ty.K == "nn" || d.Dflt != nil {
				return false, fmt.Sprintf("argument %s: %s is missing", d.Name, d.Ty.GraphQL())
			}
			continue
		}
		if !conformsGo(d.Ty, v) {
			return false, fmt.Sprintf("argument %s: %s observed as %s", d.Name, d.Ty.GraphQL(), v.String())
		}
	}
	for k := range seen {
		return false, "undeclared argument " + k
	}
	return true, ""
}

// judge evaluates one group: rs are the model's replies (cases…, lit, var, spec) or nil.
func (h *harness) judge(p *prepared, an *answers) []failure {
	g := p.g
	var fs []failure
	refVal, refPresent, refOK := refArg(g.t, g.dflt, g.v)
	refStr := "error"
	if refOK {
		refStr = "absent"
		if refPresent {
			refStr = refVal.String()
		}
	}
	h.run.Count("site:" + g.Site)
	if refOK {
		h.run.Count("value:coerces")
	} else {
		h.run.Count("value:no-coercion")
	}
	h.run.Count("type-top:" + g.t.K)
	agree := map[string]string{} // result → label of a spelling that produced it
	groupKnown := false
	for i := range p.cases {
		c := &p.cases[i]
		o, query, variables, err := runReal(c)
		c.Query, c.Variables = query, variables
		if err != nil {
			fs = append(fs, failure{"correspondence", "harness cannot run the case: " + err.Error(), "", true, i})
			continue
		}
		pc, _ := c.parse()
		nontrivial := c.VarDefs != "()" || c.Args == "()"
		h.run.Case(c.ArgDefs+"|"+c.VarDefs+"|"+c.Args+"|"+c.Raw+"|"+c.Site, nontrivial)
		h.run.Count("spelling:" + c.Label)
		h.run.Count("outcome:" + o.Class)
		if p.lossy[i] {
			h.run.Count("spelling-not-json-faithful")
		}
		if h.verbose {
			fmt.Printf("--- %s\n    query:     %s\n    variables: %s\n    implementation: %s\n", c.Label, query, variables, o.String())
			if an.have {
				fmt.Printf("    model:          %s\n", an.caseR[i])
				if an.caseTree[i] != "" {
					fmt.Printf("    tree model:     %s\n", an.caseTree[i])
				}
			}
			fmt.Printf("    reference:      %s\n", refStr)
		}
		implOutcome := o.Class
		if o.Class == "ok" {
			implOutcome = canon(o.Args)
		}
		if o.Class == "panic" {
			fs = append(fs, failure{"crash", fmt.Sprintf("%s: %s (%s %s)", c.Label, o.Detail, query, variables), "", false, i})
			h.ob(orConf, "oracle", false, o.Detail)
			continue
		}
		// ---- oracles on the implementation's own output
		var oracle []string
		key := ""
		bad := func(name, msg string) {
			oracle = append(oracle, msg)
			if key == "" {
				h.ob(name, "oracle", false, fmt.Sprintf("%s: %s | %s %s", c.Label, msg, query, variables))
			}
		}
		if o.Class == "odd" {
			bad(orRef, o.Detail)
		}
		// (3) conformance
		confOK := true
		if o.Class == "ok" {
			if ok, why := conformsArgs(pc, o.Args); !ok {
				confOK = false
				bad(orConf, "observed arguments do not conform: "+why)
			}
		}
		if o.Cost != "-" {
			if strings.HasPrefix(o.Cost, "panic") {
				confOK = false
				bad(orConf, "cost pass: "+o.Cost)
			} else if ok, why := conformsArgs(pc, o.Cost); !ok {
				confOK = false
				bad(orConf, "the cost function observed arguments that do not conform: "+why)
			}
		}
		if confOK {
			h.ob(orConf, "oracle", true, "")
		}
		// (6) @skip / @include
		if o.Class == "ok" && (g.Site == "skip" || g.Site == "include") {
			if v, present := focus(o.Args, "if"); present && (v == "(bool true)" || v == "(bool false)") {
				want := (v == "(bool true)") == (g.Site == "include")
				if o.GRan != want {
					bad(orSkip, fmt.Sprintf("@%s(if: %s) but the field ran = %v", g.Site, v, o.GRan))
				} else {
					h.ob(orSkip, "oracle", true, "")
				}
			}
		}
		if o.Class == "ok" && g.Site == "directive" && !o.GRan {
			bad(orSkip, "the probe filter accepted the selection but the field did not run")
		}
		if o.Class == "fielderr" && g.Site != "field" && o.GRan {
			bad(orSkip, "the directive's arguments do not coerce but the selection was executed")
		}
		// hooks: called exactly once per object of a hooked type the observer received
		if o.Class == "ok" && g.Site != "skip" && g.Site != "include" {
			want := strings.Count(o.Args, "$hook")
			if o.HookCalls != want {
				bad(orHook, fmt.Sprintf("%d hooked objects observed but the hooks were invoked %d times", want, o.HookCalls))
			} else if want > 0 {
				h.ob(orHook, "oracle", true, "")
			}
		}
		// other routes into the same core (a deterministic share of the cases)
		caseKey := c.ArgDefs + "|" + c.VarDefs + "|" + c.Args + "|" + c.Raw + "|" + c.Site + "|" + c.AltVarDefs
		cloneShare, routeShare := h.cloneShare, h.routeShare
		if g.Routes {
			cloneShare, routeShare = 1, 1
		}
		if o.Class != "odd" && pickShare(caseKey+"|clone", cloneShare) {
			if msg := cloneRoute(c, o); msg != "" {
				bad(orClone, msg)
			} else {
				h.ob(orClone, "oracle", true, "")
			}
		}
		if g.Site == "field" && c.AltVarDefs == "" && o.Class != "odd" && o.Ungated != "syntax-error" {
			jsonOnly, unset := true, false
			supplied := map[string]bool{}
			for _, rw := range pc.raw {
				supplied[rw.Name] = true
				if !jsonKindsOnly(rw.V) {
					jsonOnly = false
				}
			}
			for _, vd := range pc.varDefs {
				if !supplied[vd.Name] {
					unset = true
				}
			}
			share := routeShare
			if unset || strings.ContainsAny(c.Raw, "+%") {
				share = (share + 7) / 8 // omitted variables and characters URLs escape: the routes' own business
			}
			if jsonOnly && pickShare(caseKey+"|routes", share) {
				h.run.Count("routes:cases")
				if problems := apiRoutes(c, o); len(problems) > 0 {
					bad(orRoutes, strings.Join(problems, "; "))
				} else {
					h.ob(orRoutes, "oracle", true, "")
				}
			}
		}
		// Go kinds: a re-encoding that still denotes the client value is either refused or coerces to
		// the reference's value
		if p.sound[i] && o.Class == "ok" {
			res := "absent"
			if v, present := focus(o.Args, g.argName()); present {
				res = v
			}
			if res != canon(refStr) {
				bad(orSound, fmt.Sprintf("a Go-kind encoding of the client value was accepted as %s, the reference says %s", res, refStr))
			} else {
				h.ob(orSound, "oracle", true, "")
			}
		}
		// (4) the reference, (5) agreement
		exempt := p.lossy[i]
		if !exempt {
			res := "error"
			if o.Class == "ok" {
				res = "absent"
				if v, present := focus(o.Args, g.argName()); present {
					res = v
				}
			} else if o.Class == "swallowed" {
				res = "no error and no observation"
			}
			if res != canon(refStr) {
				bad(orRef, fmt.Sprintf("the client value coerces to %s (reference) but this spelling gave %s", refStr, res))
			} else {
				h.ob(orRef, "oracle", true, "")
			}
			if key == "" {
				if _, seen := agree[res]; !seen {
					agree[res] = c.Label
				}
			} else {
				groupKnown = true
			}
		}
		// ---- correspondence with the model(s)
		tie := ""
		if an.have {
			o1, o3, ok := splitRes(an.caseR[i])
			if ok && an.caseAlt[i] != "" {
				// a document is valid when every operation in it is
				if a1, _, okA := splitRes(an.caseAlt[i]); !okA {
					ok = false
				} else if a1 == "invalid" {
					o1 = "invalid"
				}
			}
			if !ok {
				tie = "unexpected model reply " + an.caseR[i] + " " + an.caseAlt[i]
			} else {
				if implOutcome != o1 {
					tie = fmt.Sprintf("outcome: implementation %s, model %s", implOutcome, o1)
				}
				h.ob(obOutcome, "correspondence", tie == "", tie+" | "+query+" "+variables)
				ungatedTie := ""
				if o.Ungated == "syntax-error" && o.Class == "invalid" {
					// the document does not parse: nothing to hand to the exported functions
				} else if canon(o.Ungated) != o3 {
					ungatedTie = fmt.Sprintf("ungated coercion: implementation %s, model %s", o.Ungated, o3)
					tie = strings.TrimSpace(tie + " " + ungatedTie)
				}
				h.ob(obUngated, "correspondence", ungatedTie == "", ungatedTie+" | "+query+" "+variables)
				if g.Site == "field" {
					// ValidateCost runs only on documents the standard rules accept (patch 06)
					want := "-"
					if strings.HasPrefix(o3, "(ok") && o1 != "invalid" {
						want = o3
					}
					costTie := ""
					if canon(o.Cost) != want && o.Cost != want {
						costTie = fmt.Sprintf("cost function: implementation saw %s, model %s", o.Cost, want)
					}
					h.ob(obCost, "correspondence", costTie == "", costTie+" | "+query+" "+variables)
					if costTie != "" {
						tie = strings.TrimSpace(tie + " " + costTie)
					}
				}
			}
			// the tree model (the one nested_variable and static_agrees are proved about) on the cases it
			// can express
			if an.caseTree[i] != "" {
				t1, t3, ok := splitRes(an.caseTree[i])
				treeTie := ""
				if !ok {
					treeTie = "unexpected tree-model reply " + an.caseTree[i]
				} else if implOutcome != t1 || (canon(o.Ungated) != t3 && !(o.Ungated == "syntax-error" && o.Class == "invalid")) {
					treeTie = fmt.Sprintf("tree model: implementation %s (ungated %s), model %s (ungated %s)", implOutcome, o.Ungated, t1, t3)
				}
				h.ob(obTree, "correspondence", treeTie == "", treeTie+" | "+query+" "+variables)
				if treeTie != "" {
					tie = strings.TrimSpace(tie + " " + treeTie)
				}
				h.run.Count("tree-model-expressible")
			}
		}
		oracle = dedupe(oracle)
		if tie != "" {
			// the model reproduces the known findings exactly; a case on which the implementation
			// also leaves the model is a different failure
			key = ""
		}
		switch {
		case len(oracle) > 0:
			what := fmt.Sprintf("%s: %s | %s %s → %s", c.Label, strings.Join(oracle, "; "), query, variables, o.String())
			if tie != "" {
				what += " | also differs from the model: " + tie
			}
			fs = append(fs, failure{"property", what, key, false, i})
		case tie != "":
			fs = append(fs, failure{"correspondence", fmt.Sprintf("%s: %s | %s %s → %s", c.Label, tie, query, variables, o.String()), "", true, i})
		}
	}
	if len(agree) > 1 {
		parts := []string{}
		for res, label := range agree {
			parts = append(parts, label+" → "+res)
		}
		sort.Strings(parts)
		msg := "spellings of one client value disagree: " + strings.Join(parts, " ; ")
		h.ob(orAgree, "oracle", false, msg)
		already := false
		for _, f := range fs {
			if f.kind == "property" && f.key == "" {
				already = true
			}
		}
		if !already {
			fs = append(fs, failure{"property", msg, "", false, -1})
		}
	} else if !groupKnown {
		h.ob(orAgree, "oracle", true, "")
	}
	// ---- function-level ties
	if p.direct {
		fs = append(fs, h.judgeDirect(p, an)...)
	}
	return fs
}

func dedupe(xs []string) []string {
	seen := map[string]bool{}
	out := []string{}
	for _, x := range xs {
		if !seen[x] {
			seen[x] = true
			out = append(out, x)
		}
	}
	return out
}

func resOf(v interface{}, err error) string {
	if err != nil {
		return "err"
	}
	return hx.N("ok", dump(v)).String()
}

// judgeDirect: schema.CoerceLiteral / schema.CoerceVariableValue on the whole client value.
func (h *harness) judgeDirect(p *prepared, an *answers) (fs []failure) {
	g := p.g
	v := *g.v
	reg := newRegistry()
	gt := reg.gql(g.t)
	ref := "err"
	if c, ok := refCoerce(g.t, v); ok {
		ref = hx.N("ok", c).String()
	}
	defer func() {
		if r := recover(); r != nil {
			fs = append(fs, failure{"crash", fmt.Sprintf("direct coercion of %s at %s panics: %v", v.String(), g.t.GraphQL(), r), "", false, -1})
		}
	}()
	check := func(ob, label, impl string, replies ...string) {
		if !an.have {
			return
		}
		what := ""
		for _, r := range replies {
			if r != "" && canon(r) != impl {
				what = fmt.Sprintf("%s = %s, model %s", label, impl, r)
			}
		}
		if what != "" {
			fs = append(fs, failure{"correspondence", what, "", true, -1})
		}
		h.ob(ob, "correspondence", what == "", what)
	}
	// literal route
	text := litText(cvToLit(v))
	node, perrs := parser.ParseValue([]byte(text))
	if len(perrs) > 0 {
		return append(fs, failure{"correspondence", "harness wrote a literal that does not parse: " + text, "", true, -1})
	}
	lit := resOf(schema.CoerceLiteral(node, gt, nil))
	if lit != ref {
		what := fmt.Sprintf("CoerceLiteral(%s, %s) = %s, reference %s", text, g.t.GraphQL(), lit, ref)
		h.ob(orRef, "oracle", false, what)
		fs = append(fs, failure{"property", what, "", false, -1})
	} else {
		check(obLit, fmt.Sprintf("CoerceLiteral(%s, %s)", text, g.t.GraphQL()), lit, an.lit, an.treeLit)
	}
	// variable route
	if p.varOK {
		var decoded interface{}
		jt := jsonText(cvToJSON(v))
		if err := json.Unmarshal([]byte(jt), &decoded); err != nil {
			return append(fs, failure{"correspondence", "harness wrote JSON that does not decode: " + jt, "", true, -1})
		}
		vr := resOf(schema.CoerceVariableValue(decoded, gt))
		if faithful(g.t, v) && vr != ref {
			what := fmt.Sprintf("CoerceVariableValue(%s, %s) = %s, reference (and literal route) %s", jt, g.t.GraphQL(), vr, ref)
			h.ob(orRef, "oracle", false, what)
			fs = append(fs, failure{"property", what, "", false, -1})
		} else {
			check(obVar, fmt.Sprintf("CoerceVariableValue(%s, %s)", jt, g.t.GraphQL()), vr, an.vr, an.treeVar)
		}
		if vr != "err" {
			if x, err := hx.ParseSexp(vr); err == nil && !conformsGo(g.t, x.List[1]) {
				what := fmt.Sprintf("CoerceVariableValue(%s, %s) = %s does not conform", jt, g.t.GraphQL(), vr)
				h.ob(orConf, "oracle", false, what)
				fs = append(fs, failure{"property", what, "", false, -1})
			}
		}
		// the same value in other Go kinds
		if p.goRaw.IsList || p.goRaw.Atom != "" {
			label := fmt.Sprintf("CoerceVariableValue(%s, %s)", rawText(p.goRaw), g.t.GraphQL())
			gv := resOf(schema.CoerceVariableValue(goIn(p.goRaw), gt))
			h.run.Count("go-kind-direct:" + map[bool]string{true: "accepted", false: "refused"}[gv != "err"])
			switch {
			case gv != "err" && !conformsOK(g.t, gv):
				what := label + " = " + gv + " does not conform"
				h.ob(orConf, "oracle", false, what)
				fs = append(fs, failure{"property", what, "", false, -1})
			case gv != "err" && p.goDenotes && faithful(g.t, v) && gv != ref:
				what := label + " = " + gv + ", but the value it denotes coerces to " + ref
				h.ob(orSound, "oracle", false, what)
				fs = append(fs, failure{"property", what, "", false, -1})
			default:
				check(obGoKinds, label, gv, an.goVar)
			}
		}
	}
	// Lean specifications against the Go reference
	check(obSpec, fmt.Sprintf("Go reference coercion(%s, %s)", g.t.GraphQL(), v.String()), ref, an.spec, an.treeSpec)
	return fs
}

func conformsOK(t *Ty, res string) bool {
	x, err := hx.ParseSexp(res)
	return err == nil && x.IsList && len(x.List) == 2 && conformsGo(t, x.List[1])
}

// ---- reporting and shrinking ---------------------------------------------------------------------

func (h *harness) sameFailure(fs []failure, kind, key string) *failure {
	for i := range fs {
		if fs[i].kind == kind && fs[i].key == key {
			return &fs[i]
		}
	}
	return nil
}

// children lists smaller groups derived from g.
func children(g *Group) []*Group {
	var out []*Group
	if g.Extra {
		out = append(out, newGroup(g.Site, g.t, g.dflt, g.v, false))
	}
	if g.Site != "field" && g.Site != "directive" {
		return out
	}
	if g.dflt != nil && g.v != nil {
		out = append(out, newGroup(g.Site, g.t, nil, g.v, g.Extra))
	}
	if g.v == nil {
		return out
	}
	v := *g.v
	t := g.t
	if t.K == "nn" {
		out = append(out, newGroup(g.Site, t.Elem, g.dflt, g.v, g.Extra))
	}
	nt := nullable(t)
	switch tag(v) {
	case "list":
		items := v.List[1:]
		for i := range items {
			rest := append(append([]hx.Sexp{}, items[:i]...), items[i+1:]...)
			nv := cvList(rest...)
			out = append(out, newGroup(g.Site, t, g.dflt, &nv, g.Extra))
			if nt.K == "list" {
				it := items[i]
				out = append(out, newGroup(g.Site, nt.Elem, nil, &it, g.Extra))
			}
		}
	case "obj":
		fields := v.List[1:]
		for i := range fields {
			rest := append(append([]hx.Sexp{}, fields[:i]...), fields[i+1:]...)
			nv := hx.N("obj", rest...)
			out = append(out, newGroup(g.Site, t, g.dflt, &nv, g.Extra))
			if nt.K == "input" {
				if f := nt.field(fields[i].List[0].Atom); f != nil {
					fv := fields[i].List[1]
					out = append(out, newGroup(g.Site, f.Ty, f.Dflt, &fv, g.Extra))
				}
			}
		}
	default:
		if nt.K == "list" {
			out = append(out, newGroup(g.Site, nt.Elem, nil, g.v, g.Extra))
		}
	}
	return out
}

func (h *harness) report(g *Group, p *prepared, fs []failure) {
	// one violation per (kind, key) of the group
	done := map[string]bool{}
	for _, f := range fs {
		id := f.kind + "|" + f.key
		if done[id] {
			continue
		}
		done[id] = true
		h.reported[id]++
		if h.reported[id] > 3 {
			// hx keeps three replays per (kind, key); later hits are only counted
			h.run.Violate(f.kind, f.what, f.key, f.noInput, nil)
			continue
		}
		cur, curF, curP := g, f, p
		// shrink: smaller groups (deterministic spellings) that still fail the same way
		for steps := 0; steps < 40; steps++ {
			progressed := false
			for _, cand := range children(cur) {
				res := h.evalGroups([]*Group{cand}, 0, false)
				if nf := h.sameFailure(res[cand], f.kind, f.key); nf != nil {
					cur, curF, curP, progressed = cand, *nf, nil, true
					break
				}
			}
			if !progressed {
				break
			}
		}
		replay := *cur
		if curP != nil && curF.idx >= 0 {
			// keep the literal spelling (for comparison) and the failing one, explicitly
			keep := []int{0}
			if curF.idx != 0 {
				keep = append(keep, curF.idx)
			}
			replay.Cases, replay.Lossy, replay.Gap, replay.Sound = nil, nil, nil, nil
			for _, i := range keep {
				replay.Cases = append(replay.Cases, curP.cases[i])
				replay.Lossy = append(replay.Lossy, curP.lossy[i])
				replay.Gap = append(replay.Gap, curP.gap[i])
				replay.Sound = append(replay.Sound, curP.sound[i])
			}
		}
		h.run.Violate(curF.kind, curF.what, curF.key, curF.noInput, replay)
	}
}

// ---- generation of the run ---------------------------------------------------------------------------

func wrapForms(k *Ty) []*Ty {
	return []*Ty{
		k, nnTy(k), listTy(k), listTy(nnTy(k)), nnTy(listTy(k)), nnTy(listTy(nnTy(k))),
		listTy(listTy(k)), listTy(nnTy(listTy(k))), nnTy(listTy(nnTy(listTy(nnTy(k))))),
	}
}

func shapes(b hx.Sexp, t *Ty) []hx.Sexp {
	out := []hx.Sexp{b, cvList(b)}
	if nullable(t).K == "list" {
		out = append(out, cvList(b, cvNull), cvList(cvList(b)), cvList(cvList(b), b))
	}
	return out
}

// exhaustiveValuedEnum: an enum whose Go values are JSON-representable and differ from the names,
// every position kind × the names, the Go values themselves and other near-misses (lower-cased name,
// another enum's name, numbers, booleans) × every spelling: only declared NAMES coerce.
func (h *harness) exhaustiveValuedEnum() {
	u := unitTy
	in := &InputDef{Name: "Un", Fields: []*Field{{Name: "l", Ty: listTy(u)}, {Name: "u", Ty: nnTy(u)}}}
	types := []*Ty{u, nnTy(u), listTy(u), listTy(nnTy(u)), nnTy(listTy(nnTy(u))), listTy(listTy(u)), inputTy(in), listTy(inputTy(in))}
	leaves := []hx.Sexp{cvEnum("METER"), cvEnum("FOOT"), cvEnum("INCH"), cvEnum("MILE"), cvNull,
		cvStr("m"), cvHalf(3), cvBool(true), cvHalf(6), cvIntS("3"), // the declared Go values, as a client can send them
		cvStr("METER"), cvStr("meter"), cvEnum("meter"), cvEnum("m"), cvEnum("RED"), cvStr("M"), cvBool(false), cvIntS("1"), cvStr("")}
	var values []hx.Sexp
	for _, l := range leaves {
		values = append(values, l, cvList(l), cvList(cvEnum("MILE"), l), cvList(cvList(l)),
			hx.N("obj", kv("u", l)), hx.N("obj", kv("l", l), kv("u", cvEnum("INCH"))), hx.N("obj", kv("l", cvList(l, cvEnum("FOOT"))), kv("u", cvEnum("METER"))))
	}
	var groups []*Group
	for _, t := range types {
		for i, v := range values {
			v := v
			shape := tag(v)
			nt := nullable(t)
			// keep the pairs whose shapes can meet (an object for an enum position is junk of no interest)
			if (shape == "obj") != (nt.K == "input" || (nt.K == "list" && nullable(nt.Elem).K == "input")) {
				continue
			}
			g := newGroup("field", t, nil, &v, false)
			g.Routes = i%16 == 0
			groups = append(groups, g)
		}
	}
	h.evalGroups(groups, 1, true)
}

// exhaustiveNilEnum: an enum value declared without a Go value, at nullable positions, through every
// spelling: all of them hand the resolver nil (the literal route, the variable route, defaults).
func (h *harness) exhaustiveNilEnum() {
	in := &InputDef{Name: "Sh", Fields: []*Field{{Name: "l", Ty: listTy(shadeTy)}, {Name: "s", Ty: shadeTy}}}
	types := []*Ty{shadeTy, listTy(shadeTy), listTy(listTy(shadeTy)), inputTy(in), listTy(inputTy(in))} // no non-null position anywhere
	pale, dark := cvEnum("PALE"), cvEnum("DARK")
	values := []hx.Sexp{pale, dark, cvNull, cvEnum("RED"), cvStr("PALE"), cvList(pale), cvList(pale, dark, cvNull), cvList(cvList(pale, dark)),
		hx.N("obj", kv("s", pale)), hx.N("obj", kv("l", cvList(dark, pale)), kv("s", dark)), hx.N("obj", kv("l", pale)),
		cvList(hx.N("obj", kv("s", pale)))}
	var groups []*Group
	for _, t := range types {
		groups = append(groups, newGroup("field", t, nil, nil, false))
		for _, v := range values {
			v := v
			g := newGroup("field", t, nil, &v, false)
			g.Routes = t == shadeTy || t.K == "input"
			groups = append(groups, g)
			if t.K != "nn" {
				groups = append(groups, newGroup("directive", t, nil, &v, false))
			}
		}
	}
	h.evalGroups(groups, 2, true)
}

func (h *harness) exhaustive() {
	run := h.run
	var groups []*Group
	flush := func() {
		h.evalGroups(groups, 0, true)
		groups = nil
	}
	for _, name := range scalarNames {
		k := scalarTy(name)
		values := append([]hx.Sexp{}, leafPool()...)
		if name != "Float" {
			values = append(values, inexactInt)
		}
		forms := wrapForms(k)
		if !run.Thorough() {
			// quick: all forms for the boundary-sensitive scalars, the main ones for the others
			if name == "String" || name == "Boolean" || name == "DateTime" {
				forms = []*Ty{forms[0], forms[1], forms[3], forms[7]}
			}
		}
		for _, t := range forms {
			groups = append(groups, newGroup("field", t, nil, &cvNull, false), newGroup("field", t, nil, nil, false))
			for _, b := range values {
				for _, v := range shapes(b, t) {
					v := v
					groups = append(groups, newGroup("field", t, nil, &v, false))
				}
			}
			if len(groups) > 400 {
				flush()
			}
		}
		// declared defaults: omitted argument / unset variable / explicit null against a default
		for _, t := range []*Ty{k, nnTy(k), listTy(nnTy(k))} {
			d := (&typeGen{r: run.Rand.Fork()}).dflt(nnTy(nullable(t)))
			null := hx.A("nil")
			for _, dv := range []*hx.Sexp{d, &null} {
				if t.K == "nn" && isNullX(*dv) {
					continue
				}
				groups = append(groups, newGroup("field", t, dv, nil, false), newGroup("field", t, dv, &cvNull, false))
				v := hx.Pick(run.Rand, validLeaves(k))
				groups = append(groups, newGroup("field", t, dv, &v, true))
			}
		}
	}
	// enums
	for _, e := range []*Ty{colorTy, sizeTy} {
		for _, t := range []*Ty{e, nnTy(e), listTy(nnTy(e)), listTy(listTy(e))} {
			groups = append(groups, newGroup("field", t, nil, &cvNull, false), newGroup("field", t, nil, nil, false))
			for _, b := range leafPool() {
				for _, v := range shapes(b, t) {
					v := v
					groups = append(groups, newGroup("field", t, nil, &v, false))
				}
			}
		}
	}
	flush()
	// @skip / @include: the `if: Boolean!` of the built-in directives
	for _, site := range []string{"skip", "include"} {
		t := nnTy(scalarTy("Boolean"))
		groups = append(groups, newGroup(site, t, nil, nil, false), newGroup(site, t, nil, &cvNull, false))
		for _, b := range []hx.Sexp{cvBool(true), cvBool(false), cvIntS("1"), cvStr("true"), cvEnum("RED"), cvList(cvBool(true))} {
			b := b
			groups = append(groups, newGroup(site, t, nil, &b, false))
		}
	}
	flush()
}

func (h *harness) randomComposite(n int, maxDepth int) {
	run := h.run
	var groups []*Group
	for i := 0; i < n; i++ {
		r := run.Rand.Fork()
		tg := &typeGen{r: r, rich: r.Bool()}
		t := tg.top(r.Range(1, maxDepth))
		if tg.rich {
			run.Count("type:rich(recursive types, hooks, custom scalars allowed)")
			if !treeExpressible(t, map[string]bool{}) {
				run.Count("type:not-tree-expressible")
			}
		}
		var dflt *hx.Sexp
		if r.Chance(1, 3) {
			dflt = tg.dflt(t)
		}
		site := "field"
		if r.Chance(1, 6) {
			site = "directive"
		}
		var v *hx.Sexp
		if !r.Chance(1, 10) {
			vg := &valueGen{r: r}
			if r.Chance(1, 2) {
				vg.junk = r.Range(3, 15)
			}
			x := vg.valid(t, false, false, 3)
			v = &x
		}
		g := newGroup(site, t, dflt, v, r.Chance(1, 5))
		groups = append(groups, g)
		if i < 4 {
			run.Sample(map[string]string{"site": g.Site, "type": t.GraphQL(), "env": g.Env, "type_sexp": g.T, "default": g.Dflt, "value": g.V})
		}
		if len(groups) >= 300 {
			h.evalGroups(groups, 4, true)
			groups = nil
		}
	}
	h.evalGroups(groups, 4, true)
}

// polymorphic: one field node against two concrete types with their own argument defaults.
func (h *harness) polymorphic(n int) {
	run := h.run
	groups := h.polyVariantsExhaustive()
	h.evalGroups(groups, 0, true)
	groups = nil
	for i := 0; i < n; i++ {
		r := run.Rand.Fork()
		tg := &typeGen{r: r, rich: r.Chance(1, 3)}
		var t *Ty
		if r.Chance(1, 3) {
			t = hx.Pick(r, wrapForms(scalarTy(hx.Pick(r, scalarNames))))
		} else {
			t = tg.top(r.Range(0, 3))
		}
		dflt := func(t *Ty) *hx.Sexp {
			if r.Chance(1, 3) {
				return nil
			}
			return tg.dflt(t)
		}
		// the implementers' own argument types: TRY definitions that differ from the interface's
		// (polyvariant.go); what schema.New refuses is counted and the group falls back to equal types
		tA, tB := t, t
		variant := false
		shape := ""
		if r.Chance(1, 12) {
			shape = hx.Pick(r, []string{shapeLacks, shapeRequired})
			if ok, _ := polyAcceptedShape(t, t, t, shape); ok {
				run.Count("poly-variant:" + shape + ": ACCEPTED by schema.New (used)")
				variant = true
			} else {
				run.Count("poly-variant:" + shape + ": refused by schema.New (discarded)")
				shape = ""
			}
		} else if r.Chance(1, 2) {
			var kinds []string
			which := r.Intn(3)
			if which != 1 {
				var k string
				tA, k = variantOf(r, tg, t)
				kinds = append(kinds, k)
			}
			if which != 0 {
				var k string
				tB, k = variantOf(r, tg, t)
				kinds = append(kinds, k)
			}
			ok, why := polyAccepted(t, tA, tB)
			for _, k := range kinds {
				if ok {
					run.Count("poly-variant:" + k + ": ACCEPTED by schema.New (used)")
				} else {
					run.Count("poly-variant:" + k + ": refused by schema.New (discarded)")
				}
			}
			if ok {
				variant = true
			} else {
				if !strings.Contains(why, "argument is not the same type as the corresponding interface argument") {
					run.Count("poly-variant: refused for another reason: " + why)
				}
				tA, tB = t, t
			}
		}
		var v *hx.Sexp
		if !r.Chance(1, 3) {
			vg := &valueGen{r: r}
			if variant {
				vg.nulls = 30 // nulls wherever the declared variable type allows one
			}
			if r.Chance(1, 3) {
				vg.junk = r.Range(3, 15)
			}
			x := vg.valid(t, false, false, 3)
			v = &x
		}
		vias := []string{"interface-list", "union-fragment", "interface-list", "union-fragment", "concrete-fragment", "union-concrete"}
		groups = append(groups, newPolyGroupShape(t, tA, tB, dflt(t), dflt(tA), dflt(tB), v, hx.Pick(r, vias), shape))
		if len(groups) >= 200 {
			h.evalGroups(groups, 2, true)
			groups = nil
		}
	}
	h.evalGroups(groups, 2, true)
}

// exhaustiveGoKinds: every scalar (and the custom scalars, an enum) × every Go kind a caller can
// hand over × the boundary values of that kind, through schema.CoerceVariableValue: no panic, the
// model's verdict, conformance of what is accepted, and — where the Go value denotes a client
// value — the reference's result.
func (h *harness) exhaustiveGoKinds() {
	type probe struct {
		raw     hx.Sexp
		denotes *hx.Sexp // the client value the Go value stands for (nil: none)
	}
	var probes []probe
	ints := []*big.Int{big.NewInt(0), big.NewInt(1), big.NewInt(-1), big.NewInt(2), big.NewInt(13), big.NewInt(127), big.NewInt(128),
		big.NewInt(-128), big.NewInt(255), big.NewInt(65535), big.NewInt(-32768),
		plus(pow2(31), -1), pow2(31), neg(pow2(31)), plus(neg(pow2(31)), -1), plus(pow2(32), -1),
		plus(pow2(53), -1), pow2(53), neg(plus(pow2(53), -1)), neg(pow2(53)), pow2(62),
		plus(pow2(63), -1), pow2(63), neg(pow2(63)), plus(pow2(64), -1), plus(pow2(64), -2)}
	for _, k := range intKinds {
		for _, z := range ints {
			if within(z, k.lo, k.hi) {
				cv := cvInt(z)
				probes = append(probes, probe{hx.N("intk", hx.A(k.name), bigA(z)), &cv})
			}
		}
	}
	for _, hh := range []int64{0, 2, 3, -1, 26, 1 << 25, -(1 << 25), 1 << 32, 4000} {
		cv := cvHalf(hh)
		if hh%2 == 0 {
			cv = cvIntS(fmt.Sprint(hh / 2)) // an integral float32 stands for the integer (as float64 does in JSON)
		}
		probes = append(probes, probe{hx.N("f32", hx.I(hh)), &cv})
	}
	for _, t := range []string{"nan", "pinf", "ninf", "nan32"} {
		probes = append(probes, probe{hx.N("nonfinite", hx.A(t)), nil})
	}
	for _, sx := range strPool {
		str := sx.List[1].Atom
		probes = append(probes, probe{hx.N("bytes", hx.A(str)), nil}, probe{hx.N("jsonnumber", hx.A(str)), nil})
	}
	probes = append(probes, probe{hx.N("jsonnumber", hx.A("2")), nil}, probe{hx.N("jsonnumber", hx.A("1.5")), nil})
	for _, t := range otherTags {
		probes = append(probes, probe{hx.N("other", hx.A(t)), nil})
	}
	types := []*Ty{}
	for _, n := range scalarNames {
		types = append(types, scalarTy(n))
	}
	types = append(types, customTy("Even"), customTy("Tag"), colorTy)
	var lines []string
	type item struct {
		t      *Ty
		p      probe
		inList bool
	}
	var items []item
	for _, base := range types {
		for _, wrapped := range []bool{false, true} {
			t := base
			if wrapped {
				t = listTy(nnTy(base))
			}
			for _, p := range probes {
				// Float from an integer kind is float64(v): only values that conversion keeps exactly
				if base.Name == "Float" && tag(p.raw) == "intk" && !exactFloat(bigOf(p.raw.List[2])) {
					continue
				}
				raw := p.raw
				if wrapped {
					raw = hx.N("list", p.raw, p.raw)
				}
				lines = h.registerStrings(lines, raw)
				items = append(items, item{t, probe{raw, p.denotes}, wrapped})
				lines = append(lines, "(rvar () "+t.Sexp().String()+" "+raw.String()+")")
			}
		}
	}
	var replies []string
	if h.model != nil {
		var err error
		if replies, err = h.model.AskAll(lines); err != nil {
			fmt.Fprintln(os.Stderr, "model driver failed:", err)
			os.Exit(2)
		}
	}
	li := 0
	for _, it := range items {
		for li < len(lines) && !strings.HasPrefix(lines[li], "(rvar") {
			li++
		}
		reply := ""
		if replies != nil {
			reply = replies[li]
		}
		li++
		label := fmt.Sprintf("CoerceVariableValue(%s, %s)", rawText(it.p.raw), it.t.GraphQL())
		got := func() (res string) {
			defer func() {
				if r := recover(); r != nil {
					res = fmt.Sprintf("panic: %v", r)
				}
			}()
			return resOf(schema.CoerceVariableValue(goIn(it.p.raw), newRegistry().gql(it.t)))
		}()
		h.run.Case("gokind|"+it.t.Sexp().String()+"|"+it.p.raw.String(), true)
		h.run.Count("go-kind-exhaustive:" + map[bool]string{true: "accepted", false: "refused"}[strings.HasPrefix(got, "(ok")])
		g := newGroup("field", it.t, nil, nil, false)
		fail := func(kind, what string) {
			h.run.Violate(kind, what, "", kind == "correspondence", map[string]string{"site": "gokind", "type": g.T, "raw": it.p.raw.String()})
		}
		switch {
		case strings.HasPrefix(got, "panic"):
			h.ob(orConf, "oracle", false, label+" "+got)
			fail("crash", label+" "+got)
			continue
		case got != "err" && !conformsOK(it.t, got):
			h.ob(orConf, "oracle", false, label+" = "+got+" does not conform")
			fail("property", label+" = "+got+" does not conform")
			continue
		}
		if got != "err" && it.p.denotes != nil {
			cv := *it.p.denotes
			if it.inList {
				cv = cvList(cv, cv)
			}
			if faithful(it.t, cv) {
				ref := "err"
				if c, ok := refCoerce(it.t, cv); ok {
					ref = hx.N("ok", c).String()
				}
				if got != ref {
					what := label + " = " + got + ", but the value it denotes coerces to " + ref
					h.ob(orSound, "oracle", false, what)
					fail("property", what)
					continue
				}
				h.ob(orSound, "oracle", true, "")
			}
		}
		if replies != nil {
			what := ""
			if canon(reply) != got {
				what = label + " = " + got + ", model " + reply
				fail("correspondence", what)
			}
			h.ob(obGoKinds, "correspondence", what == "", what)
		}
	}
}

// dateTimeShapes: Go's verdict on mutated timestamps against the decidable predicate in
// lean/ApiFu/C05/Rfc3339.lean (`accepts`), and RFC 3339 proper (`strict`) ⊆ accepted.
func (h *harness) dateTimeShapes(n int) {
	if h.model == nil {
		return
	}
	r := h.run.Rand.Fork()
	bases := []string{"2020-01-02T03:04:05Z", "2020-02-29T23:59:59.123456789+02:00", "1999-12-31T00:00:00-07:30",
		"2000-02-29T12:00:00.5Z", "1900-02-28T01:02:03+00:00", "0000-01-01T00:00:00Z", "9999-12-31T23:59:59.999999999-23:59",
		"2024-04-30T3:04:05Z", "2023-11-30T03:04:05,75+24:00", "2023-06-15T10:20:30+10:60"}
	alphabet := []byte("0123456789-:TZ+.,tz /")
	var probes []string
	seen := map[string]bool{}
	addProbe := func(s string) {
		if !seen[s] && !strings.ContainsAny(s, "\n\r") {
			seen[s] = true
			probes = append(probes, s)
		}
	}
	for _, b := range bases {
		addProbe(b)
	}
	for _, sx := range strPool {
		addProbe(sx.List[1].Atom)
	}
	// every day-of-month boundary
	for _, y := range []int{1900, 2000, 2023, 2024} {
		for m := 1; m <= 12; m++ {
			for _, d := range []int{0, 28, 29, 30, 31, 32} {
				addProbe(fmt.Sprintf("%04d-%02d-%02dT00:00:00Z", y, m, d))
			}
		}
	}
	for _, hh := range []string{"0", "9", "00", "23", "24", "123"} {
		addProbe("2020-01-02T" + hh + ":04:05Z")
	}
	for _, z := range []string{"Z", "z", "+00:00", "-23:59", "+24:00", "+24:60", "+25:00", "+00:61", "+0000", "+00", "", "ZZ", "+1:00"} {
		addProbe("2020-01-02T03:04:05" + z)
		addProbe("2020-01-02T03:04:05.5" + z)
	}
	for len(probes) < n {
		b := []byte(hx.Pick(r, bases))
		for k := r.Range(1, 2); k > 0; k-- {
			i := r.Intn(len(b))
			switch r.Intn(4) {
			case 0:
				b[i] = hx.Pick(r, alphabet)
			case 1:
				b = append(b[:i], b[i+1:]...)
			case 2:
				b = append(b[:i], append([]byte{hx.Pick(r, alphabet)}, b[i:]...)...)
			default:
				if b[i] >= '0' && b[i] <= '9' {
					b[i] = '0' + byte(r.Intn(10))
				}
			}
			if len(b) == 0 {
				break
			}
		}
		addProbe(string(b))
	}
	lines := make([]string, len(probes))
	for i, s := range probes {
		lines[i] = hx.N("dtshape", hx.A(s)).String()
	}
	replies, err := h.model.AskAll(lines)
	if err != nil {
		fmt.Fprintln(os.Stderr, "model driver failed:", err)
		os.Exit(2)
	}
	for i, s := range probes {
		_, goOK := parseDateTime(s)
		x, perr := hx.ParseSexp(replies[i])
		what := ""
		if perr != nil || !x.IsList || len(x.List) != 3 {
			what = "unexpected model reply " + replies[i]
		} else {
			accepts, strict := x.List[1].Atom == "true", x.List[2].Atom == "true"
			switch {
			case accepts != goOK:
				what = fmt.Sprintf("time.Time.UnmarshalText(%q) accepted = %v, Rfc3339.accepts = %v", s, goOK, accepts)
			case strict && !goOK:
				what = fmt.Sprintf("%q is RFC 3339 proper but UnmarshalText refuses it", s)
			}
			h.run.Count(fmt.Sprintf("datetime-shape:go=%v,rfc3339=%v", goOK, strict))
		}
		h.run.Case("dtshape|"+s, true)
		h.ob(obDateTime, "correspondence", what == "", what)
		if what != "" {
			h.run.Violate("correspondence", what, "", true, map[string]string{"site": "dtshape", "text": s})
		}
	}
}

func loadGroup(path string) (*Group, error) {
	var g Group
	if err := hx.LoadReplayCase(path, &g); err != nil {
		return nil, err
	}
	if err := g.resolve(); err != nil {
		return nil, err
	}
	return &g, nil
}

func main() {
	run := hx.Init("C05")
	h := &harness{run: run, dtKnown: map[string]bool{}, obs: map[string]*obligation{}, reported: map[string]int{}, cloneShare: 8, routeShare: 96}
	if run.ModelPath != "" {
		m, err := hx.StartModel(run.ModelPath)
		if err != nil {
			fmt.Fprintln(os.Stderr, "cannot start model:", err)
			os.Exit(2)
		}
		h.model = m
		defer m.Close()
	}
	run.SetRule("groups (argument type T with optional declared default) × (abstract client value or omission) × spellings {literal, $variable (same / non-null / nullable-with-default type), variable default unset, unset variable, variables nested at every leaf / child of the literal, unset variables for null items and omitted fields, random mixtures} × sites {field argument, directive argument, @skip/@include}; a case is one spelling executed through ParseAndValidate+Execute (+ValidateCost); distinct = distinct (argument definitions, variable definitions, written arguments, JSON variables, site); non-trivial = the spelling uses at least one variable or omits the argument (i.e. anything but a plain literal)")

	if run.Replay != "" {
		var probe struct {
			Site, Type, Raw, Text string
		}
		if hx.LoadReplayCase(run.Replay, &probe) == nil && (probe.Site == "gokind" || probe.Site == "dtshape") {
			h.verbose = true
			if probe.Site == "dtshape" {
				_, goOK := parseDateTime(probe.Text)
				fmt.Printf("replay: time.Time.UnmarshalText(%q) accepted = %v\n", probe.Text, goOK)
				if h.model != nil {
					rep, _ := h.model.Ask(hx.N("dtshape", hx.A(probe.Text)).String())
					fmt.Printf("replay: model %s\n", rep)
					if want := fmt.Sprintf("(shape %v ", goOK); !strings.HasPrefix(rep, want) {
						run.Violate("correspondence", "UnmarshalText and Rfc3339.accepts disagree on "+probe.Text, "", true, probe)
					}
				}
			} else {
				tx, _ := hx.ParseSexp(probe.Type)
				t, err := parseTy(tx, map[string]*InputDef{})
				rx, err2 := hx.ParseSexp(probe.Raw)
				if err != nil || err2 != nil {
					fmt.Fprintln(os.Stderr, "unreadable replay", err, err2)
					os.Exit(2)
				}
				got := func() (res string) {
					defer func() {
						if r := recover(); r != nil {
							res = fmt.Sprintf("panic: %v", r)
						}
					}()
					return resOf(schema.CoerceVariableValue(goIn(rx), newRegistry().gql(t)))
				}()
				fmt.Printf("replay: CoerceVariableValue(%s, %s) = %s\n", rawText(rx), t.GraphQL(), got)
				if h.model != nil {
					var lines []string
					lines = h.registerStrings(lines, rx)
					lines = append(lines, "(rvar () "+t.Sexp().String()+" "+rx.String()+")")
					reps, _ := h.model.AskAll(lines)
					rep := reps[len(reps)-1]
					fmt.Printf("replay: model %s\n", rep)
					if canon(rep) != got {
						run.Violate("correspondence", "implementation "+got+", model "+rep, "", true, probe)
					}
				}
				if got != "err" && !conformsOK(t, got) {
					run.Violate("property", got+" does not conform to "+t.GraphQL(), "", false, probe)
				}
			}
			h.finish()
			return
		}
		g, err := loadGroup(run.Replay)
		if err != nil {
			fmt.Fprintln(os.Stderr, err)
			os.Exit(2)
		}
		h.verbose = true
		fmt.Printf("replay: site=%s type=%s default=%s value=%s\n", g.Site, g.t.GraphQL(), g.Dflt, g.V)
		res := h.evalGroups([]*Group{g}, 0, false)
		for _, f := range res[g] {
			fmt.Printf("replay: kind=%q key=%q what=%q\n", f.kind, f.key, f.what)
			run.Violate(f.kind, f.what, f.key, f.noInput, g)
		}
		if len(res[g]) == 0 {
			fmt.Println("replay: no failure")
		}
		h.finish()
		return
	}
	for _, f := range run.CorpusFiles() {
		g, err := loadGroup(f)
		if err != nil {
			fmt.Fprintln(os.Stderr, "corpus file", f, ":", err)
			os.Exit(2)
		}
		h.evalGroups([]*Group{g}, 0, true)
		run.Count("corpus")
	}
	phase := func(name string, f func()) {
		t0 := time.Now()
		f()
		if os.Getenv("VERIF_VERBOSE") != "" {
			fmt.Fprintf(os.Stderr, "phase %s: %.1fs\n", name, time.Since(t0).Seconds())
		}
	}
	phase("exhaustive", h.exhaustive)
	h.exhaustiveNilEnum()
	phase("valuedEnum", h.exhaustiveValuedEnum)
	h.exhaustiveGoKinds()
	h.dateTimeShapes(run.Scale(3000, 60000))
	run.Note("exhaustive part: 7 scalars + 2 enums × wrapper forms × every boundary value (in 2–5 list shapes) × the deterministic spellings; @skip/@include × 8 values")
	phase("randomComposite", func() { h.randomComposite(run.Scale(4000, 150000), run.Scale(4, 6)) })
	phase("polymorphic", func() { h.polymorphic(run.Scale(700, 20000)) })
	phase("documentShapes", func() { h.documentShapes(run.Scale(500, 12000)) })

	h.finish()
}

func (h *harness) finish() {
	for _, name := range h.obOrder {
		o := h.obs[name]
		if h.model == nil && o.kind == "correspondence" {
			continue
		}
		h.run.Oblige(name, o.kind, o.cases, o.ok, o.detail)
	}
	h.run.Finish(h.model)
}
