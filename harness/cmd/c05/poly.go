package main

// The polymorphic site: ONE field node `f(args)` executed against several concrete object types
// (the items of an interface-typed list, or a union-typed list through `... on Node`), whose `f`
// fields declare the same argument `a: T` with *their own* defaults, and — type B — an additional
// optional argument. Validation sees the interface's definition; at run time every concrete type's
// resolver must observe the coercion for ITS OWN definition, identically for every list item of
// that type.
//
// Model: three lines per spelling. The interface's definitions give the gated outcome (invalid |
// reqerr | runs); each implementer's definitions give, through the model's ungated `coerceCase`, what
// that type's resolver observes (or the field error).

import (
	"context"
	"encoding/json"
	"errors"
	"fmt"
	"strings"

	"github.com/ccbrown/api-fu/graphql"

	"verifharness/hx"
)

const (
	obPoly = "correspondence: one field node executed against two concrete object types: arguments observed per type = model (per-type definitions)"
	orPoly = "oracle: every concrete type's resolver observes the reference coercion for its own argument definitions, identically for every list item"
)

type polyA struct{}
type polyB struct{}

// PolyObserved: what the two resolvers saw.
type PolyObserved struct {
	Class  string   // invalid | reqerr | ran | panic | odd
	PerTy  []string // for A and B: `(ok …)` | fielderr | odd: …
	Detail string
}

func (o PolyObserved) String() string {
	return fmt.Sprintf("%s A:%s B:%s %s", o.Class, o.PerTy[0], o.PerTy[1], o.Detail)
}

func polyArgMap(r *registry, defs []argDef) map[string]*graphql.InputValueDefinition {
	m := map[string]*graphql.InputValueDefinition{}
	for _, a := range defs {
		m[a.Name] = &graphql.InputValueDefinition{Type: r.gql(a.Ty), DefaultValue: goDefault(a.Dflt)}
	}
	return m
}

func parseArgDefs(text string, env map[string]*InputDef) ([]argDef, error) {
	x, err := hx.ParseSexp(text)
	if err != nil {
		return nil, err
	}
	var out []argDef
	for _, e := range x.List {
		t, err := parseTy(e.List[1], env)
		if err != nil {
			return nil, err
		}
		d, err := parseDflt(e.List[2])
		if err != nil {
			return nil, err
		}
		out = append(out, argDef{e.List[0].Atom, t, d})
	}
	return out, nil
}

// polyQuery renders the operation: the field node sits below an interface-typed list, or below a
// union-typed list inside a fragment on the interface.
func polyQuery(p *pcase, via string) string {
	q := p.queryText() // query Q(…) { f(args) }
	i := strings.Index(q, " { f")
	head, field := q[:i], strings.TrimSuffix(strings.TrimPrefix(q[i:], " { "), " }")
	switch via {
	case "union-fragment":
		return head + " { things { ... on Node { " + field + " } } }"
	case "concrete-fragment":
		// validation sees each object's OWN definition here
		return head + " { nodes { ... on A { " + field + " } ... on B { " + field + " } } }"
	case "union-concrete":
		return head + " { things { ... on B { " + field + " } ... on A { " + field + " } } }"
	}
	return head + " { nodes { " + field + " } }"
}

func runRealPoly(c *Case) (o PolyObserved, query, variables string, err error) {
	o.PerTy = []string{"-", "-"}
	p, err := c.parse()
	if err != nil {
		return o, "", "", err
	}
	p.site = "field"
	query, variables = polyQuery(p, c.Via), p.variablesText()
	defsA, err := parseArgDefs(c.ImplA, p.env)
	if err != nil {
		return o, query, variables, err
	}
	defsB, err := parseArgDefs(c.ImplB, p.env)
	if err != nil {
		return o, query, variables, err
	}
	r := newRegistry()
	seen := [2][]string{}
	record := func(i int) func(graphql.FieldContext) (interface{}, error) {
		return func(ctx graphql.FieldContext) (interface{}, error) {
			seen[i] = append(seen[i], dumpArgs(ctx.Arguments).String())
			return "x", nil
		}
	}
	node := &graphql.InterfaceType{Name: "Node", Fields: map[string]*graphql.FieldDefinition{
		"f": {Type: graphql.StringType, Arguments: polyArgMap(r, p.argDefs)},
	}}
	objA := &graphql.ObjectType{Name: "A", ImplementedInterfaces: []*graphql.InterfaceType{node},
		IsTypeOf: func(v interface{}) bool { _, ok := v.(polyA); return ok },
		Fields:   map[string]*graphql.FieldDefinition{"f": {Type: graphql.StringType, Arguments: polyArgMap(r, defsA), Resolve: record(0)}}}
	objB := &graphql.ObjectType{Name: "B", ImplementedInterfaces: []*graphql.InterfaceType{node},
		IsTypeOf: func(v interface{}) bool { _, ok := v.(polyB); return ok },
		Fields:   map[string]*graphql.FieldDefinition{"f": {Type: graphql.StringType, Arguments: polyArgMap(r, defsB), Resolve: record(1)}}}
	union := &graphql.UnionType{Name: "U", MemberTypes: []*graphql.ObjectType{objA, objB}}
	// B first: with a per-node cache the later types would get B's (larger) map; A first in the other list
	items := func(first interface{}, second interface{}) func(graphql.FieldContext) (interface{}, error) {
		return func(graphql.FieldContext) (interface{}, error) {
			return []interface{}{first, second, first, second}, nil
		}
	}
	var extra []graphql.NamedType
	var collect func(t *Ty)
	collect = func(t *Ty) {
		switch t.K {
		case "list", "nn":
			collect(t.Elem)
		case "scalar":
			extra = append(extra, scalarTypes[t.Name])
		case "custom":
			extra = append(extra, customTypes[t.Name])
		case "input":
			if _, done := r.inputs[t.Name]; done {
				return
			}
			extra = append(extra, r.gql(t).(graphql.NamedType))
			for _, f := range t.Def.Fields {
				collect(f.Ty)
			}
		default:
			extra = append(extra, r.gql(t).(graphql.NamedType))
		}
	}
	for _, a := range p.argDefs {
		collect(a.Ty)
	}
	for _, v := range p.varDefs {
		collect(v.Ty)
	}
	extra = append(extra, objA, objB)
	s, err := graphql.NewSchema(&graphql.SchemaDefinition{
		Query: &graphql.ObjectType{Name: "Query", Fields: map[string]*graphql.FieldDefinition{
			"nodes":  {Type: graphql.NewListType(node), Resolve: items(polyA{}, polyB{})},
			"things": {Type: graphql.NewListType(union), Resolve: items(polyB{}, polyA{})},
		}},
		AdditionalTypes: extra,
	})
	if err != nil {
		return o, query, variables, fmt.Errorf("%w: %v", errPolySchema, err)
	}
	vars := map[string]interface{}{}
	allJSON := true
	for _, rw := range p.raw {
		if !jsonKindsOnly(rw.V) {
			allJSON = false
		}
	}
	if allJSON {
		if err := json.Unmarshal([]byte(variables), &vars); err != nil {
			return o, query, variables, fmt.Errorf("variables do not decode: %v", err)
		}
	} else {
		for _, rw := range p.raw {
			vars[rw.Name] = goIn(rw.V)
		}
	}
	func() {
		defer func() {
			if rec := recover(); rec != nil {
				o.Class, o.Detail = "panic", fmt.Sprintf("panic: %v", rec)
			}
		}()
		doc, errs := graphql.ParseAndValidate(query, s, nil)
		if len(errs) > 0 {
			o.Class, o.Detail = "invalid", errorTexts(errs)
			return
		}
		resp := graphql.Execute(&graphql.Request{Context: context.Background(), Document: doc, Schema: s, VariableValues: vars})
		body, merr := json.Marshal(resp)
		if merr != nil {
			o.Class, o.Detail = "odd", "response does not marshal: "+merr.Error()
			return
		}
		var shape struct {
			Data   map[string]interface{} `json:"data"`
			Errors []struct {
				Message string        `json:"message"`
				Path    []interface{} `json:"path"`
			} `json:"errors"`
		}
		json.Unmarshal(body, &shape)
		o.Detail = errorTexts(resp.Errors)
		if shape.Data == nil {
			o.Class = "reqerr"
			if len(seen[0])+len(seen[1]) > 0 {
				o.Class, o.Detail = "odd", "request error but resolvers ran: "+string(body)
			}
			return
		}
		o.Class = "ran"
		// which list positions hold which type
		pos := [2][]int{{0, 2}, {1, 3}}
		if c.Via == "union-fragment" || c.Via == "union-concrete" {
			pos = [2][]int{{1, 3}, {0, 2}}
		}
		for i := range seen {
			errsHere := 0
			for _, e := range shape.Errors {
				if len(e.Path) >= 2 {
					if idx, ok := e.Path[1].(float64); ok && (int(idx) == pos[i][0] || int(idx) == pos[i][1]) {
						errsHere++
					}
				}
			}
			switch {
			case len(seen[i]) == 2 && seen[i][0] == seen[i][1] && errsHere == 0:
				o.PerTy[i] = seen[i][0]
			case len(seen[i]) == 0 && errsHere == 2:
				o.PerTy[i] = "fielderr"
			default:
				o.PerTy[i] = fmt.Sprintf("odd: %d invocations %v, %d errors at its items", len(seen[i]), seen[i], errsHere)
			}
		}
	}()
	return o, query, variables, nil
}

// polyLines: the three model lines of a spelling (interface, A, B definitions).
func polyLines(c *Case) []string {
	env := c.Env
	if env == "" {
		env = "()"
	}
	with := func(defs string) string {
		return "(rcase field " + env + " " + defs + " " + c.VarDefs + " " + c.Args + " " + c.Raw + ")"
	}
	return []string{with(c.ArgDefs), with(c.ImplA), with(c.ImplB)}
}

// judgePoly evaluates one polymorphic group; replies: three per spelling (or nil).
func (h *harness) judgePoly(p *prepared, replies []string) []failure {
	if len(replies) == 0 {
		replies = nil
	}
	g := p.g
	var fs []failure
	h.run.Count("site:poly")
	for i := range p.cases {
		c := &p.cases[i]
		o, query, variables, err := runRealPoly(c)
		c.Query, c.Variables = query, variables
		if err != nil && errors.Is(err, errPolySchema) && polyVariantOf(c) {
			// an implementer whose argument type is not the interface's, refused by schema.New: the
			// specified behaviour; nothing can run
			h.run.Count("poly-variant: refused by schema.New (case discarded)")
			continue
		}
		if err != nil {
			fs = append(fs, failure{"correspondence", "harness cannot run the case: " + err.Error(), "", true, i})
			continue
		}
		h.run.Case(c.ArgDefs+"|"+c.ImplA+"|"+c.ImplB+"|"+c.VarDefs+"|"+c.Args+"|"+c.Raw+"|"+c.Via, true)
		h.run.Count("spelling:" + c.Label)
		h.run.Count("poly-outcome:" + o.Class)
		if h.verbose {
			fmt.Printf("--- %s\n    query:     %s\n    variables: %s\n    implementation: %s\n", c.Label, query, variables, o.String())
			if replies != nil {
				fmt.Printf("    model (interface, A, B definitions): %s | %s | %s\n", replies[3*i], replies[3*i+1], replies[3*i+2])
			}
		}
		if o.Class == "panic" {
			fs = append(fs, failure{"crash", fmt.Sprintf("%s: %s (%s %s)", c.Label, o.Detail, query, variables), "", false, i})
			continue
		}
		// ---- oracle: per concrete type, the reference for that type's own definitions
		var oracle []string
		if o.Class == "odd" {
			oracle = append(oracle, o.Detail)
		}
		if o.Class == "ran" {
			for ti, implText := range []string{c.ImplA, c.ImplB} {
				name := []string{"A", "B"}[ti]
				env := map[string]*InputDef{}
				if pc, perr := c.parse(); perr == nil {
					env = pc.env
				}
				defs, _ := parseArgDefs(implText, env)
				got := o.PerTy[ti]
				if strings.HasPrefix(got, "odd") {
					oracle = append(oracle, "type "+name+": "+got)
					continue
				}
				if got != "fielderr" {
					if ok, why := conformsArgs(&pcase{argDefs: defs}, got); !ok {
						oracle = append(oracle, "type "+name+": observed arguments do not conform to its own definitions: "+why)
					}
				}
				if p.lossy[i] {
					continue
				}
				// expected: every argument of this type's definition by the reference
				want := []hx.Sexp{}
				failed := false
				for _, d := range defs {
					var supplied *hx.Sexp
					if d.Name == "a" {
						supplied = g.v
					}
					val, present, ok := refArg(d.Ty, d.Dflt, supplied)
					if !ok {
						failed = true
					}
					if present {
						want = append(want, kv(d.Name, val))
					}
				}
				wantStr := hx.N("ok", want...).String()
				if failed {
					wantStr = "fielderr"
				}
				if canon(got) != wantStr {
					oracle = append(oracle, fmt.Sprintf("type %s: its resolver observed %s, the reference for its own definitions %s says %s", name, got, implText, wantStr))
				}
			}
		}
		h.ob(orPoly, "oracle", len(oracle) == 0, fmt.Sprintf("%s: %s | %s %s", c.Label, strings.Join(oracle, "; "), query, variables))
		// ---- correspondence
		tie := ""
		if replies != nil {
			i1, _, okI := splitRes1(replies[3*i])
			a1, a3, okA := splitRes1(replies[3*i+1])
			b1, b3, okB := splitRes1(replies[3*i+2])
			if (c.Via == "concrete-fragment" || c.Via == "union-concrete") && okI && okA && okB {
				// the field node sits in `... on A` and `... on B`: each is validated against that
				// object's own definitions, the document is valid when both are
				i1 = "valid"
				if a1 == "invalid" || b1 == "invalid" {
					i1 = "invalid"
				}
			}
			switch {
			case !okI || !okA || !okB:
				tie = "unexpected model replies"
			case i1 == "invalid":
				if o.Class != "invalid" {
					tie = "implementation " + o.Class + ", model invalid"
				}
			case a3 == "reqerr":
				if o.Class != "reqerr" {
					tie = "implementation " + o.Class + ", model reqerr"
				}
			default:
				if o.Class != "ran" || canon(o.PerTy[0]) != a3 || canon(o.PerTy[1]) != b3 {
					tie = fmt.Sprintf("implementation %s, model ran A:%s B:%s", o.String(), a3, b3)
				}
			}
			h.ob(obPoly, "correspondence", tie == "", tie+" | "+query+" "+variables)
		}
		switch {
		case len(oracle) > 0:
			what := fmt.Sprintf("%s: %s | %s %s → %s", c.Label, strings.Join(oracle, "; "), query, variables, o.String())
			if tie != "" {
				what += " | also differs from the model: " + tie
			}
			fs = append(fs, failure{"property", what, "", false, i})
		case tie != "":
			fs = append(fs, failure{"correspondence", fmt.Sprintf("%s: %s | %s %s", c.Label, tie, query, variables), "", true, i})
		}
	}
	return fs
}

func splitRes1(reply string) (o1, o3 string, ok bool) { return splitRes(reply) }

// newPolyGroup: argument `a: T` with the interface's default dI and the implementers' own dA, dB.
func newPolyGroup(t *Ty, dI, dA, dB *hx.Sexp, v *hx.Sexp, via string) *Group {
	g := newGroup("poly", t, dI, v, false)
	nine := hx.N("int", hx.I(9))
	g.ImplA = hx.L(hx.L(hx.A("a"), t.Sexp(), dfltSexp(dA))).String()
	g.ImplB = hx.L(hx.L(hx.A("a"), t.Sexp(), dfltSexp(dB)), hx.L(hx.A("x"), hx.A("Int"), dfltSexp(&nine))).String()
	g.Via = via
	return g
}
