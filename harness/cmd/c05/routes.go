package main

// Other routes into the same core. The property is about what the *client* supplied, so a share of
// the cases is executed again
//
//   - against a schema built from SchemaDefinition.Clone() (what apifu does when
//     Config.PreprocessGraphQLSchemaDefinition is set) — all sites, everything compared with the direct run;
//   - through apifu.API (built with a no-op PreprocessGraphQLSchemaDefinition): ServeGraphQL GET (query
//     string) and POST application/json, ServeGraphQLWS with both subprotocols, the operation being the
//     SECOND one on its connection after a decoy that supplies a value for every declared variable.
//
// Requirement: the resolver of `f` observes exactly the arguments of the direct run, or — when the
// direct run is an error — is not invoked and the client gets an error.

import (
	"bytes"
	"encoding/json"
	"fmt"
	"net/http"
	"net/http/httptest"
	"net/url"
	"strings"
	"sync"
	"time"

	apifu "github.com/ccbrown/api-fu"
	"github.com/ccbrown/api-fu/graphql"
	"github.com/gorilla/websocket"

	"verifharness/hx"
)

const (
	orClone  = "oracle: a schema built from SchemaDefinition.Clone() shows the same outcome, arguments, cost-function view as the original definition"
	orRoutes = "oracle: apifu.API routes (HTTP GET, POST, graphql-ws, graphql-transport-ws as second operation on a connection) hand the resolver the same arguments as the direct run"
)

var routeTimeout = 15 * time.Second

// pickShare decides deterministically (from the case itself) whether a case takes part.
func pickShare(key string, oneIn int) bool {
	h := hx.Hash(key)
	n := 0
	for _, c := range h[:6] {
		n = n*16 + strings.IndexRune("0123456789abcdef", c)
	}
	return n%oneIn == 0
}

// cloneRoute runs the case against the cloned definition and compares with the direct observation.
func cloneRoute(c *Case, direct Observed) string {
	o, _, _, err := runRealMode(c, true)
	if err != nil {
		return "the cloned definition is rejected: " + err.Error()
	}
	if o.Class != direct.Class || o.Args != direct.Args || o.GRan != direct.GRan || o.Cost != direct.Cost || o.Ungated != direct.Ungated {
		return fmt.Sprintf("with the schema built from Clone(): %s; with the definition itself: %s", o.String(), direct.String())
	}
	return ""
}

type wsFrame struct {
	ID      string          `json:"id"`
	Type    string          `json:"type"`
	Payload json.RawMessage `json:"payload"`
}

func wsRead(conn *websocket.Conn) (wsFrame, error) {
	deadline := time.Now().Add(routeTimeout)
	for {
		conn.SetReadDeadline(deadline)
		_, data, err := conn.ReadMessage()
		if err != nil {
			return wsFrame{}, err
		}
		var f wsFrame
		if err := json.Unmarshal(data, &f); err != nil {
			return wsFrame{}, fmt.Errorf("undecodable frame %q", data)
		}
		if f.Type == "ka" || f.Type == "ping" || f.Type == "pong" {
			continue
		}
		return f, nil
	}
}

// wsOperation sends one start / subscribe message and waits for the operation to finish; it
// returns whether an error reached the client.
func wsOperation(conn *websocket.Conn, kind, id, payload string) (hadErrors bool, err error) {
	start := "start"
	if kind == "graphql-transport-ws" {
		start = "subscribe"
	}
	msg := fmt.Sprintf(`{"id":%q,"type":%q,"payload":%s}`, id, start, payload)
	if err := conn.WriteMessage(websocket.TextMessage, []byte(msg)); err != nil {
		return false, err
	}
	for {
		f, err := wsRead(conn)
		if err != nil {
			return hadErrors, err
		}
		if f.ID != id {
			return hadErrors, fmt.Errorf("frame for another operation: %s %s", f.ID, f.Type)
		}
		switch f.Type {
		case "data", "next":
			var resp struct {
				Errors []json.RawMessage `json:"errors"`
			}
			json.Unmarshal(f.Payload, &resp)
			if len(resp.Errors) > 0 {
				hadErrors = true
			}
		case "error":
			hadErrors = true
			if kind == "graphql-transport-ws" {
				return hadErrors, nil
			}
		case "complete":
			return hadErrors, nil
		default:
			return hadErrors, fmt.Errorf("unexpected frame %s", f.Type)
		}
	}
}

func payloadJSON(query, variables string, withVariables bool) string {
	q, _ := json.Marshal(query)
	if !withVariables {
		return `{"query":` + string(q) + `}`
	}
	return `{"query":` + string(q) + `,"variables":` + variables + `}`
}

// apiRoutes runs a field-site case with JSON variables through the four transports of apifu.API.
func apiRoutes(c *Case, direct Observed) (problems []string) {
	p, err := c.parse()
	if err != nil {
		return []string{err.Error()}
	}
	w, err := newWorld(p, false)
	if err != nil {
		return []string{"schema rejected: " + err.Error()}
	}
	cfg := &apifu.Config{PreprocessGraphQLSchemaDefinition: func(*graphql.SchemaDefinition) error { return nil }}
	cfg.AddQueryField("f", w.fDef)
	cfg.AddQueryField("g", w.gDef)
	if w.uDef != nil {
		cfg.AddQueryField("u", w.uDef)
	}
	for _, t := range w.extra {
		cfg.AddNamedType(t)
	}
	// the same field as a SUBSCRIPTION: the subscribe phase and every event execution coerce the
	// arguments again, each from the client's variable values (seeded change C05-26)
	var subMu sync.Mutex
	var subArgs, evArgs []hx.Sexp
	subscribable := p.nest == 0 && !p.multi
	if subscribable {
		cfg.AddSubscription("f", &graphql.FieldDefinition{Type: graphql.StringType, Arguments: w.fDef.Arguments,
			Resolve: func(ctx graphql.FieldContext) (interface{}, error) {
				subMu.Lock()
				defer subMu.Unlock()
				if ctx.IsSubscribe {
					subArgs = append(subArgs, dumpArgs(ctx.Arguments))
					ch := make(chan int, 2)
					ch <- 1
					ch <- 2
					close(ch)
					return &apifu.SubscriptionSourceStream{EventChannel: ch, Stop: func() {}}, nil
				}
				evArgs = append(evArgs, dumpArgs(ctx.Arguments))
				return "event", nil
			}})
	}
	api, err := apifu.NewAPI(cfg)
	if err != nil {
		return []string{"apifu.NewAPI rejects the configuration: " + err.Error()}
	}
	query, variables := p.queryText(), p.variablesText()
	subQuery := "subscription" + strings.TrimPrefix(query, "query")
	// sometimes leave the empty variables object out altogether
	withVariables := len(p.raw) > 0 || pickShare(query+"|omit", 2)
	// the decoy: the same operation with a value for every declared variable
	r := hx.NewRand(uint64(len(query))*7919 + uint64(len(variables)))
	decoyParts := []string{}
	for _, v := range p.varDefs {
		k, _ := json.Marshal(v.Name)
		val := (&valueGen{r: r}).valid(v.Ty, false, true, 2)
		decoyParts = append(decoyParts, string(k)+":"+jsonText(cvToJSON(val)))
	}
	decoy := "{" + strings.Join(decoyParts, ",") + "}"

	judge := func(route string, hadErrors bool, note string) {
		seen := w.fArgs
		w.fArgs = nil
		switch {
		case note != "":
			problems = append(problems, route+": "+note)
		case direct.Class == "ok":
			if len(seen) != 1 || seen[0].String() != direct.Args || hadErrors {
				problems = append(problems, fmt.Sprintf("%s: the resolver observed %v (errors reported: %v), the direct run %s", route, seen, hadErrors, direct.Args))
			}
		default:
			if len(seen) != 0 || !hadErrors {
				problems = append(problems, fmt.Sprintf("%s: the direct run is %s, but here the resolver observed %v (errors reported: %v)", route, direct.Class, seen, hadErrors))
			}
		}
	}
	httpErrors := func(rec *httptest.ResponseRecorder) (bool, string) {
		if rec.Code != 200 {
			return false, fmt.Sprintf("HTTP status %d %s", rec.Code, strings.TrimSpace(rec.Body.String()))
		}
		var resp struct {
			Errors []json.RawMessage `json:"errors"`
		}
		if err := json.Unmarshal(rec.Body.Bytes(), &resp); err != nil {
			return false, "undecodable response " + rec.Body.String()
		}
		return len(resp.Errors) > 0, ""
	}
	func() {
		defer func() {
			if rec := recover(); rec != nil {
				problems = append(problems, fmt.Sprintf("panic on an API route: %v", rec))
			}
		}()
		// ---- HTTP GET
		w.fArgs = nil
		q := url.Values{"query": {query}}
		if withVariables {
			q.Set("variables", variables)
		}
		rec := httptest.NewRecorder()
		api.ServeGraphQL(rec, httptest.NewRequest("GET", "/graphql?"+q.Encode(), nil))
		he, note := httpErrors(rec)
		judge("HTTP GET", he, note)
		// ---- HTTP POST application/json
		req := httptest.NewRequest("POST", "/graphql", bytes.NewReader([]byte(payloadJSON(query, variables, withVariables))))
		req.Header.Set("Content-Type", "application/json")
		rec = httptest.NewRecorder()
		api.ServeGraphQL(rec, req)
		he, note = httpErrors(rec)
		judge("HTTP POST", he, note)
		// ---- WebSocket, both subprotocols, second operation on the connection
		srv := httptest.NewServer(http.HandlerFunc(api.ServeGraphQLWS))
		defer srv.Close()
		defer api.CloseHijackedConnections()
		for _, kind := range []string{"graphql-ws", "graphql-transport-ws"} {
			note := func() string {
				d := &websocket.Dialer{HandshakeTimeout: routeTimeout, Subprotocols: []string{kind}}
				conn, _, err := d.Dial("ws"+strings.TrimPrefix(srv.URL, "http"), nil)
				if err != nil {
					return "dial: " + err.Error()
				}
				defer conn.Close()
				if err := conn.WriteMessage(websocket.TextMessage, []byte(`{"type":"connection_init","payload":{}}`)); err != nil {
					return "write: " + err.Error()
				}
				if f, err := wsRead(conn); err != nil || f.Type != "connection_ack" {
					return fmt.Sprintf("no connection_ack: %v %v", f.Type, err)
				}
				if _, err := wsOperation(conn, kind, "decoy", payloadJSON(query, decoy, true)); err != nil {
					return "decoy operation: " + err.Error()
				}
				w.fArgs = nil
				he, err := wsOperation(conn, kind, "op", payloadJSON(query, variables, withVariables))
				if err != nil {
					return "operation: " + err.Error()
				}
				judge(kind+" (second operation on the connection)", he, "")
				if subscribable {
					// ---- the field as a subscription with two events, third operation on the connection
					subMu.Lock()
					subArgs, evArgs = nil, nil
					subMu.Unlock()
					she, err := wsOperation(conn, kind, "sub", payloadJSON(subQuery, variables, withVariables))
					if err != nil {
						return "subscription: " + err.Error()
					}
					subMu.Lock()
					sa, ea := subArgs, evArgs
					subMu.Unlock()
					route := kind + " subscription (two events)"
					if direct.Class == "ok" {
						bad := she || len(sa) != 1 || len(ea) != 2
						for _, x := range append(append([]hx.Sexp{}, sa...), ea...) {
							if x.String() != direct.Args {
								bad = true
							}
						}
						if bad {
							problems = append(problems, fmt.Sprintf("%s: subscribe phase observed %v, the event executions observed %v (errors reported: %v); the direct run of the same field %s", route, sa, ea, she, direct.Args))
						}
					} else if len(sa) != 0 || len(ea) != 0 || !she {
						problems = append(problems, fmt.Sprintf("%s: the direct run is %s, but here the subscribe phase observed %v, the events %v (errors reported: %v)", route, direct.Class, sa, ea, she))
					}
				}
				return ""
			}()
			if note != "" {
				judge(kind, false, note)
			}
		}
	}()
	return problems
}
