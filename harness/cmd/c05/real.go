package main

// Adapter of the real library: build a schema whose field `f` (and directive `@probe`) echo their
// arguments, run one case through graphql.ParseAndValidate + graphql.Execute (and once more through
// ParseAndValidate with the ValidateCost rule) and report the canonical observables.

import (
	"context"
	"encoding/json"
	"fmt"
	"strings"

	apifu "github.com/ccbrown/api-fu"
	"github.com/ccbrown/api-fu/graphql"
	"github.com/ccbrown/api-fu/graphql/ast"
	"github.com/ccbrown/api-fu/graphql/parser"
	"github.com/ccbrown/api-fu/graphql/schema"
	"github.com/ccbrown/api-fu/graphql/validator"

	"verifharness/hx"
)

// Case is one request; the replay format.
type Case struct {
	Site    string `json:"site"`     // field | directive | skip | include
	ArgDefs string `json:"arg_defs"` // ((name ty dflt)…)
	VarDefs string `json:"var_defs"` // ((name ty none|(some lit))…)
	Args    string `json:"args"`     // ((name lit)…)
	Raw     string `json:"raw"`      // ((name json)…)
	Label   string `json:"label,omitempty"`
	// polymorphic site only: the argument definitions of the two implementing object types (ArgDefs
	// are the interface's) and how the field node reaches them
	ImplA string `json:"impl_a_arg_defs,omitempty"`
	ImplB string `json:"impl_b_arg_defs,omitempty"`
	Via   string `json:"via,omitempty"` // interface-list | union-fragment
	// derived from the above, written for the reader of a replay file
	Query     string `json:"query,omitempty"`
	Variables string `json:"variables,omitempty"`
}

type argDef struct {
	Name string
	Ty   *Ty
	Dflt *hx.Sexp
}

type varDef struct {
	Name string
	Ty   *Ty
	Dflt *hx.Sexp // literal
}

type named struct {
	Name string
	V    hx.Sexp
}

type pcase struct {
	site    string
	argDefs []argDef
	varDefs []varDef
	args    []named
	raw     []named
}

func (c *Case) parse() (*pcase, error) {
	p := &pcase{site: c.Site}
	ad, err := hx.ParseSexp(c.ArgDefs)
	if err != nil {
		return nil, err
	}
	for _, x := range ad.List {
		t, err := parseTy(x.List[1])
		if err != nil {
			return nil, err
		}
		d, err := parseDflt(x.List[2])
		if err != nil {
			return nil, err
		}
		p.argDefs = append(p.argDefs, argDef{x.List[0].Atom, t, d})
	}
	vd, err := hx.ParseSexp(c.VarDefs)
	if err != nil {
		return nil, err
	}
	for _, x := range vd.List {
		t, err := parseTy(x.List[1])
		if err != nil {
			return nil, err
		}
		d, err := parseDflt(x.List[2])
		if err != nil {
			return nil, err
		}
		p.varDefs = append(p.varDefs, varDef{x.List[0].Atom, t, d})
	}
	ar, err := hx.ParseSexp(c.Args)
	if err != nil {
		return nil, err
	}
	for _, x := range ar.List {
		p.args = append(p.args, named{x.List[0].Atom, x.List[1]})
	}
	rw, err := hx.ParseSexp(c.Raw)
	if err != nil {
		return nil, err
	}
	for _, x := range rw.List {
		p.raw = append(p.raw, named{x.List[0].Atom, x.List[1]})
	}
	return p, nil
}

func (c *Case) modelLine() string {
	site := "field"
	if c.Site != "field" {
		site = "directive"
	}
	return "(case " + site + " " + c.ArgDefs + " " + c.VarDefs + " " + c.Args + " " + c.Raw + ")"
}

// queryText renders the operation.
func (p *pcase) queryText() string {
	var b strings.Builder
	b.WriteString("query Q")
	if len(p.varDefs) > 0 {
		parts := []string{}
		for _, v := range p.varDefs {
			s := "$" + v.Name + ": " + v.Ty.GraphQL()
			if v.Dflt != nil {
				s += " = " + litText(*v.Dflt)
			}
			parts = append(parts, s)
		}
		b.WriteString("(" + strings.Join(parts, ", ") + ")")
	}
	args := ""
	if len(p.args) > 0 {
		parts := []string{}
		for _, a := range p.args {
			parts = append(parts, a.Name+": "+litText(a.V))
		}
		args = "(" + strings.Join(parts, ", ") + ")"
	}
	switch p.site {
	case "field":
		b.WriteString(" { f" + args + " }")
	case "directive":
		b.WriteString(" { g @probe" + args + " }")
	default:
		b.WriteString(" { g @" + p.site + args + " }")
	}
	return b.String()
}

func (p *pcase) variablesText() string {
	parts := []string{}
	for _, r := range p.raw {
		k, _ := json.Marshal(r.Name)
		parts = append(parts, string(k)+":"+jsonText(r.V))
	}
	return "{" + strings.Join(parts, ",") + "}"
}

// ---- schema -------------------------------------------------------------------------------------

var scalarTypes = map[string]*graphql.ScalarType{
	"Int": graphql.IntType, "Float": graphql.FloatType, "String": graphql.StringType,
	"Boolean": graphql.BooleanType, "ID": graphql.IDType,
	"DateTime": apifu.DateTimeType, "LongInt": apifu.LongIntType,
}

type registry struct {
	enums  map[string]*graphql.EnumType
	inputs map[string]*graphql.InputObjectType
}

func goDefault(d *hx.Sexp) interface{} {
	if d == nil {
		return nil
	}
	if isNullX(*d) {
		return schema.Null
	}
	return goOf(*d)
}

func (r *registry) gql(t *Ty) graphql.Type {
	switch t.K {
	case "scalar":
		return scalarTypes[t.Name]
	case "list":
		return graphql.NewListType(r.gql(t.Elem))
	case "nn":
		return graphql.NewNonNullType(r.gql(t.Elem))
	case "enum":
		if e, ok := r.enums[t.Name]; ok {
			return e
		}
		e := &graphql.EnumType{Name: t.Name, Values: map[string]*graphql.EnumValueDefinition{}}
		for _, v := range t.Vals {
			e.Values[v] = &graphql.EnumValueDefinition{Value: enumVal{v}}
		}
		r.enums[t.Name] = e
		return e
	case "input":
		if o, ok := r.inputs[t.Name]; ok {
			return o
		}
		o := &graphql.InputObjectType{Name: t.Name, Fields: map[string]*graphql.InputValueDefinition{},
			ResultCoercion: func(v interface{}) (map[string]interface{}, error) {
				m, _ := v.(map[string]interface{})
				return m, nil
			}}
		r.inputs[t.Name] = o
		for _, f := range t.Fields {
			o.Fields[f.Name] = &graphql.InputValueDefinition{Type: r.gql(f.Ty), DefaultValue: goDefault(f.Dflt)}
		}
		return o
	}
	panic("bad type")
}

type world struct {
	schema     *graphql.Schema
	fArgs      []hx.Sexp            // what f's resolver observed, per invocation
	gRan       int                  // invocations of g's resolver
	costArgs   []hx.Sexp            // what f's cost function observed
	filterArgs map[string][]hx.Sexp // what each directive filter observed
}

func newWorld(p *pcase) (*world, error) {
	w := &world{filterArgs: map[string][]hx.Sexp{}}
	r := &registry{enums: map[string]*graphql.EnumType{}, inputs: map[string]*graphql.InputObjectType{}}
	argMap := func() map[string]*graphql.InputValueDefinition {
		m := map[string]*graphql.InputValueDefinition{}
		for _, a := range p.argDefs {
			m[a.Name] = &graphql.InputValueDefinition{Type: r.gql(a.Ty), DefaultValue: goDefault(a.Dflt)}
		}
		return m
	}
	f := &graphql.FieldDefinition{Type: graphql.StringType,
		Resolve: func(ctx graphql.FieldContext) (interface{}, error) {
			w.fArgs = append(w.fArgs, dumpArgs(ctx.Arguments))
			return "f", nil
		},
		Cost: func(ctx graphql.FieldCostContext) graphql.FieldCost {
			w.costArgs = append(w.costArgs, dumpArgs(ctx.Arguments))
			return graphql.FieldCost{Resolver: 1}
		},
	}
	g := &graphql.FieldDefinition{Type: graphql.StringType,
		Resolve: func(ctx graphql.FieldContext) (interface{}, error) {
			w.gRan++
			return "g", nil
		},
	}
	probe := &graphql.DirectiveDefinition{
		Locations: []schema.DirectiveLocation{schema.DirectiveLocationField},
		FieldCollectionFilter: func(arguments map[string]interface{}) bool {
			w.filterArgs["probe"] = append(w.filterArgs["probe"], dumpArgs(arguments))
			return true
		},
	}
	if p.site == "field" {
		f.Arguments = argMap()
	} else if p.site == "directive" {
		probe.Arguments = argMap()
	}
	wrap := func(name string, d *graphql.DirectiveDefinition) *graphql.DirectiveDefinition {
		return &graphql.DirectiveDefinition{
			Description: d.Description, Arguments: d.Arguments, Locations: d.Locations,
			FieldCollectionFilter: func(arguments map[string]interface{}) bool {
				w.filterArgs[name] = append(w.filterArgs[name], dumpArgs(arguments))
				return d.FieldCollectionFilter(arguments)
			},
		}
	}
	// every named type a variable definition mentions has to exist in the schema
	var extra []graphql.NamedType
	var collect func(t *Ty)
	collect = func(t *Ty) {
		switch t.K {
		case "list", "nn":
			collect(t.Elem)
		case "scalar":
			extra = append(extra, scalarTypes[t.Name])
		default:
			extra = append(extra, r.gql(t).(graphql.NamedType))
		}
	}
	for _, a := range p.argDefs {
		collect(a.Ty)
	}
	for _, v := range p.varDefs {
		collect(v.Ty)
	}
	s, err := graphql.NewSchema(&graphql.SchemaDefinition{
		Query: &graphql.ObjectType{Name: "Query", Fields: map[string]*graphql.FieldDefinition{"f": f, "g": g}},
		Directives: map[string]*graphql.DirectiveDefinition{
			"probe":   probe,
			"skip":    wrap("skip", graphql.SkipDirective),
			"include": wrap("include", graphql.IncludeDirective),
		},
		AdditionalTypes: extra,
	})
	if err != nil {
		return nil, err
	}
	w.schema = s
	return w, nil
}

// Observed is what one case showed on the real library.
type Observed struct {
	Class  string // invalid | reqerr | fielderr | ok | swallowed | panic | odd
	Args   string // `(ok (name goval)…)` when Class == ok
	GRan   bool   // directive sites: g's resolver ran
	Detail string // errors / panic text
	Cost   string // what the cost function observed: "-" (not called) | `(ok …)` | "panic: …"
	// Ungated: validator.CoerceVariableValues + validator.CoerceArgumentValues called directly on the
	// parsed, *unvalidated* document: reqerr | fielderr | `(ok …)` | "panic: …"
	Ungated string
}

func (o Observed) String() string {
	s := o.Class
	if o.Class == "ok" {
		s = o.Args
	}
	return fmt.Sprintf("%s [g ran: %v] [cost saw: %s] [ungated: %s] %s", s, o.GRan, o.Cost, o.Ungated, o.Detail)
}

func errorTexts(errs []*graphql.Error) string {
	parts := []string{}
	for _, e := range errs {
		parts = append(parts, e.Message)
	}
	return strings.Join(parts, " | ")
}

// runReal executes the case on the library.
func runReal(c *Case) (o Observed, query, variables string, err error) {
	p, err := c.parse()
	if err != nil {
		return o, "", "", err
	}
	query, variables = p.queryText(), p.variablesText()
	w, err := newWorld(p)
	if err != nil {
		return o, query, variables, fmt.Errorf("schema rejected: %v", err)
	}
	var vars map[string]interface{}
	if err := json.Unmarshal([]byte(variables), &vars); err != nil {
		return o, query, variables, fmt.Errorf("variables do not decode: %v", err)
	}
	observedArgs := func() []hx.Sexp {
		switch p.site {
		case "field":
			return w.fArgs
		case "directive":
			return w.filterArgs["probe"]
		}
		return w.filterArgs[p.site]
	}
	func() {
		defer func() {
			if r := recover(); r != nil {
				o.Class = "panic"
				o.Detail = fmt.Sprintf("panic: %v", r)
			}
		}()
		doc, errs := graphql.ParseAndValidate(query, w.schema, nil)
		if len(errs) > 0 {
			o.Class, o.Detail = "invalid", errorTexts(errs)
			return
		}
		resp := graphql.Execute(&graphql.Request{Context: context.Background(), Document: doc, Schema: w.schema, VariableValues: vars})
		body, merr := json.Marshal(resp)
		if merr != nil {
			o.Class, o.Detail = "odd", "response does not marshal: "+merr.Error()
			return
		}
		var shape struct {
			Data   map[string]interface{} `json:"data"`
			Errors []struct {
				Message string `json:"message"`
			} `json:"errors"`
		}
		json.Unmarshal(body, &shape)
		o.GRan = w.gRan > 0
		o.Detail = errorTexts(resp.Errors)
		seen := observedArgs()
		switch {
		case len(seen) > 0:
			o.Class, o.Args = "ok", seen[0].String()
			for _, s := range seen[1:] {
				if s.String() != o.Args {
					o.Class, o.Detail = "odd", "observer invoked with different arguments: "+o.Args+" and "+s.String()
				}
			}
			if len(shape.Errors) > 0 {
				o.Class, o.Detail = "odd", "observer invoked and errors reported: "+string(body)
			}
		case len(shape.Errors) == 0:
			// nothing observed the arguments and the client got no error
			o.Class = "swallowed"
		case shape.Data == nil:
			o.Class = "reqerr"
		default:
			o.Class = "fielderr"
		}
	}()
	// the cost function's view (fields only): ParseAndValidate with the ValidateCost rule
	o.Cost = "-"
	if p.site == "field" {
		func() {
			defer func() {
				if r := recover(); r != nil {
					o.Cost = fmt.Sprintf("panic: %v", r)
				}
			}()
			w.costArgs = nil
			var actual int
			req := &graphql.Request{Context: context.Background(), Query: query, Schema: w.schema, VariableValues: vars}
			graphql.ParseAndValidate(query, w.schema, nil, req.ValidateCost(-1, &actual, graphql.FieldCost{}))
			if len(w.costArgs) > 0 {
				o.Cost = w.costArgs[0].String()
			}
		}()
	}
	o.Ungated = runUngated(p, w, query, vars)
	return o, query, variables, nil
}

// runUngated calls the two exported coercion functions the way the executor does, without the
// validation gate (library users and ValidateCost reach them like this).
func runUngated(p *pcase, w *world, query string, vars map[string]interface{}) (res string) {
	defer func() {
		if r := recover(); r != nil {
			res = fmt.Sprintf("panic: %v", r)
		}
	}()
	doc, perrs := parser.ParseDocument([]byte(query))
	if len(perrs) > 0 {
		return "syntax-error"
	}
	op := doc.Definitions[0].(*ast.OperationDefinition)
	field := op.SelectionSet.Selections[0].(*ast.Field)
	coerced, verr := validator.CoerceVariableValues(w.schema, nil, op, vars)
	if verr != nil {
		return "reqerr"
	}
	var node ast.Node = field
	defs := w.schema.QueryType().Fields[field.Name.Name].Arguments
	args := field.Arguments
	if p.site != "field" {
		d := field.Directives[0]
		node, defs, args = d, w.schema.Directives()[d.Name.Name].Arguments, d.Arguments
	}
	out, aerr := validator.CoerceArgumentValues(node, defs, args, coerced)
	if aerr != nil {
		return "fielderr"
	}
	return dumpArgs(out).String()
}
