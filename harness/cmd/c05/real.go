package main

// Adapter of the real library: build a schema whose field `f` (and directive `@probe`) echo their
// arguments, run one case through graphql.ParseAndValidate + graphql.Execute (and once more through
// ParseAndValidate with the ValidateCost rule) and report the canonical observables.

import (
	"context"
	"encoding/json"
	"fmt"
	"math"
	"strconv"
	"strings"

	apifu "github.com/ccbrown/api-fu"
	"github.com/ccbrown/api-fu/graphql"
	"github.com/ccbrown/api-fu/graphql/ast"
	"github.com/ccbrown/api-fu/graphql/parser"
	"github.com/ccbrown/api-fu/graphql/schema"
	"github.com/ccbrown/api-fu/graphql/validator"

	"verifharness/hx"
)

// Case is one request; the replay format.
type Case struct {
	Site    string `json:"site"`     // field | directive | skip | include
	Env     string `json:"env"`      // ((Name hooked|plain ((f ty dflt)…))…): the input object types, by name
	ArgDefs string `json:"arg_defs"` // ((name ty dflt)…)
	VarDefs string `json:"var_defs"` // ((name ty none|(some lit))…)
	Args    string `json:"args"`     // ((name lit)…)
	Raw     string `json:"raw"`      // ((name json)…)
	Label   string `json:"label,omitempty"`
	// polymorphic site only: the argument definitions of the two implementing object types (ArgDefs
	// are the interface's) and how the field node reaches them
	ImplA string `json:"impl_a_arg_defs,omitempty"`
	ImplB string `json:"impl_b_arg_defs,omitempty"`
	Via   string `json:"via,omitempty"` // interface-list | union-fragment
	// multi-operation documents: a second operation that spreads the same fragment (the field sits in a
	// fragment then) and declares the same variable names with these definitions; the operation with
	// VarDefs is the one executed (operationName), AltFirst says which comes first in the document
	AltVarDefs string `json:"alt_var_defs,omitempty"`
	AltFirst   bool   `json:"alt_first,omitempty"`
	// nested fragments: the field sits in fragment N<Nest>, reached from the operation only through
	// N1 → … → N<Nest> (and, with NestTwoPaths, also through M1 → N<Nest>); the operation itself uses
	// every variable legitimately in `u(p_<name>: $<name>)`, an argument of exactly the variable's type
	Nest         int  `json:"nest,omitempty"`
	NestTwoPaths bool `json:"nest_two_paths,omitempty"`
	// derived from the above, written for the reader of a replay file
	Query     string `json:"query,omitempty"`
	Variables string `json:"variables,omitempty"`
}

type argDef struct {
	Name string
	Ty   *Ty
	Dflt *hx.Sexp
}

type varDef struct {
	Name string
	Ty   *Ty
	Dflt *hx.Sexp // literal
}

type named struct {
	Name string
	V    hx.Sexp
}

type pcase struct {
	site     string
	env      map[string]*InputDef
	argDefs  []argDef
	varDefs  []varDef
	altDefs  []varDef // multi-operation documents
	multi    bool
	nest     int
	twoPaths bool
	altFirst bool
	args     []named
	raw      []named
}

func (c *Case) parse() (*pcase, error) {
	p := &pcase{site: c.Site, nest: c.Nest, twoPaths: c.NestTwoPaths}
	envText := c.Env
	if envText == "" {
		envText = "()"
	}
	ex, err := hx.ParseSexp(envText)
	if err != nil {
		return nil, err
	}
	if p.env, err = parseEnv(ex); err != nil {
		return nil, err
	}
	ad, err := hx.ParseSexp(c.ArgDefs)
	if err != nil {
		return nil, err
	}
	for _, x := range ad.List {
		t, err := parseTy(x.List[1], p.env)
		if err != nil {
			return nil, err
		}
		d, err := parseDflt(x.List[2])
		if err != nil {
			return nil, err
		}
		p.argDefs = append(p.argDefs, argDef{x.List[0].Atom, t, d})
	}
	vd, err := hx.ParseSexp(c.VarDefs)
	if err != nil {
		return nil, err
	}
	for _, x := range vd.List {
		t, err := parseTy(x.List[1], p.env)
		if err != nil {
			return nil, err
		}
		d, err := parseDflt(x.List[2])
		if err != nil {
			return nil, err
		}
		p.varDefs = append(p.varDefs, varDef{x.List[0].Atom, t, d})
	}
	if c.AltVarDefs != "" {
		ax, err := hx.ParseSexp(c.AltVarDefs)
		if err != nil {
			return nil, err
		}
		p.multi, p.altFirst = true, c.AltFirst
		for _, x := range ax.List {
			t, err := parseTy(x.List[1], p.env)
			if err != nil {
				return nil, err
			}
			d, err := parseDflt(x.List[2])
			if err != nil {
				return nil, err
			}
			p.altDefs = append(p.altDefs, varDef{x.List[0].Atom, t, d})
		}
	}
	ar, err := hx.ParseSexp(c.Args)
	if err != nil {
		return nil, err
	}
	for _, x := range ar.List {
		p.args = append(p.args, named{x.List[0].Atom, x.List[1]})
	}
	rw, err := hx.ParseSexp(c.Raw)
	if err != nil {
		return nil, err
	}
	for _, x := range rw.List {
		p.raw = append(p.raw, named{x.List[0].Atom, x.List[1]})
	}
	return p, nil
}

func (c *Case) modelSite() string {
	if c.Site != "field" {
		return "directive"
	}
	return "field"
}

// modelLine is the case for the generalised model (type environment, Go kinds).
func (c *Case) modelLine() string {
	env := c.Env
	if env == "" {
		env = "()"
	}
	return "(rcase " + c.modelSite() + " " + env + " " + c.ArgDefs + " " + c.VarDefs + " " + c.Args + " " + c.Raw + ")"
}

// treeLine is the case for the tree model, when it can express it ("" otherwise): no recursive or
// hooked input type, no custom scalar, only JSON kinds in the variables.
func (c *Case) treeLine(p *pcase) string {
	for _, r := range p.raw {
		if !jsonKindsOnly(r.V) {
			return ""
		}
	}
	ads := []hx.Sexp{}
	for _, a := range p.argDefs {
		if !treeExpressible(a.Ty, map[string]bool{}) {
			return ""
		}
		ads = append(ads, hx.L(hx.A(a.Name), a.Ty.TreeSexp(), dfltSexp(a.Dflt)))
	}
	vds := []hx.Sexp{}
	for _, v := range p.varDefs {
		if !treeExpressible(v.Ty, map[string]bool{}) {
			return ""
		}
		vds = append(vds, hx.L(hx.A(v.Name), v.Ty.TreeSexp(), dfltSexp(v.Dflt)))
	}
	return "(case " + c.modelSite() + " " + hx.L(ads...).String() + " " + hx.L(vds...).String() + " " + c.Args + " " + c.Raw + ")"
}

// queryText renders the operation.
func varDefsText(defs []varDef) string {
	if len(defs) == 0 {
		return ""
	}
	parts := []string{}
	for _, v := range defs {
		s := "$" + v.Name + ": " + v.Ty.GraphQL()
		if v.Dflt != nil {
			s += " = " + litText(*v.Dflt)
		}
		parts = append(parts, s)
	}
	return "(" + strings.Join(parts, ", ") + ")"
}

func (p *pcase) queryText() string {
	args := ""
	if len(p.args) > 0 {
		parts := []string{}
		for _, a := range p.args {
			parts = append(parts, a.Name+": "+litText(a.V))
		}
		args = "(" + strings.Join(parts, ", ") + ")"
	}
	sel := ""
	switch p.site {
	case "field":
		sel = "f" + args
	case "directive":
		sel = "g @probe" + args
	default:
		sel = "g @" + p.site + args
	}
	if p.multi {
		// two operations spreading one fragment; B (with varDefs) is the one executed
		a := "query A" + varDefsText(p.altDefs) + " { ...F }"
		b := "query B" + varDefsText(p.varDefs) + " { ...F }"
		if !p.altFirst {
			a, b = b, a
		}
		return a + " " + b + " fragment F on Query { " + sel + " }"
	}
	if p.nest > 0 {
		uses := []string{}
		for _, v := range p.varDefs {
			uses = append(uses, "p_"+v.Name+": $"+v.Name)
		}
		u := "u"
		if len(uses) > 0 {
			u += "(" + strings.Join(uses, ", ") + ")"
		}
		spreads := "...N1"
		if p.twoPaths {
			spreads += " ...M1"
		}
		doc := "query Q" + varDefsText(p.varDefs) + " { " + spreads + " " + u + " }"
		for i := 1; i < p.nest; i++ {
			doc += fmt.Sprintf(" fragment N%d on Query { ...N%d }", i, i+1)
		}
		if p.twoPaths {
			doc += fmt.Sprintf(" fragment M1 on Query { ...N%d }", p.nest)
		}
		return doc + fmt.Sprintf(" fragment N%d on Query { %s }", p.nest, sel)
	}
	return "query Q" + varDefsText(p.varDefs) + " { " + sel + " }"
}

func (p *pcase) operationName() string {
	if p.multi {
		return "B"
	}
	return ""
}

func (p *pcase) variablesText() string {
	parts := []string{}
	for _, r := range p.raw {
		k, _ := json.Marshal(r.Name)
		parts = append(parts, string(k)+":"+rawText(r.V))
	}
	return "{" + strings.Join(parts, ",") + "}"
}

// ---- schema -------------------------------------------------------------------------------------

var scalarTypes = map[string]*graphql.ScalarType{
	"Int": graphql.IntType, "Float": graphql.FloatType, "String": graphql.StringType,
	"Boolean": graphql.BooleanType, "ID": graphql.IDType,
	"DateTime": apifu.DateTimeType, "LongInt": apifu.LongIntType,
}

type registry struct {
	enums  map[string]*graphql.EnumType
	inputs map[string]*graphql.InputObjectType
	onHook func() // called at every invocation of an InputCoercion hook
}

func newRegistry() *registry {
	return &registry{enums: map[string]*graphql.EnumType{}, inputs: map[string]*graphql.InputObjectType{}}
}

func goDefault(d *hx.Sexp) interface{} {
	if d == nil {
		return nil
	}
	if isNullX(*d) {
		return schema.Null
	}
	return goOf(*d)
}

// evenInput: the integer a variable value of the custom scalar Even denotes (float64 or any Go
// integer kind).
func evenInput(v interface{}) (int64, bool) {
	switch v := v.(type) {
	case float64:
		if v == math.Trunc(v) && v >= -9223372036854775808.0 && v < 9223372036854775808.0 {
			return int64(v), true
		}
	case int8:
		return int64(v), true
	case int16:
		return int64(v), true
	case int32:
		return int64(v), true
	case int64:
		return v, true
	case int:
		return int64(v), true
	case uint8:
		return int64(v), true
	case uint16:
		return int64(v), true
	case uint32:
		return int64(v), true
	case uint64:
		if v <= math.MaxInt64 {
			return int64(v), true
		}
	case uint:
		if uint64(v) <= math.MaxInt64 {
			return int64(v), true
		}
	}
	return 0, false
}

var customTypes = map[string]*graphql.ScalarType{
	"Even": {Name: "Even",
		LiteralCoercion: func(v ast.Value) interface{} {
			if iv, ok := v.(*ast.IntValue); ok {
				if n, err := strconv.ParseInt(iv.Value, 10, 64); err == nil && n%2 == 0 {
					return customOut{"Even", int(n)}
				}
			}
			return nil
		},
		VariableValueCoercion: func(v interface{}) interface{} {
			if n, ok := evenInput(v); ok && n%2 == 0 {
				return customOut{"Even", int(n)}
			}
			return nil
		},
		ResultCoercion: func(v interface{}) interface{} { return nil },
	},
	"Tag": {Name: "Tag",
		LiteralCoercion: func(v ast.Value) interface{} {
			if sv, ok := v.(*ast.StringValue); ok && sv.Value != "" {
				return customOut{"Tag", sv.Value}
			}
			return nil
		},
		VariableValueCoercion: func(v interface{}) interface{} {
			if s, ok := v.(string); ok && s != "" {
				return customOut{"Tag", s}
			}
			return nil
		},
		ResultCoercion: func(v interface{}) interface{} { return nil },
	},
}

func (r *registry) gql(t *Ty) graphql.Type {
	switch t.K {
	case "scalar":
		return scalarTypes[t.Name]
	case "custom":
		return customTypes[t.Name]
	case "list":
		return graphql.NewListType(r.gql(t.Elem))
	case "nn":
		return graphql.NewNonNullType(r.gql(t.Elem))
	case "enum":
		if e, ok := r.enums[t.Name]; ok {
			return e
		}
		e := &graphql.EnumType{Name: t.Name, Values: map[string]*graphql.EnumValueDefinition{}}
		for _, v := range t.Vals {
			if nilValued(t.Name, v) {
				// an enum value declared without a Go value: what a resolver receives for it is nil
				e.Values[v] = &graphql.EnumValueDefinition{}
				continue
			}
			if t.Name == "Unit" {
				e.Values[v] = &graphql.EnumValueDefinition{Value: unitGo[v]}
				continue
			}
			e.Values[v] = &graphql.EnumValueDefinition{Value: enumVal{v}}
		}
		r.enums[t.Name] = e
		return e
	case "input":
		if o, ok := r.inputs[t.Name]; ok {
			return o
		}
		o := &graphql.InputObjectType{Name: t.Name, Fields: map[string]*graphql.InputValueDefinition{},
			ResultCoercion: func(v interface{}) (map[string]interface{}, error) {
				m, _ := v.(map[string]interface{})
				return m, nil
			}}
		if t.Def.Hooked {
			name := t.Name
			o.InputCoercion = func(m map[string]interface{}) (interface{}, error) {
				if r.onHook != nil {
					r.onHook()
				}
				fields := map[string]interface{}{}
				for k, v := range m {
					if v == interface{}("reject") || v == interface{}(13) {
						return nil, fmt.Errorf("%s: the hook rejects field %s", name, k)
					}
					fields[k] = v
				}
				return hookOut{name, fields}, nil
			}
		}
		r.inputs[t.Name] = o // before the fields: the type may refer to itself
		for _, f := range t.Def.Fields {
			o.Fields[f.Name] = &graphql.InputValueDefinition{Type: r.gql(f.Ty), DefaultValue: goDefault(f.Dflt)}
		}
		return o
	}
	panic("bad type")
}

type world struct {
	schema     *graphql.Schema
	fDef, gDef *graphql.FieldDefinition
	uDef       *graphql.FieldDefinition
	extra      []graphql.NamedType
	hookCalls  int                  // invocations of InputCoercion hooks
	fArgs      []hx.Sexp            // what f's resolver observed, per invocation
	gRan       int                  // invocations of g's resolver
	costArgs   []hx.Sexp            // what f's cost function observed
	filterArgs map[string][]hx.Sexp // what each directive filter observed
}

func newWorld(p *pcase, clone bool) (*world, error) {
	w := &world{filterArgs: map[string][]hx.Sexp{}}
	r := newRegistry()
	r.onHook = func() { w.hookCalls++ }
	argMap := func() map[string]*graphql.InputValueDefinition {
		m := map[string]*graphql.InputValueDefinition{}
		for _, a := range p.argDefs {
			m[a.Name] = &graphql.InputValueDefinition{Type: r.gql(a.Ty), DefaultValue: goDefault(a.Dflt)}
		}
		return m
	}
	f := &graphql.FieldDefinition{Type: graphql.StringType,
		Resolve: func(ctx graphql.FieldContext) (interface{}, error) {
			w.fArgs = append(w.fArgs, dumpArgs(ctx.Arguments))
			return "f", nil
		},
		Cost: func(ctx graphql.FieldCostContext) graphql.FieldCost {
			w.costArgs = append(w.costArgs, dumpArgs(ctx.Arguments))
			return graphql.FieldCost{Resolver: 1}
		},
	}
	g := &graphql.FieldDefinition{Type: graphql.StringType,
		Resolve: func(ctx graphql.FieldContext) (interface{}, error) {
			w.gRan++
			return "g", nil
		},
	}
	probe := &graphql.DirectiveDefinition{
		Locations: []schema.DirectiveLocation{schema.DirectiveLocationField},
		FieldCollectionFilter: func(arguments map[string]interface{}) bool {
			w.filterArgs["probe"] = append(w.filterArgs["probe"], dumpArgs(arguments))
			return true
		},
	}
	queryFields := map[string]*graphql.FieldDefinition{"f": f, "g": g}
	if p.nest > 0 {
		// the legitimate use of every variable: an argument of exactly the variable's declared type
		u := &graphql.FieldDefinition{Type: graphql.StringType, Arguments: map[string]*graphql.InputValueDefinition{},
			Resolve: func(graphql.FieldContext) (interface{}, error) { return "u", nil }}
		for _, v := range p.varDefs {
			u.Arguments["p_"+v.Name] = &graphql.InputValueDefinition{Type: r.gql(v.Ty)}
		}
		queryFields["u"] = u
		w.uDef = u
	}
	if p.site == "field" {
		f.Arguments = argMap()
	} else if p.site == "directive" {
		probe.Arguments = argMap()
	}
	wrap := func(name string, d *graphql.DirectiveDefinition) *graphql.DirectiveDefinition {
		return &graphql.DirectiveDefinition{
			Description: d.Description, Arguments: d.Arguments, Locations: d.Locations,
			FieldCollectionFilter: func(arguments map[string]interface{}) bool {
				w.filterArgs[name] = append(w.filterArgs[name], dumpArgs(arguments))
				return d.FieldCollectionFilter(arguments)
			},
		}
	}
	// every named type a variable definition mentions has to exist in the schema
	var extra []graphql.NamedType
	var collect func(t *Ty)
	collect = func(t *Ty) {
		switch t.K {
		case "list", "nn":
			collect(t.Elem)
		case "scalar":
			extra = append(extra, scalarTypes[t.Name])
		case "custom":
			extra = append(extra, customTypes[t.Name])
		case "input":
			if _, seen := r.inputs[t.Name]; seen {
				return
			}
			extra = append(extra, r.gql(t).(graphql.NamedType))
			for _, f := range t.Def.Fields {
				collect(f.Ty)
			}
		default:
			extra = append(extra, r.gql(t).(graphql.NamedType))
		}
	}
	for _, a := range p.argDefs {
		collect(a.Ty)
	}
	for _, v := range p.varDefs {
		collect(v.Ty)
	}
	def := &graphql.SchemaDefinition{
		Query: &graphql.ObjectType{Name: "Query", Fields: queryFields},
		Directives: map[string]*graphql.DirectiveDefinition{
			"probe":   probe,
			"skip":    wrap("skip", graphql.SkipDirective),
			"include": wrap("include", graphql.IncludeDirective),
		},
		AdditionalTypes: extra,
	}
	w.fDef, w.gDef, w.extra = f, g, extra
	if clone {
		// what apifu does when Config.PreprocessGraphQLSchemaDefinition is set
		def = def.Clone()
	}
	s, err := graphql.NewSchema(def)
	if err != nil {
		return nil, err
	}
	w.schema = s
	return w, nil
}

// Observed is what one case showed on the real library.
type Observed struct {
	Class  string // invalid | reqerr | fielderr | ok | swallowed | panic | odd
	Args   string // `(ok (name goval)…)` when Class == ok
	GRan   bool   // directive sites: g's resolver ran
	Detail string // errors / panic text
	Cost   string // what the cost function observed: "-" (not called) | `(ok …)` | "panic: …"
	// Ungated: validator.CoerceVariableValues + validator.CoerceArgumentValues called directly on the
	// parsed, *unvalidated* document: reqerr | fielderr | `(ok …)` | "panic: …"
	Ungated   string
	HookCalls int // InputCoercion invocations during Execute
}

func (o Observed) String() string {
	s := o.Class
	if o.Class == "ok" {
		s = o.Args
	}
	return fmt.Sprintf("%s [g ran: %v] [cost saw: %s] [ungated: %s] %s", s, o.GRan, o.Cost, o.Ungated, o.Detail)
}

func errorTexts(errs []*graphql.Error) string {
	parts := []string{}
	for _, e := range errs {
		parts = append(parts, e.Message)
	}
	return strings.Join(parts, " | ")
}

// runReal executes the case on the library.
func runReal(c *Case) (o Observed, query, variables string, err error) {
	return runRealMode(c, false)
}

// runRealMode: clone = the schema is built from SchemaDefinition.Clone().
func runRealMode(c *Case, clone bool) (o Observed, query, variables string, err error) {
	p, err := c.parse()
	if err != nil {
		return o, "", "", err
	}
	query, variables = p.queryText(), p.variablesText()
	w, err := newWorld(p, clone)
	if err != nil {
		return o, query, variables, fmt.Errorf("schema rejected: %v", err)
	}
	vars := map[string]interface{}{}
	allJSON := true
	for _, r := range p.raw {
		if !jsonKindsOnly(r.V) {
			allJSON = false
		}
	}
	if allJSON {
		// exactly what NewRequestFromHTTP does with the request body
		if err := json.Unmarshal([]byte(variables), &vars); err != nil {
			return o, query, variables, fmt.Errorf("variables do not decode: %v", err)
		}
	} else {
		// a caller of graphql.Execute filling Request.VariableValues with Go values of any kind
		for _, r := range p.raw {
			vars[r.Name] = goIn(r.V)
		}
	}
	observedArgs := func() []hx.Sexp {
		switch p.site {
		case "field":
			return w.fArgs
		case "directive":
			return w.filterArgs["probe"]
		}
		return w.filterArgs[p.site]
	}
	func() {
		defer func() {
			if r := recover(); r != nil {
				o.Class = "panic"
				o.Detail = fmt.Sprintf("panic: %v", r)
			}
		}()
		doc, errs := graphql.ParseAndValidate(query, w.schema, nil)
		if len(errs) > 0 {
			o.Class, o.Detail = "invalid", errorTexts(errs)
			return
		}
		w.hookCalls = 0
		resp := graphql.Execute(&graphql.Request{Context: context.Background(), Document: doc, Schema: w.schema, VariableValues: vars, OperationName: p.operationName()})
		o.HookCalls = w.hookCalls
		body, merr := json.Marshal(resp)
		if merr != nil {
			o.Class, o.Detail = "odd", "response does not marshal: "+merr.Error()
			return
		}
		var shape struct {
			Data   map[string]interface{} `json:"data"`
			Errors []struct {
				Message string `json:"message"`
			} `json:"errors"`
		}
		json.Unmarshal(body, &shape)
		o.GRan = w.gRan > 0
		o.Detail = errorTexts(resp.Errors)
		seen := observedArgs()
		switch {
		case len(seen) > 0:
			o.Class, o.Args = "ok", seen[0].String()
			for _, s := range seen[1:] {
				if s.String() != o.Args {
					o.Class, o.Detail = "odd", "observer invoked with different arguments: "+o.Args+" and "+s.String()
				}
			}
			if len(shape.Errors) > 0 {
				o.Class, o.Detail = "odd", "observer invoked and errors reported: "+string(body)
			}
		case len(shape.Errors) == 0:
			// nothing observed the arguments and the client got no error
			o.Class = "swallowed"
		case shape.Data == nil:
			o.Class = "reqerr"
		default:
			o.Class = "fielderr"
		}
	}()
	// the cost function's view (fields only): ParseAndValidate with the ValidateCost rule
	o.Cost = "-"
	if p.site == "field" {
		func() {
			defer func() {
				if r := recover(); r != nil {
					o.Cost = fmt.Sprintf("panic: %v", r)
				}
			}()
			w.costArgs = nil
			var actual int
			req := &graphql.Request{Context: context.Background(), Query: query, Schema: w.schema, VariableValues: vars, OperationName: p.operationName()}
			graphql.ParseAndValidate(query, w.schema, nil, req.ValidateCost(-1, &actual, graphql.FieldCost{}))
			if len(w.costArgs) > 0 {
				o.Cost = w.costArgs[0].String()
			}
		}()
	}
	o.Ungated = runUngated(p, w, query, vars)
	return o, query, variables, nil
}

// runUngated calls the two exported coercion functions the way the executor does, without the
// validation gate (library users and ValidateCost reach them like this).
func runUngated(p *pcase, w *world, query string, vars map[string]interface{}) (res string) {
	defer func() {
		if r := recover(); r != nil {
			res = fmt.Sprintf("panic: %v", r)
		}
	}()
	doc, perrs := parser.ParseDocument([]byte(query))
	if len(perrs) > 0 {
		return "syntax-error"
	}
	var op *ast.OperationDefinition
	var field *ast.Field
	for _, d := range doc.Definitions {
		switch d := d.(type) {
		case *ast.OperationDefinition:
			if !p.multi || (d.Name != nil && d.Name.Name == "B") {
				op = d
			}
		case *ast.FragmentDefinition:
			if fd, ok := d.SelectionSet.Selections[0].(*ast.Field); ok {
				field = fd
			}
		}
	}
	if field == nil {
		field = op.SelectionSet.Selections[0].(*ast.Field)
	}
	coerced, verr := validator.CoerceVariableValues(w.schema, nil, op, vars)
	if verr != nil {
		return "reqerr"
	}
	var node ast.Node = field
	defs := w.schema.QueryType().Fields[field.Name.Name].Arguments
	args := field.Arguments
	if p.site != "field" {
		d := field.Directives[0]
		node, defs, args = d, w.schema.Directives()[d.Name.Name].Arguments, d.Arguments
	}
	out, aerr := validator.CoerceArgumentValues(node, defs, args, coerced)
	if aerr != nil {
		return "fielderr"
	}
	return dumpArgs(out).String()
}
