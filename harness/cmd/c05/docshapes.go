package main

// Document shapes beyond "one operation, variables only in the selection set":
//
//   - several operations spreading ONE fragment that uses the variables, each operation with its own
//     declarations of the same names (compatible or not); one of them is executed by operationName.
//     Every usage has to be allowed under EVERY operation's declaration, else the document is invalid
//     and nothing runs; the model is asked once per operation.
//   - a variable written inside the DEFAULT value of another variable (`$d: In = {n: $s}`), the outer
//     one left unset, the inner one also used elsewhere: default values are constants — the parser
//     refuses the document; were it to run, CoerceVariableValues would coerce the default against the
//     raw client variables. Expected (model: `valuesValid`): invalid, nothing observed.
//
// The derived cases are explicit spellings of the original group, judged by the model tie and the
// conformance oracle (they are not spellings of the same client value in general).

import (
	"fmt"

	"verifharness/hx"
)

// altDefs draws the other operation's declarations: same names; same / stricter / looser / near-miss types.
func altDefs(r *hx.Rand, defs []varDef) string {
	out := []hx.Sexp{}
	for _, d := range defs {
		t := d.Ty
		switch r.Intn(6) {
		case 0:
			t = nnTy(d.Ty)
		case 1:
			t = nullable(d.Ty)
		case 2, 3:
			t = nearMiss(r, d.Ty)
		}
		var dv *hx.Sexp
		if t == d.Ty && r.Bool() {
			dv = d.Dflt
		}
		out = append(out, hx.L(hx.A(d.Name), t.Sexp(), dfltSexp(dv)))
	}
	return hx.L(out...).String()
}

func containsVarX(x hx.Sexp) bool {
	if !x.IsList {
		return false
	}
	if tag(x) == "var" {
		return true
	}
	for _, e := range x.List {
		if containsVarX(e) {
			return true
		}
	}
	return false
}

// intoDefault moves the literal written for argument `a` into the default value of a new, unset
// variable `$d` and gives every variable inside it one more usage (`yK: $vK`), so that only the
// "default values are constants" rule stands between the document and execution.
func intoDefault(c Case, pc *pcase, t *Ty) (Case, bool) {
	var lit *hx.Sexp
	for i := range pc.args {
		if pc.args[i].Name == "a" {
			lit = &pc.args[i].V
		}
	}
	if lit == nil || tag(*lit) == "var" || !containsVarX(*lit) || pc.site != "field" {
		return c, false
	}
	argDefs := []hx.Sexp{}
	for _, a := range pc.argDefs {
		argDefs = append(argDefs, hx.L(hx.A(a.Name), a.Ty.Sexp(), dfltSexp(a.Dflt)))
	}
	args := []hx.Sexp{}
	for _, a := range pc.args {
		if a.Name == "a" {
			args = append(args, kv("a", hx.N("var", hx.A("d"))))
		} else {
			args = append(args, kv(a.Name, a.V))
		}
	}
	varDefs := []hx.Sexp{hx.L(hx.A("d"), t.Sexp(), dfltSexp(lit))}
	for i, v := range pc.varDefs {
		varDefs = append(varDefs, hx.L(hx.A(v.Name), v.Ty.Sexp(), dfltSexp(v.Dflt)))
		y := fmt.Sprintf("y%d", i)
		argDefs = append(argDefs, hx.L(hx.A(y), nullable(v.Ty).Sexp(), hx.A("none")))
		args = append(args, kv(y, hx.N("var", hx.A(v.Name))))
	}
	c.ArgDefs, c.Args, c.VarDefs = hx.L(argDefs...).String(), hx.L(args...).String(), hx.L(varDefs...).String()
	c.Label = "variable inside a variable's default value (" + c.Label + ")"
	return c, true
}

func (h *harness) documentShapes(n int) {
	run := h.run
	var groups []*Group
	flush := func() {
		h.evalGroups(groups, 0, true)
		groups = nil
	}
	for i := 0; i < n; i++ {
		r := run.Rand.Fork()
		tg := &typeGen{r: r, rich: r.Chance(1, 3)}
		var t *Ty
		if r.Chance(1, 3) {
			t = hx.Pick(r, wrapForms(scalarTy(hx.Pick(r, scalarNames))))
		} else {
			t = tg.top(r.Range(0, 3))
		}
		var dflt *hx.Sexp
		if r.Chance(1, 4) {
			dflt = tg.dflt(t)
		}
		vg := &valueGen{r: r}
		if r.Chance(1, 4) {
			vg.junk = r.Range(3, 12)
		}
		x := vg.valid(t, false, false, 3)
		base := newGroup("field", t, dflt, &x, false)
		cases, _, _, _ := base.spellings(r, 2)
		derived := newGroup("field", t, dflt, &x, false)
		for _, c := range cases {
			pc, err := c.parse()
			if err != nil || len(pc.varDefs) == 0 {
				continue
			}
			// (a) two operations, one fragment
			m := c
			m.AltVarDefs, m.AltFirst = altDefs(r, pc.varDefs), !r.Chance(1, 4)
			m.Label = "two operations spreading one fragment (" + c.Label + ")"
			derived.Cases = append(derived.Cases, m)
			// (c) nested fragments: the usage sits 1..3 fragments deep, in a fragment reached only through
			// other fragments (and through two paths); every variable has a legitimate use in the operation
			hooked := false
			for _, v := range pc.varDefs {
				if hookInside(v.Ty, map[string]bool{}) {
					hooked = true // the extra field would run the hooks once more
				}
			}
			if !hooked {
				nf := c
				nf.Nest, nf.NestTwoPaths = r.Range(1, 3), r.Chance(1, 3)
				nf.Label = fmt.Sprintf("usage %d fragments deep (%s)", nf.Nest, c.Label)
				derived.Cases = append(derived.Cases, nf)
			}
			// (b) the literal moved into a default value
			if d, ok := intoDefault(c, pc, t); ok {
				derived.Cases = append(derived.Cases, d)
			}
		}
		if len(derived.Cases) == 0 {
			continue
		}
		for range derived.Cases {
			derived.Lossy = append(derived.Lossy, true)
			derived.Gap = append(derived.Gap, false)
			derived.Sound = append(derived.Sound, false)
		}
		groups = append(groups, derived)
		if len(groups) >= 150 {
			flush()
		}
	}
	flush()
}
