package main

// Generators: input types, abstract client values, and the *spellings* of one client value
// (literal, variable, variable nested in a literal, omitted → default, explicit null …).

import (
	"fmt"
	"math/big"
	"strings"

	"verifharness/hx"
)

// ---- value pools --------------------------------------------------------------------------------

func pow2(n uint) *big.Int { return new(big.Int).Lsh(big.NewInt(1), n) }

func cvInt(z *big.Int) hx.Sexp     { return hx.N("int", bigA(z)) }
func cvIntS(s string) hx.Sexp      { return hx.N("int", hx.A(s)) }
func cvHalf(h int64) hx.Sexp       { return hx.N("half", hx.I(h)) }
func cvStr(s string) hx.Sexp       { return hx.N("str", hx.A(s)) }
func cvBool(b bool) hx.Sexp        { return hx.N("bool", hx.B(b)) }
func cvEnum(n string) hx.Sexp      { return hx.N("enum", hx.A(n)) }
func cvList(xs ...hx.Sexp) hx.Sexp { return hx.N("list", xs...) }

var cvNull = hx.A("null")

func neg(z *big.Int) *big.Int           { return new(big.Int).Neg(z) }
func plus(z *big.Int, d int64) *big.Int { return new(big.Int).Add(z, big.NewInt(d)) }

// boundary integers: 32-bit window, safe-integer window, 64-bit window (all but 2^63−1 are exact
// float64 values, so they survive JSON)
var intBoundaries = []hx.Sexp{
	cvIntS("0"), cvIntS("1"), cvIntS("-1"), cvIntS("2"), cvIntS("7"), cvIntS("1000"),
	cvInt(plus(pow2(31), -1)), cvInt(pow2(31)), cvInt(neg(pow2(31))), cvInt(plus(neg(pow2(31)), -1)),
	cvInt(plus(pow2(53), -1)), cvInt(pow2(53)), cvInt(neg(plus(pow2(53), -1))), cvInt(neg(pow2(53))),
	cvInt(pow2(62)), cvInt(plus(pow2(63), -1)), cvInt(pow2(63)), cvInt(neg(pow2(63))),
	cvInt(plus(neg(pow2(63)), -2048)), cvInt(pow2(64)),
}

// halves: 1.5, −0.5, 0.5, 2147483647.5, and float-syntax integers 1000.0, 1.0, 0.0
var halfPool = []hx.Sexp{cvHalf(3), cvHalf(-1), cvHalf(1), cvHalf(4294967295), cvHalf(2000), cvHalf(2), cvHalf(0)}

var dateTimes = []string{"2020-01-02T03:04:05Z", "2020-01-02T03:04:05.123456789+02:00", "1999-12-31T23:59:59.5-07:00"}
var notDateTimes = []string{"2020-01-02", "2020-13-01T00:00:00Z", "2020-01-02 03:04:05Z"}

var strPool = []hx.Sexp{cvStr(""), cvStr("1"), cvStr("abc"), cvStr("RED"), cvStr("true"),
	cvStr(dateTimes[0]), cvStr(dateTimes[1]), cvStr(dateTimes[2]), cvStr(notDateTimes[0]), cvStr(notDateTimes[1]), cvStr(notDateTimes[2]),
	cvStr("reject"),
	// what Go's UnmarshalText takes beyond RFC 3339 proper (one-digit hour, comma, zone 24:00) …
	cvStr("2020-01-02T3:04:05Z"), cvStr("2020-01-02T03:04:05,25Z"), cvStr("2020-02-29T23:59:59.999999999+24:00"),
	// … and near misses it refuses
	cvStr("2021-02-29T00:00:00Z"), cvStr("2020-01-02t03:04:05Z"), cvStr("2020-01-02T03:04:60Z"), cvStr("2020-01-02T03:04:05+25:00"),
	// characters a URL query string escapes ("+", "%XX"): must arrive as written
	cvStr("a+b %41%2B&c=d")}

// thirteen: the integer the symbolic hook rejects.
var thirteen = cvIntS("13")

var enumPool = []hx.Sexp{cvEnum("RED"), cvEnum("GREEN"), cvEnum("PURPLE"), cvEnum("M")}

var boolPool = []hx.Sexp{cvBool(true), cvBool(false)}

var colorTy = &Ty{K: "enum", Name: "Color", Vals: []string{"RED", "GREEN", "BLUE"}}
var sizeTy = &Ty{K: "enum", Name: "Size", Vals: []string{"S", "M", "L"}}

// shadeTy has a value declared WITHOUT a Go value (`"PALE": {}`): every route hands the resolver nil
// for it. The models render a coerced enum value by its name, so `(enum PALE)` in a model reply is
// read as the Go value declared for PALE: nil. That is exact as long as the type never sits directly
// under a non-null wrapper (there the library's own null checks fire on some routes and not on
// others — a schema author's nil at a non-null position, outside the property), which is how it is
// generated: only by exhaustiveNilEnum, never by the random type generator.
var shadeTy = &Ty{K: "enum", Name: "Shade", Vals: []string{"DARK", "PALE"}}

func nilValued(enum, value string) bool { return enum == "Shade" && value == "PALE" }

// unitTy: an enum whose Go values are JSON-representable and are NOT its names (METER is "m" in the
// Go program, FOOT 1.5, INCH true, MILE 3.0). A client that sends one of those Go values through a
// variable is not naming a declared enum value: only the names are accepted (seeded change C05-27).
// What a resolver receives for METER is the string "m": `(enum METER)` in a model / reference reply
// is read as the dump of the declared Go value.
var unitTy = &Ty{K: "enum", Name: "Unit", Vals: []string{"FOOT", "INCH", "METER", "MILE"}}

var unitGo = map[string]interface{}{"METER": "m", "FOOT": 1.5, "INCH": true, "MILE": 3.0}

// declaredGo: the dump of the Go value the schema declares for an enum value, when that is not the
// harness's `enumVal{name}`.
func declaredGo(enum, value string) (hx.Sexp, bool) {
	if nilValued(enum, value) {
		return hx.A("nil"), true
	}
	if enum == "Unit" {
		if v, ok := unitGo[value]; ok {
			return dump(v), true
		}
	}
	return hx.Sexp{}, false
}

func nilEnums(modelReply string) string {
	s := strings.ReplaceAll(modelReply, "(enum PALE)", "nil")
	if strings.Contains(s, "(enum ") {
		for _, n := range unitTy.Vals {
			d, _ := declaredGo("Unit", n)
			s = strings.ReplaceAll(s, "(enum "+n+")", d.String())
		}
	}
	return s
}

var scalarNames = []string{"Int", "Float", "String", "Boolean", "ID", "DateTime", "LongInt"}

func allStrings() []string {
	out := []string{}
	for _, s := range strPool {
		out = append(out, s.List[1].Atom)
	}
	return out
}

// inexactInt is 2^63−1: the one boundary that is not a float64. It is only ever written as an Int
// literal at non-Float types (strconv / encoding/json would round it anywhere else).
var inexactInt = intBoundaries[15]

// leafPool: every leaf value of every kind (without inexactInt).
func leafPool() []hx.Sexp {
	out := []hx.Sexp{}
	out = append(out, intBoundaries[:15]...)
	out = append(out, intBoundaries[16:]...)
	out = append(out, halfPool...)
	out = append(out, strPool...)
	out = append(out, enumPool...)
	out = append(out, boolPool...)
	return out
}

// valid leaf values per named type
func validLeaves(t *Ty) []hx.Sexp {
	switch t.K {
	case "enum":
		out := []hx.Sexp{}
		for _, v := range t.Vals {
			out = append(out, cvEnum(v))
		}
		return out
	case "scalar":
		switch t.Name {
		case "Int":
			return append(append([]hx.Sexp{}, intBoundaries[:7]...), intBoundaries[8], thirteen)
		case "Float":
			return append(append([]hx.Sexp{}, halfPool...), intBoundaries[:15]...)
		case "String":
			return strPool
		case "Boolean":
			return boolPool
		case "ID":
			return append(append([]hx.Sexp{}, strPool[:4]...), append(append([]hx.Sexp{}, intBoundaries[:15]...), intBoundaries[17])...)
		case "DateTime":
			return append(append([]hx.Sexp{}, strPool[5:8]...), strPool[12:15]...)
		case "LongInt":
			return append(append([]hx.Sexp{}, intBoundaries[:11]...), intBoundaries[12])
		}
	}
	panic("no leaves for " + t.K)
}

// ---- types ----------------------------------------------------------------------------------------

type typeGen struct {
	r      *hx.Rand
	inputs int
	// rich: also draw recursive input object types (references to an enclosing or an earlier
	// definition), InputCoercion hooks and custom scalars. Off: the tree-shaped types only.
	rich     bool
	open     []*InputDef // definitions under construction (innermost last)
	finished []*InputDef
	wantDflt []*Field // fields that get a default once every definition is complete
}

func (g *typeGen) named() *Ty {
	if g.rich && g.r.Chance(1, 8) {
		return customTy(hx.Pick(g.r, []string{"Even", "Tag"}))
	}
	if g.r.Chance(1, 4) {
		return hx.Pick(g.r, []*Ty{colorTy, sizeTy})
	}
	return scalarTy(hx.Pick(g.r, scalarNames))
}

// gen draws a type. allowRec: a reference back to a definition under construction may be drawn
// here (never directly under a non-null wrapper: `input In { e: In! }` has no values).
func (g *typeGen) gen(depth int, allowRec bool) *Ty {
	if g.rich && allowRec && len(g.open) > 0 && g.r.Chance(1, 5) {
		return inputTy(hx.Pick(g.r, g.open))
	}
	if g.rich && len(g.finished) > 0 && g.r.Chance(1, 12) {
		return inputTy(hx.Pick(g.r, g.finished))
	}
	if depth <= 0 {
		return g.named()
	}
	switch n := g.r.Intn(100); {
	case n < 22:
		return g.named()
	case n < 45:
		nf := g.r.Range(1, 3)
		g.inputs++
		d := &InputDef{Name: fmt.Sprintf("In%d", g.inputs), Hooked: g.rich && g.r.Chance(1, 4)}
		g.open = append(g.open, d)
		for i := 0; i < nf; i++ {
			ft := g.gen(depth-1, true)
			f := &Field{Name: string(rune('a' + i)), Ty: ft}
			if g.r.Chance(2, 5) {
				g.wantDflt = append(g.wantDflt, f)
			}
			d.Fields = append(d.Fields, f)
		}
		g.open = g.open[:len(g.open)-1]
		g.finished = append(g.finished, d)
		return inputTy(d)
	case n < 75:
		return listTy(g.gen(depth-1, true))
	default:
		return nnTy(g.gen(depth-1, false))
	}
}

// top draws a complete type: all definitions finished, then the declared defaults.
func (g *typeGen) top(depth int) *Ty {
	t := g.gen(depth, false)
	for _, f := range g.wantDflt {
		f.Dflt = g.dflt(f.Ty)
	}
	g.wantDflt = nil
	return t
}

// dflt draws a declared default for a position of type t: a conforming Go value (the coercion of a
// valid client value in which every field of every object is written out, so that it does not
// depend on defaults declared later) or schema.Null at a nullable type. No default is declared
// when the value would contain the result of a hook (the harness counts hook invocations).
func (g *typeGen) dflt(t *Ty) *hx.Sexp {
	if t.K != "nn" && g.r.Chance(1, 4) {
		n := hx.A("nil")
		return &n
	}
	v := (&valueGen{r: g.r, explicit: true}).valid(t, false, true, 3)
	c, ok := refCoerce(t, v)
	if !ok {
		if hookInside(t, map[string]bool{}) {
			return nil // the symbolic hook rejected the drawn value
		}
		panic("generated default does not coerce: " + t.Sexp().String() + " " + v.String())
	}
	if strings.Contains(c.String(), "$hook") {
		return nil
	}
	return &c
}

func hookInside(t *Ty, seen map[string]bool) bool {
	switch t.K {
	case "list", "nn":
		return hookInside(t.Elem, seen)
	case "input":
		if t.Def.Hooked {
			return true
		}
		if seen[t.Name] {
			return false
		}
		seen[t.Name] = true
		for _, f := range t.Def.Fields {
			if hookInside(f.Ty, seen) {
				return true
			}
		}
	}
	return false
}

// ---- client values ---------------------------------------------------------------------------------

type valueGen struct {
	r        *hx.Rand
	junk     int  // per-node chance (in 100) of an arbitrary value instead of a valid one
	explicit bool // write every field of every object (null for the ones a budget cuts off)
	nulls    int  // per-node chance (in 100) of null at a nullable position; 0 = the usual 1 in 7
}

func (g *valueGen) drawNull() bool {
	if g.nulls > 0 {
		return g.r.Intn(100) < g.nulls
	}
	return g.r.Chance(1, 7)
}

func customLeaves(name string) []hx.Sexp {
	if name == "Even" {
		return []hx.Sexp{cvIntS("0"), cvIntS("2"), cvIntS("-4"), cvIntS("1000"), cvInt(pow2(53)), cvInt(pow2(62)), cvInt(neg(pow2(63)))}
	}
	return []hx.Sexp{cvStr("abc"), cvStr("1"), cvStr("RED"), cvStr("reject")}
}

// valid draws a value that coerces at t (but for what the symbolic hook rejects). asItem: the value
// is an item of a list value (a list type then needs a list or null). nonNull: do not draw null at
// the top. budget bounds the object nesting (recursive types).
func (g *valueGen) valid(t *Ty, asItem, nonNull bool, budget int) hx.Sexp {
	if g.junk > 0 && g.r.Intn(100) < g.junk {
		return g.arbitrary(2)
	}
	if t.K == "nn" {
		return g.valid(t.Elem, asItem, true, budget)
	}
	if !nonNull && (g.drawNull() || (budget <= 0 && t.K == "input")) {
		return cvNull
	}
	switch t.K {
	case "scalar", "enum":
		return hx.Pick(g.r, validLeaves(t))
	case "custom":
		return hx.Pick(g.r, customLeaves(t.Name))
	case "list":
		if !asItem && budget > 0 && g.r.Chance(1, 4) {
			// a single item in place of the list
			if v := g.valid(t.Elem, false, false, budget); !isNullX(v) && tag(v) != "list" {
				return v
			}
		}
		n := g.r.Intn(4)
		if budget <= 0 {
			n = 0
		}
		items := make([]hx.Sexp, n)
		for i := range items {
			items[i] = g.valid(t.Elem, true, false, budget)
		}
		return cvList(items...)
	case "input":
		out := []hx.Sexp{}
		for _, f := range t.Def.Fields {
			required := f.Ty.K == "nn" && f.Dflt == nil
			if required || g.explicit || g.r.Chance(3, 5) {
				out = append(out, kv(f.Name, g.valid(f.Ty, false, false, budget-1)))
			}
		}
		if g.junk > 0 && g.r.Intn(100) < g.junk/2 {
			out = append(out, kv("zz", hx.Pick(g.r, leafPool())))
		}
		if g.junk > 0 && len(out) > 0 && g.r.Intn(100) < g.junk/2 {
			out = out[1:]
		}
		return hx.N("obj", out...)
	}
	panic("bad type")
}

// arbitrary draws any client value.
func (g *valueGen) arbitrary(depth int) hx.Sexp {
	switch n := g.r.Intn(10); {
	case n < 6 || depth <= 0:
		if g.r.Chance(1, 8) {
			return cvNull
		}
		return hx.Pick(g.r, leafPool())
	case n < 8:
		k := g.r.Intn(3)
		items := make([]hx.Sexp, k)
		for i := range items {
			items[i] = g.arbitrary(depth - 1)
		}
		return cvList(items...)
	default:
		k := g.r.Intn(3)
		out := []hx.Sexp{}
		for i := 0; i < k; i++ {
			out = append(out, kv(string(rune('a'+i)), g.arbitrary(depth-1)))
		}
		return hx.N("obj", out...)
	}
}

// ---- spellings -----------------------------------------------------------------------------------

type mode int

const (
	mInline          mode = iota
	mVar                  // $x: L, value provided
	mVarStrict            // $x: L!, value provided (non-null values only)
	mVarNullableDflt      // $x: nullable(L) = <some literal>, value provided (also an explicit null)
	mVarDefaultUnset      // $x: L = <the value>, no runtime value
	mVarUnset             // $x: nullable(L), no default, no runtime value (omitted positions, null list items)
	mVarNearMiss          // $x: a type close to L but (usually) not compatible with it, value provided
	mVarGoKind            // $x: L, value provided as Go values of other kinds than encoding/json produces
)

type position struct {
	L          *Ty      // expected type (nil: the literal is at a place without one)
	v          *hx.Sexp // nil = nothing supplied here (omitted argument / field)
	isItem     bool
	locDefault bool
	top        bool
	leaf       bool // v is not a list / object
	depth      int
}

// nearMiss draws a type next to L: an inner non-null dropped, a list level added or removed, the
// named type swapped, the outer non-null dropped. validateVariableUsage has to reject the usage
// unless the result happens to be compatible.
func nearMiss(r *hx.Rand, L *Ty) *Ty {
	var loosen func(t *Ty, top bool) (*Ty, bool)
	loosen = func(t *Ty, top bool) (*Ty, bool) {
		switch t.K {
		case "nn":
			if !top {
				return t.Elem, true
			}
			if in, ok := loosen(t.Elem, false); ok {
				return &Ty{K: "nn", Elem: in}, true
			}
		case "list":
			if in, ok := loosen(t.Elem, false); ok {
				return listTy(in), true
			}
		}
		return t, false
	}
	var swap func(t *Ty) *Ty
	swap = func(t *Ty) *Ty {
		switch t.K {
		case "nn":
			return &Ty{K: "nn", Elem: swap(t.Elem)}
		case "list":
			return listTy(swap(t.Elem))
		case "scalar":
			for {
				if n := hx.Pick(r, scalarNames); n != t.Name {
					return scalarTy(n)
				}
			}
		case "enum":
			if t.Name == "Color" {
				return sizeTy
			}
			return colorTy
		}
		return scalarTy("String")
	}
	switch r.Intn(5) {
	case 0:
		if t, ok := loosen(L, true); ok {
			return t
		}
		return listTy(L)
	case 1:
		return listTy(L)
	case 2:
		if n := nullable(L); n.K == "list" {
			return n.Elem
		}
		return swap(L)
	case 3:
		return swap(L)
	default:
		if L.K == "nn" {
			return L.Elem
		}
		return listTy(nullable(L))
	}
}

// intKinds with their ranges.
var intKinds = []struct {
	name   string
	lo, hi *big.Int
}{
	{"i8", big.NewInt(-128), big.NewInt(127)}, {"u8", big.NewInt(0), big.NewInt(255)},
	{"i16", big.NewInt(-32768), big.NewInt(32767)}, {"u16", big.NewInt(0), big.NewInt(65535)},
	{"i32", big.NewInt(-2147483648), big.NewInt(2147483647)}, {"u32", big.NewInt(0), big.NewInt(4294967295)},
	{"i64", neg(pow2(63)), plus(pow2(63), -1)}, {"u64", big.NewInt(0), plus(pow2(64), -1)},
	{"int", neg(pow2(63)), plus(pow2(63), -1)}, {"uint", big.NewInt(0), plus(pow2(64), -1)},
}

func exactFloat32(h *big.Int) bool {
	f := halfToFloat(h)
	return float64(float32(f)) == f && exactFloat(h)
}

// goKindOf re-encodes a client value with Go kinds other than the JSON ones where it can: integers
// as a random sized integer kind that holds them (or float32), halves as float32, strings as []byte
// or json.Number, anything as an opaque Go value now and then. denotes=false: some part no longer
// denotes the client value (json.Number, []byte outside DateTime, opaque values) — those are
// rejected by every built-in coercer.
func goKindOf(r *hx.Rand, v hx.Sexp, denotes *bool) hx.Sexp {
	if !v.IsList {
		if r.Chance(1, 4) {
			*denotes = false
			return hx.N("other", hx.A("nilptr"))
		}
		return hx.A("null")
	}
	if r.Chance(1, 12) {
		*denotes = false
		return hx.N("other", hx.A(hx.Pick(r, otherTags)))
	}
	switch tag(v) {
	case "int":
		z := bigOf(v.List[1])
		if r.Chance(1, 8) {
			*denotes = false
			return hx.N("jsonnumber", hx.A(z.String()))
		}
		if h := new(big.Int).Lsh(z, 1); r.Chance(1, 6) && exactFloat32(h) {
			return hx.N("f32", bigA(h))
		}
		fits := []string{}
		for _, k := range intKinds {
			if within(z, k.lo, k.hi) {
				fits = append(fits, k.name)
			}
		}
		if len(fits) == 0 {
			return cvToJSON(v)
		}
		return hx.N("intk", hx.A(hx.Pick(r, fits)), bigA(z))
	case "half":
		if exactFloat32(bigOf(v.List[1])) && r.Bool() {
			return hx.N("f32", v.List[1])
		}
		return cvToJSON(v)
	case "str":
		if r.Chance(1, 3) {
			// []byte denotes the string only for DateTime (parseDateTime accepts it); elsewhere it is rejected
			*denotes = false
			return hx.N("bytes", v.List[1])
		}
		if r.Chance(1, 8) {
			*denotes = false
			return hx.N("jsonnumber", v.List[1])
		}
		return v
	case "list":
		out := []hx.Sexp{}
		for _, e := range v.List[1:] {
			out = append(out, goKindOf(r, e, denotes))
		}
		return hx.N("list", out...)
	case "obj":
		out := []hx.Sexp{}
		for _, e := range v.List[1:] {
			out = append(out, kv(e.List[0].Atom, goKindOf(r, e.List[1], denotes)))
		}
		return hx.N("obj", out...)
	}
	return cvToJSON(v)
}

type speller struct {
	pick     func(p *position) mode
	r        *hx.Rand // for the literal defaults of mVarNullableDflt
	varDefs  []varDef
	raw      []named
	goKinds  bool // some variable carries Go kinds other than JSON's …
	goBroken bool // … and some re-encoded part no longer denotes the client value
	lossy    bool // some lifted value is not kept by JSON / is a single item lifted at an item position
	gap      bool // a variable sits inside an object literal at a list-typed position (F-04d)
	n        int
}

func (s *speller) fresh() string { s.n++; return fmt.Sprintf("v%d", s.n) }

func fieldLocDefault(d *hx.Sexp) bool { return d != nil && !isNullX(*d) }

// spell writes the value at the position; written=false: nothing is written (omitted).
func (s *speller) spell(p position) (lit hx.Sexp, written bool) {
	m := mInline
	if p.L != nil {
		m = s.pick(&p)
	}
	if p.v == nil {
		if m == mVarUnset {
			name := s.fresh()
			s.varDefs = append(s.varDefs, varDef{Name: name, Ty: nullable(p.L)})
			return hx.N("var", hx.A(name)), true
		}
		return hx.Sexp{}, false
	}
	v := *p.v
	null := isNullX(v)
	if m == mVarUnset && !(null && p.isItem) {
		m = mInline
	}
	if m == mVarStrict && null {
		m = mVar
	}
	if !jsonExact(v) {
		m = mInline // a number JSON would round is never sent as a variable
	}
	if m != mInline {
		if !faithful(p.L, v) || (p.isItem && isListish(p.L) && !null && tag(v) != "list") {
			s.lossy = true
		}
		name := s.fresh()
		switch m {
		case mVar:
			s.varDefs = append(s.varDefs, varDef{Name: name, Ty: p.L})
			s.raw = append(s.raw, named{name, cvToJSON(v)})
		case mVarStrict:
			s.varDefs = append(s.varDefs, varDef{Name: name, Ty: nnTy(p.L)})
			s.raw = append(s.raw, named{name, cvToJSON(v)})
		case mVarNullableDflt:
			vt := nullable(p.L)
			d := cvToLit((&valueGen{r: s.r}).valid(vt, false, true, 2))
			s.varDefs = append(s.varDefs, varDef{Name: name, Ty: vt, Dflt: &d})
			s.raw = append(s.raw, named{name, cvToJSON(v)})
		case mVarDefaultUnset:
			d := cvToLit(v)
			s.varDefs = append(s.varDefs, varDef{Name: name, Ty: p.L, Dflt: &d})
		case mVarUnset:
			s.varDefs = append(s.varDefs, varDef{Name: name, Ty: nullable(p.L)})
		case mVarGoKind:
			denotes := true
			raw := goKindOf(s.r, v, &denotes)
			s.goKinds = true
			if !denotes {
				s.goBroken = true
			}
			s.varDefs = append(s.varDefs, varDef{Name: name, Ty: p.L})
			s.raw = append(s.raw, named{name, raw})
		case mVarNearMiss:
			// not a spelling of the same client value in general: only the model and the
			// conformance oracle judge it
			s.lossy = true
			s.varDefs = append(s.varDefs, varDef{Name: name, Ty: nearMiss(s.r, p.L)})
			s.raw = append(s.raw, named{name, cvToJSON(v)})
		}
		return hx.N("var", hx.A(name)), true
	}
	switch tag(v) {
	case "list":
		var elem *Ty
		if p.L != nil && nullable(p.L).K == "list" {
			elem = nullable(p.L).Elem
		}
		out := []hx.Sexp{}
		for i := range v.List[1:] {
			item := v.List[1+i]
			l, _ := s.spell(position{L: elem, v: &item, isItem: true, depth: p.depth + 1, leaf: tag(item) != "list" && tag(item) != "obj"})
			out = append(out, l)
		}
		return hx.N("list", out...), true
	case "obj":
		var in *Ty
		viaList := false
		if p.L != nil {
			t := nullable(p.L)
			for t.K == "list" && !p.isItem {
				// a single object in place of a list (of lists …) of objects
				viaList = true
				t = nullable(t.Elem)
			}
			if t.K == "input" {
				in = t
			}
		}
		before := len(s.varDefs)
		out := []hx.Sexp{}
		given := map[string]bool{}
		for _, e := range v.List[1:] {
			name, fv := e.List[0].Atom, e.List[1]
			given[name] = true
			pos := position{v: &fv, depth: p.depth + 1, leaf: tag(fv) != "list" && tag(fv) != "obj"}
			if in != nil {
				if f := in.field(name); f != nil {
					pos.L, pos.locDefault = f.Ty, fieldLocDefault(f.Dflt)
				}
			}
			l, _ := s.spell(pos)
			out = append(out, kv(name, l))
		}
		if in != nil {
			// fields the client value leaves out may still be written as an unset variable
			for _, f := range in.Def.Fields {
				if !given[f.Name] {
					if l, w := s.spell(position{L: f.Ty, v: nil, locDefault: fieldLocDefault(f.Dflt), depth: p.depth + 1}); w {
						out = append(out, kv(f.Name, l))
					}
				}
			}
		}
		if viaList && len(s.varDefs) > before {
			s.gap = true
		}
		return hx.N("obj", out...), true
	}
	return cvToLit(v), true
}

// Group: one argument `a: T [= default]` and one abstract client value for it, in several spellings.
type Group struct {
	Site   string `json:"site"`          // field | directive | skip | include
	Env    string `json:"env,omitempty"` // the input object types `type` refers to
	T      string `json:"type"`          // sexp
	Dflt   string `json:"default"`       // none | (some goval)
	V      string `json:"value"`         // cv sexp | omitted
	Extra  bool   `json:"extra_argument,omitempty"`
	Routes bool   `json:"all_routes,omitempty"`      // every spelling also against Clone() and through apifu.API
	ImplA  string `json:"impl_a_arg_defs,omitempty"` // polymorphic site: the implementers' definitions
	ImplB  string `json:"impl_b_arg_defs,omitempty"`
	Via    string `json:"via,omitempty"`
	Cases  []Case `json:"cases,omitempty"` // explicit spellings (random ones); empty = the deterministic set
	Lossy  []bool `json:"lossy,omitempty"`
	Gap    []bool `json:"gap,omitempty"`
	Sound  []bool `json:"sound,omitempty"`
	t      *Ty
	dflt   *hx.Sexp
	v      *hx.Sexp
	argDef string
}

func (g *Group) resolve() error {
	envText := g.Env
	if envText == "" {
		envText = "()"
	}
	ex, err := hx.ParseSexp(envText)
	if err != nil {
		return err
	}
	env, err := parseEnv(ex)
	if err != nil {
		return err
	}
	tx, err := hx.ParseSexp(g.T)
	if err != nil {
		return err
	}
	if g.t, err = parseTy(tx, env); err != nil {
		return err
	}
	dx, err := hx.ParseSexp(g.Dflt)
	if err != nil {
		return err
	}
	if g.dflt, err = parseDflt(dx); err != nil {
		return err
	}
	g.v = nil
	if g.V != "omitted" {
		vx, err := hx.ParseSexp(g.V)
		if err != nil {
			return err
		}
		g.v = &vx
	}
	return nil
}

func newGroup(site string, t *Ty, dflt *hx.Sexp, v *hx.Sexp, extra bool) *Group {
	defs := map[string]*InputDef{}
	collectDefs(t, defs)
	g := &Group{Site: site, Env: envSexp(defs).String(), T: t.Sexp().String(), Dflt: dfltSexp(dflt).String(), V: "omitted", Extra: extra, t: t, dflt: dflt, v: v}
	if v != nil {
		g.V = v.String()
	}
	return g
}

func (g *Group) argName() string {
	if g.Site == "skip" || g.Site == "include" {
		return "if"
	}
	return "a"
}

// build turns one spelling strategy into a case.
func (g *Group) build(label string, r *hx.Rand, pick func(p *position) mode) (Case, bool, bool, bool) {
	s := &speller{pick: pick, r: r}
	top := position{L: g.t, v: g.v, top: true, locDefault: g.dflt != nil}
	if g.Site != "field" && g.Site != "poly" {
		top.locDefault = fieldLocDefault(g.dflt)
	}
	if g.v != nil {
		top.leaf = tag(*g.v) != "list" && tag(*g.v) != "obj"
	}
	lit, written := s.spell(top)
	argDefs := []hx.Sexp{hx.L(hx.A(g.argName()), g.t.Sexp(), dfltSexp(g.dflt))}
	args := []hx.Sexp{}
	if written {
		args = append(args, kv(g.argName(), lit))
	}
	if g.Extra {
		three := hx.N("int", hx.I(3))
		argDefs = append(argDefs, hx.L(hx.A("z"), hx.A("Int"), dfltSexp(&three)))
		if r.Bool() {
			args = append(args, kv("z", hx.N("int", hx.I(1))))
		}
	}
	vds := []hx.Sexp{}
	for _, d := range s.varDefs {
		vds = append(vds, hx.L(hx.A(d.Name), d.Ty.Sexp(), dfltSexp(d.Dflt)))
	}
	raw := []hx.Sexp{}
	for _, x := range s.raw {
		raw = append(raw, kv(x.Name, x.V))
	}
	c := Case{Site: g.Site, Env: g.Env, ArgDefs: hx.L(argDefs...).String(), VarDefs: hx.L(vds...).String(),
		Args: hx.L(args...).String(), Raw: hx.L(raw...).String(), Label: label, ImplA: g.ImplA, ImplB: g.ImplB, Via: g.Via}
	// A Go-kind spelling is not compared with the other spellings (most kinds are refused), but when
	// every re-encoded part still denotes the client value an accepted result must be the reference's.
	sound := s.goKinds && !s.goBroken && !s.lossy
	return c, s.lossy || s.goKinds, s.gap, sound
}

type strategy struct {
	label string
	pick  func(p *position) mode
}

func topOnly(m mode) func(p *position) mode {
	return func(p *position) mode {
		if p.top {
			return m
		}
		return mInline
	}
}

var deterministic = []strategy{
	{"literal", func(p *position) mode { return mInline }},
	{"variable", topOnly(mVar)},
	{"variable(non-null type)", topOnly(mVarStrict)},
	{"variable(nullable, with default)", topOnly(mVarNullableDflt)},
	{"variable default, unset", topOnly(mVarDefaultUnset)},
	{"unset variable", topOnly(mVarUnset)},
	{"nested: every leaf a variable", func(p *position) mode {
		if !p.top && p.leaf && p.v != nil {
			return mVar
		}
		return mInline
	}},
	{"nested: every child a variable", func(p *position) mode {
		if p.depth == 1 && p.v != nil {
			return mVar
		}
		return mInline
	}},
	{"nested: leaves through nullable variables with defaults", func(p *position) mode {
		if !p.top && p.leaf && p.v != nil {
			return mVarNullableDflt
		}
		return mInline
	}},
	{"nested: leaves as variable defaults", func(p *position) mode {
		if !p.top && p.leaf && p.v != nil {
			return mVarDefaultUnset
		}
		return mInline
	}},
	{"nested: unset variables for null items and omitted fields", func(p *position) mode {
		if !p.top {
			return mVarUnset
		}
		return mInline
	}},
	{"variable of Go kinds", topOnly(mVarGoKind)},
	{"nested: leaves as variables of Go kinds", func(p *position) mode {
		if !p.top && p.leaf && p.v != nil {
			return mVarGoKind
		}
		return mInline
	}},
	{"variable of a near-miss type", topOnly(mVarNearMiss)},
	{"nested: leaves through variables of near-miss types", func(p *position) mode {
		if !p.top && p.leaf && p.v != nil {
			return mVarNearMiss
		}
		return mInline
	}},
}

func randomStrategy(r *hx.Rand) strategy {
	w := []int{r.Range(1, 6), r.Range(0, 4), r.Range(0, 2), r.Range(0, 3), r.Range(0, 2), r.Range(0, 2), r.Intn(2), r.Intn(3)}
	total := 0
	for _, x := range w {
		total += x
	}
	return strategy{"random", func(p *position) mode {
		n := r.Intn(total)
		for i, x := range w {
			if n < x {
				return mode(i)
			}
			n -= x
		}
		return mInline
	}}
}

// spellings returns the group's cases (explicit ones when present, else the deterministic set plus
// `random` random spellings), without duplicates.
func (g *Group) spellings(r *hx.Rand, random int) (cases []Case, lossy, gap, sound []bool) {
	if len(g.Cases) > 0 {
		sound = g.Sound
		if len(sound) != len(g.Cases) {
			sound = make([]bool, len(g.Cases))
		}
		return g.Cases, g.Lossy, g.Gap, sound
	}
	seen := map[string]bool{}
	add := func(s strategy) {
		c, l, gp, sd := g.build(s.label, r, s.pick)
		key := c.ArgDefs + c.VarDefs + c.Args + c.Raw
		if seen[key] {
			return
		}
		seen[key] = true
		cases, lossy, gap, sound = append(cases, c), append(lossy, l), append(gap, gp), append(sound, sd)
	}
	for _, s := range deterministic {
		add(s)
	}
	for i := 0; i < random; i++ {
		add(randomStrategy(r))
	}
	return
}
