package main

// Definitions that DIFFER between an interface field and the fields of the object types implementing
// it. The specification (and the unchanged `schema.New`: `satisfyInterface` demands `IsSameType` for
// every argument the interface declares) refuses an implementer whose argument type is not the
// interface's. That refusal is itself part of what keeps the property: validation checks variable
// usages against the definition the selection's PARENT type gives (the interface's), the executor
// coerces with the definition of the field that actually runs (the object's), and
// `CoerceArgumentValues` copies a variable's value without looking at it again. So the generator
// TRIES implementers whose argument differs from the interface's:
//
//   * nullability changed at any wrapper level (narrower: `[Int!]` for `[Int]`; wider: `[Int]` for
//     `[Int!]!`),
//   * another input-object type (a copy of the interface's under another name: identical, a field
//     narrower / wider, a default added / dropped, an optional field added, a field dropped),
//   * a list level added / removed, the named type swapped (`nearMiss`),
//
// next to what the first version of this site already varied (other defaults, an extra optional
// argument). What `graphql.NewSchema` refuses is discarded and counted (`poly-variant:<kind>:refused`);
// what it accepts is used like any other polymorphic group — documents that reach the field through
// the interface, through `... on Node` below a union, and through `... on A` / `... on B` (where
// validation sees the object's own definition), all spellings, variable values that conform to the
// DECLARED VARIABLE TYPE — and judged by the oracle of poly.go: every resolver observes the reference
// coercion, and a conforming value, for ITS OWN definitions.

import (
	"errors"
	"fmt"

	"verifharness/hx"
)

var errPolySchema = errors.New("schema rejected")

// spine: the wrappers of a type from the outside in. nn[i] says whether level i is non-null; level
// 0 is the whole type, level i+1 the items of the list at level i, the last level the named type.
type spine struct {
	nn    []bool
	named *Ty
}

func spineOf(t *Ty) spine {
	var s spine
	for {
		non := false
		if t.K == "nn" {
			non, t = true, t.Elem
		}
		s.nn = append(s.nn, non)
		if t.K != "list" {
			s.named = t
			return s
		}
		t = t.Elem
	}
}

func (s spine) build() *Ty {
	t := s.named
	for i := len(s.nn) - 1; i >= 0; i-- {
		if i < len(s.nn)-1 {
			t = listTy(t)
		}
		if s.nn[i] {
			t = nnTy(t)
		}
	}
	return t
}

// toggled: the type with the nullability of one level flipped.
func toggled(r *hx.Rand, t *Ty) (*Ty, string) {
	s := spineOf(t)
	i := r.Intn(len(s.nn))
	s.nn[i] = !s.nn[i]
	kind := "wider"
	if s.nn[i] {
		kind = "narrower"
	}
	where := "item"
	if i == 0 {
		where = "top"
	}
	return s.build(), fmt.Sprintf("%s nullability (%s level)", kind, where)
}

var variantSerial int

// otherInput: a copy of the definition under another name, changed in one respect. Declared defaults
// stay conforming (a default that no longer conforms to a narrowed field type is dropped).
func otherInput(r *hx.Rand, tg *typeGen, d *InputDef) (*InputDef, string) {
	variantSerial++
	c := &InputDef{Name: fmt.Sprintf("%sv%d", d.Name, variantSerial), Hooked: d.Hooked}
	for _, f := range d.Fields {
		g := *f
		c.Fields = append(c.Fields, &g)
	}
	f := hx.Pick(r, c.Fields)
	switch r.Intn(6) {
	case 0:
		return c, "input object: identical copy under another name"
	case 1, 2:
		nt, kind := toggled(r, f.Ty)
		f.Ty = nt
		if f.Dflt != nil && !conformsGo(nt, *f.Dflt) {
			f.Dflt = nil
		}
		return c, "input object: field of " + kind
	case 3:
		if f.Dflt != nil {
			f.Dflt = nil
			return c, "input object: field default dropped"
		}
		if !hookInside(f.Ty, map[string]bool{}) {
			f.Dflt = tg.dflt(f.Ty)
		}
		return c, "input object: field default added"
	case 4:
		o := &Field{Name: "o", Ty: scalarTy("Int")}
		if r.Bool() {
			seven := hx.N("int", hx.I(7))
			o.Dflt = &seven
		}
		c.Fields = append(c.Fields, o)
		return c, "input object: optional field added"
	default:
		if len(c.Fields) < 2 {
			return c, "input object: identical copy under another name"
		}
		out := c.Fields[:0]
		for _, x := range c.Fields {
			if x != f {
				out = append(out, x)
			}
		}
		c.Fields = out
		return c, "input object: field dropped"
	}
}

// variantOf draws an argument type for an implementing field that differs from the interface's.
func variantOf(r *hx.Rand, tg *typeGen, t *Ty) (*Ty, string) {
	s := spineOf(t)
	n := r.Intn(10)
	switch {
	case s.named.K == "input" && n < 4:
		d, kind := otherInput(r, tg, s.named.Def)
		s.named = inputTy(d)
		return s.build(), kind
	case n < 8:
		return toggled(r, t)
	default:
		return nearMiss(r, t), "near miss (list level / named type / non-null)"
	}
}

// polyVariantOf: which implementer's argument `a` has another type than the interface's.
func polyVariantOf(c *Case) bool {
	env := map[string]*InputDef{}
	if pc, err := c.parse(); err == nil {
		env = pc.env
	}
	iface, err := parseArgDefs(c.ArgDefs, env)
	if err != nil || len(iface) == 0 {
		return false
	}
	want := iface[0].Ty.Sexp().String()
	for _, text := range []string{c.ImplA, c.ImplB} {
		defs, err := parseArgDefs(text, env)
		if err != nil {
			continue
		}
		has := false
		for _, d := range defs {
			if d.Name == iface[0].Name {
				has = true
				if d.Ty.Sexp().String() != want {
					return true
				}
			} else if d.Ty.K == "nn" {
				return true // an additional argument the interface does not declare, and required
			}
		}
		if !has {
			return true // the interface's argument is missing
		}
	}
	return false
}

// newPolyGroupTypes: like newPolyGroup with the implementers' own argument types.
func newPolyGroupTypes(t, tA, tB *Ty, dI, dA, dB *hx.Sexp, v *hx.Sexp, via string) *Group {
	return newPolyGroupShape(t, tA, tB, dI, dA, dB, v, via, "")
}

// The other two demands of `satisfyInterface` on arguments, as shapes to try: the implementer lacks an
// argument the interface declares ("A lacks the argument"); it declares an additional REQUIRED one
// ("B's additional argument is required": `x: Int!` without a default, which no document written
// against the interface can supply).
const (
	shapeLacks    = "A lacks the interface's argument"
	shapeRequired = "B's additional argument is required"
)

func newPolyGroupShape(t, tA, tB *Ty, dI, dA, dB *hx.Sexp, v *hx.Sexp, via string, shape string) *Group {
	g := newGroup("poly", t, dI, v, false)
	defs := map[string]*InputDef{}
	for _, x := range []*Ty{t, tA, tB} {
		collectDefs(x, defs)
	}
	g.Env = envSexp(defs).String()
	nine := hx.N("int", hx.I(9))
	g.ImplA = hx.L(hx.L(hx.A("a"), tA.Sexp(), dfltSexp(dA))).String()
	g.ImplB = hx.L(hx.L(hx.A("a"), tB.Sexp(), dfltSexp(dB)), hx.L(hx.A("x"), hx.A("Int"), dfltSexp(&nine))).String()
	switch shape {
	case shapeLacks:
		g.ImplA = hx.L().String()
	case shapeRequired:
		g.ImplB = hx.L(hx.L(hx.A("a"), tB.Sexp(), dfltSexp(dB)), hx.L(hx.A("x"), nnTy(scalarTy("Int")).Sexp(), dfltSexp(nil))).String()
	}
	g.Via = via
	return g
}

// polyAccepted: does the library take a schema in which Node.f, A.f and B.f declare these argument
// types? (Defaults play no part in `satisfyInterface`.)
func polyAccepted(t, tA, tB *Ty) (bool, string) { return polyAcceptedShape(t, tA, tB, "") }

func polyAcceptedShape(t, tA, tB *Ty, shape string) (bool, string) {
	g := newPolyGroupShape(t, tA, tB, nil, nil, nil, nil, "interface-list", shape)
	c, _, _, _ := g.build("literal", hx.NewRand(1), func(*position) mode { return mInline })
	_, _, _, err := runRealPoly(&c)
	if err != nil {
		return false, err.Error()
	}
	return true, ""
}

// polyVariantsExhaustive: every wrapper form of a few named types × the nullability of every level
// flipped × implementer A or B — each tried against schema.New; the accepted ones become groups
// (two client values each, nulls wherever the interface's type allows one).
func (h *harness) polyVariantsExhaustive() []*Group {
	run := h.run
	r := run.Rand.Fork()
	in := &InputDef{Name: "InP", Fields: []*Field{{Name: "a", Ty: scalarTy("Int")}, {Name: "b", Ty: listTy(scalarTy("Int"))}}}
	var groups []*Group
	for _, named := range []*Ty{scalarTy("Int"), scalarTy("String"), colorTy, inputTy(in)} {
		for _, t := range wrapForms(named) {
			s := spineOf(t)
			for lvl := range s.nn {
				v := spineOf(t)
				v.nn[lvl] = !v.nn[lvl]
				tv := v.build()
				kind := "wider"
				if v.nn[lvl] {
					kind = "narrower"
				}
				for which := 0; which < 2; which++ {
					tA, tB := tv, t
					if which == 1 {
						tA, tB = t, tv
					}
					ok, _ := polyAccepted(t, tA, tB)
					if !ok {
						run.Count("poly-variant(exhaustive):" + kind + " nullability: refused by schema.New (discarded)")
						continue
					}
					run.Count("poly-variant(exhaustive):" + kind + " nullability: ACCEPTED by schema.New (used)")
					for i := 0; i < 2; i++ {
						x := (&valueGen{r: r, nulls: 30}).valid(t, false, false, 3)
						via := []string{"interface-list", "union-fragment"}[i]
						groups = append(groups, newPolyGroupTypes(t, tA, tB, nil, nil, nil, &x, via))
					}
				}
			}
		}
	}
	return groups
}
