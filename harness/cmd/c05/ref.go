package main

// The model-free side of the oracle: an independent Go reference of GraphQL input coercion
// (written from the June-2018 specification text, no item-to-list flag) and the conformance
// predicate evaluated directly on what a resolver observed.

import (
	"math/big"
	"sort"

	"verifharness/hx"
)

var (
	bigMinInt32 = big.NewInt(-2147483648)
	bigMaxInt32 = big.NewInt(2147483647)
	bigMinInt64 = new(big.Int).Neg(new(big.Int).Lsh(big.NewInt(1), 63))
	bigMaxInt64 = new(big.Int).Sub(new(big.Int).Lsh(big.NewInt(1), 63), big.NewInt(1))
	bigMaxSafe  = new(big.Int).Sub(new(big.Int).Lsh(big.NewInt(1), 53), big.NewInt(1))
	bigMinSafe  = new(big.Int).Neg(bigMaxSafe)
)

func within(z, lo, hi *big.Int) bool { return z.Cmp(lo) >= 0 && z.Cmp(hi) <= 0 }

func isListish(t *Ty) bool { return nullable(t).K == "list" }

// refScalar: §3.5 and the descriptions of DateTime / LongInt.
func refScalar(name string, v hx.Sexp) (hx.Sexp, bool) {
	k := tag(v)
	switch name {
	case "Int":
		if k == "int" && within(bigOf(v.List[1]), bigMinInt32, bigMaxInt32) {
			return v, true
		}
	case "Float":
		if k == "int" {
			return hx.N("float", bigA(new(big.Int).Lsh(bigOf(v.List[1]), 1))), true
		}
		if k == "half" {
			return hx.N("float", v.List[1]), true
		}
	case "String":
		if k == "str" {
			return v, true
		}
	case "Boolean":
		if k == "bool" {
			return v, true
		}
	case "ID":
		if k == "str" {
			return v, true
		}
		if k == "int" && within(bigOf(v.List[1]), bigMinInt64, bigMaxInt64) {
			return v, true
		}
	case "DateTime":
		if k == "str" {
			if c, ok := parseDateTime(v.List[1].Atom); ok {
				return hx.N("time", hx.A(c)), true
			}
		}
	case "LongInt":
		if k == "int" && within(bigOf(v.List[1]), bigMinSafe, bigMaxSafe) {
			return hx.N("long", v.List[1]), true
		}
	}
	return hx.Sexp{}, false
}

// refCoerce is the input coercion of the client value v at type t.
func refCoerce(t *Ty, v hx.Sexp) (hx.Sexp, bool) {
	if t.K == "nn" {
		if isNullX(v) {
			return hx.Sexp{}, false
		}
		return refCoerce(t.Elem, v)
	}
	if isNullX(v) {
		return hx.A("nil"), true
	}
	switch t.K {
	case "scalar":
		return refScalar(t.Name, v)
	case "custom":
		return refCustom(t.Name, v)
	case "enum":
		if tag(v) == "enum" {
			for _, n := range t.Vals {
				if n == v.List[1].Atom {
					if d, ok := declaredGo(t.Name, n); ok {
						return d, true // the Go value the schema declares for it
					}
					return v, true
				}
			}
		}
		return hx.Sexp{}, false
	case "list":
		if tag(v) == "list" {
			out := []hx.Sexp{}
			for _, item := range v.List[1:] {
				// an item for a list type has to be a list itself (or null)
				if isListish(t.Elem) && !(tag(item) == "list" || isNullX(item)) {
					return hx.Sexp{}, false
				}
				c, ok := refCoerce(t.Elem, item)
				if !ok {
					return hx.Sexp{}, false
				}
				out = append(out, c)
			}
			return hx.N("list", out...), true
		}
		c, ok := refCoerce(t.Elem, v)
		if !ok {
			return hx.Sexp{}, false
		}
		return hx.N("list", c), true
	case "input":
		if tag(v) != "obj" {
			return hx.Sexp{}, false
		}
		given := map[string]hx.Sexp{}
		for _, e := range v.List[1:] {
			name := e.List[0].Atom
			if t.field(name) == nil {
				return hx.Sexp{}, false
			}
			if _, dup := given[name]; dup {
				return hx.Sexp{}, false
			}
			given[name] = e.List[1]
		}
		names := []string{}
		vals := map[string]hx.Sexp{}
		for _, f := range t.Def.Fields {
			if fv, ok := given[f.Name]; ok {
				c, ok := refCoerce(f.Ty, fv)
				if !ok {
					return hx.Sexp{}, false
				}
				vals[f.Name] = c
			} else if f.Dflt != nil {
				vals[f.Name] = *f.Dflt
			} else if f.Ty.K == "nn" {
				return hx.Sexp{}, false
			} else {
				continue
			}
			names = append(names, f.Name)
		}
		sort.Strings(names)
		out := []hx.Sexp{}
		for _, n := range names {
			out = append(out, kv(n, vals[n]))
		}
		m := hx.N("obj", out...)
		if t.Def.Hooked {
			// the hook sees the complete coerced map; its error is a coercion error, its result the value
			if hookRejects(m) {
				return hx.Sexp{}, false
			}
			return hookWrap(t.Name, m), true
		}
		return m, true
	}
	panic("bad type")
}

// ---- the symbolic hook and custom scalars (specification side) -------------------------------------

func hookRejects(m hx.Sexp) bool {
	for _, e := range m.List[1:] {
		if s := e.List[1].String(); s == "(str reject)" || s == "(int 13)" {
			return true
		}
	}
	return false
}

func hookWrap(name string, m hx.Sexp) hx.Sexp {
	return hx.N("obj", kv("$fields", m), kv("$hook", hx.N("str", hx.A(name))))
}

func customWrap(name string, v hx.Sexp) hx.Sexp {
	return hx.N("obj", kv("$scalar", hx.N("str", hx.A(name))), kv("$value", v))
}

// refCustom: Even = an even integer in the int64 range; Tag = a non-empty string.
func refCustom(name string, v hx.Sexp) (hx.Sexp, bool) {
	switch name {
	case "Even":
		if tag(v) == "int" {
			z := bigOf(v.List[1])
			if z.Bit(0) == 0 && within(z, bigMinInt64, bigMaxInt64) {
				return customWrap("Even", v), true
			}
		}
	case "Tag":
		if tag(v) == "str" && v.List[1].Atom != "" {
			return customWrap("Tag", v), true
		}
	}
	return hx.Sexp{}, false
}

// refArg is CoerceArgumentValues for one argument: v == nil means "no value supplied" (argument
// omitted or an unset variable). present=false: no entry in the coerced map.
func refArg(t *Ty, dflt *hx.Sexp, v *hx.Sexp) (val hx.Sexp, present bool, ok bool) {
	if v == nil {
		if dflt != nil {
			return *dflt, true, true
		}
		if t.K == "nn" {
			return hx.Sexp{}, false, false
		}
		return hx.Sexp{}, false, true
	}
	c, ok := refCoerce(t, *v)
	return c, ok, ok
}

// conformsGo: the shape a resolver may rely on, on the dump of what it observed.
func conformsGo(t *Ty, x hx.Sexp) bool {
	if t.K == "nn" {
		return !isNullX(x) && conformsGo(t.Elem, x)
	}
	if isNullX(x) {
		return true
	}
	switch t.K {
	case "custom":
		// "an output of the coercer": the wrapper of this scalar around a value the coercer accepts
		if tag(x) != "obj" || len(x.List) != 3 || x.List[1].List[0].Atom != "$scalar" || x.List[2].List[0].Atom != "$value" {
			return false
		}
		if x.List[1].List[1].String() != hx.N("str", hx.A(t.Name)).String() {
			return false
		}
		val := x.List[2].List[1]
		switch t.Name {
		case "Even":
			return tag(val) == "int" && bigOf(val.List[1]).Bit(0) == 0 && within(bigOf(val.List[1]), bigMinInt64, bigMaxInt64)
		case "Tag":
			return tag(val) == "str" && val.List[1].Atom != ""
		}
		return false
	case "scalar":
		k := tag(x)
		switch t.Name {
		case "Int":
			return k == "int" && within(bigOf(x.List[1]), bigMinInt32, bigMaxInt32)
		case "Float":
			return k == "float"
		case "String":
			return k == "str"
		case "Boolean":
			return k == "bool"
		case "ID":
			return k == "str" || (k == "int" && within(bigOf(x.List[1]), bigMinInt64, bigMaxInt64))
		case "DateTime":
			return k == "time"
		case "LongInt":
			return k == "long" && within(bigOf(x.List[1]), bigMinSafe, bigMaxSafe)
		}
		return false
	case "enum":
		if t.Name == "Unit" {
			for _, n := range t.Vals {
				if d, _ := declaredGo(t.Name, n); d.String() == x.String() {
					return true
				}
			}
			return false
		}
		if tag(x) != "enum" {
			return false
		}
		for _, n := range t.Vals {
			if n == x.List[1].Atom {
				return true
			}
		}
		return false
	case "list":
		if tag(x) != "list" {
			return false
		}
		for _, e := range x.List[1:] {
			if !conformsGo(t.Elem, e) {
				return false
			}
		}
		return true
	case "input":
		if tag(x) != "obj" {
			return false
		}
		if t.Def.Hooked {
			// the hook's result on a complete conforming map it accepts
			if len(x.List) != 3 || x.List[1].List[0].Atom != "$fields" || x.List[2].List[0].Atom != "$hook" ||
				x.List[2].List[1].String() != hx.N("str", hx.A(t.Name)).String() {
				return false
			}
			x = x.List[1].List[1]
			if tag(x) != "obj" || hookRejects(x) {
				return false
			}
		}
		seen := map[string]hx.Sexp{}
		for _, e := range x.List[1:] {
			if t.field(e.List[0].Atom) == nil {
				return false
			}
			seen[e.List[0].Atom] = e.List[1]
		}
		for _, f := range t.Def.Fields {
			if v, ok := seen[f.Name]; ok {
				if !conformsGo(f.Ty, v) {
					return false
				}
			} else if f.Ty.K == "nn" || f.Dflt != nil {
				return false
			}
		}
		return true
	}
	return false
}

// faithful: JSON keeps enough of the client value for the type it is sent to (no float-syntax
// integral number where only integers are accepted, no bare name where a string is accepted, no
// string where an enum is expected). Outside this set the literal and the JSON spelling are
// different inputs and the route oracle does not compare them.
func faithful(t *Ty, v hx.Sexp) bool {
	if isNullX(v) {
		return true
	}
	t = nullable(t)
	switch t.K {
	case "custom":
		// Even takes integers only (JSON 2.0 is 2), Tag takes strings (a bare name written in JSON is a string)
		switch tag(v) {
		case "half":
			return t.Name != "Even" || new(big.Int).Rem(bigOf(v.List[1]), big.NewInt(2)).Sign() != 0
		case "enum":
			return t.Name != "Tag"
		}
		return true
	case "scalar":
		switch tag(v) {
		case "half":
			integral := t.Name == "Int" || t.Name == "ID" || t.Name == "LongInt"
			return !integral || new(big.Int).Rem(bigOf(v.List[1]), big.NewInt(2)).Sign() != 0
		case "enum":
			return !(t.Name == "String" || t.Name == "ID" || t.Name == "DateTime")
		}
		return true
	case "enum":
		return tag(v) != "str"
	case "list":
		if tag(v) == "list" {
			for _, e := range v.List[1:] {
				if !faithful(t.Elem, e) {
					return false
				}
			}
			return true
		}
		return faithful(t.Elem, v)
	case "input":
		if tag(v) == "obj" {
			for _, e := range v.List[1:] {
				if f := t.field(e.List[0].Atom); f != nil && !faithful(f.Ty, e.List[1]) {
					return false
				}
			}
		}
		return true
	}
	return true
}
