package main

// Document forms. The handler decides from (document, operationName) whether a start is a
// subscription (graphql.IsSubscription) and passes operationName and variables on to the executor;
// with one anonymous operation per document and inline arguments none of that is exercised. A share
// of the start frames therefore names its operation, hides it among decoy operations of the other
// class (a query next to a subscription and vice versa; the decoy carries tag -7, so a result or a
// source for it is attributed to no operation of the session), or passes its tag through variables.
// The model is unchanged: an operation is its kind.
//
// Two more ways for a subscription to fail: the resolver returns something that is not a source
// stream / a nil stream (graphqlws.go answers these with an error result, like a Subscribe error —
// the model's `subFail`).

import (
	"fmt"
	"os"

	apifu "github.com/ccbrown/api-fu"
	"github.com/ccbrown/api-fu/graphql"
)

// formsOn: set VERIF_C08_FORMS=0 to play every start frame with one anonymous operation.
var formsOn = os.Getenv("VERIF_C08_FORMS") != "0"

var formNames = []string{"anonymous", "named", "decoy-first", "decoy-last", "variables", "decoy+variables", "no-stream", "nil-stream"}

// formApplies: the plain kinds with synchronous resolvers and small payloads.
func formApplies(st Step) bool {
	if st.Op != "frame" || st.F != "start" || st.Big > 0 || st.Async > 0 {
		return false
	}
	switch st.Kind {
	case "query", "mutation", "subscription":
		return st.Form%len(formNames) <= 5
	case "subfail":
		return true
	}
	return false
}

// formDoc returns the document and the rest of the payload object (operationName, variables).
func formDoc(kind string, gen, form int) (string, string) {
	form %= len(formNames)
	name := fmt.Sprintf("Op%d", gen)
	vars := form == 4 || form == 5
	arg := fmt.Sprintf("tag:%d", gen)
	decl := ""
	if vars {
		arg, decl = "tag:$t", "($t:Int)"
	}
	var op, decoy string
	switch kind {
	case "query":
		op = fmt.Sprintf("query %s%s{q(%s)}", name, decl, arg)
		decoy = "subscription Decoy{s(tag:-7)}"
	case "mutation":
		op = fmt.Sprintf("mutation %s%s{m(%s)}", name, decl, arg)
		decoy = "subscription Decoy{s(tag:-7)}"
	case "subscription":
		op = fmt.Sprintf("subscription %s%s{s(%s)}", name, decl, arg)
		decoy = "query Decoy{q(tag:-7)}"
	case "subfail":
		switch form {
		case 6:
			return fmt.Sprintf("subscription{sn(tag:%d)}", gen), ""
		case 7:
			return fmt.Sprintf("subscription{sz(tag:%d)}", gen), ""
		}
		op = fmt.Sprintf("subscription %s%s{s(%s,fail:true)}", name, decl, arg)
		decoy = "mutation Decoy{m(tag:-7)}"
	}
	doc := op
	switch form {
	case 2, 5:
		doc = decoy + " " + op
	case 3:
		doc = op + " " + decoy
	}
	extra := fmt.Sprintf(`,"operationName":"%s"`, name)
	if vars {
		extra += fmt.Sprintf(`,"variables":{"t":%d}`, gen)
	}
	return doc, extra
}

// nothingSelectedDoc: half of the spellings of an `invalid` start (an operation that is answered
// with one result and one complete without any resolver being called) are valid documents whose only
// root field is switched off by @skip / @include, through a variable or a literal: the executor
// collects no field. A query or mutation then yields empty data; a subscription has no root field
// to subscribe to (graphql.Subscribe returns an error) — but being a subscription it first passes
// HandleStart's duplicate-id check, so that spelling is only used on an id no map entry holds.
func nothingSelectedDoc(gen, variant int, idFree bool) (string, string, bool) {
	switch variant % 8 {
	case 4:
		return fmt.Sprintf("query Off%d($off:Boolean!){q(tag:%d) @skip(if:$off)}", gen, gen), `,"variables":{"off":true}`, true
	case 5:
		return fmt.Sprintf("mutation Off%d($on:Boolean!){m(tag:%d) @include(if:$on)}", gen, gen), `,"variables":{"on":false}`, true
	case 6:
		if idFree {
			return fmt.Sprintf("subscription Off%d($off:Boolean!){s(tag:%d) @skip(if:$off)}", gen, gen), `,"variables":{"off":true}`, true
		}
	case 7:
		if idFree {
			return fmt.Sprintf("subscription{s(tag:%d) @include(if:false)}", gen), "", true
		}
	}
	return "", "", false
}

// formShare gives 3 in 8 of the eligible start frames of a session a document form, derived from
// the step itself (no further random draws: sessions stay what they were otherwise).
func formShare(s *Session) {
	for i := range s.Steps {
		st := &s.Steps[i]
		if st.Op != "frame" || st.F != "start" {
			continue
		}
		h := (st.Variant*7 + i*5 + st.ID*3 + len(s.Steps)) % 16
		if h >= 1 && h <= 7 {
			st.Form = h
			if !formApplies(*st) {
				st.Form = 0
			}
		}
	}
	for i := range s.Peers {
		formShare(&s.Peers[i])
	}
}

func addNoStreamFields(cfg *apifu.Config, record func(ctx graphql.FieldContext, gen int, kind string)) {
	tagArg := map[string]*graphql.InputValueDefinition{"tag": {Type: graphql.IntType}}
	cfg.AddSubscription("sn", &graphql.FieldDefinition{Type: graphql.IntType, Arguments: tagArg,
		Resolve: func(ctx graphql.FieldContext) (interface{}, error) {
			t := intArg(ctx, "tag")
			if ctx.IsSubscribe {
				record(ctx, t, "subfail")
			}
			return t, nil // not a source stream
		}})
	cfg.AddSubscription("sz", &graphql.FieldDefinition{Type: graphql.IntType, Arguments: tagArg,
		Resolve: func(ctx graphql.FieldContext) (interface{}, error) {
			if ctx.IsSubscribe {
				record(ctx, intArg(ctx, "tag"), "subfail")
				return (*apifu.SubscriptionSourceStream)(nil), nil
			}
			return nil, fmt.Errorf("subscriptions are not supported using this protocol")
		}})
}
