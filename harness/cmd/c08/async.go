package main

// Asynchronously resolved payloads. api-fu keeps ONE apiRequest per WebSocket subscription and runs
// the executor (and its idle handler) once per source event, so the apifu.Go / apifu.Batch machinery
// is re-entered for every event of a subscription — a route into the shared helpers that
// synchronous resolvers never take. A share of the operations therefore selects an object whose
// fields are resolved with apifu.Go (`v`) and apifu.Batch (`w`):
//
//	mode 1: { v }    the Go task finishes a moment after it was started (a lookup)
//	mode 2: { v w }  the batch resolver — which api-fu only calls from the idle handler, i.e. when
//	                 the executor is stuck — releases the Go task, which then finishes a moment later:
//	                 the task is still running when the executor goes idle
//
// Timing never decides pass or fail on a correct implementation: whatever the interleaving, each
// event must yield exactly one result carrying its value. It only decides how likely a broken
// hand-over between the task and the idle handler is to show.

import (
	"fmt"
	"sync/atomic"
	"time"

	apifu "github.com/ccbrown/api-fu"
	"github.com/ccbrown/api-fu/graphql"
)

var asyncReleaseTimeouts, asyncTasks int64

type asyncValue struct {
	val     int
	release chan struct{} // closed by the batch resolver
	batched bool          // `w` is selected (mode 2)
}

var asyncValueType = &graphql.ObjectType{
	Name: "AsyncValue",
	Fields: map[string]*graphql.FieldDefinition{
		"v": {
			Type: graphql.IntType,
			Resolve: func(ctx graphql.FieldContext) (interface{}, error) {
				o := ctx.Object.(*asyncValue)
				atomic.AddInt64(&asyncTasks, 1)
				return apifu.Go(ctx.Context, func() (interface{}, error) {
					if o.batched {
						select {
						case <-o.release:
						case <-time.After(250 * time.Millisecond): // the batch never ran (cancelled context): do not wait for it
							atomic.AddInt64(&asyncReleaseTimeouts, 1)
						}
					}
					time.Sleep(400 * time.Microsecond)
					return o.val, nil
				}), nil
			},
		},
		"w": {
			Type: graphql.IntType,
			Resolve: apifu.Batch(func(items []graphql.FieldContext) []graphql.ResolveResult {
				out := make([]graphql.ResolveResult, len(items))
				for i, it := range items {
					o := it.Object.(*asyncValue)
					select {
					case <-o.release:
					default:
						close(o.release)
					}
					out[i] = graphql.ResolveResult{Value: o.val}
				}
				return out
			}),
		},
	},
}

func newAsyncValue(val int, mode int) *asyncValue {
	return &asyncValue{val: val, release: make(chan struct{}), batched: mode == 2}
}

func asyncSelection(mode int) string {
	if mode == 2 {
		return "{v w}"
	}
	return "{v}"
}

// addAsyncFields adds `qa` (query), `ma` (mutation) and `sa` (subscription) to the harness schema.
func addAsyncFields(cfg *apifu.Config, w *world, record func(ctx graphql.FieldContext, gen int, kind string)) {
	args := map[string]*graphql.InputValueDefinition{"tag": {Type: graphql.IntType}, "mode": {Type: graphql.IntType}}
	cfg.AddNamedType(asyncValueType)
	cfg.AddQueryField("qa", &graphql.FieldDefinition{Type: asyncValueType, Arguments: args,
		Resolve: func(ctx graphql.FieldContext) (interface{}, error) {
			t := intArg(ctx, "tag")
			record(ctx, t, "query")
			return newAsyncValue(t, intArg(ctx, "mode")), nil
		}})
	cfg.AddMutation("ma", &graphql.FieldDefinition{Type: asyncValueType, Arguments: args,
		Resolve: func(ctx graphql.FieldContext) (interface{}, error) {
			t := intArg(ctx, "tag")
			record(ctx, t, "mutation")
			return newAsyncValue(t, intArg(ctx, "mode")), nil
		}})
	cfg.AddSubscription("sa", &graphql.FieldDefinition{Type: asyncValueType, Arguments: args,
		Resolve: func(ctx graphql.FieldContext) (interface{}, error) {
			if ctx.IsSubscribe {
				t := intArg(ctx, "tag")
				src := &source{gen: t, ch: make(chan int), stoppedCh: make(chan struct{})}
				if l := w.liveFor(ctx.Context); l != nil {
					l.mu.Lock()
					src.slow = l.slow
					l.sources[t] = src
					l.execs = append(l.execs, ExecRec{t, "subscription"})
					l.mu.Unlock()
				}
				return &apifu.SubscriptionSourceStream{EventChannel: src.ch, Stop: src.stop}, nil
			} else if n, ok := ctx.Object.(int); ok {
				return newAsyncValue(n, intArg(ctx, "mode")), nil
			}
			return nil, fmt.Errorf("subscriptions are not supported using this protocol")
		}})
}

func asyncDoc(kind string, gen, mode int) string {
	switch kind {
	case "query":
		return fmt.Sprintf("{qa(tag:%d,mode:%d)%s}", gen, mode, asyncSelection(mode))
	case "mutation":
		return fmt.Sprintf("mutation{ma(tag:%d,mode:%d)%s}", gen, mode, asyncSelection(mode))
	}
	return fmt.Sprintf("subscription{sa(tag:%d,mode:%d)%s}", gen, mode, asyncSelection(mode))
}
