package main

// The keep-alive ticker. writeLoop starts a 15 s ticker with the connection and writes a `ka`
// (graphql-ws) / an unsolicited `pong` (graphql-transport-ws) at every tick. The Lean model does not
// have it (it is a connection-level message that belongs to no operation); sessions younger than
// 14.5 s cannot carry one, older ones are judged by the sequential reference only (spec.go: slow()).
// The `idle` step lets a session live that long on purpose, so that the ticker branch of the real
// write loop is exercised with a live subscription. Finding F-08e (fixed by 1e7636c): the ticker used
// to start with the connection, so a client that waited 15 s before its connection_init got the
// keep-alive BEFORE the ack of its init; corpus/C08/F-08e-keepalive-before-ack.json is the detector
// (the oracle's pre-ack clause has no exception for ticker frames).

import "verifharness/hx"

// idleSession: a connection that outlives the keep-alive period, with the idle stretch before the
// init (i = 0: the F-08e shape), after the init, or in the middle of a subscription's events. No
// ping and no duplicate start follows the idle stretch: on graphql-transport-ws a ticker pong is
// indistinguishable from an answer, so it cannot serve as a barrier.
func idleSession(r *hx.Rand, proto string, i int) Session {
	s := Session{Proto: proto, Ending: hx.Pick(r, []string{"cclose", "drop", "sclose"}), Await: true}
	add := func(st ...Step) { s.Steps = append(s.Steps, st...) }
	idle := Step{Op: "idle", Ms: 15300}
	if i%3 == 0 {
		add(idle)
	}
	add(Step{Op: "frame", F: "init-ok"}, Step{Op: "sync"})
	if i%3 == 1 {
		add(idle)
	}
	add(Step{Op: "frame", F: "start", ID: 1, Kind: "subscription"}, Step{Op: "sync"}, Step{Op: "ev", Src: 0}, Step{Op: "sync"})
	if i%3 == 2 {
		add(idle)
	}
	add(Step{Op: "ev", Src: 0}, Step{Op: "frame", F: "start", ID: 2, Kind: hx.Pick(r, []string{"query", "mutation"})}, Step{Op: "sync"})
	if r.Bool() {
		add(Step{Op: "frame", F: "stop", ID: 1}, Step{Op: "sync"})
	} else {
		add(Step{Op: "end", Src: 0}, Step{Op: "sync"})
	}
	return s
}
