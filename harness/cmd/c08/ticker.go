package main

// The keep-alive ticker. writeLoop starts a 15 s ticker with the connection and writes a `ka`
// (graphql-ws) / an unsolicited `pong` (graphql-transport-ws) at every tick. The Lean model does not
// have it (it is a connection-level message that belongs to no operation); sessions younger than
// 14.5 s cannot carry one, older ones are judged by the sequential reference only (spec.go: slow()).
// The `idle` step lets a session live that long on purpose, so that the ticker branch of the real
// write loop is exercised with a live subscription — and it exhibits finding F-08e: a client that
// waits 15 s before its connection_init gets the keep-alive BEFORE the ack of its init.

import (
	"fmt"

	"verifharness/hx"
)

const keyKeepAliveBeforeAck = "F-08e-keepalive-before-ack"

// keepAliveBeforeAck is the (narrow) classifier of F-08e: on a connection old enough for the ticker
// to have fired, a ka / pong precedes the first ack although the client had sent no ping. It returns
// the description of the first such frame.
func keepAliveBeforeAck(s Session, o *Observed) (string, bool) {
	if o == nil || !o.slow() {
		return "", false
	}
	for _, st := range s.Steps {
		if st.Op == "frame" && st.F == "ping" {
			return "", false // a pong may then be (wrongly) an answer: not this finding
		}
		if st.Op == "frame" && st.F == "init-ok" {
			break
		}
	}
	for i, f := range o.Wire {
		switch f.Type {
		case "ack":
			return "", false
		case "ka", "pong":
			return fmt.Sprintf("message %d, %s, precedes the acknowledgement of a successful init: the keep-alive ticker fired on a connection %.1f s old whose client had not sent its connection_init yet", i, f.Type, o.WireTime.Seconds()), true
		case "connerr":
		default:
			return "", false // something else precedes the ack: an ordinary violation, reported by the oracle
		}
	}
	return "", false
}

// idleSession: a connection that outlives the keep-alive period, with the idle stretch before the
// init (i = 0: the F-08e shape), after the init, or in the middle of a subscription's events. No
// ping and no duplicate start follows the idle stretch: on graphql-transport-ws a ticker pong is
// indistinguishable from an answer, so it cannot serve as a barrier.
func idleSession(r *hx.Rand, proto string, i int) Session {
	s := Session{Proto: proto, Ending: hx.Pick(r, []string{"cclose", "drop", "sclose"}), Await: true}
	add := func(st ...Step) { s.Steps = append(s.Steps, st...) }
	idle := Step{Op: "idle", Ms: 15300}
	if i%3 == 0 {
		add(idle)
	}
	add(Step{Op: "frame", F: "init-ok"}, Step{Op: "sync"})
	if i%3 == 1 {
		add(idle)
	}
	add(Step{Op: "frame", F: "start", ID: 1, Kind: "subscription"}, Step{Op: "sync"}, Step{Op: "ev", Src: 0}, Step{Op: "sync"})
	if i%3 == 2 {
		add(idle)
	}
	add(Step{Op: "ev", Src: 0}, Step{Op: "frame", F: "start", ID: 2, Kind: hx.Pick(r, []string{"query", "mutation"})}, Step{Op: "sync"})
	if r.Bool() {
		add(Step{Op: "frame", F: "stop", ID: 1}, Step{Op: "sync"})
	} else {
		add(Step{Op: "end", Src: 0}, Step{Op: "sync"})
	}
	return s
}
