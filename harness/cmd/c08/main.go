// Harness for C08 — WebSocket sessions obey the operation lifecycle and always clean up.
//
// Real side (play.go): apifu.API.ServeGraphQLWS behind httptest.Server, a gorilla/websocket client
// over loopback, harness-owned subscription sources with Stop counters. A generated client history
// (frames, source events, quiescence points, an ending) is played; the observation is
//
//	the server's messages in wire order (per-operation-id projection is what is compared), the close
//	code, the order of resolver runs, Stop() counts per source, registry size after the end, and —
//	per batch of sessions — the goroutines still inside api-fu code (leak.go).
//
// It is judged twice:
//
//	(a) by the property itself (spec.go: a sequential reference of the lifecycle; no model involved);
//	(b) by the Lean model lean/ApiFu/C08 in acceptor mode (driver c08model): "is this per-id
//	    projection, this resolver order, this cleanup a behaviour of the model for these inputs?"
//
// (a) fails → property violation with the shrunk session as replay; only (b) fails → the model no
// longer describes the code (correspondence, no failing input).
package main

import (
	"encoding/json"
	"fmt"
	"os"
	"runtime"
	"strings"
	"sync"
	"sync/atomic"
	"time"

	"verifharness/hx"
)

// ---- model request ----------------------------------------------------------------------------------

func frameSexp(st Step) hx.Sexp {
	switch st.F {
	case "init-ok":
		return hx.N("f", hx.A("init"), hx.A("ok"))
	case "init-rej":
		return hx.N("f", hx.A("init"), hx.A("rej"))
	case "start":
		return hx.N("f", hx.A("start"), hx.I(int64(st.ID)), hx.A(st.Kind))
	case "startbad":
		return hx.N("f", hx.A("startbad"), hx.I(int64(st.ID)))
	case "stop":
		return hx.N("f", hx.A("stop"), hx.I(int64(st.ID)))
	}
	return hx.N("f", hx.A(st.F))
}

func ints(tag string, xs []int) hx.Sexp {
	out := []hx.Sexp{}
	for _, x := range xs {
		out = append(out, hx.I(int64(x)))
	}
	return hx.N(tag, out...)
}

func modelLine(sess Session, o *Observed) string {
	if o.Proto != "" {
		sess.Proto = o.Proto // the negotiated protocol is the one the session was driven by
	}
	var ins []hx.Sexp
	for _, in := range o.Inputs {
		switch in.Kind {
		case "f":
			ins = append(ins, frameSexp(in.Step))
		case "ev":
			ins = append(ins, hx.N("ev", hx.I(int64(in.Gen)), hx.I(int64(in.N))))
		case "end":
			ins = append(ins, hx.N("end", hx.I(int64(in.Gen))))
		case "sync":
			ins = append(ins, ints("sync", in.Stopped))
		case "syncid":
			ins = append(ins, hx.N("syncid", hx.I(int64(in.ID))))
		case "drop":
			ins = append(ins, hx.N("drop"))
		case "sclose":
			ins = append(ins, hx.N("sclose"))
		}
	}
	var wire []hx.Sexp
	for _, f := range o.Wire {
		switch {
		case f.Type == "other" || ((f.Type == "res" || f.Type == "comp") && f.ID < 0):
			wire = append(wire, hx.N("other", hx.A(f.Raw)))
		case f.Type == "res":
			wire = append(wire, hx.N("res", hx.I(int64(f.ID)), hx.I(int64(f.Gen)), hx.I(int64(f.Ev))))
		case f.Type == "comp":
			wire = append(wire, hx.N("comp", hx.I(int64(f.ID))))
		default:
			wire = append(wire, hx.A(f.Type))
		}
	}
	cc := hx.A("none")
	if o.CloseCode != 0 {
		cc = hx.I(int64(o.CloseCode))
	}
	var execs []hx.Sexp
	for _, e := range o.Execs {
		execs = append(execs, hx.L(hx.I(int64(e.Gen)), hx.A(e.Kind)))
	}
	var stops []hx.Sexp
	for _, g := range sortedKeysInt(o.Stops) {
		stops = append(stops, hx.L(hx.I(int64(g)), hx.I(int64(o.Stops[g]))))
	}
	return hx.N("session", hx.A(sess.Proto), hx.A(o.Ending), hx.N("in", ins...), hx.N("wire", wire...), hx.N("close", cc),
		hx.N("execs", execs...), hx.N("stops", stops...), hx.N("dereg", hx.B(o.Dereg))).String()
}

// ---- judging ----------------------------------------------------------------------------------------------

type outcome struct {
	sess   Session
	obs    *Observed
	oracle string // "" = the property holds on the observation
	line   string
	reply  string
	model  string // "" = accepted (or no model)
	kind   string
	what   string
}

func modelVerdict(o *outcome) {
	o.model = ""
	for _, a := range o.obs.Anomalies {
		if strings.Contains(a, "did not close the connection") || strings.HasPrefix(a, "harness:") {
			o.model = a
		}
	}
	if o.reply == "" {
		return
	}
	x, err := hx.ParseSexp(o.reply)
	if err != nil || !x.IsList || len(x.List) == 0 {
		o.model = "unreadable model reply: " + o.reply
		return
	}
	if x.List[0].Atom == "reject" && len(x.List) > 1 {
		o.model = x.List[1].Atom
	} else if x.List[0].Atom != "accept" {
		o.model = "unexpected model reply: " + o.reply
	}
}

func classify(o *outcome) {
	modelVerdict(o)
	switch {
	case o.oracle != "":
		o.kind, o.what = "property", o.oracle
	case o.model != "":
		o.kind, o.what = "correspondence", "the model does not accept the observed session: "+o.model
	default:
		o.kind, o.what = "", ""
	}
}

type harness struct {
	run      *hx.Run
	model    *hx.Model
	worlds   []*world
	deadline time.Duration
	failures int
	stop     bool
	leakBase int

	leakReports int
}

// playAll plays the sessions on the worlds in parallel (one at a time per world).
func (h *harness) playAll(sessions []Session) []*outcome {
	out := make([]*outcome, len(sessions))
	var next int64 = -1
	var wg sync.WaitGroup
	for _, w := range h.worlds {
		wg.Add(1)
		go func(w *world) {
			defer wg.Done()
			for {
				i := int(atomic.AddInt64(&next, 1))
				if i >= len(sessions) {
					return
				}
				if atomic.LoadInt64(&timeoutSpent) > int64(timeoutBudget) {
					continue // enough has gone wrong already: the rest of the batch is not played
				}
				out[i] = h.playOne(w, sessions[i], h.deadline)
			}
		}(w)
	}
	wg.Wait()
	played := out[:0]
	for _, o := range out {
		if o != nil {
			played = append(played, o)
		}
	}
	return played
}

const timeoutBudget = 45 * time.Second

func replayRequested() bool {
	for _, a := range os.Args[1:] {
		if a == "-replay" || a == "--replay" || strings.HasPrefix(a, "-replay=") || strings.HasPrefix(a, "--replay=") {
			return true
		}
	}
	return false
}

func (h *harness) playOne(w *world, s Session, deadline time.Duration) (o *outcome) {
	o = &outcome{sess: s}
	noteStart(w.idx, s)
	defer noteEnd(w.idx)
	defer func() {
		if p := recover(); p != nil {
			o.obs = &Observed{Stops: map[int]int{}, Anomalies: []string{fmt.Sprintf("harness: panic while playing: %v", p)}, Spec: newSpec(s.Proto)}
			o.oracle = ""
		}
	}()
	o.obs = runSession(w, s, deadline)
	o.oracle = o.obs.Spec.oracle(o.obs)
	o.line = modelLine(s, o.obs)
	return o
}

func (h *harness) askModel(outs []*outcome) {
	if h.model == nil {
		return
	}
	var lines []string
	var idx []int
	for i, o := range outs {
		if o.obs.slow() {
			h.run.Count("slow-session:model-skipped")
			continue
		}
		lines = append(lines, o.line)
		idx = append(idx, i)
	}
	replies, err := h.model.AskAll(lines)
	if err != nil {
		fmt.Fprintln(os.Stderr, "model driver failed:", err)
		h.run.Oblige("session-correspondence(per-id wire projection, resolver order, stops, registry, close code)", "correspondence", 0, false, "model driver failed: "+err.Error())
		h.model = nil
		return
	}
	for k, i := range idx {
		outs[i].reply = replies[k]
	}
}

// evalOne plays one session alone on world 0 (replays, shrinking, leak attribution).
func (h *harness) evalOne(s Session, deadline time.Duration) *outcome {
	o := h.playOne(h.worlds[0], s, deadline)
	if h.model != nil && !o.obs.slow() {
		if rep, err := h.model.Ask(o.line); err == nil {
			o.reply = rep
		}
	}
	classify(o)
	return o
}

func sameFailure(a, b *outcome) bool {
	if a.kind != b.kind || a.kind == "" {
		return false
	}
	return failClass(a.what) == failClass(b.what)
}

// failClass strips the numbers out of a failure text so that a shrunk case "fails the same way".
func failClass(s string) string {
	var b strings.Builder
	for _, c := range s {
		if c < '0' || c > '9' {
			b.WriteRune(c)
		}
	}
	t := b.String()
	if len(t) > 60 {
		t = t[:60]
	}
	return t
}

func (h *harness) shrink(first *outcome) *outcome {
	cur := first
	short := 1500 * time.Millisecond
	fails := func(s Session) *outcome {
		for try := 0; try < 2; try++ {
			if o := h.evalOne(s, short); sameFailure(o, first) {
				return o
			}
		}
		return nil
	}
	budget := 120
	t0 := time.Now()
	// delta debugging: drop chunks of steps, halving the chunk size down to single steps
	for size := (len(cur.sess.Steps) + 1) / 2; size >= 1 && budget > 0 && time.Since(t0) < 15*time.Second; {
		changed := false
		for i := len(cur.sess.Steps) - size; i >= 0 && budget > 0 && time.Since(t0) < 15*time.Second; i -= size {
			cand := cur.sess
			cand.Steps = append(append([]Step{}, cur.sess.Steps[:i]...), cur.sess.Steps[i+size:]...)
			budget--
			if o := fails(cand); o != nil {
				cur, changed = o, true
			}
		}
		if size == 1 && !changed {
			break
		}
		if !changed || size > len(cur.sess.Steps) {
			size /= 2
		}
		if size > len(cur.sess.Steps) {
			size = len(cur.sess.Steps)
		}
	}
	if cur != first {
		// confirm with the full deadline
		if o := h.evalOne(cur.sess, h.deadline/2); sameFailure(o, first) {
			return o
		}
		return first
	}
	return cur
}

type replayDoc struct {
	Session  Session   `json:"session"`
	Observed *Observed `json:"observed,omitempty"`
	Inputs   string    `json:"model_request,omitempty"`
	Reply    string    `json:"model_reply,omitempty"`
	Oracle   string    `json:"oracle,omitempty"`
}

func (h *harness) report(o *outcome) {
	h.failures++
	sh := o
	if h.failures <= 3 {
		sh = h.shrink(o)
	}
	h.run.Violate(sh.kind, sh.sess.String()+": "+sh.what, "", sh.kind == "correspondence", replayDoc{Session: sh.sess, Observed: sh.obs, Inputs: sh.line, Reply: sh.reply, Oracle: sh.oracle})
	if h.failures >= 3 || atomic.LoadInt64(&timeoutSpent) > int64(timeoutBudget) {
		h.stop = true
	}
}

const obCorr = "session-correspondence(per-id wire projection, resolver order, stops at quiescence points, registry, close code) vs Lean acceptor"
const obOracle = "oracle: pre-ack silence, one result+complete per query, results*·complete per subscription, pong per ping, each source stopped exactly once, deregistered"
const obLeak = "oracle: no goroutine inside api-fu remains after the connections of a batch ended"

func nontrivial(s Session, o *Observed) bool {
	return len(o.Execs) > 0
}

// batch plays, judges and accounts for a set of sessions, then checks for leaked goroutines.
func (h *harness) batch(sessions []Session) {
	if h.stop || len(sessions) == 0 {
		return
	}
	outs := h.playAll(sessions)
	h.askModel(outs)
	nCorr, nOr := 0, 0
	for _, o := range outs {
		classify(o)
		b, _ := json.Marshal(o.sess)
		h.run.Case(string(b), nontrivial(o.sess, o.obs))
		for k, v := range o.obs.Stats {
			h.run.CountN(k, v)
		}
		if o.obs.Proto != "" {
			o.sess.Proto = o.obs.Proto
		}
		h.run.Count("proto:" + o.sess.Proto)
		h.run.Count("ids:" + o.sess.Proto + ":" + idSetNames[o.sess.IDSet%len(idSetNames)])
		h.run.CountN("messages-observed", len(o.obs.Wire))
		for _, st := range o.sess.Steps {
			if st.Form > 0 && formApplies(st) {
				h.run.Count("doc-form:" + formNames[st.Form%len(formNames)])
			}
		}
		if o.obs.CloseCode != 0 {
			h.run.Count(fmt.Sprintf("close-code:%d", o.obs.CloseCode))
		}
		for _, a := range o.obs.Anomalies {
			h.run.Count("anomaly:" + failClass(a))
		}
		nOr++
		if o.reply != "" {
			nCorr++
		}
		h.run.Sample(map[string]any{"session": o.sess.String(), "observed": o.obs})
	}
	okC, okO := true, true
	var dC, dO string
	for _, o := range outs {
		if o.kind == "" || h.stop {
			continue
		}
		if o.kind == "property" {
			okO, dO = false, o.what
		} else {
			okC, dC = false, o.what
		}
		h.report(o)
	}
	h.run.Oblige(obCorr, "correspondence", nCorr, okC, dC)
	h.run.Oblige(obOracle, "oracle", nOr, okO, dO)
	// goroutine accounting
	n, dump := h.leakCheck(20 * time.Second)
	if n > h.leakBase {
		h.run.Count("leak-batches")
		if !okO {
			// a session of this batch already violates the property; the goroutines it left behind
			// are reported with it rather than searched for again
			h.run.Oblige(obLeak, "oracle", len(sessions), false, fmt.Sprintf("%d goroutine(s) remain inside api-fu after the batch: %s", n-h.leakBase, firstLines(dump, 14)))
		} else {
			h.attributeLeak(sessions, n, dump)
		}
		h.leakBase, _ = apifuGoroutines()
	} else {
		h.run.Oblige(obLeak, "oracle", len(sessions), true, "")
	}
}

func (h *harness) attributeLeak(sessions []Session, n int, dump string) {
	h.leakReports++
	t0 := time.Now()
	if h.leakReports <= 2 {
		for _, s := range sessions {
			if time.Since(t0) > 40*time.Second {
				break
			}
			base, _ := apifuGoroutines()
			h.evalOne(s, 2*time.Second)
			m, d := h.leakCheckFrom(base, 5*time.Second)
			if m <= base {
				continue
			}
			// shrink on the leak criterion: drop chunks of steps while goroutines still remain
			cur := s
			leaks := func(cand Session) (bool, string) {
				b0, _ := apifuGoroutines()
				h.evalOne(cand, time.Second)
				m2, d2 := h.leakCheckFrom(b0, 2*time.Second)
				return m2 > b0, d2
			}
			ts := time.Now()
			for size := (len(cur.Steps) + 1) / 2; size >= 1 && time.Since(ts) < 15*time.Second; size /= 2 {
				for i := len(cur.Steps) - size; i >= 0 && time.Since(ts) < 15*time.Second; i -= size {
					cand := cur
					cand.Steps = append(append([]Step{}, cur.Steps[:i]...), cur.Steps[i+size:]...)
					if ok, d2 := leaks(cand); ok {
						cur, d = cand, d2
					}
				}
			}
			what := fmt.Sprintf("%s: after the connection ended %d more goroutine(s) remain inside api-fu (all that are there now: %s)", cur.String(), m-base, firstLines(d, 14))
			h.run.Oblige(obLeak, "oracle", 1, false, what)
			h.run.Violate("property", what, "", false, replayDoc{Session: cur, Oracle: what})
			h.failures++
			if h.failures >= 6 {
				h.stop = true
			}
			return
		}
	}
	what := fmt.Sprintf("%d goroutine(s) remain inside api-fu after a batch of %d sessions ended (not attributed to a single session: %s): %s", n-h.leakBase, len(sessions),
		map[bool]string{true: "two leaking sessions were reported already", false: "no session of the batch reproduces it alone within the time allowed"}[h.leakReports > 2], firstLines(dump, 14))
	h.run.Oblige(obLeak, "oracle", len(sessions), false, what)
	h.run.Violate("property", what, "", true, map[string]any{"batch": sessions})
	h.failures++
	if h.failures >= 6 {
		h.stop = true
	}
}

func firstLines(s string, n int) string {
	ls := strings.Split(s, "\n")
	if len(ls) > n {
		ls = ls[:n]
	}
	return strings.Join(ls, " | ")
}

// ---- self-test of the two judges (a wrong observation must be reported by both) -----------------

func (h *harness) selfTest() {
	s := Session{Proto: "ws", Ending: "cclose", Await: true, Steps: []Step{
		{Op: "frame", F: "init-ok"}, {Op: "frame", F: "start", ID: 1, Kind: "query"},
		{Op: "frame", F: "start", ID: 2, Kind: "subscription"}, {Op: "ev", Src: 1}, {Op: "frame", F: "stop", ID: 2}, {Op: "sync"}}}
	o := h.evalOne(s, h.deadline)
	if o.kind != "" {
		return // the real run will report it
	}
	type tamper struct {
		name string
		f    func(o *Observed)
	}
	ok := true
	detail := ""
	for _, t := range []tamper{
		{"complete twice", func(o *Observed) { o.Wire = append(o.Wire, WFrame{Type: "comp", ID: 1}) }},
		{"complete missing", func(o *Observed) { o.Wire = o.Wire[:len(o.Wire)-1] }},
		{"source stopped twice", func(o *Observed) { o.Stops[1] = 2 }},
		{"source never stopped", func(o *Observed) { o.Stops[1] = 0 }},
		{"still registered", func(o *Observed) { o.Dereg = false }},
		{"result before ack", func(o *Observed) { o.Wire = append([]WFrame{{Type: "res", ID: 1, Gen: 0}}, o.Wire...) }},
		{"operation executed twice", func(o *Observed) { o.Execs = append(o.Execs, ExecRec{0, "query"}) }},
	} {
		c := *o.obs
		c.Wire = append([]WFrame{}, o.obs.Wire...)
		c.Execs = append([]ExecRec{}, o.obs.Execs...)
		c.Stops = map[int]int{}
		for k, v := range o.obs.Stops {
			c.Stops[k] = v
		}
		t.f(&c)
		if c.Spec.oracle(&c) == "" {
			ok, detail = false, "the oracle accepts a tampered observation: "+t.name
		}
		if h.model != nil {
			rep, err := h.model.Ask(modelLine(s, &c))
			if err != nil || !strings.HasPrefix(rep, "(reject") {
				ok, detail = false, "the model acceptor accepts a tampered observation: "+t.name+": "+rep
			}
		}
	}
	h.run.Oblige("self-test: both judges reject 7 tampered observations of a good session", "oracle", 7, ok, detail)
}

// ---- main -------------------------------------------------------------------------------------------------

func main() {
	if !isWorker() && !replayRequested() {
		if rc := supervise(); rc >= 0 {
			os.Exit(rc)
		}
		// the worker could not be started: run unsupervised
	}
	initWorker()
	tStart := time.Now()
	run := hx.Init("C08")
	h := &harness{run: run, deadline: 10 * time.Second}
	if run.Thorough() {
		h.deadline = 15 * time.Second
	}
	if run.ModelPath != "" {
		m, err := hx.StartModel(run.ModelPath)
		if err != nil {
			fmt.Fprintln(os.Stderr, "cannot start model:", err)
			os.Exit(2)
		}
		h.model = m
	}
	nw := runtime.NumCPU() / 2
	if nw < 2 {
		nw = 2
	}
	if nw > 8 {
		nw = 8
	}
	for i := 0; i < nw; i++ {
		h.worlds = append(h.worlds, newWorld())
		h.worlds[i].idx = i
	}
	defer func() {
		for _, w := range h.worlds {
			w.close()
		}
	}()
	run.SetRule("client histories over 17 spellings of the operation ids (plain, control characters, NUL, DEL, C1, U+2028, quotes/backslashes, astral, non-printable astral, combining marks, case-only and normalisation-only differences, numeric-looking, very long, …) × {init ok|rejected, start/subscribe(query|mutation|subscription|failing subscription|invalid document|undecodable payload) with fresh or re-used ids, stop/complete(known|unknown), ping, pong, terminate, unknown type, malformed, close frame} interleaved with source events / source ends / quiescence points, ended by client close, TCP drop, server close or a protocol error, on both sub-protocols; distinct = distinct session; non-trivial = at least one operation was executed")

	// No connection exists yet: the baseline of goroutines inside api-fu is what is there now (none).
	h.leakBase, _ = apifuGoroutines()

	if run.Replay != "" {
		var doc replayDoc
		if err := hx.LoadReplayCase(run.Replay, &doc); err != nil {
			fmt.Fprintln(os.Stderr, err)
			os.Exit(2)
		}
		base, _ := apifuGoroutines()
		o := h.evalOne(doc.Session, h.deadline)
		ob, _ := json.Marshal(o.obs)
		fmt.Printf("replay: %s\n implementation: %s\n model request: %s\n model reply: %s\n oracle: %q\n kind=%q what=%q\n", doc.Session.String(), ob, o.line, o.reply, o.oracle, o.kind, o.what)
		if o.kind != "" {
			run.Violate(o.kind, o.what, "", o.kind == "correspondence", replayDoc{Session: doc.Session, Observed: o.obs, Inputs: o.line, Reply: o.reply, Oracle: o.oracle})
		}
		if m, d := h.leakCheckFrom(base, 10*time.Second); m > base {
			what := fmt.Sprintf("after the connection ended %d goroutine(s) remain inside api-fu: %s", m-base, firstLines(d, 14))
			fmt.Println(" leak:", what)
			run.Violate("property", what, "", false, doc)
		}
		run.Finish(h.model)
		return
	}

	// warm-up (first dials, first schema use), judged like any other batch
	var warm []Session
	for range h.worlds {
		warm = append(warm, Session{Proto: "tws", Ending: "sclose", Steps: []Step{{Op: "frame", F: "init-ok"}, {Op: "frame", F: "start", ID: 1, Kind: "subscription"}, {Op: "sync"}}},
			Session{Proto: "ws", Ending: "cclose", Steps: []Step{{Op: "frame", F: "init-ok"}, {Op: "frame", F: "start", ID: 1, Kind: "query"}, {Op: "sync"}}})
	}
	h.batch(warm)

	h.selfTest()

	// findings / corpus first
	var corpus []Session
	for _, f := range run.CorpusFiles() {
		var doc replayDoc
		if hx.LoadReplayCase(f, &doc) == nil && doc.Session.Proto != "" {
			corpus = append(corpus, doc.Session)
			run.Count("corpus")
		}
	}
	tCorpus := time.Now()
	for _, s := range corpus {
		h.batch([]Session{s}) // one by one: a leak is attributed to the corpus case itself
	}
	tGen := time.Now()
	generate(h)
	run.Note("wall: set-up, warm-up and self-test %.1fs, findings + corpus replays %.1fs (one connection is kept idle for 15.3 s), generated sessions %.1fs",
		tCorpus.Sub(tStart).Seconds(), tGen.Sub(tCorpus).Seconds(), time.Since(tGen).Seconds())

	run.CountN("async:go-tasks", int(atomic.LoadInt64(&asyncTasks)))
	run.CountN("async:batch-release-not-seen-within-250ms", int(atomic.LoadInt64(&asyncReleaseTimeouts)))
	if atomic.LoadInt64(&timeoutSpent) > 0 {
		run.Note("time spent in waits that timed out: %.1fs", time.Duration(atomic.LoadInt64(&timeoutSpent)).Seconds())
	}
	if atomic.LoadInt64(&timeoutSpent) > int64(timeoutBudget) && run.Violations() == 0 {
		// sessions were skipped because the waits kept timing out, yet nothing was reported: never pass silently
		what := fmt.Sprintf("waits for the implementation timed out for %.0fs in total and the rest of the run was skipped, although no played session failed", time.Duration(atomic.LoadInt64(&timeoutSpent)).Seconds())
		run.Oblige(obCorr, "correspondence", 0, false, what)
		run.Violate("correspondence", what, "", true, map[string]any{"timeouts": true})
	}
	if h.stop {
		run.Note("generation stopped early after %d failing sessions", h.failures)
	}
	run.Finish(h.model)
	if h.model != nil {
		h.model.Close()
	}
}
