package main

// Operation ids as a generated dimension. The model and the comparison work on id *indices*; how an
// index is spelled on the wire is chosen per session (Session.IDSet). Every id is sent as valid
// JSON; every server frame must be valid JSON (and valid UTF-8) whose id, after JSON decoding, is
// exactly one of the ids this session sent — anything else is "not a message for any operation of
// this session".

import (
	"encoding/json"
	"fmt"
	"strconv"
	"strings"
	"sync"
	"unicode/utf8"
)

var idSetNames = []string{"plain", "control-u0001", "nul", "del-u007f", "c1-u0085", "line-sep-u2028", "quotes-backslashes", "newline-tab-cr",
	"astral", "astral-nonprintable", "combining-marks", "case-only", "normalisation-only", "numeric-looking", "very-long", "whitespace-html", "replacement-bom"}

func baseName(i int) string {
	if i <= 26 {
		return string(rune('a' + i - 1))
	}
	return fmt.Sprintf("op%d", i)
}

// bits spells i as a sequence over two alternatives per position (all results pairwise distinct for i < 2^n).
func bits(i, n int, zero, one func(pos int) string) string {
	var b strings.Builder
	for p := 0; p < n; p++ {
		if i>>p&1 == 1 {
			b.WriteString(one(p))
		} else {
			b.WriteString(zero(p))
		}
	}
	return b.String()
}

var numericIDs = []string{"", "0", "1", "01", "1.0", "1e3", "-1", "true", "null", "NaN", "0x1F", "\u0661\u0662", "1_000", "+1", ".5", "9007199254740993", "Infinity"}

// idSpelling is the id string of index i (≥ 1; 0 is always the empty id) in the given set.
func idSpelling(set, i int) string {
	b := baseName(i)
	switch set {
	case 1:
		return "control-\u0001" + b + "\u0002\u001f"
	case 2:
		return b + "\u0000x"
	case 3:
		return "del\u007f" + b
	case 4:
		return b + "\u0085nel\u009f"
	case 5:
		return "ls\u2028" + b + "\u2029ps"
	case 6:
		return `"` + b + `\"\\ '` + "`"
	case 7:
		return "line\n" + b + "\ttab\rcr\b\f"
	case 8:
		return "\U0001F600" + b + "\U0001D518"
	case 9:
		return "\U000E0001" + b + "\U0010FFFF\U000F0000"
	case 10:
		return "e\u0301" + b + "\u0308\u200d\u0323"
	case 11: // ids that differ only in case
		word := "subscription"
		return bits(i, len(word), func(p int) string { return word[p : p+1] }, func(p int) string { return strings.ToUpper(word[p : p+1]) })
	case 12: // ids that differ only in (canonical) normalisation
		return bits(i, 11, func(int) string { return "\u00e9" }, func(int) string { return "e\u0301" })
	case 13:
		if i < len(numericIDs) {
			return numericIDs[i]
		}
		return strconv.Itoa(i*7 + 100000)
	case 14:
		return strings.Repeat(b+"-", 2000) + b
	case 15:
		return " <" + b + ">&  "
	case 16:
		return "\ufffd" + b + "\ufeff\ufffe"
	}
	if i <= 26 {
		return b
	}
	return b
}

type idCodec struct {
	set int
	mu  sync.Mutex
	rev map[string]int
	fwd map[int]string
}

func newIDCodec(set int) *idCodec {
	return &idCodec{set: set % len(idSetNames), rev: map[string]int{"": 0}, fwd: map[int]string{0: ""}}
}

func (c *idCodec) str(i int) string {
	c.mu.Lock()
	defer c.mu.Unlock()
	if s, ok := c.fwd[i]; ok {
		return s
	}
	s := idSpelling(c.set, i)
	c.fwd[i] = s
	c.rev[s] = i
	return s
}

// index returns the index of an id string this session has sent, -1 otherwise.
func (c *idCodec) index(s string) int {
	c.mu.Lock()
	defer c.mu.Unlock()
	if i, ok := c.rev[s]; ok {
		return i
	}
	return -1
}

func (c *idCodec) table() map[int]string {
	c.mu.Lock()
	defer c.mu.Unlock()
	out := map[int]string{}
	for k, v := range c.fwd {
		out[k] = v
	}
	return out
}

// jsonString spells s as a JSON string: Go's encoder (variant 0), or pure ASCII with every other
// character as \uXXXX (surrogate pairs above U+FFFF).
func jsonString(s string, ascii bool) string {
	if !ascii {
		b, _ := json.Marshal(s)
		return string(b)
	}
	var b strings.Builder
	b.WriteByte('"')
	for _, r := range s {
		switch {
		case r == '"' || r == '\\':
			b.WriteByte('\\')
			b.WriteRune(r)
		case r >= 0x20 && r < 0x7f:
			b.WriteRune(r)
		case r > 0xffff:
			r -= 0x10000
			fmt.Fprintf(&b, `\u%04x\u%04x`, 0xd800+(r>>10), 0xdc00+(r&0x3ff))
		default:
			fmt.Fprintf(&b, `\u%04x`, r)
		}
	}
	b.WriteByte('"')
	return b.String()
}

// validFrame: a server frame must be valid UTF-8 and valid JSON.
func validFrame(p []byte) bool { return utf8.Valid(p) && json.Valid(p) }
