package main

// Generators: bounded-exhaustive frame sequences over the whole alphabet behind a few preambles,
// random longer histories with interleaved source events, and the special shapes (many
// subscriptions at close, bursts followed by a drop).

import (
	"fmt"

	"verifharness/hx"
)

type subRef struct{ gen, id int }

type genState struct {
	nextGen int
	nextID  int
	subs    []subRef // subscription starts in the order they were generated
}

func (g *genState) fresh() int {
	g.nextID++
	if g.nextID > 8 {
		g.nextID = 1
	}
	return g.nextID
}

func (g *genState) lastSubID() int {
	if len(g.subs) == 0 {
		return 1
	}
	return g.subs[len(g.subs)-1].id
}

func (g *genState) start(id int, kind string, variant int) Step {
	if kind == "subscription" {
		g.subs = append(g.subs, subRef{g.nextGen, id})
	}
	g.nextGen++
	return Step{Op: "frame", F: "start", ID: id, Kind: kind, Variant: variant}
}

const nLetters = 20

var letterNames = []string{"init-ok", "init-rej", "query", "mutation", "sub-fresh", "sub-same-id", "query-same-id", "invalid", "subfail-same-id",
	"startbad", "stop-known", "stop-unknown", "ping", "pong", "terminate", "unknown", "malformed", "close", "src-event", "src-end"}

func (g *genState) letter(l int, v int) Step {
	switch l {
	case 0:
		return Step{Op: "frame", F: "init-ok", Variant: v}
	case 1:
		return Step{Op: "frame", F: "init-rej"}
	case 2:
		return g.start(g.fresh(), "query", v)
	case 3:
		return g.start(g.fresh(), "mutation", v)
	case 4:
		return g.start(g.fresh(), "subscription", v)
	case 5:
		return g.start(g.lastSubID(), "subscription", v)
	case 6:
		return g.start(g.lastSubID(), "query", v)
	case 7:
		return g.start(g.fresh(), "invalid", v)
	case 8:
		return g.start(g.lastSubID(), "subfail", v)
	case 9:
		return Step{Op: "frame", F: "startbad", ID: g.fresh(), Variant: v}
	case 10:
		return Step{Op: "frame", F: "stop", ID: g.lastSubID(), Variant: v}
	case 11:
		return Step{Op: "frame", F: "stop", ID: 9, Variant: v}
	case 12:
		return Step{Op: "frame", F: "ping", Variant: v}
	case 13:
		return Step{Op: "frame", F: "pong"}
	case 14:
		return Step{Op: "frame", F: "terminate"}
	case 15:
		return Step{Op: "frame", F: "unknown", Variant: v}
	case 16:
		return Step{Op: "frame", F: "malformed", Variant: v}
	case 17:
		return Step{Op: "frame", F: "close"}
	case 18:
		return Step{Op: "ev", Src: -1}
	}
	return Step{Op: "end", Src: -1}
}

var endings = []string{"cclose", "drop", "sclose"}

// build turns a letter sequence into a session. lockstep: a quiescence point after every step.
func build(r *hx.Rand, proto string, pre []int, seq []int, lockstep bool) Session {
	g := &genState{}
	s := Session{Proto: proto, Ending: hx.Pick(r, endings), Await: r.Chance(5, 6), IDSet: r.Intn(len(idSetNames))}
	for _, l := range append(append([]int{}, pre...), seq...) {
		s.Steps = append(s.Steps, g.letter(l, r.Intn(24)))
		if lockstep && l != 17 {
			s.Steps = append(s.Steps, Step{Op: "sync"})
		}
	}
	if !lockstep && r.Bool() {
		s.Steps = append(s.Steps, Step{Op: "sync"})
	}
	s.SlowStop = s.Ending == "sclose" && r.Bool()
	asyncShare(r, &s)
	return s
}

// asyncShare lets a third of the queries, mutations and subscriptions of a session resolve their
// payload through apifu.Go / apifu.Batch (async.go).
func asyncShare(r *hx.Rand, s *Session) {
	// … and 3 in 8 sessions offer something else than exactly their sub-protocol (multi.go: offers)
	if k := r.Intn(16); k < 6 {
		s.Offer = k + 1
	}
	for i := range s.Steps {
		st := &s.Steps[i]
		if st.Op == "frame" && st.F == "start" && st.Big == 0 && (st.Kind == "query" || st.Kind == "mutation" || st.Kind == "subscription") {
			if k := r.Intn(6); k < 2 {
				st.Async = k + 1
			}
		}
	}
	if formsOn {
		formShare(s)
	}
}

func enumerate(n int, f func(seq []int)) {
	var rec func(prefix []int)
	rec = func(prefix []int) {
		f(prefix)
		if len(prefix) == n {
			return
		}
		for l := 0; l < nLetters; l++ {
			rec(append(append([]int{}, prefix...), l))
		}
	}
	rec(nil)
}

// weights of the random generator's step kinds
type choice struct {
	w int
	f func()
}

func randomSession(r *hx.Rand, maxLen int) Session {
	proto := hx.Pick(r, []string{"ws", "tws"})
	s := Session{Proto: proto, Ending: hx.Pick(r, endings), Await: r.Chance(4, 5), IDSet: r.Intn(len(idSetNames))}
	s.SlowStop = s.Ending == "sclose" && r.Bool()
	g := &genState{}
	pSync := hx.Pick(r, []int{0, 0, 1, 3, 10}) // out of 10
	add := func(st Step) {
		s.Steps = append(s.Steps, st)
		if r.Intn(10) < pSync {
			s.Steps = append(s.Steps, Step{Op: "sync"})
		}
	}
	pool := func() int {
		// ids from a small pool so that re-use is frequent; 0 is the empty id
		if r.Chance(1, 12) {
			return 0
		}
		return 1 + r.Intn(4)
	}
	anySub := func() int {
		if len(g.subs) == 0 {
			return -1
		}
		if r.Chance(2, 3) {
			return g.subs[len(g.subs)-1-r.Intn(min(3, len(g.subs)))].gen
		}
		return g.subs[r.Intn(len(g.subs))].gen
	}
	subID := func() int {
		if len(g.subs) == 0 {
			return pool()
		}
		if r.Chance(2, 3) {
			return g.subs[len(g.subs)-1-r.Intn(min(3, len(g.subs)))].id
		}
		return g.subs[r.Intn(len(g.subs))].id
	}
	// how the session opens
	switch r.Intn(8) {
	case 0: // no init at all, or late
	case 1:
		add(g.letter(hx.Pick(r, []int{2, 4, 10, 12, 13, 15}), r.Intn(24)))
		add(Step{Op: "frame", F: "init-ok", Variant: r.Intn(3)})
	default:
		add(Step{Op: "frame", F: "init-ok", Variant: r.Intn(3)})
	}
	n := r.Range(2, maxLen)
	closers := 1
	if proto == "ws" {
		closers = 3 // unknown / malformed are harmless there
	}
	for i := 0; i < n; i++ {
		cs := []choice{
			{10, func() { add(g.start(pool(), hx.Pick(r, []string{"query", "query", "mutation", "invalid", "subfail"}), r.Intn(24))) }},
			{12, func() { add(g.start(pool(), "subscription", r.Intn(24))) }},
			{5, func() { add(g.start(subID(), hx.Pick(r, []string{"subscription", "subscription", "query", "subfail"}), r.Intn(24))) }},
			{10, func() { add(Step{Op: "frame", F: "stop", ID: subID(), Variant: r.Intn(24)}) }},
			{2, func() { add(Step{Op: "frame", F: "stop", ID: hx.Pick(r, []int{9, 0, 5}), Variant: r.Intn(24)}) }},
			{22, func() {
				if g := anySub(); g >= 0 {
					add(Step{Op: "ev", Src: g})
				}
			}},
			{7, func() {
				if g := anySub(); g >= 0 {
					add(Step{Op: "end", Src: g})
				}
			}},
			{5, func() { add(Step{Op: "frame", F: "ping", Variant: r.Intn(2)}) }},
			{2, func() { add(Step{Op: "frame", F: "pong"}) }},
			{closers, func() { add(Step{Op: "frame", F: "unknown", Variant: r.Intn(24)}) }},
			{closers, func() { add(Step{Op: "frame", F: "malformed", Variant: r.Intn(24)}) }},
			{closers, func() { add(Step{Op: "frame", F: "startbad", ID: pool(), Variant: r.Intn(24)}) }},
			{1, func() { add(Step{Op: "frame", F: "terminate"}) }},
			{1, func() { add(Step{Op: "frame", F: "init-rej"}) }},
			{1, func() { add(Step{Op: "frame", F: "init-ok", Variant: r.Intn(3)}) }},
			{3, func() { s.Steps = append(s.Steps, Step{Op: "sync"}) }},
		}
		total := 0
		for _, c := range cs {
			total += c.w
		}
		k := r.Intn(total)
		for _, c := range cs {
			if k < c.w {
				c.f()
				break
			}
			k -= c.w
		}
	}
	if r.Chance(1, 30) {
		s.Steps = append(s.Steps, Step{Op: "frame", F: "close"})
	} else if r.Chance(1, 2) {
		s.Steps = append(s.Steps, Step{Op: "sync"})
	}
	asyncShare(r, &s)
	return s
}

func min(a, b int) int {
	if a < b {
		return a
	}
	return b
}

// manySubs: more live subscriptions than the send buffer holds when the connection ends.
func manySubs(r *hx.Rand, n int) Session {
	s := Session{Proto: hx.Pick(r, []string{"ws", "tws"}), Ending: hx.Pick(r, endings), Await: true, IDSet: r.Intn(len(idSetNames))}
	s.Steps = append(s.Steps, Step{Op: "frame", F: "init-ok"})
	for i := 0; i < n; i++ {
		s.Steps = append(s.Steps, Step{Op: "frame", F: "start", ID: 10 + i, Kind: "subscription", Variant: r.Intn(4)})
	}
	s.Steps = append(s.Steps, Step{Op: "sync"})
	if r.Bool() {
		s.Steps = append(s.Steps, Step{Op: "ev", Src: r.Intn(n)})
	}
	asyncShare(r, &s)
	return s
}

// burst: many operations without waiting, then the connection goes away under them.
func burst(r *hx.Rand, n int) Session {
	s := Session{Proto: hx.Pick(r, []string{"ws", "tws"}), Ending: hx.Pick(r, []string{"drop", "drop", "cclose", "sclose"}), Await: true, IDSet: r.Intn(len(idSetNames))}
	s.Steps = append(s.Steps, Step{Op: "frame", F: "init-ok"})
	for i := 0; i < n; i++ {
		k := hx.Pick(r, []string{"query", "query", "mutation", "subscription", "invalid"})
		s.Steps = append(s.Steps, Step{Op: "frame", F: "start", ID: 10 + i, Kind: k})
	}
	asyncShare(r, &s)
	return s
}

// slowReader: the client stops reading while a subscription with large events is fed until the
// server side stalls (full kernel buffers, blocked write loop, full 100-slot buffer, blocked
// subscription goroutine); frames sent during the stall meet a full buffer — the read loop blocks in
// sendMessage for their answers. Then the client reads again and everything due must arrive; or the
// connection is ended while stalled.
func slowReader(r *hx.Rand, k int) Session {
	proto := []string{"tws", "ws"}[k%2]
	s := Session{Proto: proto, Ending: endings[(k/3)%3], Await: true, IDSet: r.Intn(len(idSetNames))}
	s.SlowStop = s.Ending == "sclose" && r.Bool()
	add := func(st ...Step) { s.Steps = append(s.Steps, st...) }
	add(Step{Op: "frame", F: "init-ok"}, Step{Op: "frame", F: "start", ID: 1, Kind: "subscription", Big: 256})
	second := r.Bool()
	if second {
		add(Step{Op: "frame", F: "start", ID: 2, Kind: "subscription"}, Step{Op: "ev", Src: 1})
	}
	add(Step{Op: "sync"}, Step{Op: "flood", Src: 0})
	// while the server is stalled
	id := 10
	for i, n := 0, r.Range(1, 5); i < n; i++ {
		switch r.Intn(8) {
		case 0, 1, 2:
			add(Step{Op: "frame", F: "ping", Variant: r.Intn(2)})
		case 3:
			add(Step{Op: "frame", F: "start", ID: id, Kind: hx.Pick(r, []string{"query", "mutation", "invalid", "subfail"})})
			id++
		case 4:
			add(Step{Op: "frame", F: "stop", ID: hx.Pick(r, []int{1, 1, 2, 9})})
		case 5:
			add(Step{Op: "frame", F: "start", ID: id, Kind: "subscription"})
			id++
		case 6:
			add(Step{Op: "frame", F: "pong"})
		case 7:
			add(Step{Op: "frame", F: "start", ID: 1, Kind: "subscription"}) // duplicate of the running one: ignored
		}
	}
	if proto == "tws" && k%4 != 3 {
		add(Step{Op: "frame", F: "ping"}) // most graphql-transport-ws sessions ping at the full buffer
	}
	add(Step{Op: "frame", F: "start", ID: id, Kind: "query"}) // a barrier: answered after everything before it
	if k%3 == 2 {
		asyncShare(r, &s)
		return s // the connection ends while the server is stalled
	}
	add(Step{Op: "resume"})
	if second && r.Bool() {
		add(Step{Op: "ev", Src: 1}, Step{Op: "frame", F: "ping"}, Step{Op: "sync"})
	}
	if r.Bool() {
		add(Step{Op: "ev", Src: 0}, Step{Op: "frame", F: "stop", ID: 1}, Step{Op: "sync"})
	}
	asyncShare(r, &s)
	return s
}

// asyncStream: subscriptions whose event payloads are resolved with apifu.Go / apifu.Batch and whose
// sources emit many events (api-fu re-uses one apiRequest for all events of a subscription).
func asyncStream(r *hx.Rand, k int) Session {
	s := Session{Proto: []string{"ws", "tws"}[k%2], Ending: endings[(k/4)%3], Await: true, IDSet: r.Intn(len(idSetNames))}
	mode := 1 + (k/2)%2
	add := func(st ...Step) { s.Steps = append(s.Steps, st...) }
	add(Step{Op: "frame", F: "init-ok"}, Step{Op: "frame", F: "start", ID: 1, Kind: "subscription", Async: mode})
	two := r.Bool()
	if two {
		add(Step{Op: "frame", F: "start", ID: 2, Kind: "subscription", Async: 3 - mode})
	}
	add(Step{Op: "sync"})
	for i, n := 0, r.Range(3, 12); i < n; i++ {
		add(Step{Op: "ev", Src: 0})
		if two && r.Bool() {
			add(Step{Op: "ev", Src: 1})
		}
		switch r.Intn(6) {
		case 0:
			add(Step{Op: "sync"})
		case 1:
			add(Step{Op: "frame", F: "start", ID: 10 + i, Kind: hx.Pick(r, []string{"query", "mutation"}), Async: r.Intn(3)})
		case 2:
			add(Step{Op: "frame", F: "ping"})
		}
	}
	if r.Bool() {
		add(Step{Op: "end", Src: 0})
	} else {
		add(Step{Op: "frame", F: "stop", ID: 1})
	}
	if r.Chance(3, 4) {
		add(Step{Op: "sync"})
	}
	return s
}

// multiClose: 2–4 connections open on the same API at the same time, each with live subscriptions,
// all ended by ONE CloseHijackedConnections: every one of them must be closed by it.
func multiClose(r *hx.Rand, k int) Session {
	conn := func() Session {
		s := Session{Proto: hx.Pick(r, []string{"ws", "tws"}), Ending: "sclose", Await: true, IDSet: r.Intn(len(idSetNames))}
		s.Steps = append(s.Steps, Step{Op: "frame", F: "init-ok"})
		for i, n := 0, r.Range(1, 3); i < n; i++ {
			s.Steps = append(s.Steps, Step{Op: "frame", F: "start", ID: 1 + i, Kind: "subscription", Async: hx.Pick(r, []int{0, 0, 1, 2})})
			if r.Bool() {
				s.Steps = append(s.Steps, Step{Op: "ev", Src: -1})
			}
		}
		if r.Bool() {
			s.Steps = append(s.Steps, Step{Op: "frame", F: "start", ID: 9, Kind: "query"})
		}
		if r.Chance(1, 4) {
			s.Steps = append(s.Steps, Step{Op: "frame", F: "stop", ID: 1})
		}
		s.Steps = append(s.Steps, Step{Op: "sync"})
		return s
	}
	s := conn()
	s.SlowStop = r.Chance(1, 3)
	for i, n := 0, 1+k%3; i < n; i++ {
		s.Peers = append(s.Peers, conn())
	}
	return s
}

func generate(h *harness) {
	run := h.run
	batchSize := 96
	var pending []Session
	flush := func() {
		h.batch(pending)
		pending = nil
	}
	push := func(s Session) {
		pending = append(pending, s)
		if len(pending) >= batchSize {
			flush()
		}
	}
	// 1. bounded-exhaustive: every letter sequence up to length L behind each preamble, both protocols
	L := run.Scale(2, 3)
	preambles := [][]int{{}, {0}, {0, 4}, {0, 4, 18, 4}}
	depth := []int{2, run.Scale(3, 4), run.Scale(3, 4), L} // without an init nothing happens: depth 2 suffices there
	count := 0
	for _, proto := range []string{"ws", "tws"} {
		for pi, pre := range preambles {
			l := depth[pi]
			enumerate(l, func(seq []int) {
				if h.stop {
					return
				}
				push(build(run.Rand.Fork(), proto, pre, seq, true))
				count++
				if (len(seq) == l && l <= 2) || (run.Thorough() && l <= 3) {
					// the same history without waiting between the frames
					push(build(run.Rand.Fork(), proto, pre, seq, false))
					count++
				}
			})
		}
	}
	flush()
	run.Note("wall: bounded-exhaustive part done %.1fs after the start of the run", run.Elapsed().Seconds())
	run.SetExhaustive(true)
	run.Note("bounded-exhaustive: all sequences over the %d-letter alphabet %v of length ≤ %v behind the preambles [], [init], [init, subscription], [init, subscription, event, subscription] respectively, both protocols, in lockstep (a quiescence point after every step) and — the short ones — also without waiting: %d sessions; spelling variants and endings drawn from the PRNG", nLetters, letterNames, depth, count)
	// 2. special shapes
	for i := 0; i < run.Scale(4, 24); i++ {
		push(manySubs(run.Rand.Fork(), run.Rand.Range(101, 140)))
	}
	for i := 0; i < run.Scale(12, 120); i++ {
		push(burst(run.Rand.Fork(), run.Rand.Range(60, 260)))
	}
	flush()
	for i, n := 0, run.Scale(48, 480); i < n; i++ {
		push(asyncStream(run.Rand.Fork(), i))
	}
	for i, n := 0, run.Scale(60, 600); i < n; i++ {
		push(multiClose(run.Rand.Fork(), i))
	}
	flush()
	// slow reader: few at a time, each holds ~30 MB in flight
	for i, n := 0, run.Scale(24, 240); i < n && !h.stop; i++ {
		pending = append(pending, slowReader(run.Rand.Fork(), i))
		if len(pending) >= 8 {
			flush()
		}
	}
	flush()
	for i := 0; i < run.Scale(4000, 40000); i++ {
		push(Session{Proto: hx.Pick(run.Rand, []string{"ws", "tws"}), Ending: "sclose", Early: true})
	}
	flush()
	// connections that outlive the keep-alive period (ticker.go): thorough only, the quick tier has the F-08e replay
	if run.Thorough() {
		for i := 0; i < 12; i++ {
			push(idleSession(run.Rand.Fork(), []string{"ws", "tws"}[i%2], i/2))
		}
		flush()
	}
	run.Note("wall: special shapes (bursts, >100 subscriptions, async streams, groups, slow reader, close-after-dial) done %.1fs after the start of the run", run.Elapsed().Seconds())
	// 3. random longer histories
	n := run.Scale(3000, 30000)
	procs := []int{0}
	if run.Thorough() {
		procs = []int{0, 1, 2}
	}
	for pi, p := range procs {
		if p > 0 {
			old := setProcs(p)
			defer setProcs(old)
		}
		for i := 0; i < n/len(procs) && !h.stop; i++ {
			push(randomSession(run.Rand.Fork(), run.Scale(14, 30)))
		}
		flush()
		run.Count(fmt.Sprintf("gomaxprocs-phase:%d", pi))
	}
}
