package main

// Goroutine accounting: "no goroutine serving the connection remains". Sessions run in parallel on
// several worlds, so the check is made at batch barriers, when every connection of the batch has
// ended: no goroutine may then have a frame of api-fu code on its stack. The check polls until the
// count has settled (goroutines need a moment to unwind) against a baseline taken after warm-up; a
// leak is then attributed by replaying the sessions of the batch one at a time.

import (
	"runtime"
	"strings"
	"time"
)

// apifuGoroutines counts the goroutines that are inside api-fu code and returns a digest of their stacks.
func apifuGoroutines() (int, string) {
	buf := make([]byte, 1<<18)
	for {
		n := runtime.Stack(buf, true)
		if n < len(buf) {
			buf = buf[:n]
			break
		}
		buf = make([]byte, 2*len(buf))
	}
	count := 0
	seen := map[string]int{}
	var order []string
	for _, g := range strings.Split(string(buf), "\n\n") {
		if !strings.Contains(g, "github.com/ccbrown/api-fu") {
			continue
		}
		count++
		var fn []string
		for _, l := range strings.Split(g, "\n") {
			if strings.HasPrefix(l, "github.com/ccbrown/api-fu") {
				if i := strings.LastIndex(l, "("); i > 0 {
					l = l[:i]
				}
				fn = append(fn, strings.TrimPrefix(l, "github.com/ccbrown/api-fu"))
			}
		}
		k := strings.Join(fn, " < ")
		if seen[k] == 0 {
			order = append(order, k)
		}
		seen[k]++
	}
	var b strings.Builder
	for _, k := range order {
		b.WriteString(strings.Repeat("", 0))
		b.WriteString(itoa(seen[k]) + "× " + k + "\n")
	}
	return count, b.String()
}

func itoa(n int) string {
	if n == 0 {
		return "0"
	}
	s := ""
	for n > 0 {
		s = string(rune('0'+n%10)) + s
		n /= 10
	}
	return s
}

func (h *harness) leakCheck(deadline time.Duration) (int, string) {
	return h.leakCheckFrom(h.leakBase, deadline)
}

func (h *harness) leakCheckFrom(base int, deadline time.Duration) (int, string) {
	t0 := time.Now()
	sleep := 200 * time.Microsecond
	for {
		n, dump := apifuGoroutines()
		if n <= base || time.Since(t0) > deadline {
			return n, dump
		}
		time.Sleep(sleep)
		if sleep < 20*time.Millisecond {
			sleep *= 2
		}
	}
}

func setProcs(n int) int { return runtime.GOMAXPROCS(n) }
