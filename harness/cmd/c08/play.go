package main

// The real side: apifu.API.ServeGraphQLWS behind an httptest.Server, a gorilla/websocket client over
// loopback, harness-owned subscription sources with Stop counters.

import (
	"context"
	"encoding/json"
	"fmt"
	"io"
	"net/http"
	"net/http/httptest"
	"reflect"
	"regexp"
	"strconv"
	"strings"
	"sync"
	"sync/atomic"
	"time"
	"unsafe"

	apifu "github.com/ccbrown/api-fu"
	"github.com/ccbrown/api-fu/graphql"
	"github.com/gorilla/websocket"
	"github.com/sirupsen/logrus"
)

// ---- session description (what a replay file holds) ---------------------------------------------

type Step struct {
	Op      string `json:"op"`                // frame | ev | end | sync | flood | resume
	Big     int    `json:"big,omitempty"`     // start(subscription): each event carries this many KiB of payload
	Async   int    `json:"async,omitempty"`   // start(query|mutation|subscription): payload resolved with apifu.Go (1) or Go released by Batch (2), see async.go
	F       string `json:"f,omitempty"`       // init-ok init-rej start startbad stop ping pong terminate unknown malformed close
	ID      int    `json:"id,omitempty"`      // operation id index (0 = the empty id)
	Kind    string `json:"kind,omitempty"`    // query mutation subscription subfail invalid
	Src     int    `json:"src,omitempty"`     // ev/end: the operation (ordinal of its start frame) whose source is meant
	Variant int    `json:"variant,omitempty"` // spelling variant of malformed / unknown / startbad / invalid
	Ms      int    `json:"ms,omitempty"`      // idle: how long the client does nothing (keep-alive ticker family, ticker.go)
	Form    int    `json:"form,omitempty"`    // start: how the document names its operation (forms.go: formNames); 0 = one anonymous operation
}

type Session struct {
	Proto    string `json:"proto"`               // ws | tws
	Steps    []Step `json:"steps"`               //
	Ending   string `json:"ending"`              // cclose | drop | sclose: how the client/server ends a connection that is still open
	Await    bool   `json:"await"`               // after a frame that makes the server close, just wait for the close
	SlowStop bool   `json:"slow_stop,omitempty"` // the sources' Stop() takes a moment (widens the window for concurrent closers)
	Early    bool   `json:"early,omitempty"`     // no steps: CloseHijackedConnections races with the set-up of the connection
	IDSet    int    `json:"id_set,omitempty"`    // how operation ids are spelled on the wire (ids.go: idSetNames)
	Offer    int    `json:"offer,omitempty"`     // which sub-protocols the client offers (multi.go: offers); the session is driven by the negotiated one
	Peers    []Session `json:"peers,omitempty"`  // further connections open on the same API at the same time; all are ended by ONE CloseHijackedConnections
	Gomax    int    `json:"-"`
}

func (s Step) String() string {
	switch s.Op {
	case "frame":
		switch s.F {
		case "start":
			if s.Async > 0 && s.Big == 0 {
				return fmt.Sprintf("start(%d,%s,async%d)", s.ID, s.Kind, s.Async)
			}
			if s.Form > 0 && formApplies(s) {
				return fmt.Sprintf("start(%d,%s,%s)", s.ID, s.Kind, formNames[s.Form%len(formNames)])
			}
			return fmt.Sprintf("start(%d,%s)", s.ID, s.Kind)
		case "startbad", "stop":
			return fmt.Sprintf("%s(%d)", s.F, s.ID)
		}
		return s.F
	case "ev", "end", "flood":
		return fmt.Sprintf("%s(%d)", s.Op, s.Src)
	case "idle":
		return fmt.Sprintf("idle(%dms)", s.Ms)
	}
	return s.Op
}

func (s Session) String() string {
	parts := make([]string, len(s.Steps))
	for i, st := range s.Steps {
		parts[i] = st.String()
	}
	aw := ""
	if s.Await {
		aw = ",await"
	}
	ids := ""
	if s.IDSet != 0 {
		ids = ",ids:" + idSetNames[s.IDSet%len(idSetNames)]
	}
	if s.Offer != 0 {
		ids += fmt.Sprintf(",offer:%v", offers(s.Proto, s.Offer))
	}
	for _, q := range s.Peers {
		ids += " ‖ " + q.String()
	}
	return fmt.Sprintf("%s[%s]→%s%s%s", s.Proto, strings.Join(parts, " "), s.Ending, aw, ids)
}

// ---- the model's input alphabet as the harness records it -------------------------------------------

// Input is one entry of the history as it really happened (source events only when consumed).
type Input struct {
	Kind    string // f ev end sync syncid drop sclose
	Step    Step   // for f
	Gen, N  int    // ev / end
	Stopped []int  // sync: sources stopped so far
	Want    []int  // sync: sources the specification says are stopped by now
	May     []int  // sync: sources that ended by themselves (may or may not be stopped yet)
	ID      int    // syncid
}

// ---- observation ---------------------------------------------------------------------------------

type WFrame struct {
	Type string `json:"type"` // ack ka pong connerr res comp other
	ID   int    `json:"id"`   // operation id index (-1: unknown id string)
	Gen  int    `json:"gen"`  // res: the operation the payload belongs to (-1 unknown)
	Ev   int    `json:"ev"`   // res: 0 = query result, n = n-th source event
	Raw  string `json:"raw,omitempty"`
}

type ExecRec struct {
	Gen  int    `json:"gen"`
	Kind string `json:"kind"`
}

type Observed struct {
	Wire      []WFrame       `json:"wire"`
	CloseCode int            `json:"close_code"` // 0 = no close frame seen
	Execs     []ExecRec      `json:"execs"`
	Stops     map[int]int    `json:"stops"` // source (operation ordinal) → Stop() calls
	Dereg     bool           `json:"deregistered"`
	Anomalies []string       `json:"anomalies,omitempty"` // things the player itself found wrong while playing
	Ending    string         `json:"ending"`              // await cclose drop sclose
	IDs       map[int]string `json:"ids,omitempty"`       // the id strings this session sent, by index
	Proto     string         `json:"proto,omitempty"`     // the negotiated sub-protocol (ws | tws), by which the session was driven
	Inputs    []Input        `json:"-"`
	Elapsed   time.Duration  `json:"-"`
	WireTime  time.Duration  `json:"-"`
	Stats     map[string]int `json:"-"`
	Spec      *spec          `json:"-"`
}

// ---- sources ------------------------------------------------------------------------------------------

type source struct {
	gen       int
	ch        chan int
	stops     int32
	stoppedCh chan struct{}
	once      sync.Once
	closed    bool // channel closed by the harness
	sent      int
	slow      bool
}

func (s *source) stop() {
	if s.slow {
		time.Sleep(1500 * time.Microsecond)
	}
	atomic.AddInt32(&s.stops, 1)
	s.once.Do(func() { close(s.stoppedCh) })
}

// live is the recording state of the session currently played on a world.
type live struct {
	mu      sync.Mutex
	wire    []WFrame
	execs   []ExecRec
	sources map[int]*source
	closed  bool // the client's read loop ended
	closedAt time.Time
	wireTime time.Duration // from before the dial until the read loop ended
	gate     sync.Mutex    // held by the player while the client does not read
	code    int
	slow    bool
}

func (l *live) snapshot() (wire []WFrame, execs []ExecRec) {
	l.mu.Lock()
	defer l.mu.Unlock()
	return append([]WFrame{}, l.wire...), append([]ExecRec{}, l.execs...)
}

// world is one API instance behind one loopback server; sessions on a world run one at a time.
type world struct {
	idx int
	api *apifu.API
	ts  *httptest.Server
	url string
	lives sync.Map // connection key → *live (key 0 unless several connections are open at once)
}

func intArg(ctx graphql.FieldContext, name string) int {
	switch v := ctx.Arguments[name].(type) {
	case int:
		return v
	case int64:
		return int(v)
	case float64:
		return int(v)
	}
	return -1
}

type connKeyT struct{}

// liveFor finds the recording state of the connection a resolver runs for (the key travels in the
// request context of the upgrade request, which api-fu keeps as the value context of the connection).
func (w *world) liveFor(ctx context.Context) *live {
	k, _ := ctx.Value(connKeyT{}).(int)
	if l, ok := w.lives.Load(k); ok {
		return l.(*live)
	}
	return nil
}

func newWorld() *world {
	w := &world{}
	cfg := &apifu.Config{}
	lg := logrus.New()
	lg.SetOutput(io.Discard)
	cfg.Logger = lg
	record := func(ctx graphql.FieldContext, gen int, kind string) {
		if l := w.liveFor(ctx.Context); l != nil {
			l.mu.Lock()
			l.execs = append(l.execs, ExecRec{gen, kind})
			l.mu.Unlock()
		}
	}
	tagArg := map[string]*graphql.InputValueDefinition{"tag": {Type: graphql.IntType}}
	cfg.AddQueryField("q", &graphql.FieldDefinition{Type: graphql.IntType, Arguments: tagArg,
		Resolve: func(ctx graphql.FieldContext) (interface{}, error) {
			t := intArg(ctx, "tag")
			record(ctx, t, "query")
			return t, nil
		}})
	cfg.AddMutation("m", &graphql.FieldDefinition{Type: graphql.IntType, Arguments: tagArg,
		Resolve: func(ctx graphql.FieldContext) (interface{}, error) {
			t := intArg(ctx, "tag")
			record(ctx, t, "mutation")
			return t, nil
		}})
	cfg.AddSubscription("s", &graphql.FieldDefinition{Type: graphql.IntType,
		Arguments: map[string]*graphql.InputValueDefinition{"tag": {Type: graphql.IntType}, "fail": {Type: graphql.BooleanType}},
		Resolve: func(ctx graphql.FieldContext) (interface{}, error) {
			if ctx.IsSubscribe {
				t := intArg(ctx, "tag")
				if f, _ := ctx.Arguments["fail"].(bool); f {
					record(ctx, t, "subfail")
					return nil, fmt.Errorf("subfail%d", t)
				}
				src := &source{gen: t, ch: make(chan int), stoppedCh: make(chan struct{})}
				if l := w.liveFor(ctx.Context); l != nil {
					l.mu.Lock()
					src.slow = l.slow
					l.sources[t] = src
					l.execs = append(l.execs, ExecRec{t, "subscription"})
					l.mu.Unlock()
				}
				return &apifu.SubscriptionSourceStream{EventChannel: src.ch, Stop: src.stop}, nil
			} else if ctx.Object != nil {
				return ctx.Object, nil
			}
			return nil, fmt.Errorf("subscriptions are not supported using this protocol")
		}})
	addAsyncFields(cfg, w, record)
	addNoStreamFields(cfg, record)
	pad := strings.Repeat("x", 1024)
	cfg.AddSubscription("big", &graphql.FieldDefinition{Type: graphql.StringType,
		Arguments: map[string]*graphql.InputValueDefinition{"tag": {Type: graphql.IntType}, "kb": {Type: graphql.IntType}},
		Resolve: func(ctx graphql.FieldContext) (interface{}, error) {
			if ctx.IsSubscribe {
				t := intArg(ctx, "tag")
				src := &source{gen: t, ch: make(chan int), stoppedCh: make(chan struct{})}
				if l := w.liveFor(ctx.Context); l != nil {
					l.mu.Lock()
					src.slow = l.slow
					l.sources[t] = src
					l.execs = append(l.execs, ExecRec{t, "subscription"})
					l.mu.Unlock()
				}
				return &apifu.SubscriptionSourceStream{EventChannel: src.ch, Stop: src.stop}, nil
			} else if n, ok := ctx.Object.(int); ok {
				return fmt.Sprintf("%d:", n) + strings.Repeat(pad, intArg(ctx, "kb")), nil
			}
			return nil, fmt.Errorf("subscriptions are not supported using this protocol")
		}})
	cfg.HandleGraphQLWSInit = func(ctx context.Context, parameters json.RawMessage) (context.Context, error) {
		var p struct {
			Reject bool `json:"reject"`
		}
		json.Unmarshal(parameters, &p)
		if p.Reject {
			return ctx, fmt.Errorf("init rejected")
		}
		return ctx, nil
	}
	api, err := apifu.NewAPI(cfg)
	if err != nil {
		panic(err)
	}
	w.api = api
	w.ts = httptest.NewServer(http.HandlerFunc(func(rw http.ResponseWriter, r *http.Request) {
		k, _ := strconv.Atoi(r.URL.Query().Get("conn"))
		api.ServeGraphQLWS(rw, r.WithContext(context.WithValue(r.Context(), connKeyT{}, k)))
	}))
	w.url = "ws" + strings.TrimPrefix(w.ts.URL, "http")
	return w
}

func (w *world) close() {
	done := make(chan struct{})
	go func() {
		w.api.CloseHijackedConnections()
		w.ts.Close()
		close(done)
	}()
	select {
	case <-done:
	case <-time.After(3 * time.Second): // a broken implementation may block here for ever; the process is about to exit
	}
}

// registryLen reads len(api.graphqlWSConnections) under its mutex (unexported; -1 if the fields moved).
// The mutex is only ever held for a few instructions; if it cannot be had within 100 ms some
// goroutine died or blocked while holding it (every later upgrade, close and deregistration on this
// API then blocks for ever): registryStuck is returned — "not deregistered", without the harness
// joining the queue of the blocked.
func registryLen(api *apifu.API) int {
	v := reflect.ValueOf(api).Elem()
	mu := v.FieldByName("graphqlWSConnectionsMutex")
	m := v.FieldByName("graphqlWSConnections")
	if !mu.IsValid() || !m.IsValid() || m.Kind() != reflect.Map || mu.Type() != reflect.TypeOf(sync.Mutex{}) {
		return -1
	}
	mp := (*sync.Mutex)(unsafe.Pointer(mu.UnsafeAddr()))
	for t0 := time.Now(); !mp.TryLock(); {
		if time.Since(t0) > 100*time.Millisecond {
			return registryStuck
		}
		time.Sleep(50 * time.Microsecond)
	}
	defer mp.Unlock()
	return m.Len()
}

const registryStuck = 1 << 30

// registryLenPatient: a single failed attempt may be a holder that was descheduled on a busy machine;
// only a mutex that stays held for `patience` counts as stuck.
func registryLenPatient(api *apifu.API, patience time.Duration) int {
	t0 := time.Now()
	for {
		n := registryLen(api)
		if n != registryStuck || time.Since(t0) > patience {
			return n
		}
	}
}

// ---- wire syntax ------------------------------------------------------------------------------------

var malformedSpellings = []string{`{"type":`, `not json`, `[1,2]`, `{"id":5,"type":"connection_init"}`, `"str"`, ``, `{"type":"start","payload":{"query":"{q}"}`, `{"type":7}`}

func unknownSpellings(proto string) []string {
	other := `{"id":"a","type":"subscribe","payload":{"query":"{q(tag:0)}"}}`
	if proto == "tws" {
		other = `{"id":"a","type":"start","payload":{"query":"{q(tag:0)}"}}`
	}
	return []string{`{"type":"bogus"}`, `{}`, `{"type":""}`, other, `{"type":"connection_ack"}`, `null`, `{"type":"Connection_Init"}`, `{"id":"a","type":"error","payload":[]}`}
}

var badPayloads = []string{`5`, `"x"`, `[1]`, `true`, `{"query":5}`, `{"variables":[]}`}

func docFor(kind string, gen, variant, big int) string {
	if kind == "subscription" && big > 0 {
		return fmt.Sprintf("subscription{big(tag:%d,kb:%d)}", gen, big)
	}
	switch kind {
	case "query":
		return fmt.Sprintf("{q(tag:%d)}", gen)
	case "mutation":
		return fmt.Sprintf("mutation{m(tag:%d)}", gen)
	case "subscription":
		return fmt.Sprintf("subscription{s(tag:%d)}", gen)
	case "subfail":
		return fmt.Sprintf("subscription{s(tag:%d,fail:true)}", gen)
	}
	switch variant % 4 {
	case 0:
		return fmt.Sprintf("{nope%d}", gen)
	case 1:
		return fmt.Sprintf("{q(tag:%d)", gen) // syntax error
	case 2:
		return fmt.Sprintf("subscription{nope%d}", gen)
	}
	return fmt.Sprintf("{q(tag:%d,bad%d:1)}", gen, gen)
}

// frameBytes spells a client frame. gen is the ordinal of this start frame.
func frameBytes(proto string, st Step, gen int, ids *idCodec) []byte {
	return frameBytesAt(proto, st, gen, ids, false)
}

// idFree: no entry of the server's subscriptions map holds st.ID when this frame is handled (only
// then is a subscription document that selects nothing answered like any other unexecutable one).
func frameBytesAt(proto string, st Step, gen int, ids *idCodec, idFree bool) []byte {
	startT, stopT := "start", "stop"
	if proto == "tws" {
		startT, stopT = "subscribe", "complete"
	}
	idPart := `"id":` + jsonString(ids.str(st.ID), st.Variant/2%2 == 1) + `,`
	if st.ID == 0 && st.Variant%2 == 1 {
		idPart = "" // the empty id, spelled by omission
	}
	switch st.F {
	case "init-ok":
		return []byte([]string{`{"type":"connection_init"}`, `{"type":"connection_init","payload":{}}`, `{"id":"i","type":"connection_init","payload":{"x":1}}`}[st.Variant%3])
	case "init-rej":
		return []byte(`{"type":"connection_init","payload":{"reject":true}}`)
	case "start":
		doc := docFor(st.Kind, gen, st.Variant, st.Big)
		if st.Async > 0 && st.Big == 0 && (st.Kind == "query" || st.Kind == "mutation" || st.Kind == "subscription") {
			doc = asyncDoc(st.Kind, gen, st.Async)
		}
		extra := ""
		if st.Form > 0 && formApplies(st) {
			doc, extra = formDoc(st.Kind, gen, st.Form)
		} else if st.Kind == "invalid" && st.Big == 0 && st.Async == 0 {
			if d, e, ok := nothingSelectedDoc(gen, st.Variant, idFree); ok {
				doc, extra = d, e
			}
		}
		q, _ := json.Marshal(doc)
		return []byte(`{` + idPart + `"type":"` + startT + `","payload":{"query":` + string(q) + extra + `}}`)
	case "startbad":
		return []byte(`{` + idPart + `"type":"` + startT + `","payload":` + badPayloads[st.Variant%len(badPayloads)] + `}`)
	case "stop":
		return []byte(`{` + idPart + `"type":"` + stopT + `"}`)
	case "ping":
		return []byte([]string{`{"type":"ping"}`, `{"type":"ping","payload":{"a":1}}`}[st.Variant%2])
	case "pong":
		return []byte(`{"type":"pong"}`)
	case "terminate":
		return []byte(`{"type":"connection_terminate"}`)
	case "unknown":
		u := unknownSpellings(proto)
		return []byte(u[st.Variant%len(u)])
	case "malformed":
		return []byte(malformedSpellings[st.Variant%len(malformedSpellings)])
	}
	return nil
}

type genEv struct{ gen, ev int }

// asyncPayload reads {"qa"|"ma"|"sa": {"v": n[, "w": n]}}; v and w (when both are there) must agree.
func asyncPayload(data map[string]json.RawMessage) (genEv, bool) {
	for _, k := range []string{"qa", "ma", "sa"} {
		raw, ok := data[k]
		if !ok {
			continue
		}
		var o struct {
			V *int `json:"v"`
			W *int `json:"w"`
		}
		if json.Unmarshal(raw, &o) != nil || o.V == nil || (o.W != nil && *o.W != *o.V) {
			return genEv{}, false
		}
		if k == "sa" {
			return genEv{*o.V / 1000, *o.V % 1000}, true
		}
		return genEv{*o.V, 0}, true
	}
	return genEv{}, false
}

var digits = regexp.MustCompile(`(?:nope|subfail|bad|tag:)(\d+)`)

func parseServerFrame(p []byte, ids *idCodec) WFrame {
	if !validFrame(p) {
		raw := string(p)
		if len(raw) > 300 {
			raw = raw[:300] + "…"
		}
		return WFrame{Type: "other", ID: -1, Gen: -1, Raw: "not valid JSON/UTF-8: " + strconv.QuoteToASCII(raw)}
	}
	var m struct {
		ID      string          `json:"id"`
		Type    string          `json:"type"`
		Payload json.RawMessage `json:"payload"`
	}
	if err := json.Unmarshal(p, &m); err != nil {
		return WFrame{Type: "other", ID: -1, Gen: -1, Raw: string(p)}
	}
	switch m.Type {
	case "connection_ack":
		return WFrame{Type: "ack"}
	case "ka":
		return WFrame{Type: "ka"}
	case "pong":
		return WFrame{Type: "pong"}
	case "connection_error":
		return WFrame{Type: "connerr"}
	case "complete":
		f := WFrame{Type: "comp", ID: ids.index(m.ID)}
		if f.ID < 0 {
			f.Raw = "complete for an id this session never sent: " + strconv.QuoteToASCII(m.ID)
		}
		return f
	case "data", "next":
		raw := string(m.Payload)
		if len(raw) > 160 {
			raw = raw[:160] + "…"
		}
		f := WFrame{Type: "res", ID: ids.index(m.ID), Gen: -1, Raw: raw}
		if f.ID < 0 {
			f.Raw = "result for an id this session never sent: " + strconv.QuoteToASCII(m.ID) + " " + raw
		}
		var r struct {
			Data   map[string]json.RawMessage `json:"data"`
			Errors []struct {
				Message string `json:"message"`
			} `json:"errors"`
		}
		if json.Unmarshal(m.Payload, &r) == nil {
			if v, ok := r.Data["q"]; ok && len(r.Errors) == 0 {
				if n, err := strconv.Atoi(string(v)); err == nil {
					f.Gen, f.Ev = n, 0
				}
			} else if v, ok := r.Data["m"]; ok && len(r.Errors) == 0 {
				if n, err := strconv.Atoi(string(v)); err == nil {
					f.Gen, f.Ev = n, 0
				}
			} else if v, ok := r.Data["s"]; ok && len(r.Errors) == 0 {
				if n, err := strconv.Atoi(string(v)); err == nil {
					f.Gen, f.Ev = n/1000, n%1000
				}
			} else if v, ok := asyncPayload(r.Data); ok && len(r.Errors) == 0 {
				f.Gen, f.Ev = v.gen, v.ev
			} else if v, ok := r.Data["big"]; ok && len(r.Errors) == 0 && len(v) > 2 {
				if i := strings.IndexByte(string(v), ':'); i > 1 {
					if n, err := strconv.Atoi(string(v[1:i])); err == nil {
						f.Gen, f.Ev = n/1000, n%1000
					}
				}
			} else if len(r.Errors) > 0 {
				if mm := digits.FindStringSubmatch(r.Errors[0].Message); mm != nil {
					f.Gen, _ = strconv.Atoi(mm[1])
				} else if mm := digits.FindStringSubmatch(string(m.Payload)); mm != nil {
					f.Gen, _ = strconv.Atoi(mm[1])
				}
			}
		}
		return f
	}
	raw := string(p)
	if len(raw) > 300 {
		raw = raw[:300] + "…"
	}
	return WFrame{Type: "other", ID: ids.index(m.ID), Gen: -1, Raw: raw}
}

// ---- playing a session ---------------------------------------------------------------------------------

type player struct {
	w        *world
	sess     Session
	l        *live
	conn     *websocket.Conn
	sp       *spec
	inputs   []Input
	anom     []string
	deadline time.Duration
	stats    map[string]int
	ids      *idCodec
	k        int    // connection key
	grp      *group // non-nil: one of several connections open on the same API
	barrier  map[int]bool // id → a duplicate subscription start for it is in flight without a barrier
	probeNo  int
	dead     bool // a wait timed out already: do not wait at full length again in this session
	finishing bool // the session is being ended: the full deadline applies to the cleanup waits
	paused    bool      // the client is not reading (slow-reader fault)
	pausedAt  time.Time //
	lenient   bool      // a stall lasted so long that the server's 5 s write deadline may have fired: nothing after it is "due"
	patient   bool // the current wait is for something that legitimately takes a moment
	ending   string
}

var timeoutSpent int64 // nanoseconds spent in waits that timed out (whole run)

// waitFor polls cond until it holds or the deadline passes.
func (p *player) waitFor(what string, cond func() bool) bool {
	d := p.deadline
	if p.dead {
		d = d / 20
		if p.patient && d < 3*time.Second {
			d = 3 * time.Second // a server-side close takes up to a second by design (it waits for the echo)
		}
	}
	t0 := time.Now()
	sleep := 20 * time.Microsecond
	for {
		if cond() {
			return true
		}
		// once the client's read loop has ended no message can arrive any more; what the server
		// still does on its own (Stop calls, deregistration) gets a grace period, not the full wait
		if !p.finishing && d > 2*time.Second {
			p.l.mu.Lock()
			if p.l.closed {
				if p.l.closedAt.IsZero() {
					p.l.closedAt = time.Now()
				}
				// a server-initiated close waits up to 1 s for the echo of its close frame and then for the
				// read loop to finish the operation it is in: on a busy machine that exceeds 2 s
				grace := 2 * time.Second
				if p.patient {
					grace = 6 * time.Second
				}
				if rest := time.Until(p.l.closedAt.Add(grace)); time.Until(t0.Add(d)) > rest {
					d = time.Since(t0) + rest
				}
			}
			p.l.mu.Unlock()
		}
		if time.Since(t0) > d {
			atomic.AddInt64(&timeoutSpent, int64(time.Since(t0)))
			p.dead = true
			p.anom = append(p.anom, "timeout waiting for "+what)
			return false
		}
		time.Sleep(sleep)
		if sleep < 2*time.Millisecond {
			sleep = sleep * 3 / 2
		}
	}
}

func (p *player) observedCounts() (conn int, perID map[int]int, execs int) {
	p.l.mu.Lock()
	defer p.l.mu.Unlock()
	perID = map[int]int{}
	for _, f := range p.l.wire {
		switch f.Type {
		case "res", "comp":
			perID[f.ID]++
		default:
			conn++
		}
	}
	return conn, perID, len(p.l.execs)
}

func (p *player) stoppedNow() []int {
	p.l.mu.Lock()
	defer p.l.mu.Unlock()
	var out []int
	for g, s := range p.l.sources {
		if atomic.LoadInt32(&s.stops) > 0 {
			out = append(out, g)
		}
	}
	sortInts(out)
	return out
}

// caughtUp: everything the specification expects so far has been observed (counts only; the exact
// comparison happens at the end).
func (p *player) caughtUp(onlyID int) bool {
	conn, perID, execs := p.observedCounts()
	if onlyID >= 0 {
		return perID[onlyID] >= len(p.sp.perID[onlyID])
	}
	if conn < p.sp.connCount() || execs < len(p.sp.execs) {
		return false
	}
	for id, exp := range p.sp.perID {
		if perID[id] < len(exp) {
			return false
		}
	}
	st := p.stoppedNow()
	for g := range p.sp.stopped {
		if !containsInt(st, g) {
			return false
		}
	}
	return true
}

func (p *player) sync() {
	if p.paused || p.lenient {
		return
	}
	ok := p.waitFor("quiescence (all expected messages, resolver runs and Stop calls)", func() bool { return p.caughtUp(-1) })
	_ = ok
	// recorded even when it timed out: the comparison then reports what is missing
	var want []int
	for g := range p.sp.stopped {
		want = append(want, g)
	}
	sortInts(want)
	var may []int
	for g := range p.sp.released {
		may = append(may, g)
	}
	sortInts(may)
	p.inputs = append(p.inputs, Input{Kind: "sync", Stopped: p.stoppedNow(), Want: want, May: may})
	p.sp.mark(len(p.inputs))
	p.stats["sync"]++
}

func (p *player) send(st Step) {
	gen := p.sp.nextGen
	_, busy := p.sp.active[st.ID]
	b := frameBytesAt(p.sess.Proto, st, gen, p.ids, !busy)
	if st.F == "close" {
		p.conn.WriteControl(websocket.CloseMessage, websocket.FormatCloseMessage(websocket.CloseNormalClosure, "bye"), time.Now().Add(5*time.Second))
	} else {
		p.conn.SetWriteDeadline(time.Now().Add(5 * time.Second))
		typ := websocket.TextMessage
		if st.F == "malformed" && st.Variant%len(malformedSpellings) == 1 {
			typ = websocket.BinaryMessage
		}
		p.conn.WriteMessage(typ, b) // errors (the server may have closed already) are expected and ignored
	}
	p.inputs = append(p.inputs, Input{Kind: "f", Step: st})
	p.sp.frame(st, len(p.inputs)-1)
	p.stats["frame:"+st.F]++
	if st.F == "start" {
		p.stats["start:"+st.Kind]++
	}
}

func (p *player) source(gen int) *source {
	p.l.mu.Lock()
	defer p.l.mu.Unlock()
	return p.l.sources[gen]
}

// flood is the slow-reader fault: the client stops reading and the source of subscription st.Src
// (one with large events) is fed until the server side stalls — the kernel buffers are full, the
// write loop is blocked in its write, the 100-slot buffer is full and the subscription goroutine is
// blocked in SendData, so the source's channel send is not taken any more. Every push that *was*
// taken is an input like any other. The server's write deadline is 5 s, so the whole stall is kept
// well below that; if it is not (overloaded machine), nothing after it counts as due.
func (p *player) flood(st Step) {
	if p.sp.closing || p.paused {
		return
	}
	if st.Src < 0 {
		if k := len(p.sp.created) + st.Src; k >= 0 {
			st.Src = p.sp.created[k]
		}
	}
	g, ok := p.sp.gens[st.Src]
	if !ok || !g.created || g.stopped || g.ended {
		p.stats["src-skip:no-such-subscription"]++
		return
	}
	var src *source
	if !p.waitFor(fmt.Sprintf("the source of subscription %d to be created", st.Src), func() bool { src = p.source(st.Src); return src != nil }) {
		return
	}
	p.l.gate.Lock()
	p.paused, p.pausedAt = true, time.Now()
	p.stats["flood"]++
	taken, stalled := 0, false
	for time.Since(p.pausedAt) < 2500*time.Millisecond && src.sent < 900 {
		src.sent++
		timer := time.NewTimer(300 * time.Millisecond)
		select {
		case src.ch <- st.Src*1000 + src.sent:
			timer.Stop()
			taken++
			p.inputs = append(p.inputs, Input{Kind: "ev", Gen: st.Src, N: src.sent})
			p.sp.event(st.Src, src.sent, len(p.inputs)-1)
			continue
		case <-src.stoppedCh:
			timer.Stop()
			src.sent--
			p.anom = append(p.anom, fmt.Sprintf("source %d was stopped although nothing asked for it", st.Src))
		case <-timer.C:
			src.sent--
			if taken <= 100 {
				continue // fewer events than the send buffer holds were taken: a hiccup, not the stall
			}
			stalled = true
		}
		break
	}
	p.stats["flood-events"] += taken
	if stalled {
		p.stats["flood:stalled"]++
	} else {
		p.stats["flood:no-stall-within-bounds"]++
	}
}

func (p *player) resume() {
	if !p.paused {
		return
	}
	p.paused = false
	if time.Since(p.pausedAt) > 3500*time.Millisecond {
		p.lenient = true
		p.stats["stall-too-long:lenient"]++
	}
	p.l.gate.Unlock()
}

// probe sends a frame whose answer proves that the reader has handled everything sent before.
func (p *player) probe() {
	if !p.sp.inited || p.sp.closing {
		return
	}
	if p.sess.Proto == "tws" {
		p.send(Step{Op: "frame", F: "ping"})
	} else {
		p.probeNo++
		p.send(Step{Op: "frame", F: "start", ID: 1000 + p.probeNo, Kind: "query"})
	}
	p.stats["probe"]++
	p.sync()
	for id := range p.barrier {
		delete(p.barrier, id)
	}
}

func (p *player) play() {
	for _, st := range p.sess.Steps {
		if p.paused && (st.Op == "sync" || st.Op == "ev" || st.Op == "end" || st.Op == "flood") {
			p.stats["step-skip:client-not-reading"]++
			continue
		}
		switch st.Op {
		case "idle":
			time.Sleep(time.Duration(st.Ms) * time.Millisecond)
			p.stats["idle-steps"]++
		case "flood":
			p.flood(st)
		case "resume":
			p.resume()
			if !p.sp.closing {
				p.sync()
			}
		case "sync":
			if !p.sp.closing {
				p.sync()
			}
		case "frame":
			if st.F == "close" {
				// a close frame ends the client's part of the session
				p.send(st)
				p.finish("cclose", true)
				return
			}
			if st.F == "start" {
				// an id is re-used only after everything outstanding for it has been observed
				if p.paused && !p.caughtUp(st.ID) {
					p.stats["frame-skip:id-busy-while-not-reading"]++
					continue
				}
				if p.sp.closing && !p.caughtUp(st.ID) {
					// the server was told to close: what is outstanding may never come, and a new
					// operation on the same id would race with it
					p.stats["frame-skip:id-busy-while-closing"]++
					continue
				}
				if len(p.sp.perID[st.ID]) > 0 && !p.sp.closing {
					if _, perID, _ := p.observedCounts(); perID[st.ID] < len(p.sp.perID[st.ID]) {
						p.waitFor(fmt.Sprintf("outstanding messages of id %d", st.ID), func() bool { return p.caughtUp(st.ID) })
					}
					p.inputs = append(p.inputs, Input{Kind: "syncid", ID: st.ID})
					p.sp.markID(st.ID, len(p.inputs))
				}
				if (st.Kind == "subscription" || st.Kind == "subfail") && p.sp.inited {
					if _, active := p.sp.active[st.ID]; active {
						p.barrier[st.ID] = true
					}
				}
			}
			p.send(st)
		case "ev", "end":
			if p.sp.closing {
				continue // no source actions once the server was told to close: they race with the close
			}
			if st.Src < 0 {
				// -k: the k-th most recently created source
				if k := len(p.sp.created) + st.Src; k >= 0 {
					st.Src = p.sp.created[k]
				}
			}
			g, ok := p.sp.gens[st.Src]
			if !ok || g.kind != "subscription" || !g.created {
				p.stats["src-skip:no-such-subscription"]++
				continue
			}
			var src *source
			if !p.waitFor(fmt.Sprintf("the source of subscription %d to be created", st.Src), func() bool { src = p.source(st.Src); return src != nil }) {
				continue
			}
			if src.closed || (st.Op == "ev" && g.stopped) {
				// nothing to do to this source any more
			} else if !p.caughtUp(g.id) {
				// a source action must not race with messages the reader still owes to the same id
				p.waitFor(fmt.Sprintf("outstanding messages of id %d", g.id), func() bool { return p.caughtUp(g.id) })
				p.inputs = append(p.inputs, Input{Kind: "syncid", ID: g.id})
				p.sp.markID(g.id, len(p.inputs))
			}
			if st.Op == "end" {
				if src.closed {
					continue
				}
				if p.barrier[g.id] {
					p.probe()
				}
				src.closed = true
				close(src.ch)
				p.inputs = append(p.inputs, Input{Kind: "end", Gen: st.Src})
				p.sp.end(st.Src, len(p.inputs)-1)
				p.stats["src:end"]++
				continue
			}
			if src.closed {
				continue
			}
			if g.stopped {
				// the stop may still be in flight: wait until it happened, then there is nothing to push to
				p.waitFor(fmt.Sprintf("Stop() of source %d", st.Src), func() bool { return atomic.LoadInt32(&src.stops) > 0 })
				p.stats["src-skip:stopped"]++
				continue
			}
			src.sent++
			val := st.Src*1000 + src.sent
			d := p.deadline
			if p.dead {
				d /= 10
			}
			timer := time.NewTimer(d)
			select {
			case src.ch <- val:
				timer.Stop()
				p.inputs = append(p.inputs, Input{Kind: "ev", Gen: st.Src, N: src.sent})
				p.sp.event(st.Src, src.sent, len(p.inputs)-1)
				p.stats["src:event"]++
			case <-src.stoppedCh:
				timer.Stop()
				src.sent--
				p.anom = append(p.anom, fmt.Sprintf("source %d was stopped although nothing asked for it", st.Src))
			case <-timer.C:
				src.sent--
				atomic.AddInt64(&timeoutSpent, int64(d))
				p.dead = true
				p.anom = append(p.anom, fmt.Sprintf("the active subscription %d did not take an event from its source", st.Src))
			}
		}
	}
	// the steps are played: end the session
	if p.sp.closing && p.sess.Await {
		p.finish("await", false)
		return
	}
	switch p.sess.Ending {
	case "cclose":
		p.send(Step{Op: "frame", F: "close"})
		p.finish("cclose", true)
	case "sclose":
		p.inputs = append(p.inputs, Input{Kind: "sclose"})
		p.finish("sclose", false)
	default:
		p.inputs = append(p.inputs, Input{Kind: "drop"})
		p.finish("drop", false)
	}
}

// finish ends the connection in the given way and waits for the post-close state to settle.
func (p *player) finish(ending string, closeSent bool) {
	p.finishing = true
	p.stats["ending:"+ending]++
	readerDone := func() bool { p.l.mu.Lock(); defer p.l.mu.Unlock(); return p.l.closed }
	if p.paused {
		p.stats["ending-while-stalled:"+ending]++
	}
	switch ending {
	case "await", "cclose":
		p.resume() // a client that has sent its close frame reads until the close arrives
		if !p.waitFor("the server to close the connection", readerDone) {
			p.anom = append(p.anom, "the server did not close the connection")
		}
	case "sclose":
		if p.grp != nil {
			p.grp.arrive(p.k) // every connection of the group has played its steps before the ONE close
		}
		p.patient = true
		p.resume()
		if p.grp == nil || p.k == 0 {
			done := make(chan struct{})
			go func() { p.w.api.CloseHijackedConnections(); close(done) }()
			if !p.waitFor("CloseHijackedConnections to return", func() bool {
				select {
				case <-done:
					return true
				default:
					return false
				}
			}) {
				p.anom = append(p.anom, "CloseHijackedConnections did not return")
			}
		}
		p.patient = false
		if !p.waitFor("the server to close the connection", readerDone) {
			p.anom = append(p.anom, "the connection was registered but CloseHijackedConnections has not closed it")
		}
	case "drop":
		p.conn.UnderlyingConn().Close()
		p.resume()
		p.waitFor("the client's read loop to end", readerDone)
	}
	p.resume()
	p.conn.UnderlyingConn().Close()
	p.waitFor("the client's read loop to end", readerDone)
	p.ending = ending
}

// playEarly: the server closes its hijacked connections while this one is being set up. Either the
// connection was registered already (then it is closed like any other) or it was not (then
// CloseHijackedConnections has nothing to do with it and the client drops it).
func (p *player) playEarly() {
	p.finishing = true
	done := make(chan struct{})
	go func() { p.w.api.CloseHijackedConnections(); close(done) }()
	if !p.waitFor("CloseHijackedConnections to return", func() bool {
		select {
		case <-done:
			return true
		default:
			return false
		}
	}) {
		p.anom = append(p.anom, "CloseHijackedConnections did not return")
	}
	readerDone := func() bool { p.l.mu.Lock(); defer p.l.mu.Unlock(); return p.l.closed }
	t0 := time.Now()
	for !readerDone() && time.Since(t0) < 30*time.Millisecond {
		time.Sleep(200 * time.Microsecond)
	}
	if readerDone() {
		p.inputs = append(p.inputs, Input{Kind: "sclose"})
		p.ending = "sclose"
	} else {
		p.inputs = append(p.inputs, Input{Kind: "drop"})
		p.ending = "drop"
	}
	p.stats["ending:early-"+p.ending]++
	p.conn.UnderlyingConn().Close()
	p.waitFor("the client's read loop to end", readerDone)
}

func runSession(w *world, sess Session, deadline time.Duration) *Observed {
	if len(sess.Peers) > 0 {
		return runGroup(w, sess, deadline)
	}
	return runConn(w, sess, deadline, 0, nil)
}

// runConn plays one connection. k is its key on the world; grp is non-nil when it is one of several
// connections open on the same API at the same time.
func runConn(w *world, sess Session, deadline time.Duration, k int, grp *group) *Observed {
	t0 := time.Now()
	l := &live{sources: map[int]*source{}, slow: sess.SlowStop}
	w.lives.Store(k, l)
	defer w.lives.Delete(k)
	ids := newIDCodec(sess.IDSet)
	offered := offers(sess.Proto, sess.Offer)
	d := &websocket.Dialer{Subprotocols: offered, HandshakeTimeout: 10 * time.Second}
	var conn *websocket.Conn
	var err error
	for attempt := 0; attempt < 50; attempt++ {
		conn, _, err = d.Dial(fmt.Sprintf("%s?conn=%d", w.url, k), nil)
		if err == nil {
			break
		}
		time.Sleep(20 * time.Millisecond)
	}
	// the session is driven by the sub-protocol the handshake NEGOTIATED, whatever was offered
	negotiated := ""
	if conn != nil {
		switch conn.Subprotocol() {
		case "graphql-ws":
			negotiated = "ws"
		case "graphql-transport-ws":
			negotiated = "tws"
		}
	}
	if negotiated != "" {
		sess.Proto = negotiated
	}
	p := &player{w: w, sess: sess, l: l, ids: ids, k: k, grp: grp, sp: newSpec(sess.Proto), deadline: deadline, stats: map[string]int{}, barrier: map[int]bool{}}
	obs := &Observed{Stops: map[int]int{}, Stats: p.stats, Proto: sess.Proto}
	if err != nil || negotiated == "" {
		if grp != nil {
			grp.dialed(k)
			grp.arrive(k)
		}
		if err != nil {
			obs.Anomalies = []string{"harness: cannot dial: " + err.Error()}
		} else {
			obs.Anomalies = []string{fmt.Sprintf("harness: the handshake negotiated sub-protocol %q for the offer %q", conn.Subprotocol(), offered)}
			conn.Close()
		}
		obs.Spec = p.sp
		return obs
	}
	p.stats["offer:"+fmt.Sprint(sess.Offer)+"→"+negotiated]++
	p.conn = conn
	if !sess.Early {
		// the history starts once the connection is established on the server side (registered and served)
		p.waitFor("the connection to be registered", func() bool { n := registryLen(w.api); return n < 0 || (n != registryStuck && n >= k+1) })
	}
	if grp != nil {
		grp.dialed(k)
	}
	go func() {
		for {
			l.gate.Lock() // the player holds the gate while the client "does not read"
			l.gate.Unlock()
			_, b, err := conn.ReadMessage()
			if err != nil {
				l.mu.Lock()
				if ce, ok := err.(*websocket.CloseError); ok && ce.Code != websocket.CloseAbnormalClosure {
					l.code = ce.Code
				}
				l.closed = true
				l.wireTime = time.Since(t0)
				l.mu.Unlock()
				return
			}
			f := parseServerFrame(b, ids)
			l.mu.Lock()
			l.wire = append(l.wire, f)
			l.mu.Unlock()
		}
	}()
	if sess.Early {
		p.playEarly()
	} else {
		p.play()
	}
	// post-close accounting: every created source stopped, connection deregistered
	p.waitFor("every created source to be stopped and the connection to be deregistered", func() bool {
		if n := registryLen(w.api); n > 0 {
			return false
		}
		l.mu.Lock()
		defer l.mu.Unlock()
		for _, s := range l.sources {
			if atomic.LoadInt32(&s.stops) == 0 {
				return false
			}
		}
		return true
	})
	if sess.SlowStop {
		time.Sleep(5 * time.Millisecond) // a second, concurrent closer would still be inside Stop()
	}
	n := registryLenPatient(w.api, 3*time.Second)
	obs.Dereg = n <= 0
	if n < 0 {
		p.stats["registry-not-readable"]++
	}
	if n == registryStuck {
		p.anom = append(p.anom, "the registry mutex of the API is held for good: a goroutine died or blocked inside ServeGraphQLWS / CloseHijackedConnections / HandleClose while holding it")
	}
	obs.Wire, obs.Execs = l.snapshot()
	l.mu.Lock()
	obs.CloseCode = l.code
	obs.WireTime = l.wireTime
	if !l.closed {
		obs.WireTime = time.Since(t0)
	}
	for g, s := range l.sources {
		obs.Stops[g] = int(atomic.LoadInt32(&s.stops))
	}
	l.mu.Unlock()
	obs.Anomalies = p.anom
	obs.Ending = p.ending
	obs.Inputs = p.inputs
	obs.IDs = ids.table()
	obs.Spec = p.sp
	obs.Elapsed = time.Since(t0)
	return obs
}

func sortInts(a []int) {
	for i := 1; i < len(a); i++ {
		for j := i; j > 0 && a[j] < a[j-1]; j-- {
			a[j], a[j-1] = a[j-1], a[j]
		}
	}
}

func containsInt(a []int, x int) bool {
	for _, y := range a {
		if y == x {
			return true
		}
	}
	return false
}
