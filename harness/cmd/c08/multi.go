package main

// Two more dimensions of a session:
//
//   - the sub-protocol OFFER of the client (one protocol, both in either order, with junk entries):
//     the session is driven by the protocol the handshake negotiated (Sec-WebSocket-Protocol), so a
//     server that announces one protocol and speaks the other shows at once;
//   - several connections open on the same API at the same time (a group), all ended by ONE
//     API.CloseHijackedConnections: every one of them must be closed by it, with the usual clean-up.

import (
	"fmt"
	"sync"
	"time"
)

const (
	wsName  = "graphql-ws"
	twsName = "graphql-transport-ws"
)

// offers lists the sub-protocols the client offers. proto is the one the generator aims at; when
// both are offered the server's choice decides.
func offers(proto string, offer int) []string {
	own, other := wsName, twsName
	if proto == "tws" {
		own, other = twsName, wsName
	}
	switch offer % 8 {
	case 1:
		return []string{twsName, wsName}
	case 2:
		return []string{wsName, twsName}
	case 3:
		return []string{"soap", own, "graphql-ws2"}
	case 4:
		return []string{"mqtt", twsName, wsName, "graphql"}
	case 5:
		return []string{own, own}
	case 6:
		return []string{"GRAPHQL-WS", "graphql-transport-ws ", other + "x", own}
	}
	return []string{own}
}

// group synchronises the connections of one world that are open at the same time.
type group struct {
	n       int
	mu      sync.Mutex
	dialedN []chan struct{}
	arrived int
	all     chan struct{} // closed when every connection has played its steps
}

func newGroup(n int) *group {
	g := &group{n: n, all: make(chan struct{})}
	for i := 0; i < n; i++ {
		g.dialedN = append(g.dialedN, make(chan struct{}))
	}
	return g
}

func (g *group) dialed(k int) {
	g.mu.Lock()
	defer g.mu.Unlock()
	select {
	case <-g.dialedN[k]:
	default:
		close(g.dialedN[k])
	}
}

// arrive is called by each connection when its steps are played; it returns once all have arrived
// (bounded: a connection that got stuck must not hold the others for ever).
func (g *group) arrive(k int) {
	g.mu.Lock()
	g.arrived++
	if g.arrived == g.n {
		close(g.all)
	}
	g.mu.Unlock()
	select {
	case <-g.all:
	case <-time.After(60 * time.Second):
	}
}

// runGroup plays sess and its peers on the same API at the same time. The connections are set up
// one after the other (so that each can wait for its own registration), play their steps
// concurrently, and are ended together by the one CloseHijackedConnections that connection 0 issues.
// The main observation is connection 0's; what the oracle finds on another connection is reported
// through it.
func runGroup(w *world, sess Session, deadline time.Duration) *Observed {
	all := append([]Session{sess}, sess.Peers...)
	all[0].Peers = nil
	g := newGroup(len(all))
	obs := make([]*Observed, len(all))
	var wg sync.WaitGroup
	for k := range all {
		all[k].Ending, all[k].Early = "sclose", false
		wg.Add(1)
		go func(k int) {
			defer wg.Done()
			obs[k] = runConn(w, all[k], deadline, k, g)
		}(k)
		select {
		case <-g.dialedN[k]:
		case <-time.After(60 * time.Second):
		}
	}
	wg.Wait()
	main := obs[0]
	main.Stats["group-connections"] += len(all)
	for k := 1; k < len(all); k++ {
		for key, v := range obs[k].Stats {
			main.Stats[key] += v
		}
		for _, a := range obs[k].Anomalies {
			main.Anomalies = append(main.Anomalies, fmt.Sprintf("connection %d of the group: %s", k, a))
		}
		if msg := obs[k].Spec.oracle(obs[k]); msg != "" {
			main.Anomalies = append(main.Anomalies, fmt.Sprintf("connection %d of the group: %s", k, msg))
		}
	}
	return main
}
