package main

// Supervision. The server under test runs inside the harness process (its resolvers, sources and
// registry are harness objects), so a panic on one of ITS goroutines — a connection's read loop, a
// subscription goroutine — ends the harness with it. For the property that is "every operation of
// every open connection is never answered, nothing is stopped or deregistered": a violation that must
// be reported with the session that causes it, not as "the harness died".
//
// The harness therefore runs as a worker under a supervisor (the same binary). The worker tells the
// supervisor over a pipe which session each world is playing. When the worker dies the supervisor
// replays the sessions that were in flight, one at a time in fresh workers, finds the one that kills
// the process by itself, shrinks it, and writes the result file with that crash as the violation.

import (
	"bufio"
	"encoding/json"
	"fmt"
	"io"
	"os"
	"os/exec"
	"path/filepath"
	"strings"
	"sync"
	"time"

	"verifharness/hx"
)

const workerEnv = "VERIF_C08_WORKER"

var (
	inflightMu sync.Mutex
	inflightW  *os.File
)

func isWorker() bool { return os.Getenv(workerEnv) != "" }

func initWorker() {
	if os.Getenv(workerEnv) == "pipe" {
		inflightW = os.NewFile(3, "inflight")
	}
}

func noteStart(world int, s Session) {
	if inflightW == nil {
		return
	}
	b, err := json.Marshal(s)
	if err != nil {
		return
	}
	inflightMu.Lock()
	fmt.Fprintf(inflightW, "S %d %s\n", world, b)
	inflightMu.Unlock()
}

func noteEnd(world int) {
	if inflightW == nil {
		return
	}
	inflightMu.Lock()
	fmt.Fprintf(inflightW, "E %d\n", world)
	inflightMu.Unlock()
}

// tailBuf keeps the last part of what the worker wrote to stderr.
type tailBuf struct {
	mu  sync.Mutex
	buf []byte
}

func (t *tailBuf) Write(p []byte) (int, error) {
	t.mu.Lock()
	t.buf = append(t.buf, p...)
	if len(t.buf) > 1<<18 {
		t.buf = append([]byte{}, t.buf[len(t.buf)-1<<17:]...)
	}
	t.mu.Unlock()
	return len(p), nil
}

func (t *tailBuf) String() string {
	t.mu.Lock()
	defer t.mu.Unlock()
	return string(t.buf)
}

// diedOf extracts the reason from a Go runtime crash report ("" when the output holds none).
func diedOf(stderr string) string {
	for _, mark := range []string{"panic: ", "fatal error: "} {
		if i := strings.LastIndex(stderr, "\n"+mark); i >= 0 || strings.HasPrefix(stderr, mark) {
			if i < 0 {
				i = -1
			}
			rest := stderr[i+1:]
			if j := strings.IndexByte(rest, '\n'); j >= 0 {
				rest = rest[:j]
			}
			// the frame that raised it, if it is inside api-fu
			where := ""
			for _, ln := range strings.Split(stderr[i+1:], "\n") {
				if strings.HasPrefix(ln, "github.com/ccbrown/api-fu") {
					if k := strings.LastIndex(ln, "("); k > 0 {
						ln = ln[:k]
					}
					where = " in " + ln
					break
				}
			}
			return rest + where
		}
	}
	return ""
}

// replayDies plays one session alone in a fresh worker and reports whether the process died of a
// runtime crash (and of what).
func replayDies(s Session, timeout time.Duration) (string, bool) {
	dir, err := os.MkdirTemp("", "c08-crash")
	if err != nil {
		return "", false
	}
	defer os.RemoveAll(dir)
	f := filepath.Join(dir, "case.json")
	b, _ := json.Marshal(map[string]any{"case": replayDoc{Session: s}})
	os.WriteFile(f, b, 0o644)
	args := []string{"-replay", f, "-out", filepath.Join(dir, "out.json")}
	for i := 1; i < len(os.Args); i++ {
		a := strings.TrimLeft(os.Args[i], "-")
		if strings.HasPrefix(a, "tier") || strings.HasPrefix(a, "seed") || strings.HasPrefix(a, "verif") {
			args = append(args, os.Args[i])
			if !strings.Contains(a, "=") && i+1 < len(os.Args) {
				args = append(args, os.Args[i+1])
			}
		}
	}
	cmd := exec.Command(os.Args[0], args...)
	cmd.Env = append(os.Environ(), workerEnv+"=replay")
	var errb tailBuf
	cmd.Stdout, cmd.Stderr = io.Discard, &errb
	if cmd.Start() != nil {
		return "", false
	}
	done := make(chan error, 1)
	go func() { done <- cmd.Wait() }()
	select {
	case err = <-done:
	case <-time.After(timeout):
		cmd.Process.Kill()
		<-done
		return "", false
	}
	if err == nil {
		return "", false
	}
	why := diedOf(errb.String())
	return why, why != ""
}

// supervise runs the harness as a worker and returns the exit status for this process.
func supervise() int {
	r, w, err := os.Pipe()
	if err != nil {
		return -1
	}
	cmd := exec.Command(os.Args[0], os.Args[1:]...)
	cmd.Env = append(os.Environ(), workerEnv+"=pipe")
	cmd.ExtraFiles = []*os.File{w}
	var errb tailBuf
	cmd.Stdout, cmd.Stderr = os.Stdout, io.MultiWriter(os.Stderr, &errb)
	t0 := time.Now()
	if err := cmd.Start(); err != nil {
		return -1
	}
	w.Close()
	inflight := map[string]string{}
	var started int
	readerDone := make(chan struct{})
	go func() {
		defer close(readerDone)
		sc := bufio.NewScanner(r)
		sc.Buffer(make([]byte, 1<<20), 1<<26)
		for sc.Scan() {
			parts := strings.SplitN(sc.Text(), " ", 3)
			if len(parts) >= 3 && parts[0] == "S" {
				inflight[parts[1]] = parts[2]
				started++
			} else if len(parts) >= 2 && parts[0] == "E" {
				delete(inflight, parts[1])
			}
		}
	}()
	werr := cmd.Wait()
	<-readerDone
	if werr == nil {
		return 0
	}
	why := diedOf(errb.String())
	if why == "" {
		// not a runtime crash (the worker's own exit status): nothing to add
		if ee, ok := werr.(*exec.ExitError); ok {
			return ee.ExitCode()
		}
		return 1
	}
	// the worker died: find the session that kills the process
	run := hx.Init("C08")
	run.SetRule("the worker process died after " + fmt.Sprint(started) + " sessions; the sessions in flight were replayed one by one in fresh processes")
	var cands []Session
	for _, js := range inflight {
		var s Session
		if json.Unmarshal([]byte(js), &s) == nil {
			cands = append(cands, s)
		}
	}
	var culprit *Session
	cause := why
	for i := range cands {
		if time.Since(t0) > 10*time.Minute {
			break
		}
		if c, dies := replayDies(cands[i], 90*time.Second); dies {
			culprit, cause = &cands[i], c
			break
		}
	}
	if culprit == nil {
		run.Oblige(obOracle, "oracle", started, false, "the process serving the connections died: "+why)
		run.Violate("crash", fmt.Sprintf("the process serving the connections died (%s) while %d session(s) were in flight; none of them kills it when replayed alone", why, len(cands)), "", true,
			map[string]any{"in_flight": cands, "stderr_tail": lastLines(errb.String(), 40)})
		run.Finish(nil)
		return 0
	}
	// shrink: drop steps while the process still dies
	cur := *culprit
	t1 := time.Now()
	for tries := 0; tries < 40 && time.Since(t1) < 60*time.Second; {
		changed := false
		for i := len(cur.Steps) - 1; i >= 0 && tries < 40 && time.Since(t1) < 60*time.Second; i-- {
			cand := cur
			cand.Steps = append(append([]Step{}, cur.Steps[:i]...), cur.Steps[i+1:]...)
			cand.Peers = nil
			tries++
			if c, dies := replayDies(cand, 30*time.Second); dies {
				cur, cause, changed = cand, c, true
			}
		}
		if !changed {
			break
		}
	}
	what := fmt.Sprintf("%s: the process serving the connections dies (%s): no operation of any open connection is answered any more, no source is stopped, nothing is deregistered", cur.String(), cause)
	run.Oblige(obOracle, "oracle", started, false, what)
	run.Violate("property", what, "", false, replayDoc{Session: cur, Oracle: what})
	run.Finish(nil)
	return 0
}

func lastLines(s string, n int) string {
	lines := strings.Split(strings.TrimRight(s, "\n"), "\n")
	if len(lines) > n {
		lines = lines[len(lines)-n:]
	}
	return strings.Join(lines, "\n")
}
