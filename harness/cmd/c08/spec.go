package main

// The property as an executable, sequential reference: what a session must show for the client
// history played so far. It drives the quiescence waits while a session is played and is the
// model-free oracle afterwards. It knows nothing about queues, goroutines or close handshakes.

import (
	"fmt"
	"strconv"
	"strings"
)

type expEntry struct {
	typ    string // ack ka pong connerr res comp
	gen    int
	ev     int
	idx    int  // index of the input that causes it
	reader bool // queued by the connection's reader goroutine (as opposed to a subscription goroutine)
}

type expExec struct {
	gen  int
	kind string
	idx  int
}

type genInfo struct {
	id        int
	kind      string
	created   bool // the specification expects a source stream for it
	ended     bool // the harness closed its channel
	stopped   bool // a stop for it was sent (or it was replaced)
	completed bool // its complete is expected already
}

type spec struct {
	proto    string
	inited   bool
	closing  bool // a frame was sent that makes the server close the connection
	trigger  int
	nextGen  int
	active   map[int]int // id → operation, the subscriptions that are running
	gens     map[int]*genInfo
	conn     []expEntry
	perID    map[int][]expEntry
	execs    []expExec
	stopped  map[int]bool // sources whose Stop() is due by now: a stop frame named their running subscription
	released map[int]bool // sources that ended by themselves: when they are stopped is the implementation's choice
	lastSync int
	idSync   map[int]int
	created  []int // operations for which a source is expected, in order
}

func newSpec(proto string) *spec {
	return &spec{proto: proto, trigger: -1, active: map[int]int{}, gens: map[int]*genInfo{}, perID: map[int][]expEntry{}, stopped: map[int]bool{}, released: map[int]bool{}, idSync: map[int]int{}}
}

func (sp *spec) connCount() int {
	return len(sp.conn)
}

func (sp *spec) mark(n int)          { sp.lastSync = n }
func (sp *spec) markID(id int, n int) { sp.idSync[id] = n }

func (sp *spec) close(idx int) {
	if !sp.closing {
		sp.closing = true
		sp.trigger = idx
	}
}

func (sp *spec) answer(id, gen, idx int) {
	sp.perID[id] = append(sp.perID[id], expEntry{typ: "res", gen: gen, idx: idx, reader: true}, expEntry{typ: "comp", gen: gen, idx: idx, reader: true})
}

func (sp *spec) frame(st Step, idx int) {
	ws := sp.proto == "ws"
	switch st.F {
	case "init-ok":
		sp.inited = true
		sp.conn = append(sp.conn, expEntry{typ: "ack", idx: idx, reader: true})
		if ws {
			sp.conn = append(sp.conn, expEntry{typ: "ka", idx: idx, reader: true})
		}
	case "init-rej":
		if ws {
			sp.conn = append(sp.conn, expEntry{typ: "connerr", idx: idx, reader: true})
		}
		sp.close(idx)
	case "start":
		g := sp.nextGen
		sp.nextGen++
		if !sp.inited {
			return
		}
		switch st.Kind {
		case "query", "mutation":
			if !sp.closing {
				// once the server was told to close, its context is cancelled and operations are
				// answered (with that error) without their resolvers being called
				sp.execs = append(sp.execs, expExec{g, st.Kind, idx})
			}
			sp.answer(st.ID, g, idx)
		case "invalid":
			sp.answer(st.ID, g, idx)
		default:
			if old, ok := sp.active[st.ID]; ok {
				if !sp.gens[old].ended {
					return // a subscription with this id is running: the start is ignored
				}
				// the previous subscription ran to completion: the id is free again
				sp.gens[old].stopped = true
				delete(sp.active, st.ID)
			}
			sp.execs = append(sp.execs, expExec{g, st.Kind, idx})
			if st.Kind == "subfail" {
				sp.answer(st.ID, g, idx)
				return
			}
			sp.active[st.ID] = g
			sp.gens[g] = &genInfo{id: st.ID, kind: "subscription", created: true}
			sp.created = append(sp.created, g)
		}
	case "startbad":
		if !ws && sp.inited {
			sp.close(idx)
		}
	case "stop":
		if !sp.inited {
			return
		}
		if g, ok := sp.active[st.ID]; ok {
			gi := sp.gens[g]
			sp.stopped[g] = true
			gi.stopped = true
			delete(sp.active, st.ID)
			if !gi.completed {
				gi.completed = true
				sp.perID[st.ID] = append(sp.perID[st.ID], expEntry{typ: "comp", gen: g, idx: idx})
			}
		}
	case "ping":
		if !ws && sp.inited {
			sp.conn = append(sp.conn, expEntry{typ: "pong", idx: idx, reader: true})
		}
	case "pong":
	case "terminate":
		sp.close(idx)
	case "unknown", "malformed":
		if !ws {
			sp.close(idx)
		}
	case "close":
	}
}

func (sp *spec) event(gen, n, idx int) {
	gi := sp.gens[gen]
	sp.perID[gi.id] = append(sp.perID[gi.id], expEntry{typ: "res", gen: gen, ev: n, idx: idx})
}

func (sp *spec) end(gen, idx int) {
	gi := sp.gens[gen]
	gi.ended = true
	sp.released[gen] = true
	if !gi.completed {
		gi.completed = true
		sp.perID[gi.id] = append(sp.perID[gi.id], expEntry{typ: "comp", gen: gen, idx: idx})
	}
}

// ---- the oracle ------------------------------------------------------------------------------------

func showW(f WFrame) string {
	switch f.Type {
	case "res":
		return fmt.Sprintf("result(id %d, op %d, event %d)", f.ID, f.Gen, f.Ev)
	case "comp":
		return fmt.Sprintf("complete(id %d)", f.ID)
	case "other":
		return "message " + f.Raw
	}
	return f.Type
}

func showE(e expEntry) string {
	switch e.typ {
	case "res":
		return fmt.Sprintf("result(op %d, event %d)", e.gen, e.ev)
	case "comp":
		return fmt.Sprintf("complete(op %d)", e.gen)
	}
	return e.typ
}

func matchW(f WFrame, e expEntry) bool {
	if f.Type != e.typ {
		return false
	}
	if f.Type == "res" {
		// Gen -1: an error result that does not name its operation (syntax error, cancelled context)
		return f.Gen == -1 || (f.Gen == e.gen && f.Ev == e.ev)
	}
	return true
}

// checkPrefix: obs must be a prefix of exp and cover the first `must` entries.
func checkPrefix(what string, obs []WFrame, exp []expEntry, must int) string {
	for i, f := range obs {
		if i >= len(exp) {
			return fmt.Sprintf("%s: %s received after %d message(s) although nothing more is due", what, showW(f), i)
		}
		if !matchW(f, exp[i]) {
			return fmt.Sprintf("%s: message %d is %s where %s is due", what, i, showW(f), showE(exp[i]))
		}
	}
	if len(obs) < must {
		return fmt.Sprintf("%s: only %d of the %d message(s) that were due at a quiescence point arrived; missing %s", what, len(obs), must, showE(exp[len(obs)]))
	}
	return ""
}

// oracle evaluates the property on what was observed. It returns "" or the first failure.
//
//	(1) nothing but a connection error precedes the ack of a successful init; operations sent before
//	    it are not executed
//	(2) each started query/mutation: exactly one result then exactly one complete
//	(3) each started subscription: results* (its consumed events, in order) then exactly one complete
//	    once stopped or ended, nothing further
//	(4) graphql-transport-ws: a ping is answered with a pong
//	(5) however the connection ends: every created source stopped exactly once, connection
//	    deregistered (goroutines are accounted for per batch, see leak.go)
//
// "Due" means: caused by an input before a quiescence point the player reached while the connection
// was open. What was still in flight when the connection ended may be cut off at any point (prefix).
func (sp *spec) oracle(o *Observed) string {
	// (1)
	seenAck := false
	for i, f := range o.Wire {
		if f.Type == "ack" {
			seenAck = true
		}
		if !seenAck && f.Type != "connerr" {
			// no exception for keep-alives on old connections: since fix 05 (F-08e) the ticker starts with the ack
			return fmt.Sprintf("message %d, %s, precedes the acknowledgement of a successful init", i, showW(f))
		}
		if f.Type == "other" || ((f.Type == "res" || f.Type == "comp") && f.ID < 0) {
			return fmt.Sprintf("message %d is not a message of the protocol for any operation of this session: %s", i, f.Raw)
		}
	}
	for _, a := range o.Anomalies {
		if strings.Contains(a, "did not take an event") || strings.Contains(a, "although nothing asked") || strings.Contains(a, "did not return") ||
			strings.Contains(a, "has not closed it") || strings.Contains(a, "of the group:") || strings.Contains(a, "registry mutex of the API is held for good") {
			return a
		}
	}
	for i, in := range o.Inputs {
		if in.Kind != "sync" {
			continue
		}
		for _, g := range in.Want {
			if !containsInt(in.Stopped, g) {
				return fmt.Sprintf("at the quiescence point after input %d the source of subscription %d has not been stopped although a stop for it was sent (stopped: %v)", i, g, in.Stopped)
			}
		}
		for _, g := range in.Stopped {
			if !containsInt(in.Want, g) && !containsInt(in.May, g) {
				return fmt.Sprintf("at the quiescence point after input %d the source of subscription %d has been stopped although it is running and nothing asked for that (stops asked for: %v)", i, g, in.Want)
			}
		}
	}
	// connection-level: acks and pongs (the keep-alive and the connection error are not regulated)
	var connObs []WFrame
	for _, f := range o.Wire {
		if f.Type == "ack" || f.Type == "pong" {
			connObs = append(connObs, f)
		}
	}
	var connExp []expEntry
	must := 0
	for _, e := range sp.conn {
		if e.typ == "ack" || e.typ == "pong" {
			connExp = append(connExp, e)
			if e.idx < sp.lastSync {
				must = len(connExp)
			}
		}
	}
	if o.slow() {
		// a connection older than the keep-alive period may carry ticker pongs: only count
		np, dueP := 0, 0
		for _, f := range connObs {
			if f.Type == "pong" {
				np++
			}
		}
		for i, e := range connExp {
			if e.typ == "pong" && i < must {
				dueP++
			}
		}
		if np < dueP {
			return fmt.Sprintf("only %d of the %d pongs that were due at a quiescence point arrived", np, dueP)
		}
		connObs, connExp, must = nil, nil, 0
	}
	if msg := checkPrefix("acks and pongs", connObs, connExp, must); msg != "" {
		return msg
	}
	// (2) (3) per operation id
	ids := map[int]bool{}
	for _, f := range o.Wire {
		if f.Type == "res" || f.Type == "comp" {
			ids[f.ID] = true
		}
	}
	for id := range sp.perID {
		ids[id] = true
	}
	for _, id := range sortedKeys(ids) {
		var obs []WFrame
		for _, f := range o.Wire {
			if (f.Type == "res" || f.Type == "comp") && f.ID == id {
				obs = append(obs, f)
			}
		}
		exp := sp.perID[id]
		must := 0
		for i, e := range exp {
			if e.idx < sp.lastSync || e.idx < sp.idSync[id] {
				must = i + 1
			}
		}
		if msg := checkPrefix(fmt.Sprintf("operation id %d (%s)", id, strconv.QuoteToASCII(clip(o.IDs[id]))), obs, exp, must); msg != "" {
			return msg
		}
	}
	// executions
	mustE := 0
	for i, e := range sp.execs {
		if e.idx < sp.lastSync {
			mustE = i + 1
		}
	}
	// the due ones first and in order; then a sub-sequence of the rest (in flight when the connection
	// ended: a query that arrives after the context was cancelled is answered without its resolver)
	j := 0
	for i, e := range o.Execs {
		if i < mustE {
			if sp.execs[i].gen != e.Gen || sp.execs[i].kind != e.Kind {
				return fmt.Sprintf("resolver run %d executed operation %d (%s) where operation %d (%s) is due", i, e.Gen, e.Kind, sp.execs[i].gen, sp.execs[i].kind)
			}
			j = i + 1
			continue
		}
		for j < len(sp.execs) && (sp.execs[j].gen != e.Gen || sp.execs[j].kind != e.Kind) {
			j++
		}
		if j >= len(sp.execs) {
			return fmt.Sprintf("operation %d (%s) was executed (resolver run %d) although no started operation accounts for it", e.Gen, e.Kind, i)
		}
		j++
	}
	if len(o.Execs) < mustE {
		return fmt.Sprintf("only %d of the %d operations that were due at a quiescence point were executed", len(o.Execs), mustE)
	}
	// (5)
	for _, g := range sortedKeysInt(o.Stops) {
		if n := o.Stops[g]; n != 1 {
			return fmt.Sprintf("after the connection ended (%s) the source of subscription %d has been stopped %d time(s), not exactly once", o.Ending, g, n)
		}
	}
	if !o.Dereg {
		return fmt.Sprintf("after the connection ended (%s) it is still registered with the API", o.Ending)
	}
	return ""
}

// slow: the connection lived long enough for the 15 s keep-alive ticker to have fired (it starts
// after the dial, so a connection younger than that carries no ticker message).
func (o *Observed) slow() bool { return o.WireTime.Seconds() > 14.5 }

func sortedKeys(m map[int]bool) []int {
	var out []int
	for k := range m {
		out = append(out, k)
	}
	sortInts(out)
	return out
}

func sortedKeysInt(m map[int]int) []int {
	var out []int
	for k := range m {
		out = append(out, k)
	}
	sortInts(out)
	return out
}

func clip(s string) string {
	if len(s) > 60 {
		return s[:60] + "…"
	}
	return s
}
