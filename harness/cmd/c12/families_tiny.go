package main

// (1) Tiny inputs with a stray character: the time clause on inputs of a few bytes. Every text runs
// through parser.ParseDocument, parser.ParseValue and graphql.ParseAndValidate in one child process;
// each call has a hard limit of tinyLimit (unchanged code needs microseconds) — a scanner or parser
// that stops making progress on `- 1`, `-.5`, a lone `.`, an open string … is reported with the text.
//
// (2) Cyclic fragments combined with doubling chains (cycle families and doubling families exist
// separately in families.go / families_wide.go): a fragment on a cycle spreads, before / after the
// spread that closes the cycle, into a chain where every fragment spreads the next one twice.
// Anything that explores the spread graph by paths after a cycle was found re-expands the chain once
// per path.

import (
	"bytes"
	"context"
	"encoding/json"
	"fmt"
	"os"
	"os/exec"
	"strings"
	"time"

	"github.com/ccbrown/api-fu/graphql"
	"github.com/ccbrown/api-fu/graphql/parser"
)

const tinyLimit = 3 * time.Second

var strays = []string{"-", "- ", "-.", "-.5", "- 1", "--1", "-a", "-_", "-\n", "-,", "-)", "-\"\"", "+", "+1", ".", "..", "....", ".5", "1.", "1.e1", "1e", "1e+", "1e-", "1E", "0x", "01", "-01",
	"\"", "\"\\", "\"\\u", "\"\\u00", "\"\"\"", "\"\"\"\\", "\"\n", "#", "#\r", "\\", "&", "%", "?", "~", "`", "'", ";", "\x00", "\x7f", "\xff", "\xc3", "\ufeff", "\u2028", "\u00a0", "$", "$-", "@", "@-", "...-", "!-"}

var tinyContexts = []string{"%s", "{a(x: %s)}", "{a(x: %s 1)}", "{a(x: [%s])}", "{a(x: {y: %s})}", "{%s}", "{a %s}", "{a %s b}", "%s{a}", "{a}%s", "{a}%s{b}", "query(%s){a}", "query($v: %s){a}",
	"query($v: T = %s){a}", "{a @d(x: %s)}", "{...%s}", "{... on %s{a}}", "fragment %s on T{a}", "{a: %s}", "[%s]", "[1 %s 2]", "{y: %s}"}

func tinyTexts() []string {
	var out []string
	for _, ctx := range tinyContexts {
		for _, s := range strays {
			out = append(out, fmt.Sprintf(ctx, s))
		}
	}
	return out
}

type tinyReport struct {
	Done  int    `json:"done"`
	Hang  string `json:"hang,omitempty"`  // entry point that did not return
	Panic string `json:"panic,omitempty"` // or panicked
	Src   string `json:"src,omitempty"`
	MaxNs int64  `json:"max_ns"`
}

// tinyChild runs every text (or the single text of a replayed case) and stops at the first call
// that does not return within tinyLimit.
func tinyChild(c Case) {
	texts := tinyTexts()
	if c.Src != "" {
		texts = []string{c.Src}
	}
	s := mkSchema()
	rep := tinyReport{}
	entries := []struct {
		name string
		f    func(src string)
	}{
		{"parser.ParseDocument", func(src string) { parser.ParseDocument([]byte(src)) }},
		{"parser.ParseValue", func(src string) { parser.ParseValue([]byte(src)) }},
		{"graphql.ParseAndValidate", func(src string) { graphql.ParseAndValidate(src, s, nil) }},
	}
	for _, src := range texts {
		for _, e := range entries {
			done := make(chan string, 1)
			t0 := time.Now()
			go func() {
				defer func() {
					if p := recover(); p != nil {
						done <- fmt.Sprint(p)
						return
					}
					done <- ""
				}()
				e.f(src)
			}()
			select {
			case p := <-done:
				if d := time.Since(t0).Nanoseconds(); d > rep.MaxNs {
					rep.MaxNs = d
				}
				if p != "" {
					rep.Panic, rep.Hang, rep.Src = p, e.name, src
				}
			case <-time.After(tinyLimit):
				rep.Hang, rep.Src = e.name, src
			}
			if rep.Src != "" {
				b, _ := json.Marshal(rep)
				fmt.Println(string(b))
				os.Exit(0)
			}
		}
		rep.Done++
	}
	b, _ := json.Marshal(rep)
	fmt.Println(string(b))
}

type rawOutcome struct{ out, err string }

func runChildRaw(c Case, timeout time.Duration) rawOutcome {
	spec, _ := json.Marshal(c)
	ctx, cancel := context.WithTimeout(context.Background(), timeout)
	defer cancel()
	cmd := exec.CommandContext(ctx, os.Args[0])
	cmd.Env = append(os.Environ(), "C12_CHILD="+string(spec))
	var out, errb bytes.Buffer
	cmd.Stdout, cmd.Stderr = &out, &errb
	err := cmd.Run()
	o := rawOutcome{out: out.String()}
	if ctx.Err() == context.DeadlineExceeded {
		o.err = "timeout"
	} else if err != nil {
		o.err = err.Error() + ": " + clipTail(errb.String())
	}
	return o
}

func clipTail(s string) string {
	if len(s) > 500 {
		return s[:500]
	}
	return s
}

func (h *harness) tinyVerdict(c Case) (rep tinyReport, ok bool, kind, what string) {
	o := runChildRaw(c, 4*time.Minute)
	if o.err != "" || json.Unmarshal([]byte(strings.TrimSpace(o.out)), &rep) != nil {
		return rep, false, "crash", "the tiny-input child ended abnormally: " + o.err + " " + clipTail(o.out)
	}
	switch {
	case rep.Panic != "":
		return rep, false, "crash", fmt.Sprintf("%s panicked on the %d-byte text %q: %s", rep.Hang, len(rep.Src), rep.Src, rep.Panic)
	case rep.Hang != "":
		return rep, false, "property", fmt.Sprintf("%s did not return within %v on the %d-byte text %q", rep.Hang, tinyLimit, len(rep.Src), rep.Src)
	}
	return rep, true, "", ""
}

func (h *harness) tinyInputs() {
	run := h.run
	n := len(tinyTexts())
	rep, ok, kind, what := h.tinyVerdict(Case{Kind: "tiny"})
	for i := 0; i < rep.Done; i++ {
		run.Count("tiny")
	}
	run.Case("tiny-inputs", true)
	run.Note("tiny inputs: %d of %d texts done, slowest call %.3f ms", rep.Done, n, float64(rep.MaxNs)/1e6)
	run.Oblige(fmt.Sprintf("oracle: ParseDocument, ParseValue and ParseAndValidate return within %v (and do not panic) on each of %d texts of at most 40 bytes with a stray character (lone or glued minus, plus, dots, broken numbers, open strings and escapes, control and non-ASCII characters) in %d contexts", tinyLimit, n, len(tinyContexts)), "oracle", n, ok, what)
	if !ok {
		run.Violate(kind, what, "", false, Case{Kind: "tiny", Src: rep.Src})
	}
}

// ---- cycles combined with doubling chains --------------------------------------------------------------

func cycleChainFamilies() []family {
	var out []family
	sizes, sizesT := []int{2, 8, 16, 40}, []int{2, 8, 16, 40, 80}
	chainOf := func(typ string, n int) string {
		var b strings.Builder
		for i := 0; i < n; i++ {
			fmt.Fprintf(&b, "fragment D%d on %s { ...D%d ...D%d }\n", i, typ, i+1, i+1)
		}
		fmt.Fprintf(&b, "fragment D%d on %s { y }\n", n, typ)
		return b.String()
	}
	add := func(name, about string, gen func(op opVariant, n int) string) {
		for _, op := range opVariants {
			op := op
			out = append(out, family{name: name + "/" + op.tag, about: about, quick: sizes, thorough: sizesT, cyclic: true,
				gen: func(n int) string { return gen(op, n) }})
		}
	}
	add("cycle-then-doubling-chain-before-closing-spread", "a fragment on a 2-cycle spreads a doubling chain of n levels before the spread that closes the cycle", func(op opVariant, n int) string {
		return op.header + "{ ...A }\n" + fmt.Sprintf("fragment A on %s { x ...D0 ...B }\nfragment B on %s { x ...A }\n", op.typ, op.typ) + chainOf(op.typ, n)
	})
	add("cycle-then-doubling-chain-after-closing-spread", "… after it", func(op opVariant, n int) string {
		return op.header + "{ ...A }\n" + fmt.Sprintf("fragment A on %s { x ...B ...D0 }\nfragment B on %s { x ...A }\n", op.typ, op.typ) + chainOf(op.typ, n)
	})
	add("self-cycle-with-doubling-chain", "a fragment spreads the chain and then itself; the chain's last fragment spreads back into the cycle", func(op opVariant, n int) string {
		s := op.header + "{ ...A }\n" + fmt.Sprintf("fragment A on %s { x ...D0 ...A }\n", op.typ) + chainOf(op.typ, n)
		return strings.Replace(s, "{ y }", "{ y ...A }", 1)
	})
	add("doubling-chain-into-cycle", "the operation spreads a doubling chain whose last fragment enters a 3-cycle, every cycle member spreads the chain head first", func(op opVariant, n int) string {
		s := op.header + "{ ...D0 }\n" + chainOf(op.typ, n)
		s = strings.Replace(s, "{ y }", "{ y ...R0 }", 1)
		for i := 0; i < 3; i++ {
			s += fmt.Sprintf("fragment R%d on %s { x ...D1 ...R%d }\n", i, op.typ, (i+1)%3)
		}
		return s
	})
	return out
}

func init() {
	families = append(families, cycleChainFamilies()...)
}
