package main

// Overlapping fields whose arguments are identical, deeply nested literals: the merge check compares the
// argument values of every pair of same-key fields (valuesAreIdentical). Comparing two identical values
// must be linear in their size — a comparison that descends twice per level (containment in both
// directions, say) doubles per nesting level and does not finish at a few dozen levels, on a flat
// document of a kilobyte. Identical values are the worst case (a difference short-circuits).

import (
	"fmt"
	"strings"
)

var (
	argQuick    = []int{1, 10, 20, 40, 64, 100, 200}
	argThorough = []int{1, 10, 20, 40, 64, 100, 200, 400}
)

func nestObj(d int, open func(i int) string, close func(i int) string, leaf string) string {
	var b strings.Builder
	for i := 0; i < d; i++ {
		b.WriteString(open(i))
	}
	b.WriteString(leaf)
	for i := d - 1; i >= 0; i-- {
		b.WriteString(close(i))
	}
	return b.String()
}

func argFamilies() []family {
	var out []family
	add := func(name, about string, lit func(d int) string, sel func(lit string) string) {
		out = append(out, family{name: name, about: about, quick: argQuick, thorough: argThorough, valid: true,
			gen: func(n int) string { return sel(lit(n)) }})
	}
	objects := func(d int) string {
		return nestObj(d, func(int) string { return "{a: " }, func(int) string { return "}" }, "{v: 1}")
	}
	listsOfObjects := func(d int) string {
		return nestObj(d, func(int) string { return "{l: [" }, func(int) string { return "]}" }, "{v: 1}")
	}
	alternating := func(d int) string {
		return nestObj(d, func(i int) string {
			if i%2 == 0 {
				return "{v: 2, a: "
			}
			return "{l: [{v: 3}, "
		}, func(i int) string {
			if i%2 == 0 {
				return "}"
			}
			return "]}"
		}, "{v: 1}")
	}
	twice := func(lit string) string { return "{ k: f(in: " + lit + ") k: f(in: " + lit + ") }" }
	add("merge-identical-deep-object-arguments", "two same-key fields with identical object literals nested n deep", objects, twice)
	add("merge-identical-deep-list-of-object-arguments", "… lists of objects nested n deep", listsOfObjects, twice)
	add("merge-identical-deep-mixed-arguments", "… objects with several fields and lists, alternating, nested n deep", alternating, twice)
	add("merge-identical-deep-object-arguments-thrice", "three same-key fields (three pairs), one of them through a fragment", objects, func(lit string) string {
		return "{ k: f(in: " + lit + ") k: f(in: " + lit + ") ...F }\nfragment F on Query { k: f(in: " + lit + ") }"
	})
	add("merge-identical-deep-object-arguments-below-field", "the pair one level down, under a mutation", objects, func(lit string) string {
		return "mutation M { o { k: obj(in: " + lit + ") { x } k: obj(in: " + lit + ") { x } } }"
	})
	add("merge-identical-deep-directive-and-argument", "identical literals in two arguments of each field", objects, func(lit string) string {
		return fmt.Sprintf("{ k: f(in: %s, x: 1) k: f(in: %s, x: 1) }", lit, lit)
	})
	return out
}

func init() {
	families = append(families, argFamilies()...)
}
