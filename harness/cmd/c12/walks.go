//go:build c12walks

package main

// Step correspondence of three walks of the validator with their Lean models (lean/ApiFu/C12/Walks*.lean):
// the loop-head counters validator.VerifCounters (hook patch C12/03) consumed by one
// graphql.ParseAndValidate against the model's counts for the same document.

import (
	"fmt"
	"strings"

	"github.com/ccbrown/api-fu/graphql/ast"
	"github.com/ccbrown/api-fu/graphql/parser"
	"github.com/ccbrown/api-fu/graphql/schema"
	"github.com/ccbrown/api-fu/graphql/validator"

	"verifharness/cmd/c06/pk"
	"verifharness/hx"
)

func countersSnapshot() []int64 { return validator.VerifCountersSnapshot() }

func countersDelta(c0 []int64) []int64 {
	c1 := validator.VerifCountersSnapshot()
	for i := range c1 {
		c1[i] -= c0[i]
	}
	return c1
}

func counterIndex(name string) int {
	for i, n := range validator.VerifCounterNames() {
		if n == name {
			return i
		}
	}
	panic("unknown counter " + name)
}

type walksAnswer struct {
	ok                             bool
	cycleOuter, cycleInner, cycles int64
	cycleOuterMax, cycleInnerMax   int64
	varsNodes, varsFrags           int64
}

func (h *harness) askWalks(src string) (a walksAnswer, err error) {
	sc := pk.Scan([]byte(src))
	reply, err := h.model.Ask(sc.Request("walks", h.maxRec, false))
	if err != nil || reply == "none" {
		return a, err
	}
	x, perr := hx.ParseSexp(reply)
	if perr != nil || !x.IsList || len(x.List) < 3 {
		return a, fmt.Errorf("unexpected model reply %.200q", reply)
	}
	num := func(s hx.Sexp) int64 {
		var n int64
		fmt.Sscan(s.Atom, &n)
		return n
	}
	cy, vs := x.List[1], x.List[2]
	a.ok = true
	a.cycleOuter, a.cycleInner, a.cycles = num(cy.List[1]), num(cy.List[2]), num(cy.List[3])
	a.cycleOuterMax, a.cycleInnerMax = num(cy.List[4]), num(cy.List[5])
	a.varsNodes, a.varsFrags = num(vs.List[1]), num(vs.List[2])
	return a, nil
}

// walksCompare: the counters of one ParseAndValidate against the models.
//   - variable walk: equality always (the counts do not depend on map order);
//   - cycle search: equality when no fragment lies on a cycle (no early `break`), ≤ otherwise.
func (h *harness) walksCompare(c Case, r childResult) {
	if h.model == nil || len(r.Counters) == 0 {
		return
	}
	src, ok := sourceOf(c)
	if !ok {
		return
	}
	if pd, _, _ := realParseObs(src); len(pd) < 5 || pd[:5] != "(ret " {
		return // not parsed: the validator did not run
	}
	a, err := h.askWalks(src)
	if err != nil || !a.ok {
		h.run.Violate("correspondence", fmt.Sprintf("walk models gave no answer for a parsed document: %v", err), "", true, c)
		return
	}
	get := func(n string) int64 { return r.Counters[counterIndex(n)] }
	okVars := get("vars.node") == a.varsNodes && get("vars.fragment") == a.varsFrags
	what := ""
	if !okVars {
		what = fmt.Sprintf("%s n=%d: validateVariables: %d callback calls, %d worklist entries; model %d, %d", c.Family, c.N, get("vars.node"), get("vars.fragment"), a.varsNodes, a.varsFrags)
	}
	h.run.Oblige("variable-walk step correspondence(hook vars.node, vars.fragment = Lean model)", "correspondence", 1, okVars, what)
	if !okVars {
		h.run.Violate("correspondence", what, "", true, c)
	}
	okCycle := get("cycle.outer") <= a.cycleOuterMax && get("cycle.inner") <= a.cycleInnerMax
	if a.cycles == 0 {
		okCycle = get("cycle.outer") == a.cycleOuter && get("cycle.inner") == a.cycleInner
		h.run.Count("walks:cycle-exact")
	} else {
		h.run.Count("walks:cycle-upper")
	}
	what = ""
	if !okCycle {
		what = fmt.Sprintf("%s n=%d: cycle search: %d outer, %d inner iterations; model %d, %d (document order), at most %d, %d without the break (%d fragments on cycles)", c.Family, c.N, get("cycle.outer"), get("cycle.inner"), a.cycleOuter, a.cycleInner, a.cycleOuterMax, a.cycleInnerMax, a.cycles)
	}
	h.run.Oblige("cycle-search step correspondence(hook cycle.outer, cycle.inner = Lean model; ≤ for fragments on a cycle)", "correspondence", 1, okCycle, what)
	if !okCycle {
		h.run.Violate("correspondence", what, "", true, c)
	}
	h.fieldsCompare(c, r, src)
}

// fieldsRequest: the `(fields …)` request — the token stream plus what TypeInfo says about every field
// (leaf / composite definition) and every selection set (its type name): the oracles of the model.
func (h *harness) fieldsRequest(src string) (string, bool) {
	doc, perrs := parser.ParseDocument([]byte(src))
	if doc == nil || len(perrs) > 0 {
		return "", false
	}
	ti := validator.NewTypeInfo(doc, h.schema, nil)
	var fi, si strings.Builder
	fi.WriteString("(finfo")
	si.WriteString("(sinfo")
	ast.Inspect(doc, func(n ast.Node) bool {
		switch n := n.(type) {
		case *ast.Field:
			p := n.Position()
			if n.Name.Name == "__typename" {
				fmt.Fprintf(&fi, " (%d %d l)", p.Line, p.Column)
			} else if def := ti.FieldDefinitions[n]; def != nil {
				k := "c"
				if t := schema.UnwrappedType(def.Type); schema.IsScalarType(t) || schema.IsEnumType(t) {
					k = "l"
				}
				fmt.Fprintf(&fi, " (%d %d %s)", p.Line, p.Column, k)
			}
		case *ast.SelectionSet:
			if t := ti.SelectionSetTypes[n]; t != nil {
				fmt.Fprintf(&si, " (%d %d %s)", n.Opening.Line, n.Opening.Column, t.TypeName())
			}
		}
		return true
	})
	fi.WriteString(")")
	si.WriteString(")")
	sc := pk.Scan([]byte(src))
	req := sc.Request("fields", h.maxRec, false)
	prefix := fmt.Sprintf("(fields %d ", h.maxRec)
	if !strings.HasPrefix(req, prefix) {
		return "", false
	}
	return prefix + fi.String() + " " + si.String() + " " + strings.TrimPrefix(req, prefix), true
}

// fieldsCompare: the counters of the overlapping-fields check against the model, on documents the
// validator accepts (with an error the Go code stops at a map-order dependent point).
func (h *harness) fieldsCompare(c Case, r childResult, src string) {
	if r.Errs != 0 {
		h.run.Count("walks:fields-skipped-invalid")
		return
	}
	// the model keeps its memos as lists (proof-friendly, quadratic to run): compare where the real
	// check looked at no more than a few thousand pairs
	if r.Counters[counterIndex("fields.canMergePair")]+r.Counters[counterIndex("fields.sameShapePair")] > 6000 {
		h.run.Count("walks:fields-skipped-large")
		return
	}
	req, ok := h.fieldsRequest(src)
	if !ok {
		return
	}
	reply, err := h.model.Ask(req)
	if err != nil || reply == "none" || reply == "bad-op" {
		h.run.Violate("correspondence", fmt.Sprintf("fields model gave no answer (%v %s)", err, reply), "", true, c)
		return
	}
	x, perr := hx.ParseSexp(reply)
	if perr != nil || !x.IsList || len(x.List) != 7 {
		h.run.Violate("correspondence", fmt.Sprintf("unexpected fields model reply %.200q", reply), "", true, c)
		return
	}
	get := func(n string) int64 { return r.Counters[counterIndex(n)] }
	names := []string{"fields.set", "fields.collect", "fields.canMergePair", "fields.sameShape", "fields.sameShapePair"}
	good := true
	var got, want []int64
	for i, n := range names {
		var m int64
		fmt.Sscan(x.List[1+i].Atom, &m)
		got, want = append(got, get(n)), append(want, m)
		if get(n) != m {
			good = false
		}
	}
	what := ""
	if !good {
		what = fmt.Sprintf("%s n=%d: overlapping-fields check %v = %v, model %v", c.Family, c.N, names, got, want)
	}
	h.run.Count("walks:fields-exact")
	h.run.Oblige("overlapping-fields step correspondence(hook fields.* = Lean model, on valid documents)", "correspondence", 1, good, what)
	if !good {
		h.run.Violate("correspondence", what, "", true, c)
	}
}
