package main

// Collection-size tie. The loop-head counters of the validator (hook patches C12/02, C12/03) are tied to
// the Lean step models by equality, and the models carry the polynomial bounds. A rule can still build
// an intermediate collection whose SIZE is not proportional to its counted steps (seed C12-22: every
// fragment body inspected once, but the per-fragment usage lists re-concatenated per spread: 2^n entries
// behind linear counters). What the exported API lets a caller observe of such a collection is the heap
// it takes: the bytes allocated by one graphql.ParseAndValidate (runtime.MemStats.TotalAlloc, a
// deterministic count — not a time) must stay within a fixed factor of the counted work
//
//	S = bytes of the document + Σ loop-head counters + cost-walk visits,
//
// i.e. every collection the rules build is paid for by counted steps. The factor is ≥ 20 × the largest
// ratio measured on any family of the unchanged tree.

import (
	"fmt"
	"runtime"
)

type allocMark struct{ total, mallocs uint64 }

func allocNow() allocMark {
	var m runtime.MemStats
	runtime.ReadMemStats(&m)
	return allocMark{m.TotalAlloc, m.Mallocs}
}

func (a allocMark) since() (bytes, mallocs uint64) {
	b := allocNow()
	return b.total - a.total, b.mallocs - a.mallocs
}

// countedWork: S of the comment above.
func countedWork(r childResult) int64 {
	s := int64(r.Bytes) + r.Visits
	for _, c := range r.Counters {
		s += c
	}
	return s
}

// allocFixed: allowance independent of the document (first-call initialisation of the library: lazily
// built introspection types, maps of the schema; measured ≈ 1.3 MB).
const allocFixed = 8 << 20

// allocFactor: bytes per counted step; the largest ratio measured on any family of the unchanged tree is
// 99 (wide-inline-fragments/subscription n=999), so ≈ 40× headroom.
const allocFactor = 4096

var allocMaxRatio = map[string]float64{}
var allocMaxAt = map[string]string{}

// allocObserve records bytes allocated per unit of counted work, per family.
func (h *harness) allocObserve(c Case, r childResult) {
	if len(r.Counters) == 0 || r.AllocBytes == 0 {
		return
	}
	s := countedWork(r)
	if s <= 0 {
		return
	}
	if r.AllocBytes <= allocFixed {
		return
	}
	ratio := float64(r.AllocBytes-allocFixed) / float64(s)
	if ratio > allocMaxRatio[c.Family] {
		allocMaxRatio[c.Family] = ratio
		allocMaxAt[c.Family] = fmt.Sprintf("n=%d cost=%v: %d bytes / %d steps", c.N, c.Cost, r.AllocBytes, s)
	}
}

// allocReport notes the measured ratios (evidence of the headroom of the factor).
func (h *harness) allocReport() {
	worst, at := 0.0, ""
	for f, r := range allocMaxRatio {
		if r > worst {
			worst, at = r, f+" "+allocMaxAt[f]
		}
	}
	for f, r := range allocMaxRatio {
		if r > worst/4 {
			h.run.Note("alloc ratio %s: %.0f (%s)", f, r, allocMaxAt[f])
		}
	}
	if at != "" {
		h.run.Note("heap allocated per unit of counted work: largest ratio %.0f bytes/step (%s)", worst, at)
	}
}
