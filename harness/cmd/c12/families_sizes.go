package main

// Families for the collection-size tie (alloc.go) and for the rules modelled in
// lean/ApiFu/C12/WalksRules.lean: variables used inside fragments that are reached through repeated
// spreads (the usage collection must not grow with the number of spread *paths*), many variables, wide
// argument and directive lists, deep input literals with variables at the bottom. All documents are
// valid, of length linear in n.

import (
	"fmt"
	"strings"
)

func sizeFamilies() []family {
	chain := func(inner func(i int) string, leaf string) func(n int) string {
		return func(n int) string {
			var b strings.Builder
			b.WriteString("query Q($v: Int, $w: Int) { ...F0 }\n")
			for i := 0; i < n; i++ {
				fmt.Fprintf(&b, "fragment F%d on Query { %s...F%d ...F%d }\n", i, inner(i), i+1, i+1)
			}
			fmt.Fprintf(&b, "fragment F%d on Query { %s }\n", n, leaf)
			return b.String()
		}
	}
	chainQ, chainT := []int{1, 2, 8, 16, 24, 40}, []int{1, 2, 8, 16, 24, 40, 80}
	return []family{
		{name: "vars-double-spread-chain", about: "double-spread chain whose innermost fragment uses two variables (usage collection across fragments)",
			gen: chain(func(int) string { return "" }, "f(x: $v, y: $w)"), quick: chainQ, thorough: chainT, valid: true},
		{name: "vars-double-spread-chain-uses-at-every-level", about: "double-spread chain in which every fragment uses the variables",
			gen: chain(func(i int) string { return fmt.Sprintf("a%d: f(x: $v, l: [$w, $v]) ", i) }, "f(x: $v, y: $w)"), quick: chainQ, thorough: chainT, valid: true},
		{name: "wide-variables", about: "n variables, each used once in an aliased field",
			gen: func(n int) string {
				return "query Q(" + rep(n, func(i int) string { return fmt.Sprintf("$v%d: Int ", i) }) + ") { " +
					rep(n, func(i int) string { return fmt.Sprintf("a%d: f(x: $v%d) ", i, i) }) + "}"
			}, quick: []int{10, 100, 1000, 4000}, thorough: []int{10, 100, 1000, 4000, 16000}, valid: true},
		{name: "wide-argument-lists", about: "n aliased fields each with every argument of the field and two directives with arguments",
			gen: func(n int) string {
				return "query Q($b: Boolean!) { " + rep(n, func(i int) string {
					return fmt.Sprintf("a%d: f(x: %d, y: 2, s: \"s\", l: [1, 2], in: {v: 1}) @skip(if: false) @include(if: $b) ", i, i)
				}) + "}"
			}, quick: []int{10, 100, 1000, 4000}, thorough: []int{10, 100, 1000, 4000, 16000}, valid: true},
		{name: "deep-literal-with-variables", about: "input object literal nested n deep, lists of objects on the way, variables at the bottom",
			gen: func(n int) string {
				return "query Q($v: Int) { f(in: " + rep(n, func(i int) string {
					if i%2 == 0 {
						return "{a: "
					}
					return "{l: [{v: $v}, "
				}) + "{v: $v}" + rep(n, func(i int) string {
					if (n-1-i)%2 == 0 {
						return "}"
					}
					return "]}"
				}) + ") }"
			}, quick: []int{1, 2, 10, 100, 400}, thorough: []int{1, 2, 10, 100, 200, 400}, valid: true},
	}
}

func init() {
	families = append(families, sizeFamilies()...)
}

var _ = strings.Repeat
