//go:build !c12walks

package main

// The comparison of the validator's loop counters with the Lean walk models (walks.go) is compiled
// in with the build tag c12walks.

func countersSnapshot() []int64        { return nil }
func countersDelta(c0 []int64) []int64 { return nil }

func (h *harness) walksCompare(c Case, r childResult) {}
