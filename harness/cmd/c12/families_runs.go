package main

// Long uninterrupted runs of ignored (or invalid) tokens in flat documents: "breadth is never limited"
// also holds for the tokens the scanner skips. A document of nesting depth 1 with millions of commas,
// blanks, line terminators or comment lines between two tokens needs a constant amount of stack; the
// cases run in a child process whose stack limit is lowered to runStackLimit (debug.SetMaxStack), far
// above what any flat or legally nested document needs (the parser's recursion is bounded by its depth
// limit) and far below what a skip that costs one frame per skipped token would use at these lengths —
// so such a skip ends the child with a fatal stack overflow instead of needing gigabyte-sized inputs to
// reach the default 1 GiB limit.

import (
	"encoding/json"
	"fmt"
	"runtime/debug"
	"strings"
	"time"

	"github.com/ccbrown/api-fu/graphql"
	"github.com/ccbrown/api-fu/graphql/parser"
)

const runStackLimit = 16 << 20

type runFamily struct {
	name  string
	entry string // doc = parser.ParseDocument | value = parser.ParseValue | validate = graphql.ParseAndValidate
	valid bool   // accepted without error at every length
	gen   func(n int) string
	// lengths of the run; the invalid-character family reports one error per character and stays smaller
	quick, thorough []int
}

var (
	runQuick    = []int{10, 1000, 2000000}
	runThorough = []int{10, 1000, 2000000, 16000000}
	errQuick    = []int{10, 1000, 200000}
	errThorough = []int{10, 1000, 200000, 1000000}
)

func runFamilies() []runFamily {
	var out []runFamily
	add := func(name, entry string, gen func(n int) string) {
		out = append(out, runFamily{name: name, entry: entry, valid: true, gen: gen, quick: runQuick, thorough: runThorough})
	}
	units := []struct{ tag, unit string }{
		{"commas", ","}, {"spaces", " "}, {"tabs", "\t"}, {"line-feeds", "\n"}, {"carriage-returns", "\r"},
		{"crlf", "\r\n"}, {"comment-lines", "#c\n"}, {"mixed", ", \t\n,\r\n#\n"},
	}
	for _, u := range units {
		u := u
		add("run-between-selections/"+u.tag, "doc", func(n int) string { return "{ x " + strings.Repeat(u.unit, n) + " y }" })
	}
	add("run-leading/commas", "doc", func(n int) string { return strings.Repeat(",", n) + "{ x }" })
	add("run-leading/bom-then-line-feeds", "doc", func(n int) string { return "\ufeff" + strings.Repeat("\n", n) + "{ x }" })
	add("run-trailing/spaces", "doc", func(n int) string { return "{ x }" + strings.Repeat(" ", n) })
	add("run-trailing/comment-without-newline", "doc", func(n int) string { return "{ x }" + strings.Repeat("\n", n) + "# end" })
	add("run-between-definitions/commas", "doc", func(n int) string { return "query A { x }" + strings.Repeat(",", n) + "query B { y }" })
	add("run-in-list-value/commas", "doc", func(n int) string { return "{ f(l: [1" + strings.Repeat(",", n) + "2]) }" })
	add("run-in-arguments/line-feeds", "doc", func(n int) string { return "{ f(x: 1" + strings.Repeat("\n", n) + "y: 2) }" })
	add("run-in-value/commas", "value", func(n int) string { return "[1" + strings.Repeat(",", n) + "2]" })
	add("run-in-value/spaces", "value", func(n int) string { return "{a: " + strings.Repeat(" ", n) + "1}" })
	add("run-validated/commas", "validate", func(n int) string { return "{ x " + strings.Repeat(",", n) + " y }" })
	add("run-validated/comment-lines", "validate", func(n int) string {
		return "query A { x }\n" + strings.Repeat("# c\n", n) + "query B { ...F }\n" + strings.Repeat("\n", n) + "fragment F on Query { y }"
	})
	// characters that are no token at all: one scanner error each, skipped like ignored tokens
	out = append(out, runFamily{name: "run-of-invalid-characters", entry: "doc", valid: false, quick: errQuick, thorough: errThorough,
		gen: func(n int) string { return "{ x " + strings.Repeat("?", n) + " y }" }})
	out = append(out, runFamily{name: "run-of-invalid-characters-then-ignored", entry: "doc", valid: false, quick: errQuick, thorough: errThorough,
		gen: func(n int) string { return "{ x " + strings.Repeat("%,", n) + " y }" }})
	return out
}

func runFamilyByName(name string) *runFamily {
	for _, f := range runFamilies() {
		if f.name == name {
			f := f
			return &f
		}
	}
	return nil
}

// runRunCase is the child side: lowered stack limit, one call of the family's entry point.
func runRunCase(c Case) (childResult, bool) {
	f := runFamilyByName(c.Family)
	if f == nil {
		return childResult{}, false
	}
	debug.SetMaxStack(runStackLimit)
	src := f.gen(c.N)
	var r childResult
	r.Bytes = len(src)
	t0 := time.Now()
	switch f.entry {
	case "value":
		v, errs := parser.ParseValue([]byte(src))
		r.Errs, r.Accepted = len(errs), v != nil && len(errs) == 0
		if len(errs) > 0 {
			r.First = errs[0].Message
		}
	case "validate":
		doc, errs := graphql.ParseAndValidate(src, mkSchema(), nil)
		r.Errs, r.Accepted = len(errs), doc != nil && len(errs) == 0
		if len(errs) > 0 {
			r.First = errs[0].Message
		}
	default:
		doc, errs := parser.ParseDocument([]byte(src))
		r.Errs, r.Accepted = len(errs), doc != nil && len(errs) == 0
		if len(errs) > 0 {
			r.First = errs[0].Message
		}
	}
	r.ElapsedNs = time.Since(t0).Nanoseconds()
	return r, true
}

// runVerdict runs one case in a child and judges it.
func (h *harness) runVerdict(c Case) (o childOutcome, ok bool, kind, what string) {
	f := runFamilyByName(c.Family)
	if f == nil {
		return o, false, "property", "unknown run family " + c.Family
	}
	n := c.N
	o = runChild(c, h.budget)
	ok, kind = true, "property"
	switch {
	case o.Status == "timeout":
		ok, what = false, fmt.Sprintf("%s: a run of %d did not finish within %v", f.name, n, h.budget)
	case o.Status == "crash":
		ok, kind, what = false, "crash", fmt.Sprintf("%s: a run of %d at nesting depth 1 killed the process (stack limit %d MiB): %s", f.name, n, runStackLimit>>20, o.Tail)
	case f.valid && !o.Res.Accepted:
		ok, what = false, fmt.Sprintf("%s: a run of %d ignored tokens changes the verdict: %d error(s), first %q", f.name, n, o.Res.Errs, o.Res.First)
	case !f.valid && (o.Res.Accepted || o.Res.Errs == 0):
		ok, what = false, fmt.Sprintf("%s: a run of %d characters that are no token is accepted (errs=%d)", f.name, n, o.Res.Errs)
	}
	return
}

// ignoredRuns is the parent side.
func (h *harness) ignoredRuns() {
	run := h.run
	const name = "oracle: a flat document with a run of up to 2·10^6 (thorough 1.6·10^7) ignored tokens — commas, blanks, line terminators, comment lines, after a BOM, leading, trailing, between selections / definitions / list items / arguments, through ParseDocument, ParseValue and ParseAndValidate — is accepted like the same document with a short run, within the budget and a 16 MiB stack (no crash); a run of characters that are no token is an ordinary list of errors"
	for _, f := range runFamilies() {
		sizes := f.quick
		if run.Thorough() {
			sizes = f.thorough
		}
		for _, n := range sizes {
			c := Case{Kind: "run", Family: f.name, N: n}
			o, ok, kind, what := h.runVerdict(c)
			key, _ := json.Marshal(c)
			run.Case(string(key), n >= 1000)
			run.Count("run:" + f.entry)
			h.table = append(h.table, fmt.Sprintf("%-46s n=%-9d bytes=%-9d %-8s %9.3f ms errs=%d", f.name, n, o.Res.Bytes, o.Status, float64(o.Res.ElapsedNs)/1e6, o.Res.Errs))
			run.Oblige(name, "oracle", 1, ok, what)
			if !ok {
				run.Violate(kind, what, "", false, c)
				break // longer runs can only be worse
			}
		}
	}
}
