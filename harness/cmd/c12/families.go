package main

// Document families of linearly growing size (|d_n| = O(n)) for the work-bound oracles, and the flat
// / deep families for the parser's depth limit.

import (
	"fmt"
	"strings"

	"github.com/ccbrown/api-fu/graphql"
)

// ---- schema ------------------------------------------------------------------------------------

func nop(ctx graphql.FieldContext) (interface{}, error) { return nil, nil }

func mkSchema() *graphql.Schema {
	in := &graphql.InputObjectType{Name: "In"}
	in.Fields = map[string]*graphql.InputValueDefinition{
		"a": {Type: in},
		"l": {Type: graphql.NewListType(in)},
		"v": {Type: graphql.IntType},
	}
	obj := &graphql.ObjectType{Name: "Obj"}
	args := map[string]*graphql.InputValueDefinition{
		"x":    {Type: graphql.IntType},
		"y":    {Type: graphql.IntType},
		"s":    {Type: graphql.StringType},
		"l":    {Type: graphql.NewListType(graphql.IntType)},
		"in":   {Type: in},
		"deep": {Type: deepList(graphql.IntType, 1100)},
	}
	obj.Fields = map[string]*graphql.FieldDefinition{
		"x":    {Type: graphql.IntType, Resolve: nop},
		"y":    {Type: graphql.IntType, Resolve: nop},
		"f":    {Type: graphql.IntType, Arguments: args, Resolve: nop},
		"o":    {Type: obj, Resolve: nop},
		"obj":  {Type: obj, Arguments: args, Resolve: nop},
		"list": {Type: graphql.NewListType(obj), Cost: func(graphql.FieldCostContext) graphql.FieldCost { return graphql.FieldCost{Resolver: 1, Multiplier: 2} }, Resolve: nop},
	}
	// the three root types have the fields of Obj: every family can be put under every operation type
	root := func(name string) *graphql.ObjectType {
		t := &graphql.ObjectType{Name: name, Fields: map[string]*graphql.FieldDefinition{}}
		for k, v := range obj.Fields {
			t.Fields[k] = v
		}
		return t
	}
	s, err := graphql.NewSchema(&graphql.SchemaDefinition{
		Directives:   map[string]*graphql.DirectiveDefinition{"skip": graphql.SkipDirective, "include": graphql.IncludeDirective},
		Query:        root("Query"),
		Mutation:     root("Mutation"),
		Subscription: root("Subscription"),
	})
	if err != nil {
		panic(err)
	}
	return s
}

func deepList(t graphql.Type, n int) graphql.Type {
	for i := 0; i < n; i++ {
		t = graphql.NewListType(t)
	}
	return t
}

// ---- work-bound families ------------------------------------------------------------------------

// family: a generator of documents whose length grows linearly in n.
type family struct {
	name string
	// what the family stresses (for the evidence)
	about string
	gen   func(n int) string
	// sizes at which it is run (quick, thorough). Polynomial code finishes each far below the
	// budget; exponential code cannot finish the larger ones at all.
	quick, thorough []int
	cost            bool // run with the cost rule
	// valid: every document of the family is valid — any validation error at any size is a failure
	// (a limit that counts breadth shows up as a verdict that changes with the width)
	valid bool
	// cyclic: every document has a fragment cycle — it must be reported as such, by an ordinary error
	cyclic bool
}

func rep(n int, f func(i int) string) string {
	var b strings.Builder
	for i := 0; i < n; i++ {
		b.WriteString(f(i))
	}
	return b.String()
}

func chain(n int, root string, body func(i int) string, last string) string {
	var b strings.Builder
	b.WriteString(root)
	b.WriteByte('\n')
	for i := 1; i < n; i++ {
		b.WriteString(body(i))
		b.WriteByte('\n')
	}
	fmt.Fprintf(&b, "fragment F%d on Obj %s\n", n, last)
	return b.String()
}

var families = []family{
	{name: "merge-overlap-chain", about: "F-12b: overlapping field through a fragment chain, o{...Fi+1} o{...Fi+1}",
		gen: func(n int) string {
			return chain(n, "{ obj { ...F1 } }", func(i int) string {
				return fmt.Sprintf("fragment F%d on Obj { o { ...F%d } o { ...F%d } }", i, i+1, i+1)
			}, "{ x }")
		}, quick: []int{5, 10, 20, 40, 80}, thorough: []int{5, 10, 20, 40, 80, 160, 320}},
	{name: "merge-alias-overlap-chain", about: "same response key from differently named wrappers: k: o{...} k: obj{...}",
		gen: func(n int) string {
			return chain(n, "{ obj { ...F1 } }", func(i int) string {
				return fmt.Sprintf("fragment F%d on Obj { k: o { ...F%d } k: o { ...F%d } k: o { x } }", i, i+1, i+1)
			}, "{ x y }")
		}, quick: []int{5, 10, 20, 40, 80}, thorough: []int{5, 10, 20, 40, 80, 160}},
	{name: "merge-distinct-keys-chain", about: "distinct response keys over the same fragment: a: o{...Fi+1} b: o{...Fi+1}",
		gen: func(n int) string {
			return chain(n, "{ obj { ...F1 } }", func(i int) string {
				return fmt.Sprintf("fragment F%d on Obj { a: o { ...F%d } b: o { ...F%d } }", i, i+1, i+1)
			}, "{ x }")
		}, quick: []int{5, 10, 20, 40, 80}, thorough: []int{5, 10, 20, 40, 80, 160, 320}},
	{name: "merge-inline-overlap-nest", about: "the overlapping field reached once directly and once through an inline fragment, fragment spread twice at the root",
		gen: func(n int) string {
			return chain(n, "{ obj { ...F1 ...F1 } }", func(i int) string {
				return fmt.Sprintf("fragment F%d on Obj { o { ...F%d } ... on Obj { o { ...F%d } } }", i, i+1, i+1)
			}, "{ x }")
		}, quick: []int{5, 10, 20, 40}, thorough: []int{5, 10, 20, 40, 80, 160}},
	{name: "merge-cyclic-overlap", about: "fragment cycle with an overlapping pair (fatal stack overflow before the C04 memo fix)",
		gen: func(n int) string {
			var b strings.Builder
			b.WriteString("{ o { ...F0 } ...F0 }\n")
			for i := 0; i < n; i++ {
				fmt.Fprintf(&b, "fragment F%d on Obj { o { ...F%d } o { ...F%d } }\n", i, (i+1)%n, (i+1)%n)
			}
			return b.String()
		}, quick: []int{1, 2, 10, 40}, thorough: []int{1, 2, 10, 40, 160}, cyclic: true},
	{name: "cost-double-spread-chain", about: "F-12c: every fragment spreads the next one twice; the cost walk re-expands a fragment at every spread",
		gen: doubleSpreadChain, quick: []int{0, 1, 2, 3, 4, 8, 12, 16, 40}, thorough: []int{0, 1, 2, 3, 4, 8, 12, 16, 18, 40, 80}, cost: true},
	{name: "nocost-double-spread-chain", about: "the same documents without the cost rule (isolates the cost walk)",
		gen: doubleSpreadChain, quick: []int{4, 8, 16, 40, 80}, thorough: []int{4, 8, 16, 40, 80, 160, 320}},
	{name: "cost-single-spread-chain", about: "linear fragment chain under the cost rule, list multipliers at every level",
		gen: func(n int) string {
			var b strings.Builder
			b.WriteString("{ ...F1 }\n")
			for i := 1; i < n; i++ {
				fmt.Fprintf(&b, "fragment F%d on Query { list { x } ...F%d }\n", i, i+1)
			}
			fmt.Fprintf(&b, "fragment F%d on Query { x }\n", n)
			return b.String()
		}, quick: []int{10, 30, 60}, thorough: []int{10, 30, 60, 120}, cost: true},
	{name: "repeated-spread-flat", about: "one fragment of n fields spread n times in one selection set (size 2n; quadratic expansion is allowed)",
		gen: func(n int) string {
			return "{ " + rep(n, func(int) string { return "...F " }) + "}\nfragment F on Query { " + rep(n, func(i int) string { return fmt.Sprintf("a%d: x ", i) }) + "}\n"
		}, quick: []int{10, 50, 100, 200}, thorough: []int{10, 50, 100, 200, 400}, cost: true},
	{name: "wide-same-field", about: "n occurrences of the same field in one selection set (all pairs compared: quadratic is allowed)",
		gen:   func(n int) string { return "{ " + rep(n, func(int) string { return "x " }) + "}" },
		quick: []int{50, 100, 200, 400}, thorough: []int{50, 100, 200, 400, 800}, cost: true},
	{name: "wide-distinct-fields", about: "n differently aliased fields in one selection set",
		gen: func(n int) string {
			return "{ " + rep(n, func(i int) string { return fmt.Sprintf("a%d: x ", i) }) + "}"
		},
		quick: []int{100, 1000, 4000}, thorough: []int{100, 1000, 4000, 16000, 64000}, cost: true},
	{name: "wide-arguments-and-items", about: "one field with a list literal of n items and n object fields",
		gen: func(n int) string {
			return "{ f(l: [" + rep(n, func(i int) string { return fmt.Sprintf("%d ", i) }) + "], in: {l: [" + rep(n, func(int) string { return "{v: 1} " }) + "]}) }"
		}, quick: []int{100, 1000, 4000}, thorough: []int{100, 1000, 4000, 16000, 64000}, cost: true},
	{name: "many-operations-and-fragments", about: "n operations each spreading a chain of n fragments (variables / cycle search / unused-fragment rules)",
		gen: func(n int) string {
			var b strings.Builder
			for i := 0; i < n; i++ {
				fmt.Fprintf(&b, "query Q%d($v: Int) { f(x: $v) ...F0 }\n", i)
			}
			for i := 0; i < n; i++ {
				if i+1 < n {
					fmt.Fprintf(&b, "fragment F%d on Query { a%d: f(x: $v) ...F%d }\n", i, i, i+1)
				} else {
					fmt.Fprintf(&b, "fragment F%d on Query { a%d: f(x: $v) }\n", i, i)
				}
			}
			return b.String()
		}, quick: []int{10, 50, 100, 200}, thorough: []int{10, 50, 100, 200, 400, 800}},
	{name: "fragment-cycle-ring", about: "n fragments in one cycle, every fragment also spreads its predecessor",
		gen: func(n int) string {
			var b strings.Builder
			b.WriteString("{ ...F0 }\n")
			for i := 0; i < n; i++ {
				fmt.Fprintf(&b, "fragment F%d on Query { x ...F%d ...F%d }\n", i, (i+1)%n, (i+n-1)%n)
			}
			return b.String()
		}, quick: []int{2, 10, 30, 60}, thorough: []int{2, 10, 30, 60, 120}, cost: true, cyclic: true},
	{name: "deep-selection-nesting", about: "selection sets nested n deep (n below the parser limit)",
		gen: func(n int) string {
			return "{ " + rep(n, func(int) string { return "o { " }) + "x" + strings.Repeat(" }", n) + " }"
		}, quick: []int{10, 100, 240}, thorough: []int{10, 100, 240}, cost: true},
	{name: "deep-inline-fragment-nesting", about: "inline fragments nested n deep",
		gen: func(n int) string {
			return "{ " + rep(n, func(int) string { return "... on Query { " }) + "x" + strings.Repeat(" }", n) + " }"
		}, quick: []int{10, 100, 300}, thorough: []int{10, 100, 300}, cost: true},
	{name: "deep-list-literal", about: "list literal nested n deep as an argument of a matching deeply nested list type",
		gen: func(n int) string {
			return "{ f(deep: " + strings.Repeat("[", n) + "1" + strings.Repeat("]", n) + ") }"
		}, quick: []int{10, 100, 900}, thorough: []int{10, 100, 900}, cost: true},
	{name: "deep-object-literal", about: "input object literal nested n deep",
		gen: func(n int) string {
			return "{ f(in: " + rep(n, func(int) string { return "{a: " }) + "{v: 1}" + strings.Repeat("}", n) + ") }"
		}, quick: []int{10, 100, 900}, thorough: []int{10, 100, 900}, cost: true},
	{name: "deep-variable-type", about: "variable of a list type nested n deep",
		gen: func(n int) string {
			return "query($v: " + strings.Repeat("[", n) + "Int" + strings.Repeat("]", n) + ") { f(deep: $v) }"
		}, quick: []int{10, 100, 900}, thorough: []int{10, 100, 900}},
}

// doubleSpreadChain is the family of the Lean theorem C12.cost_walk_lower (`chainDoc fname n`):
// { ...F0 } fragment F0 on Query { ...F1 ...F1 } … fragment F(n-1) on Query { ...Fn ...Fn } fragment Fn on Query { x }
func doubleSpreadChain(n int) string {
	var b strings.Builder
	b.WriteString("{ ...F0 }\n")
	for i := 0; i < n; i++ {
		fmt.Fprintf(&b, "fragment F%d on Query { ...F%d ...F%d }\n", i, i+1, i+1)
	}
	fmt.Fprintf(&b, "fragment F%d on Query { x }\n", n)
	return b.String()
}

func familyByName(name string) *family {
	for i := range families {
		if families[i].name == name {
			return &families[i]
		}
	}
	return nil
}

// ---- parser: flat and deep families -------------------------------------------------------------

// unit is a selection that contains every construct of the grammar below a selection once, at
// bounded nesting: repeating it w times in one selection set makes every return path of every
// production below parseSelectionSet run w times at constant depth.
const unitSelection = `al: f(x: 1, y: -2.5e3, s: "s", l: [1, [2], {a: $v}, E, true, null, """b"""], in: {a: {v: 1}, l: []}) @skip(if: $c) @d { x }
x @include(if: true)
...F @d(a: [$v])
...G
... on Query @d { x }
... { y }
... @d { y }
`

// unitDefinitions: every kind of definition once.
const unitDefinitions = `query Q($v: Int = 1, $w: [[Int!]]! = [[1]], $c: Boolean!, $o: In = {a: {v: 2}, l: [{v: 3}]}) @d(x: 1) { x }
mutation { x }
subscription S { x }
{ x }
fragment F on Query @d { x }
`

type flatFamily struct {
	name string
	gen  func(w int) string
}

var flatFamilies = []flatFamily{
	{"flat-fields", func(w int) string { return "{" + strings.Repeat(" x", w) + " }" }},
	{"flat-aliased-fields-with-args", func(w int) string { return "{" + strings.Repeat(" a: f(x: 1)", w) + " }" }},
	{"flat-fields-with-subselection", func(w int) string { return "{" + strings.Repeat(" o { x }", w) + " }" }},
	{"flat-spreads", func(w int) string { return "{" + strings.Repeat(" ...F", w) + " } fragment F on Query { x }" }},
	{"flat-inline-fragments", func(w int) string { return "{" + strings.Repeat(" ... on Query { x } ... { x }", w) + " }" }},
	{"flat-arguments", func(w int) string {
		return "{ f(" + rep(w, func(i int) string { return fmt.Sprintf("a%d: 1 ", i) }) + ") }"
	}},
	{"flat-directives", func(w int) string { return "{ x" + strings.Repeat(" @d(a: 1)", w) + " }" }},
	{"flat-list-items", func(w int) string {
		return "{ f(l: [" + strings.Repeat("1 2.5 \"s\" true null E $v [] {} ", w/8+1) + "]) }"
	}},
	{"flat-object-fields", func(w int) string {
		return "{ f(in: {" + rep(w, func(i int) string { return fmt.Sprintf("a%d: [1] ", i) }) + "}) }"
	}},
	{"flat-variable-definitions", func(w int) string {
		return "query(" + rep(w, func(i int) string { return fmt.Sprintf("$v%d: [Int!]! = [1] $w%d: T ", i, i) }) + ") { x }"
	}},
	{"flat-operations", func(w int) string { return rep(w, func(i int) string { return fmt.Sprintf("query Q%d { x } ", i) }) }},
	{"flat-shorthand-and-fragments", func(w int) string {
		return rep(w, func(i int) string { return fmt.Sprintf("{ x } fragment F%d on T { x } ", i) })
	}},
	{"flat-kitchen-sink-selections", func(w int) string { return "{\n" + strings.Repeat(unitSelection, w/7+1) + "}" }},
	{"flat-kitchen-sink-definitions", func(w int) string { return strings.Repeat(unitDefinitions, w/5+1) }},
}

// deepFamily: nesting depth d of one bracket kind. nest = the syntactic nesting depth of the text.
type deepFamily struct {
	name string
	gen  func(d int) string
}

var deepFamilies = []deepFamily{
	{"deep-selection-sets", func(d int) string { return strings.Repeat("{x ", d) + strings.Repeat("}", d) }},
	{"deep-inline-fragments", func(d int) string { return "{" + strings.Repeat("...{", d) + "x" + strings.Repeat("}", d) + "}" }},
	{"deep-list-values", func(d int) string { return "{f(l:" + strings.Repeat("[", d) + strings.Repeat("]", d) + ")}" }},
	{"deep-object-values", func(d int) string { return "{f(in:" + strings.Repeat("{a:", d) + "1" + strings.Repeat("}", d) + ")}" }},
	{"deep-mixed-values", func(d int) string { return "{f(in:" + strings.Repeat("[{a:", d) + "1" + strings.Repeat("}]", d) + ")}" }},
	{"deep-list-types", func(d int) string {
		return "query($v:" + strings.Repeat("[", d) + "T" + strings.Repeat("]", d) + "){x}"
	}},
	{"deep-default-values", func(d int) string { return "query($v:T=" + strings.Repeat("[", d) + strings.Repeat("]", d) + "){x}" }},
	{"deep-directive-argument", func(d int) string { return "{x @d(a:" + strings.Repeat("[", d) + strings.Repeat("]", d) + ")}" }},
}

// ---- mixed families: N siblings of one production kind, then nesting of one bracket kind ----------------

// sibKind builds, from N siblings and a nested selection `nest`, a whole document in which the
// siblings are parsed before the nested part.
type sibKind struct {
	name string
	doc  func(n int, nest string) string
}

var sibKinds = []sibKind{
	{"named-spreads", func(n int, nest string) string {
		return "{" + strings.Repeat(" ...F", n) + " " + nest + " } fragment F on Query { x }"
	}},
	{"inline-fragments", func(n int, nest string) string {
		return "{" + strings.Repeat(" ... { x } ... on Query { x }", n/2) + " " + nest + " }"
	}},
	{"fields", func(n int, nest string) string { return "{" + strings.Repeat(" x", n) + " " + nest + " }" }},
	{"fields-with-subselection", func(n int, nest string) string { return "{" + strings.Repeat(" o { x }", n) + " " + nest + " }" }},
	{"arguments", func(n int, nest string) string {
		return "{ f(" + rep(n, func(i int) string { return fmt.Sprintf("a%d: 1 ", i) }) + ") " + nest + " }"
	}},
	{"list-items", func(n int, nest string) string {
		return "{ f(l: [" + strings.Repeat("1 $v [] {} ", n/4+1) + "]) " + nest + " }"
	}},
	{"object-fields", func(n int, nest string) string {
		return "{ f(in: {" + rep(n, func(i int) string { return fmt.Sprintf("k%d: 1 ", i) }) + "}) " + nest + " }"
	}},
	{"directives", func(n int, nest string) string { return "{ x" + strings.Repeat(" @d(a: 1)", n) + " " + nest + " }" }},
	{"variable-definitions", func(n int, nest string) string {
		return "query(" + rep(n, func(i int) string { return fmt.Sprintf("$v%d: [Int!] = [1] ", i) }) + ") { " + nest + " }"
	}},
	{"operations-and-fragments", func(n int, nest string) string {
		return rep(n/2, func(i int) string { return fmt.Sprintf("query Q%d { x ...F%d } fragment F%d on T { x } ", i, i, i) }) + "{ " + nest + " }"
	}},
}

// nestKind: one selection whose text is nested d levels deep.
type nestKind struct {
	name string
	sel  func(d int) string
}

var nestKinds = []nestKind{
	{"selection-sets", func(d int) string { return strings.Repeat("x{", d) + "x" + strings.Repeat("}", d) }},
	{"inline-fragments", func(d int) string { return strings.Repeat("...{", d) + "x" + strings.Repeat("}", d) }},
	{"list-values", func(d int) string { return "f(l:" + strings.Repeat("[", d) + strings.Repeat("]", d) + ")" }},
	{"object-values", func(d int) string { return "f(in:" + strings.Repeat("{a:", d) + "1" + strings.Repeat("}", d) + ")" }},
	{"mixed-values", func(d int) string { return "x @d(a:" + strings.Repeat("[{a:", d) + "1" + strings.Repeat("}]", d) + ")" }},
	{"spread-chain", func(d int) string { return strings.Repeat("...{x{", d/2+1) + "x" + strings.Repeat("}}", d/2+1) }},
}

func mixedSource(c Case) (string, bool) {
	// Family = "<sibling kind>/<nest kind>", N = siblings, From = nesting depth
	parts := strings.SplitN(c.Family, "/", 2)
	if len(parts) != 2 {
		return "", false
	}
	for _, s := range sibKinds {
		if s.name != parts[0] {
			continue
		}
		for _, k := range nestKinds {
			if k.name == parts[1] {
				return s.doc(c.N, k.sel(c.From)), true
			}
		}
	}
	return "", false
}
