// Harness for C12 — parse/validate work is polynomially bounded; the depth limit is about depth only.
//
//	(A) parser depth, tied to the Lean parser model (lean/ApiFu/C06 model, driver c12model):
//	    flat families of every sibling kind at widths up to 10^4 (10^5 thorough) must never get
//	    "maximum recursion depth exceeded" and must agree with the model; nesting families are
//	    compared with the model at the exact boundary depth ± 2 (error, position); nesting far beyond
//	    the limit (10^4 … 10^6) must give an ordinary error — run in a child process, because a stack
//	    overflow is fatal, not a panic.
//	(B) work bounds on the real graphql.ParseAndValidate (+ cost rule): linear-size document families
//	    run in child processes under an absolute budget (sizes are chosen so that the measured
//	    polynomial behaviour is ≥ 100× below the budget while exponential behaviour cannot finish);
//	    the `verif` hook counter of the cost walk is compared with the Lean step model and checked
//	    against a quadratic bound in the number of selections.
package main

import (
	"bytes"
	"context"
	"encoding/json"
	"fmt"
	"os"
	"os/exec"
	"sort"
	"strings"
	"sync"
	"sync/atomic"
	"time"

	"github.com/ccbrown/api-fu/graphql"
	"github.com/ccbrown/api-fu/graphql/ast"
	"github.com/ccbrown/api-fu/graphql/parser"
	"github.com/ccbrown/api-fu/graphql/validator"

	"verifharness/cmd/c06/pk"
	"verifharness/hx"
)

const depthMsg = "maximum recursion depth exceeded"

// Case is the replayable form of one case.
type Case struct {
	Kind   string `json:"kind"`             // work | flat | deep | far | walk | mixed | mixfar (Family "<siblings>/<nesting>", N siblings, From = depth)
	Family string `json:"family,omitempty"` // family name
	N      int    `json:"n,omitempty"`      // size / width / depth
	Cost   bool   `json:"cost,omitempty"`   // with the cost rule (work)
	Src    string `json:"src,omitempty"`    // explicit source text (walk)
	Seed   int64  `json:"seed,omitempty"`   // walkbatch: documents From … From+N-1 of the stream of this seed
	From   int    `json:"from,omitempty"`
}

// ---- child process --------------------------------------------------------------------------------

type childResult struct {
	ElapsedNs int64  `json:"elapsed_ns"`
	Bytes     int    `json:"bytes"`
	Errs      int    `json:"errs"`
	First     string `json:"first,omitempty"`
	Accepted  bool   `json:"accepted"`
	Visits    int64  `json:"visits"`
	Sels      int    `json:"sels"` // fields + fragment spreads in the document
	DepthErr  bool   `json:"depth_err"`
	CycleErr  bool   `json:"cycle_err,omitempty"` // some error says "fragment cycle"
	FirstLine int    `json:"first_line,omitempty"`
	FirstCol  int    `json:"first_col,omitempty"`
	// validator.VerifCounters consumed by this run (only with build tag c12walks)
	Counters []int64 `json:"counters,omitempty"`
	// heap allocated by the measured call (runtime.MemStats deltas)
	AllocBytes uint64 `json:"alloc_bytes,omitempty"`
	Mallocs    uint64 `json:"mallocs,omitempty"`
}

func countSels(doc *ast.Document) int {
	n := 0
	ast.Inspect(doc, func(node ast.Node) bool {
		switch node.(type) {
		case *ast.Field, *ast.FragmentSpread:
			n++
		}
		return true
	})
	return n
}

func sourceOf(c Case) (string, bool) {
	switch c.Kind {
	case "work":
		if f := familyByName(c.Family); f != nil {
			return f.gen(c.N), true
		}
	case "flat":
		for _, f := range flatFamilies {
			if f.name == c.Family {
				return f.gen(c.N), true
			}
		}
	case "deep", "far":
		for _, f := range deepFamilies {
			if f.name == c.Family {
				return f.gen(c.N), true
			}
		}
	case "walk":
		return c.Src, true
	case "mixed", "mixfar":
		return mixedSource(c)
	}
	return "", false
}

// runWork: graphql.ParseAndValidate (+ cost rule) on the case's text, timed.
func runWork(c Case, src string, s *graphql.Schema) childResult {
	var r childResult
	r.Bytes = len(src)
	var rules []graphql.ValidatorRule
	var actual int
	if c.Cost {
		rules = append(rules, graphql.ValidateCost("", nil, -1, &actual, graphql.FieldCost{Resolver: 1}))
	}
	before := atomic.LoadInt64(&validator.VerifCostVisits)
	c0 := countersSnapshot()
	a0 := allocNow()
	t0 := time.Now()
	doc, errs := graphql.ParseAndValidate(src, s, nil, rules...)
	r.ElapsedNs = time.Since(t0).Nanoseconds()
	r.AllocBytes, r.Mallocs = a0.since()
	r.Counters = countersDelta(c0)
	r.Visits = atomic.LoadInt64(&validator.VerifCostVisits) - before
	r.Errs = len(errs)
	r.Accepted = doc != nil && len(errs) == 0
	if len(errs) > 0 {
		r.First = errs[0].Message
	}
	for _, e := range errs {
		if strings.Contains(e.Message, depthMsg) {
			r.DepthErr = true
		}
		if strings.Contains(e.Message, "fragment cycle") {
			r.CycleErr = true
		}
	}
	if d, perrs := parser.ParseDocument([]byte(src)); d != nil && len(perrs) == 0 {
		r.Sels = countSels(d)
	}
	return r
}

// runParse: parser.ParseDocument only.
func runParse(src string) childResult {
	var r childResult
	r.Bytes = len(src)
	t0 := time.Now()
	doc, errs := parser.ParseDocument([]byte(src))
	r.ElapsedNs = time.Since(t0).Nanoseconds()
	r.Errs = len(errs)
	r.Accepted = doc != nil && len(errs) == 0
	if len(errs) > 0 {
		r.First, r.FirstLine, r.FirstCol = errs[0].Message, errs[0].Location.Line, errs[0].Location.Column
	}
	for _, e := range errs {
		if e.Message == depthMsg {
			r.DepthErr = true
		}
	}
	return r
}

// walkDoc derives document i of the random stream of a run deterministically from (seed, i).
func walkDoc(seed int64, i int) string {
	r := hx.NewRand(uint64(seed)*1000003 + uint64(i))
	g := &docGen{r: r, nfrag: r.Range(0, 6), budget: r.Range(3, 40), cyclic: r.Chance(1, 5)}
	return g.document()
}

// walkLine is what a walk-batch child reports per document.
type walkLine struct {
	Begin int         `json:"begin,omitempty"` // announced before the document is run (1-based)
	I     int         `json:"i,omitempty"`     // 1-based index of a finished document
	Rule  childResult `json:"rule"`
	Full  childResult `json:"full"`
	OK    bool        `json:"parsed"`
	Panic string      `json:"panic,omitempty"`
}

func walkBatchChild(c Case) {
	s := mkSchema()
	w := json.NewEncoder(os.Stdout)
	for i := c.From; i < c.From+c.N; i++ {
		w.Encode(walkLine{Begin: i + 1})
		src := walkDoc(c.Seed, i)
		var l walkLine
		l.I = i + 1
		func() {
			defer func() {
				if p := recover(); p != nil {
					l.Panic = fmt.Sprint(p)
				}
			}()
			l.Rule, l.OK = runRule(src, s)
			l.Full = runWork(Case{Kind: "walk", Cost: true}, src, s)
		}()
		w.Encode(l)
	}
}

func childMain(spec string) {
	var c Case
	if err := json.Unmarshal([]byte(spec), &c); err != nil {
		fmt.Fprintln(os.Stderr, "bad child spec:", err)
		os.Exit(2)
	}
	if c.Kind == "walkbatch" {
		walkBatchChild(c)
		return
	}
	if c.Kind == "tiny" {
		tinyChild(c)
		return
	}
	if c.Kind == "run" {
		r, ok := runRunCase(c)
		if !ok {
			fmt.Fprintln(os.Stderr, "unknown case:", spec)
			os.Exit(2)
		}
		b, _ := json.Marshal(r)
		fmt.Println(string(b))
		return
	}
	src, ok := sourceOf(c)
	if !ok {
		fmt.Fprintln(os.Stderr, "unknown case:", spec)
		os.Exit(2)
	}
	var r childResult
	if c.Kind == "work" {
		r = runWork(c, src, mkSchema())
	} else {
		r = runParse(src)
	}
	b, _ := json.Marshal(r)
	fmt.Println(string(b))
}

type childOutcome struct {
	Status string // ok | timeout | crash
	Res    childResult
	Tail   string
	Wall   time.Duration
}

func runChild(c Case, timeout time.Duration) childOutcome {
	spec, _ := json.Marshal(c)
	ctx, cancel := context.WithTimeout(context.Background(), timeout)
	defer cancel()
	cmd := exec.CommandContext(ctx, os.Args[0])
	cmd.Env = append(os.Environ(), "C12_CHILD="+string(spec))
	var out, errb bytes.Buffer
	cmd.Stdout, cmd.Stderr = &out, &errb
	t0 := time.Now()
	err := cmd.Run()
	o := childOutcome{Wall: time.Since(t0)}
	if ctx.Err() == context.DeadlineExceeded {
		o.Status = "timeout"
		return o
	}
	if err != nil {
		o.Status = "crash"
		t := errb.String()
		if len(t) > 600 {
			t = t[:600]
		}
		o.Tail = fmt.Sprintf("%v: %s", err, t)
		return o
	}
	if json.Unmarshal(bytes.TrimSpace(out.Bytes()), &o.Res) != nil {
		o.Status = "crash"
		o.Tail = "unreadable child output: " + out.String()
		return o
	}
	o.Status = "ok"
	return o
}

// ---- harness ----------------------------------------------------------------------------------------

type harness struct {
	run    *hx.Run
	model  *hx.Model
	maxRec int
	schema *graphql.Schema
	budget time.Duration
	table  []string

	// watchdog for the in-process cases (the work families run in child processes)
	mu      sync.Mutex
	current *Case
	started time.Time
}

func (h *harness) watch(limit time.Duration) {
	for {
		time.Sleep(500 * time.Millisecond)
		h.mu.Lock()
		c, t0 := h.current, h.started
		h.mu.Unlock()
		if c != nil && time.Since(t0) > limit {
			h.run.Oblige("oracle: in-process parse/validate returns (no hang)", "oracle", 1, false, "hang")
			h.run.Violate("crash", fmt.Sprintf("hang: %s %s n=%d did not return within %v", c.Kind, c.Family, c.N, limit), "", false, *c)
			h.run.Finish(nil)
			os.Exit(0)
		}
	}
}

func (h *harness) begin(c Case) {
	h.mu.Lock()
	h.current, h.started = &c, time.Now()
	h.mu.Unlock()
}

func (h *harness) end() {
	h.mu.Lock()
	h.current = nil
	h.mu.Unlock()
}

// modelDoc asks the model about a text: outcome string "(ret (errs))" | "(rec (errs))", pdepth, walk.
type modelAnswer struct {
	obs    string
	ret    bool
	pd     int64
	walk   bool
	visits int64
	werr   bool
	depth  bool
}

func (h *harness) askModel(src string, leak bool) (modelAnswer, error) {
	var a modelAnswer
	clip := src
	if len(clip) > 300 {
		clip = clip[:300]
	}
	h.begin(Case{Kind: "scan", Src: clip, N: len(src)})
	sc := pk.Scan([]byte(src)) // the real scanner is the model's token source
	h.end()
	type answer struct {
		reply string
		err   error
	}
	ch := make(chan answer, 1)
	go func() {
		reply, err := h.model.Ask(sc.Request("doc", h.maxRec, leak))
		ch <- answer{reply, err}
	}()
	var reply string
	var err error
	select {
	case x := <-ch:
		reply, err = x.reply, x.err
	case <-time.After(5 * time.Minute):
		h.run.Violate("correspondence", fmt.Sprintf("the model driver did not answer within 5 minutes on a %d-byte text", len(src)), "", true, Case{Kind: "scan", Src: clip, N: len(src)})
		h.run.Finish(nil)
		os.Exit(0)
	}
	if err != nil {
		return a, err
	}
	if reply == "oof" || reply == "bad-op" {
		a.obs = reply
		return a, nil
	}
	x, err := hx.ParseSexp(reply)
	if err != nil || !x.IsList || len(x.List) < 2 {
		return a, fmt.Errorf("unexpected model reply %.200q", reply)
	}
	errs := x.List[len(x.List)-1]
	for _, e := range errs.List {
		if len(e.List) > 1 && e.List[1].Atom == depthMsg {
			a.depth = true
		}
	}
	if x.List[0].Atom == "ret" && len(x.List) == 4 {
		a.ret = true
		fmt.Sscan(x.List[1].Atom, &a.pd)
		if w := x.List[2]; w.IsList && len(w.List) == 3 {
			a.walk = true
			fmt.Sscan(w.List[1].Atom, &a.visits)
			a.werr = w.List[2].Atom == "true"
		}
		a.obs = hx.N("ret", errs).String()
		return a, nil
	}
	a.obs = hx.N("rec", errs).String()
	return a, nil
}

func realParseObs(src string) (obs string, depth bool, panicked string) {
	defer func() {
		if p := recover(); p != nil {
			panicked = fmt.Sprint(p)
		}
	}()
	doc, errs := parser.ParseDocument([]byte(src))
	for _, e := range errs {
		if e.Message == depthMsg {
			depth = true
		}
	}
	if doc != nil {
		return hx.N("ret", pk.ErrsSexp(errs)).String(), depth, ""
	}
	return hx.N("rec", pk.ErrsSexp(errs)).String(), depth, ""
}

// parserCase: one text through the real parser and the model. flat = no depth error allowed.
func (h *harness) parserCase(c Case, flat bool) {
	run := h.run
	src, _ := sourceOf(c)
	h.begin(c)
	obs, depth, panicked := realParseObs(src)
	h.end()
	key, _ := json.Marshal(c)
	run.Case(string(key), c.N >= 100)
	run.Count("parser:" + c.Kind)
	if panicked != "" {
		run.Oblige("oracle: breadth is never limited by the depth limit (flat families)", "oracle", 1, false, panicked)
		run.Violate("crash", fmt.Sprintf("%s n=%d: the parser panicked: %s", c.Family, c.N, panicked), "", false, c)
		return
	}
	if flat {
		ok := !depth
		what := fmt.Sprintf("%s: a document of constant nesting depth and width %d is refused with %q: %.300s", c.Family, c.N, depthMsg, obs)
		run.Oblige("oracle: breadth is never limited by the depth limit (flat families)", "oracle", 1, ok, what)
		if !ok {
			// shrink the width while it still fails
			lo, hi := 1, c.N
			for lo < hi {
				mid := (lo + hi) / 2
				s2, _ := sourceOf(Case{Kind: c.Kind, Family: c.Family, N: mid})
				if _, d2, _ := realParseObs(s2); d2 {
					hi = mid
				} else {
					lo = mid + 1
				}
			}
			c.N = lo
			run.Violate("property", fmt.Sprintf("%s: a document of constant nesting depth and width %d is refused with %q", c.Family, c.N, depthMsg), "", false, c)
			return
		}
	}
	if h.model == nil {
		return
	}
	a, err := h.askModel(src, false)
	ok := err == nil && a.obs == obs
	what := ""
	if !ok {
		what = fmt.Sprintf("%s n=%d: parser %.300s, model %.300s (%v)", c.Family, c.N, obs, a.obs, err)
	}
	run.Oblige("parser-depth correspondence(outcome, error list with positions)", "correspondence", 1, ok, what)
	if !ok {
		run.Violate("correspondence", what, "", true, c)
		return
	}
	if a.ret && a.pd > int64(h.maxRec) {
		run.Violate("correspondence", fmt.Sprintf("%s n=%d: the model returned a document of production depth %d > maxRecursion %d", c.Family, c.N, a.pd, h.maxRec), "", true, c)
	}
}

// boundary: the largest depth the model accepts, by bisection (acceptance is monotone in depth).
func (h *harness) boundary(f deepFamily) (int, error) {
	lo, hi := 0, h.maxRec+8 // invariant: lo accepted (0 = nothing), hi rejected
	for lo+1 < hi {
		mid := (lo + hi) / 2
		a, err := h.askModel(f.gen(mid), false)
		if err != nil {
			return 0, err
		}
		if a.ret {
			lo = mid
		} else {
			hi = mid
		}
	}
	return lo, nil
}

// ---- mixed families -----------------------------------------------------------------------------------

func (h *harness) realAccepts(c Case) (accept, depth bool, obs, panicked string) {
	src, _ := sourceOf(c)
	h.begin(c)
	obs, depth, panicked = realParseObs(src)
	h.end()
	return strings.HasPrefix(obs, "(ret ") && !depth && panicked == "", depth, obs, panicked
}

// baseSiblings: the reference width (every sibling kind needs at least one member to be grammatical).
const baseSiblings = 2

func (h *harness) mixedFamilies() {
	run := h.run
	ns := []int{300, 3000}
	if run.Thorough() {
		ns = []int{300, 3000, 20000}
	}
	const oracle = "oracle: the nesting depth at which the depth error starts does not depend on the number of preceding siblings (mixed families)"
	for _, sk := range sibKinds {
		for _, nk := range nestKinds {
			fam := sk.name + "/" + nk.name
			// boundary of the real parser without siblings, by bisection (acceptance is monotone in depth)
			lo, hi := 0, h.maxRec+8
			for lo+1 < hi {
				mid := (lo + hi) / 2
				if ok, _, _, _ := h.realAccepts(Case{Kind: "mixed", Family: fam, N: baseSiblings, From: mid}); ok {
					lo = mid
				} else {
					hi = mid
				}
			}
			b0 := lo
			if b0 < 10 {
				run.Violate("correspondence", fmt.Sprintf("%s: the reference document (2 siblings) is not accepted at nesting depth 10: the family is broken", fam), "", true, Case{Kind: "mixed", Family: fam, N: baseSiblings, From: 10})
				continue
			}
			for _, n := range ns {
				for _, d := range []int{b0 - 1, b0, b0 + 1} {
					if d < 1 {
						continue
					}
					c := Case{Kind: "mixed", Family: fam, N: n, From: d}
					key, _ := json.Marshal(c)
					run.Case(string(key), true)
					run.Count("parser:mixed")
					ok, depth, obs, panicked := h.realAccepts(c)
					if panicked != "" {
						run.Oblige(oracle, "oracle", 1, false, panicked)
						run.Violate("crash", fmt.Sprintf("%s: the parser panicked: %s", fam, panicked), "", false, c)
						continue
					}
					want := d <= b0
					good := ok == want && (ok || depth)
					what := ""
					if !good {
						what = fmt.Sprintf("%s: with 2 siblings nesting depth %d is accepted and %d gets %q; after %d siblings depth %d gives %.200s", fam, b0, b0+1, depthMsg, n, d, obs)
					}
					run.Oblige(oracle, "oracle", 1, good, what)
					if !good {
						run.Violate("property", what, "", false, c)
						continue
					}
					if h.model != nil {
						src, _ := sourceOf(c)
						a, err := h.askModel(src, false)
						same := err == nil && a.obs == obs
						w2 := ""
						if !same {
							w2 = fmt.Sprintf("%s n=%d depth=%d: parser %.300s, model %.300s (%v)", fam, n, d, obs, a.obs, err)
						}
						run.Oblige("parser-depth correspondence(outcome, error list with positions)", "correspondence", 1, same, w2)
						if !same {
							run.Violate("correspondence", w2, "", true, c)
						}
					}
				}
			}
		}
		// far beyond the limit after many siblings: an ordinary error, in a child process
		for _, nk := range nestKinds[:2] {
			for _, d := range []int{2 * h.maxRec, 10 * h.maxRec} {
				c := Case{Kind: "mixfar", Family: sk.name + "/" + nk.name, N: ns[len(ns)-1], From: d}
				o := runChild(c, h.budget)
				key, _ := json.Marshal(c)
				run.Case(string(key), true)
				run.Count("parser:mixfar")
				ok := o.Status == "ok" && !o.Res.Accepted && o.Res.DepthErr
				what := ""
				if !ok {
					what = fmt.Sprintf("%s: %d siblings, then nesting %d deep: expected an ordinary %q error, got status=%s accepted=%v errs=%d first=%q %s", c.Family, c.N, d, depthMsg, o.Status, o.Res.Accepted, o.Res.Errs, o.Res.First, o.Tail)
				}
				run.Oblige("oracle: nesting beyond the limit is refused with an ordinary error (no crash, no hang), depth 10^3 … 10^6", "oracle", 1, ok, what)
				if !ok {
					kind := "property"
					if o.Status == "crash" {
						kind = "crash"
					}
					run.Violate(kind, what, "", false, c)
				}
			}
		}
	}
}

// ---- work families ------------------------------------------------------------------------------------

// selBound: the polynomial bound the cost walk's visits must respect: quadratic in the number of
// selections of the document (every fragment expanded at most once per spread site is ≤ S·S).
// modelWidth: widest document of the wide / cyclic families that is also run through the walk models.
const modelWidth = 600

func selBound(s int) int64 { return int64(s)*int64(s) + int64(s) + 16 }

type workVerdict struct {
	mode string // "" ok | timeout | crash | visits-bound | depth-error | rejected-valid | cycle-not-reported
	what string
}

func (h *harness) workCase(c Case) (childOutcome, workVerdict) {
	o := runChild(c, h.budget)
	switch o.Status {
	case "timeout":
		return o, workVerdict{"timeout", fmt.Sprintf("%s n=%d (cost rule %v): graphql.ParseAndValidate did not finish within the budget of %v", c.Family, c.N, c.Cost, h.budget)}
	case "crash":
		return o, workVerdict{"crash", fmt.Sprintf("%s n=%d (cost rule %v): the process died: %s", c.Family, c.N, c.Cost, o.Tail)}
	}
	if o.Res.DepthErr {
		return o, workVerdict{"depth-error", fmt.Sprintf("%s n=%d: refused with %q", c.Family, c.N, depthMsg)}
	}
	if f := familyByName(c.Family); f != nil && c.Kind == "work" {
		if f.valid && !o.Res.Accepted {
			return o, workVerdict{"rejected-valid", fmt.Sprintf("%s n=%d: a valid document (the same family is accepted at smaller sizes; only the number of siblings grows, the nesting depth is constant) is rejected with %d error(s), first: %q", c.Family, c.N, o.Res.Errs, o.Res.First)}
		}
		if f.cyclic && !o.Res.CycleErr {
			return o, workVerdict{"cycle-not-reported", fmt.Sprintf("%s n=%d: the document has a fragment cycle but no error says so (%d errors, first: %q)", c.Family, c.N, o.Res.Errs, o.Res.First)}
		}
	}
	if c.Cost && o.Res.Sels > 0 && o.Res.Visits > selBound(o.Res.Sels) {
		return o, workVerdict{"visits-bound", fmt.Sprintf("%s n=%d: the cost walk visited %d fields/spreads of a document that has %d (bound %d): the work is not polynomial in the document", c.Family, c.N, o.Res.Visits, o.Res.Sels, selBound(o.Res.Sels))}
	}
	if s := countedWork(o.Res); len(o.Res.Counters) > 0 && s > 0 && o.Res.AllocBytes > allocFixed+allocFactor*uint64(s) {
		return o, workVerdict{"collection-size", fmt.Sprintf("%s n=%d (cost rule %v): graphql.ParseAndValidate allocated %d bytes for a document of %d bytes whose counted work (document bytes + loop-head counters + cost-walk visits) is %d steps — more than %d bytes per step: some rule builds a collection whose size is not accounted for by its counted steps (the counters are tied to the polynomially bounded Lean models; the collections are not polynomial in them)", c.Family, c.N, c.Cost, o.Res.AllocBytes, o.Res.Bytes, s, allocFactor)}
	}
	return o, workVerdict{}
}

// classify attaches the key of an open finding to a failing work case ("" = none).
//
// F-12c: the failure is specific to the cost rule (the same document without the cost rule is
// within budget and bound), the document reaches some fragment through more than one spread, and —
// where the count is measurable — the hook counter equals the Lean model of the walk as written
// (re-expansion at every spread), i.e. the excess is exactly the re-expansion the finding describes.
func (h *harness) classify(c Case, o childOutcome, v workVerdict) string {
	if !c.Cost || (v.mode != "visits-bound" && v.mode != "timeout") {
		return ""
	}
	src, _ := sourceOf(c)
	if strings.Count(src, "...") < 2 {
		return ""
	}
	o2, v2 := h.workCase(Case{Kind: c.Kind, Family: c.Family, N: c.N, Src: c.Src, Cost: false})
	if v2.mode != "" || o2.Status != "ok" {
		return ""
	}
	if v.mode == "visits-bound" && h.model != nil {
		a, err := h.askModel(src, false)
		if err != nil || !a.walk || a.visits != o.Res.Visits {
			return ""
		}
	}
	return "F-12c-cost-walk-reexpands-fragments"
}

func (h *harness) workFamily(f family) {
	run := h.run
	sizes := f.quick
	if run.Thorough() {
		sizes = f.thorough
	}
	var prev *childOutcome
	var prevN int
	for _, n := range sizes {
		c := Case{Kind: "work", Family: f.name, N: n, Cost: f.cost}
		o, v := h.workCase(c)
		key, _ := json.Marshal(c)
		run.Case(string(key), n >= 10)
		run.Count("work:" + f.name)
		ratio := ""
		if prev != nil && prev.Status == "ok" && o.Status == "ok" && prev.Res.ElapsedNs > 0 {
			ratio = fmt.Sprintf(" t(n)/t(prev n=%d)=%.1f", prevN, float64(o.Res.ElapsedNs)/float64(prev.Res.ElapsedNs))
		}
		h.table = append(h.table, fmt.Sprintf("%-34s n=%-6d cost=%-5v bytes=%-7d %-8s %9.3f ms errs=%-3d visits=%-8d sels=%-6d%s",
			f.name, n, f.cost, o.Res.Bytes, o.Status, float64(o.Res.ElapsedNs)/1e6, o.Res.Errs, o.Res.Visits, o.Res.Sels, ratio))
		// a failure that the classifier attaches to a finding is reported through Violate with that key
		// (KNOWN-FINDING while the finding is open, VIOLATION otherwise); the row stays discharged and the
		// case is counted, so that only unclassified failures break the obligation
		key2 := ""
		if v.mode != "" {
			key2 = h.classify(c, o, v)
		}
		if key2 != "" {
			run.Count("known-finding-case:" + key2)
		}
		// a verdict that flips between two sizes of a family of valid documents: find the least refused width
		vc := c
		if f.valid && (v.mode == "rejected-valid" || v.mode == "depth-error") && prev != nil && prev.Status == "ok" && prev.Res.Accepted {
			lo, hi := prevN, n // lo accepted, hi refused
			for hi-lo > 1 {
				mid := (lo + hi) / 2
				if om, vm := h.workCase(Case{Kind: "work", Family: f.name, N: mid, Cost: f.cost}); om.Status == "ok" && vm.mode == "" {
					lo = mid
				} else {
					hi = mid
				}
			}
			v.what += fmt.Sprintf(" — accepted up to n=%d, refused from n=%d on: the limit counts breadth, not depth", lo, hi)
			vc.N = hi // the recorded case is the least refused width
		}
		switch {
		case f.valid:
			run.Oblige("oracle: valid documents of growing breadth and constant nesting depth (sibling inline fragments / spreads / sub-selections, widths straddling 2^k and 10^k, every operation type), and overlapping fields with identical argument literals nested 1..200 deep, are accepted by ParseAndValidate at every size, within the budget", "oracle", 1, v.mode == "", v.what)
		case f.cyclic:
			run.Oblige("oracle: a fragment cycle (at the root, behind inline fragments, behind a chain, below a field, unreached; under query, mutation, subscription and shorthand operations) is reported as a fragment cycle by an ordinary error — no crash, no hang", "oracle", 1, v.mode == "", v.what)
		}
		run.Oblige("oracle: ParseAndValidate(+cost) finishes within the budget, without crash or depth error, cost-walk visits ≤ S²+S+16 (linear-size families; cases classified as finding F-12c are reported as such and counted under known-finding-case)", "oracle", 1, v.mode == "" || key2 != "", v.what)
		// cost-walk step correspondence (hook counter = Lean step model) where the walk is measurable
		if v.mode == "" || v.mode == "visits-bound" {
			h.walkTie(c, o)
		}
		// the walk models keep their tables as lists (quadratic to run): the wide families are compared
		// with them up to a moderate width
		if o.Status == "ok" && (!(f.valid || f.cyclic) || n <= modelWidth) {
			h.walksCompare(c, o.Res)
		}
		if o.Status == "ok" {
			h.allocObserve(c, o.Res)
			if len(o.Res.Counters) > 0 {
				run.Oblige("oracle: collection sizes — heap allocated by ParseAndValidate ≤ 8 MiB + 4096 bytes × (document bytes + Σ loop-head counters tied to the Lean step models + cost-walk visits)", "oracle", 1, v.mode != "collection-size", v.what)
			}
		}
		if v.mode != "" {
			run.Violate("property", v.mode+": "+v.what, key2, false, vc)
			if v.mode == "timeout" || v.mode == "crash" || v.mode == "visits-bound" || v.mode == "collection-size" || v.mode == "rejected-valid" || (f.valid && v.mode == "depth-error") {
				// larger sizes can only be worse; do not burn the budget again
				run.Note("%s: sizes above n=%d skipped after %s", f.name, n, v.mode)
				break
			}
		}
		oo := o
		prev, prevN = &oo, n
	}
}

// walkTie compares the hook counter of the real cost walk with the Lean step model.
func (h *harness) walkTie(c Case, o childOutcome) {
	if h.model == nil || !c.Cost || o.Status != "ok" {
		return
	}
	src, _ := sourceOf(c)
	a, err := h.askModel(src, false)
	if err != nil || !a.ret {
		return
	}
	// additional rules (the cost rule) only run on documents the standard rules accept
	want := int64(0)
	if a.walk && o.Res.Errs == 0 {
		want = a.visits
	}
	ok := o.Res.Visits == want
	what := ""
	if !ok {
		what = fmt.Sprintf("%s n=%d: the cost walk visited %d fields/spreads, the step model says %d (validation errors: %d)", c.Family, c.N, o.Res.Visits, want, o.Res.Errs)
	}
	// instance of the theorem C12.cost_walk_steps_chain: 3·2^n − 1 visits on the chain of n levels
	if ok && c.Family == "cost-double-spread-chain" && c.N < 40 && o.Res.Errs == 0 && want != 3*(int64(1)<<uint(c.N))-1 {
		ok, what = false, fmt.Sprintf("%s n=%d: the step model says %d visits, the theorem cost_walk_steps_chain says %d", c.Family, c.N, want, 3*(int64(1)<<uint(c.N))-1)
	}
	h.run.Oblige("cost-walk step correspondence(hook VerifCostVisits = Lean walk model)", "correspondence", 1, ok, what)
	if !ok {
		h.run.Violate("correspondence", what, "", true, c)
	}
}

// ---- random valid documents for the cost-walk tie ---------------------------------------------------------

type docGen struct {
	r      *hx.Rand
	nfrag  int
	alias  int
	budget int
	cyclic bool
}

func (g *docGen) selSet(depth int, fromFrag int) string {
	var b strings.Builder
	b.WriteString("{ ")
	n := g.r.Range(1, 4)
	for i := 0; i < n; i++ {
		g.budget--
		g.alias++
		switch k := g.r.Intn(10); {
		case k < 4 || g.budget <= 0 || depth > 5:
			fmt.Fprintf(&b, "a%d: %s ", g.alias, hx.Pick(g.r, []string{"x", "y", "f(x: 1)", "__typename", "f(l: [1, 2], in: {v: 1})"}))
		case k < 6:
			fmt.Fprintf(&b, "a%d: %s %s ", g.alias, hx.Pick(g.r, []string{"o", "obj", "list", "obj(x: 2)"}), g.selSet(depth+1, fromFrag))
		case k < 7:
			fmt.Fprintf(&b, "... %s%s ", hx.Pick(g.r, []string{"", "on Obj ", "@skip(if: false) "}), g.selSet(depth+1, fromFrag))
		default:
			lo := fromFrag + 1
			if g.cyclic && g.r.Chance(1, 4) {
				lo = 0
			}
			if lo >= g.nfrag {
				fmt.Fprintf(&b, "a%d: x ", g.alias)
			} else {
				fmt.Fprintf(&b, "...F%d ", g.r.Range(lo, g.nfrag-1))
			}
		}
	}
	b.WriteString("}")
	return b.String()
}

// document: the root types have the same fields as Obj, but fragments F… are on Obj, so the root
// selects through `obj`. The operation is a shorthand query, a query, a mutation or a subscription; one
// time in three the root selection set is reached through a short chain of fragments on the root type
// (R0 → R1 → …), one time in four of those closed into a ring: the rules that follow spreads from the
// root selection set (subscription rule, merge check, variable walk, cycle search) see every shape under
// every operation type. A subscription keeps one root response key where the document is meant to be valid.
func (g *docGen) document() string {
	var b strings.Builder
	op := opVariants[3]
	if g.r.Chance(1, 2) {
		op = opVariants[g.r.Intn(3)]
	}
	root := g.selSet(0, -1)
	frags := make([]string, g.nfrag)
	for i := range frags {
		frags[i] = g.selSet(1, i)
	}
	// every fragment is used somewhere (an unused fragment makes the document invalid)
	all := root + strings.Join(frags, " ")
	extra := ""
	if !g.r.Chance(1, 10) {
		for i := range frags {
			if !strings.Contains(all, fmt.Sprintf("...F%d ", i)) {
				extra += fmt.Sprintf("...F%d ", i)
			}
		}
	}
	body := fmt.Sprintf("root: obj %s %s", root, wrapExtra(extra))
	if op.tag == "subscription" && extra != "" {
		// one root field: the extra spreads go below it
		body = fmt.Sprintf("root: obj %s", root[:len(root)-1]+wrapExtra(extra)+"}")
	}
	if g.r.Chance(1, 3) {
		k := g.r.Range(1, 3)
		ringed := g.cyclic || g.r.Chance(1, 4)
		fmt.Fprintf(&b, "%s{ ...R0 }\n", op.header)
		for i := 0; i < k; i++ {
			switch {
			case i+1 < k:
				fmt.Fprintf(&b, "fragment R%d on %s { %s ...R%d }\n", i, op.typ, pickBody(i, body), i+1)
			case ringed && g.r.Chance(1, 2):
				fmt.Fprintf(&b, "fragment R%d on %s { %s ... { ...R%d } }\n", i, op.typ, pickBody(i, body), g.r.Intn(k))
			default:
				fmt.Fprintf(&b, "fragment R%d on %s { %s }\n", i, op.typ, pickBody(i, body))
			}
		}
	} else {
		fmt.Fprintf(&b, "%s{ %s}\n", op.header, body)
	}
	for i := range frags {
		fmt.Fprintf(&b, "fragment F%d on Obj %s\n", i, frags[i])
	}
	if g.r.Chance(1, 8) {
		b.WriteString("fragment F0 on Obj { dup: x }\n") // a duplicate name: the last definition wins in fragmentsByName
	}
	return b.String()
}

// pickBody: the first fragment of a root chain carries the document's body, the others select the same
// root response key again (so that a subscription keeps a single root field).
func pickBody(i int, body string) string {
	if i == 0 {
		return body
	}
	return "root: obj { again: x }"
}

func wrapExtra(spreads string) string {
	if spreads == "" {
		return ""
	}
	return "more: obj { " + spreads + "} "
}

func main() {
	if spec := os.Getenv("C12_CHILD"); spec != "" {
		childMain(spec)
		return
	}
	run := hx.Init("C12")
	h := &harness{run: run, schema: mkSchema(), budget: time.Duration(run.Scale(10, 30)) * time.Second}
	mr, err := pk.MaxRecursion()
	if err != nil {
		run.Note("maxRecursion could not be read from parser.go (%v); the model runs with 1000", err)
		mr = 1000
	}
	h.maxRec = mr
	go h.watch(60 * time.Second)
	if run.ModelPath != "" {
		m, err := hx.StartModel(run.ModelPath)
		if err != nil {
			fmt.Fprintln(os.Stderr, "cannot start model:", err)
			os.Exit(2)
		}
		h.model = m
		defer m.Close()
	}
	run.SetRule("document families of linearly growing size (fragment chains with overlapping fields, repeated spreads, wide flat sets of every sibling kind, deep nesting of every bracket kind up to the limit ± 2 and far beyond) through parser.ParseDocument / graphql.ParseAndValidate (+ cost rule); random fragment graphs for the cost-walk step tie; distinct = distinct (kind, family, size, cost); non-trivial = size ≥ 10 (work), width/depth ≥ 100 (parser)")

	if run.Replay != "" {
		var c Case
		if err := hx.LoadReplayCase(run.Replay, &c); err != nil {
			fmt.Fprintln(os.Stderr, err)
			os.Exit(2)
		}
		h.replay(c, true)
		run.Finish(h.model)
		return
	}
	for _, f := range run.CorpusFiles() {
		var c Case
		if hx.LoadReplayCase(f, &c) == nil && c.Kind != "" {
			run.Count("corpus")
			h.replay(c, false)
		}
	}

	tSec := time.Now()
	lap := func(name string) {
		run.Note("section %s: %.1f s", name, time.Since(tSec).Seconds())
		tSec = time.Now()
	}
	// (A1) flat families
	widths := []int{1, 2, 10, 100, 990, 999, 1000, 1001, 1100, 2000, 10000}
	if run.Thorough() {
		widths = append(widths, 100000)
	}
	for _, f := range flatFamilies {
		for _, w := range widths {
			h.parserCase(Case{Kind: "flat", Family: f.name, N: w}, true)
		}
	}
	lap("flat")
	// (A2) nesting at the exact boundary, and far beyond it
	for _, f := range deepFamilies {
		if h.model != nil {
			b, err := h.boundary(f)
			if err != nil {
				run.Violate("correspondence", "model driver failed: "+err.Error(), "", true, nil)
				break
			}
			run.Note("%s: the model accepts nesting depth %d and refuses %d (maxRecursion %d)", f.name, b, b+1, h.maxRec)
			for _, d := range []int{1, 2, b / 2, b - 1, b, b + 1, b + 2, b + 50} {
				if d >= 1 {
					h.parserCase(Case{Kind: "deep", Family: f.name, N: d}, false)
				}
			}
		}
		fars := []int{h.maxRec, h.maxRec + 1, 2 * h.maxRec, 10000, 100000}
		if run.Thorough() {
			fars = append(fars, 1000000)
		}
		for _, d := range fars {
			c := Case{Kind: "far", Family: f.name, N: d}
			o := runChild(c, h.budget)
			key, _ := json.Marshal(c)
			run.Case(string(key), true)
			run.Count("parser:far")
			ok := o.Status == "ok" && !o.Res.Accepted && o.Res.Errs > 0 && o.Res.DepthErr
			what := ""
			if !ok {
				what = fmt.Sprintf("%s nested %d deep: expected an ordinary %q error, got status=%s accepted=%v errs=%d first=%q %s", f.name, d, depthMsg, o.Status, o.Res.Accepted, o.Res.Errs, o.Res.First, o.Tail)
			}
			run.Oblige("oracle: nesting beyond the limit is refused with an ordinary error (no crash, no hang), depth 10^3 … 10^6", "oracle", 1, ok, what)
			if !ok {
				kind := "property"
				if o.Status == "crash" {
					kind = "crash"
				}
				run.Violate(kind, what, "", false, c)
			}
		}
	}
	lap("deep")
	// (A3) mixed: N siblings of one production kind, then nesting of one bracket kind. The verdict
	// for a nesting depth must not depend on N (a recursion counter that drifts with breadth, in
	// either direction, moves the boundary), must equal the model's, and nesting far beyond the
	// limit must stay an ordinary error after any number of siblings.
	h.mixedFamilies()
	lap("mixed")
	// (A4) long runs of ignored tokens at nesting depth 1, in children with a lowered stack limit
	h.ignoredRuns()
	lap("runs")
	// (A5) tiny inputs with a stray character: hard per-call limit in a child
	h.tinyInputs()
	lap("tiny")
	// (B) work families
	for _, f := range families {
		h.workFamily(f)
	}
	lap("work")
	sort.Strings(h.table)
	for _, l := range h.table {
		run.Note("%s", l)
	}
	// (C) random fragment graphs: hook counter = step model, visits within the bound. The documents
	// run in child processes (a stack overflow or a hang of the validator must not end the harness);
	// the parent compares each report with the model.
	nRand := run.Scale(3000, 40000)
	const batch = 500
	for from := 0; from < nRand; from += batch {
		if !h.walkBatch(Case{Kind: "walkbatch", Seed: run.Seed, From: from, N: batch}) {
			break
		}
	}
	lap("walk")
	h.allocReport()
	run.Finish(h.model)
}

// runRule: the exported validator.ValidateCost rule called directly on a parsed document (valid or
// not: the abort paths of the walk are part of the step model), with the hook counter.
func runRule(src string, s *graphql.Schema) (r childResult, parsed bool) {
	doc, perrs := parser.ParseDocument([]byte(src))
	if doc == nil || len(perrs) > 0 {
		return r, false
	}
	r.Sels = countSels(doc)
	var actual int
	rule := validator.ValidateCost("", nil, -1, &actual, graphql.FieldCost{Resolver: 1})
	ti := validator.NewTypeInfo(doc, s, nil)
	before := atomic.LoadInt64(&validator.VerifCostVisits)
	errs := rule(doc, s, nil, ti)
	r.Visits = atomic.LoadInt64(&validator.VerifCostVisits) - before
	r.Errs = len(errs)
	if len(errs) > 0 {
		r.First = errs[0].Message
	}
	return r, true
}

// walkBatch runs one batch of random documents in a child and compares every report with the model.
// It returns false when the child died or hung (the failing document is reported).
func (h *harness) walkBatch(b Case) bool {
	spec, _ := json.Marshal(b)
	cmd := exec.Command(os.Args[0])
	cmd.Env = append(os.Environ(), "C12_CHILD="+string(spec))
	out, err := cmd.StdoutPipe()
	var errb bytes.Buffer
	cmd.Stderr = &errb
	if err != nil || cmd.Start() != nil {
		h.run.Note("cannot start the walk-batch child")
		return false
	}
	lines := make(chan walkLine, 64)
	go func() {
		dec := json.NewDecoder(out)
		for {
			var l walkLine
			if dec.Decode(&l) != nil {
				close(lines)
				return
			}
			lines <- l
		}
	}()
	running := 0 // 1-based index of the document announced but not finished
	fail := func(mode string) bool {
		cmd.Process.Kill()
		cmd.Wait()
		c := Case{Kind: "walk", Cost: true}
		what := mode + ": the walk-batch child ended before its first document"
		if running > 0 {
			c.Src = walkDoc(b.Seed, running-1)
			t := errb.String()
			if len(t) > 400 {
				t = t[:400]
			}
			what = fmt.Sprintf("%s: graphql.ParseAndValidate / validator.ValidateCost on a generated %d-byte document: %s", mode, len(c.Src), t)
		}
		h.run.Oblige("oracle: validation of random fragment graphs returns (no crash, no hang)", "oracle", 1, false, what)
		h.run.Violate("crash", what, "", false, c)
		return false
	}
	for {
		select {
		case l, ok := <-lines:
			if !ok {
				err := cmd.Wait()
				if err != nil || running != 0 {
					return fail("crash")
				}
				return true
			}
			if l.Begin > 0 {
				running = l.Begin
				continue
			}
			running = 0
			c := Case{Kind: "walk", Src: walkDoc(b.Seed, l.I-1), Cost: true}
			if l.I <= 3 {
				h.run.Sample(c)
			}
			h.run.Oblige("oracle: validation of random fragment graphs returns (no crash, no hang)", "oracle", 1, l.Panic == "", l.Panic)
			h.walkCompare(c, l.Rule, l.Full, l.OK, l.Panic)
		case <-time.After(h.budget):
			return fail("hang")
		}
	}
}

// walkCase: one document in-process (replay of a recorded walk case).
func (h *harness) walkCase(c Case) {
	var r, full childResult
	parsed := false
	panicked := ""
	func() {
		defer func() {
			if p := recover(); p != nil {
				panicked = fmt.Sprint(p)
			}
		}()
		h.begin(c)
		r, parsed = runRule(c.Src, h.schema)
		full = runWork(c, c.Src, h.schema)
		h.end()
	}()
	h.walkCompare(c, r, full, parsed, panicked)
}

// walkCompare: (1) the cost rule alone against the step model including its abort paths, (2)
// graphql.ParseAndValidate + cost rule, where the walk must run exactly on the documents the standard
// rules accept, (3) the quadratic bound on the visits.
func (h *harness) walkCompare(c Case, r, full childResult, parsed bool, panicked string) {
	run := h.run
	run.Case(c.Src, r.Sels >= 5)
	run.Count("walk")
	if panicked != "" {
		run.Violate("crash", "the cost rule / ParseAndValidate panicked: "+panicked, "", false, c)
		return
	}
	switch {
	case strings.HasPrefix(c.Src, "query"):
		run.Count("walk:op:query")
	case strings.HasPrefix(c.Src, "mutation"):
		run.Count("walk:op:mutation")
	case strings.HasPrefix(c.Src, "subscription"):
		run.Count("walk:op:subscription")
	default:
		run.Count("walk:op:shorthand")
	}
	if strings.Contains(c.Src, "{ ...R0 }") {
		run.Count("walk:root-through-fragments")
		if strings.Contains(c.Src, "... { ...R") {
			run.Count("walk:root-fragment-ring")
		}
	}
	if full.Accepted {
		run.Count("walk:valid")
	} else {
		run.Count("walk:invalid:" + strings.SplitN(full.First, ":", 2)[0])
	}
	if r.Errs > 0 {
		run.Count("walk:rule-error:" + r.First)
	}
	if h.model == nil {
		return
	}
	a, err := h.askModel(c.Src, false)
	if err != nil || !a.ret || !parsed {
		run.Violate("correspondence", fmt.Sprintf("generated document not accepted by the parser / parser model: %v %s", err, a.obs), "", true, c)
		return
	}
	want, wantErr := int64(0), false
	if a.walk {
		want, wantErr = a.visits, a.werr
		if a.werr {
			run.Count("walk:model-abort")
		}
	}
	wantFull := int64(0)
	if full.Errs == 0 {
		wantFull = want
	}
	ok := r.Visits == want && (r.Errs > 0) == wantErr && full.Visits == wantFull
	what := ""
	if !ok {
		what = fmt.Sprintf("cost rule alone: %d visits, %d errors; step model: %d visits, abort=%v; ParseAndValidate+cost: %d visits with %d validation errors (expected %d)", r.Visits, r.Errs, want, wantErr, full.Visits, full.Errs, wantFull)
	}
	run.Oblige("cost-walk step correspondence(hook VerifCostVisits = Lean walk model)", "correspondence", 1, ok, what)
	if !ok {
		run.Violate("correspondence", what, "", true, c)
	}
	h.walksCompare(c, full)
	if r.Sels > 0 && r.Visits > selBound(r.Sels) {
		v := workVerdict{"visits-bound", fmt.Sprintf("the cost walk visited %d fields/spreads of a document that has %d", r.Visits, r.Sels)}
		key := ""
		if ok && strings.Count(c.Src, "...") >= 2 {
			key = "F-12c-cost-walk-reexpands-fragments"
			run.Count("known-finding-case:" + key)
		}
		run.Oblige("oracle: cost-walk visits ≤ S²+S+16 on random fragment graphs (cases classified as finding F-12c are reported as such)", "oracle", 1, key != "", v.what)
		run.Violate("property", v.mode+": "+v.what, key, false, c)
	}
}

// replay re-runs one recorded case (corpus, finding or -replay).
func (h *harness) replay(c Case, verbose bool) {
	run := h.run
	switch c.Kind {
	case "flat":
		h.parserCase(c, true)
	case "deep":
		h.parserCase(c, false)
	case "far":
		o := runChild(c, h.budget)
		ok := o.Status == "ok" && !o.Res.Accepted && o.Res.DepthErr
		if verbose {
			fmt.Printf("replay far: %+v\n", o)
		}
		if !ok {
			run.Violate("property", fmt.Sprintf("%s nested %d deep: status=%s first=%q %s", c.Family, c.N, o.Status, o.Res.First, o.Tail), "", false, c)
		}
	case "walk":
		h.walkCase(c)
	case "mixed":
		ok, depth, obs, panicked := h.realAccepts(c)
		ok0, _, _, _ := h.realAccepts(Case{Kind: "mixed", Family: c.Family, N: baseSiblings, From: c.From})
		if verbose {
			fmt.Printf("replay mixed: accepted=%v depthError=%v (with 2 siblings accepted=%v) %s %.300s\n", ok, depth, ok0, panicked, obs)
		}
		if ok != ok0 || panicked != "" {
			run.Violate("property", fmt.Sprintf("%s: nesting depth %d is accepted=%v with 2 siblings, accepted=%v after %d siblings", c.Family, c.From, ok0, ok, c.N), "", false, c)
		}
	case "mixfar":
		o := runChild(c, h.budget)
		if verbose {
			fmt.Printf("replay mixfar: %+v\n", o)
		}
		if !(o.Status == "ok" && !o.Res.Accepted && o.Res.DepthErr) {
			run.Violate("property", fmt.Sprintf("%s: %d siblings then nesting %d deep: status=%s first=%q %s", c.Family, c.N, c.From, o.Status, o.Res.First, o.Tail), "", false, c)
		}
	case "tiny":
		rep, ok, kind, what := h.tinyVerdict(c)
		if verbose {
			fmt.Printf("replay tiny: %+v %s\n", rep, what)
		}
		if !ok {
			run.Violate(kind, what, "", false, c)
		}
	case "run":
		o, ok, kind, what := h.runVerdict(c)
		if verbose {
			fmt.Printf("replay run: status=%s %+v %s\n", o.Status, o.Res, what)
		}
		if !ok {
			run.Violate(kind, what, "", false, c)
		}
	case "work":
		o, v := h.workCase(c)
		if verbose {
			fmt.Printf("replay work: status=%s %+v verdict=%q %s\n", o.Status, o.Res, v.mode, v.what)
		}
		if v.mode == "" || v.mode == "visits-bound" {
			h.walkTie(c, o)
		}
		if v.mode != "" {
			run.Violate("property", v.mode+": "+v.what, h.classify(c, o, v), false, c)
		}
	}
	if verbose && h.model != nil {
		if src, ok := sourceOf(c); ok && len(src) < 100000 && c.Kind != "run" && c.Kind != "tiny" {
			a, err := h.askModel(src, false)
			fmt.Printf("model: %+v %v\n", a, err)
		}
	}
}
