package main

// Families for two clauses of C12 on the *validator* (the flat / deep / mixed families of families.go
// exercise them on the parser only):
//
//   - "the depth limit is about depth only": valid documents whose breadth grows (sibling inline
//     fragments, sibling spreads of distinct fragments, sibling fields with sub-selections — every
//     construct that makes the validator enter one more selection set) at constant nesting depth, at
//     widths straddling round numbers, under every operation type. Every one must be accepted: a guard
//     that counts entered selection sets, visited fragments or collected fields instead of the path
//     from the root shows up as a verdict that changes with the width.
//   - "a fragment cycle is an ordinary error, never a crash or a hang": rings of fragments reached from
//     the root selection set of a query, a mutation, a subscription and the shorthand query — directly,
//     behind an inline fragment, behind a chain of acyclic fragments, below a field, or not at all. The
//     subscription rule, the merge check, the variable walk and the cycle search each follow spreads
//     with their own bookkeeping; all rules run on every document.

import (
	"fmt"
	"strings"
)

// opVariant: an operation header and the name of its root type.
type opVariant struct {
	tag, header, typ string
}

var opVariants = []opVariant{
	{"query", "query Q ", "Query"},
	{"mutation", "mutation M ", "Mutation"},
	{"subscription", "subscription S ", "Subscription"},
	{"shorthand", "", "Query"},
}

var (
	wideQuick    = []int{10, 100, 257, 513, 999, 1000, 1001, 1025, 2049, 4097, 10001}
	wideThorough = []int{10, 100, 257, 513, 999, 1000, 1001, 1025, 2049, 4097, 10001, 20001, 65537, 100001}
	// all siblings select the same response key (a subscription has one root field): every pair is compared
	pairQuick    = []int{10, 100, 257, 999, 1000, 1001, 1025}
	pairThorough = []int{10, 100, 257, 513, 999, 1000, 1001, 1025, 2049, 4097}
	ringQuick    = []int{1, 2, 3, 10, 40}
	ringThorough = []int{1, 2, 3, 10, 40, 160}
	// cycle-below-field: every fragment reaches the next one directly and below a field, on a ring — the
	// merge check is polynomial on it (merge_check_poly) but of measured degree 5 in n (13 M pair-loop
	// heads at n=20, 40 M at n=25): small sizes only
	ring5Quick    = []int{1, 2, 3, 8, 16}
	ring5Thorough = []int{1, 2, 3, 8, 16, 24}
)

func nestInline(d int) string { return strings.Repeat("... { ", d) + "x" + strings.Repeat(" }", d) }

func wideFamilies() []family {
	var out []family
	add := func(name, about string, quick, thorough []int, gen func(n int) string) {
		out = append(out, family{name: name, about: about, gen: gen, quick: quick, thorough: thorough, valid: true})
	}
	for _, op := range opVariants[:2] { // query, mutation (a subscription must keep one root field: below)
		op := op
		add("wide-inline-fragments/"+op.tag, "n sibling `... on T { ai: x }` at the root (nesting depth 2)", wideQuick, wideThorough, func(n int) string {
			return op.header + "{ " + rep(n, func(i int) string { return fmt.Sprintf("... on %s { a%d: x } ", op.typ, i) }) + "}"
		})
		add("wide-distinct-spreads/"+op.tag, "n sibling spreads of n distinct fragments", wideQuick, wideThorough, func(n int) string {
			return op.header + "{ " + rep(n, func(i int) string { return fmt.Sprintf("...F%d ", i) }) + "}\n" +
				rep(n, func(i int) string { return fmt.Sprintf("fragment F%d on %s { a%d: x }\n", i, op.typ, i) })
		})
	}
	add("wide-untyped-inline-fragments", "n sibling `... { ai: x }`", wideQuick, wideThorough, func(n int) string {
		return "{ " + rep(n, func(i int) string { return fmt.Sprintf("... { a%d: x } ", i) }) + "}"
	})
	add("wide-inline-fragments-below-field", "n sibling inline fragments one level down", wideQuick, wideThorough, func(n int) string {
		return "{ o { " + rep(n, func(i int) string { return fmt.Sprintf("... on Obj { a%d: x } ", i) }) + "} }"
	})
	add("wide-spreads-of-inline-fragments", "n sibling spreads, each fragment holding an inline fragment (2n+1 selection sets, depth 3)", wideQuick, wideThorough, func(n int) string {
		return "{ " + rep(n, func(i int) string { return fmt.Sprintf("...F%d ", i) }) + "}\n" +
			rep(n, func(i int) string { return fmt.Sprintf("fragment F%d on Query { ... { a%d: x } }\n", i, i) })
	})
	add("wide-fields-with-subselection", "n sibling `ai: o { x }`", wideQuick, wideThorough, func(n int) string {
		return "{ " + rep(n, func(i int) string { return fmt.Sprintf("a%d: o { x } ", i) }) + "}"
	})
	add("wide-fields-spreading-one-fragment", "n sibling `ai: o { ...F }` of one fragment", wideQuick, wideThorough, func(n int) string {
		return "{ " + rep(n, func(i int) string { return fmt.Sprintf("a%d: o { ...F } ", i) }) + "}\nfragment F on Obj { x }\n"
	})
	add("wide-then-nested-inline-fragments", "n sibling inline fragments, then inline fragments nested 100 deep", wideQuick, wideThorough, func(n int) string {
		return "{ " + rep(n, func(i int) string { return fmt.Sprintf("... { a%d: x } ", i) }) + nestInline(100) + " }"
	})
	add("wide-operations-with-inline-fragments", "n operations, each with one inline fragment and one spread of its own fragment", wideQuick, wideThorough, func(n int) string {
		return rep(n, func(i int) string {
			return fmt.Sprintf("query Q%d { ... { x } ...F%d }\nfragment F%d on Query { y }\n", i, i, i)
		})
	})
	// subscriptions: one root response key through every sibling
	add("wide-inline-fragments/subscription", "subscription whose single root field is selected through n sibling inline fragments", pairQuick, pairThorough, func(n int) string {
		return "subscription S { " + rep(n, func(int) string { return "... on Subscription { x } " }) + "}"
	})
	add("wide-distinct-spreads/subscription", "subscription whose single root field is selected through n sibling spreads of n distinct fragments", pairQuick, pairThorough, func(n int) string {
		return "subscription S { " + rep(n, func(i int) string { return fmt.Sprintf("...F%d ", i) }) + "}\n" +
			rep(n, func(i int) string { return fmt.Sprintf("fragment F%d on Subscription { x }\n", i) })
	})
	return out
}

func cyclicFamilies() []family {
	var out []family
	add := func(name, about string, gen func(n int) string) {
		out = append(out, family{name: name, about: about, gen: gen, quick: ringQuick, thorough: ringThorough, cyclic: true})
	}
	ring := func(typ string, n int, body func(i, next int) string) string {
		return rep(n, func(i int) string { return fmt.Sprintf("fragment F%d on %s %s\n", i, typ, body(i, (i+1)%n)) })
	}
	for _, op := range opVariants {
		op := op
		add("cycle-at-root/"+op.tag, "ring of n fragments spread by the root selection set", func(n int) string {
			return op.header + "{ ...F0 }\n" + ring(op.typ, n, func(i, next int) string { return fmt.Sprintf("{ x ...F%d }", next) })
		})
		add("cycle-behind-inline-fragment/"+op.tag, "the ring is entered and continued through inline fragments", func(n int) string {
			return op.header + "{ ... on " + op.typ + " { ...F0 } }\n" + ring(op.typ, n, func(i, next int) string { return fmt.Sprintf("{ x ... { ...F%d } }", next) })
		})
		add("cycle-behind-chain/"+op.tag, "n acyclic fragments lead into a ring of two", func(n int) string {
			var b strings.Builder
			b.WriteString(op.header + "{ ...C0 }\n")
			for i := 0; i < n; i++ {
				next := fmt.Sprintf("C%d", i+1)
				if i+1 == n {
					next = "R0"
				}
				fmt.Fprintf(&b, "fragment C%d on %s { x ...%s }\n", i, op.typ, next)
			}
			fmt.Fprintf(&b, "fragment R0 on %s { x ...R1 }\nfragment R1 on %s { x ...R0 }\n", op.typ, op.typ)
			return b.String()
		})
		add("cycle-below-field/"+op.tag, "the ring is spread one field below the root", func(n int) string {
			return op.header + "{ o { ...F0 } }\n" + ring("Obj", n, func(i, next int) string { return fmt.Sprintf("{ x o { ...F%d } ...F%d }", next, next) })
		})
		out[len(out)-1].quick, out[len(out)-1].thorough = ring5Quick, ring5Thorough
		add("cycle-unreached/"+op.tag, "the operation does not spread the ring", func(n int) string {
			return op.header + "{ x }\n" + ring(op.typ, n, func(i, next int) string { return fmt.Sprintf("{ x ...F%d }", next) })
		})
	}
	add("cycle-shared-by-all-operation-types", "a query, a mutation and a subscription spread rings on their own root types", func(n int) string {
		var b strings.Builder
		for _, op := range opVariants[:3] {
			fmt.Fprintf(&b, "%s{ ...%s0 }\n", op.header, op.typ[:1])
			for i := 0; i < n; i++ {
				fmt.Fprintf(&b, "fragment %s%d on %s { x ...%s%d }\n", op.typ[:1], i, op.typ, op.typ[:1], (i+1)%n)
			}
		}
		return b.String()
	})
	return out
}

func init() {
	families = append(families, wideFamilies()...)
	families = append(families, cyclicFamilies()...)
}
