// Harness for C18 — persisted-query lookups only ever execute the document with that SHA-256.
//
// Real side: apifu.API.ServeGraphQL (httptest recorder) with a recording PersistedQueryStorage,
// over GET and POST/JSON. Model side: lean/ApiFu/C18 (driver c18model). Per step we compare
//
//	(1) the storage calls (get hex | put text hex) with the model's,
//	(2) the outcome: NotFound ⇔ model NotFound (and no resolver ran); executed t ⇔ the response
//	    body and resolver log equal those of an API *without* the feature executing t,
//
// and, model-free, (3) the storage invariant: every stored pair is (sha256(text), text).
//
// Every request reaches the driver as the Go-level value tree of Request.Extensions (`greq`); the
// driver applies the Lean abstraction Go.abs (the one the bridge theorem generated_step_eq_model is
// stated with) and echoes it, and the echo is compared with the label written by hand next to every
// extension variant. direct.go adds direct calls of apifu.PersistedQueryExtension with Go values that
// JSON never produces and with a parsed Document; EVICT steps make the storage lose an entry. Both
// API worlds (with and without storage) set every other Config knob to something observable
// (Features, costs, Execute hook / RequestInfo, operationName, variables, request context).
package main

import (
	"bytes"
	"context"
	"crypto/sha256"
	"encoding/hex"
	"encoding/json"
	"fmt"
	"net/http"
	"net/http/httptest"
	"net/url"
	"os"
	"reflect"
	"sort"
	"strings"

	apifu "github.com/ccbrown/api-fu"
	"github.com/ccbrown/api-fu/graphql"

	"verifharness/hx"
)

// ---- the request alphabet -------------------------------------------------------------------

type Step struct {
	Transport string `json:"transport"` // GET | POST
	Query     string `json:"query"`     // "" = absent
	ExtJSON   string `json:"ext_json"`  // JSON text of the `extensions` member ("" = absent)
	// what PersistedQueryExtension sees after decoding (the model's input)
	ModelExt string `json:"model_ext"` // S-expression: none | (ext one|other (str "…")|nostr)
	ExtKind  string `json:"ext_kind"`
	// the Go-level value of Request.Extensions in the driver's notation ("" = derive it from ext_json)
	GoExt string `json:"go_ext,omitempty"`
	// direct: apifu.PersistedQueryExtension is called as a function (Transport "DIRECT"); has_doc: Request.Document != nil
	HasDoc bool `json:"has_doc,omitempty"`
	// operationName / variables (JSON text) sent with the request ("" = absent)
	Op   string `json:"op,omitempty"`
	Vars string `json:"vars,omitempty"`
	// Transport "EVICT": the storage loses what it holds under this key (hex) — a best-effort backend
	Evict string `json:"evict,omitempty"`
}

var texts = []string{"{a}", "{b}", "{a b}", "{n(x:3)}", "{ nope }", "{a", "query Q{b} query R{a}",
	// texts that differ only in insignificant characters are different documents with different digests
	" {a}\n", "{b} ", "\t{a b}", " ", "\n\t", "\ufeff{a}", "{a},", "#c\n{b}",
	// texts whose outcome depends on the other Config knobs (feature set, operation name, variables, cost)
	"{f}", "{a f}", knobText}

// knobText needs operationName and variables to execute.
const knobText = "query Q($x:Int){n(x:$x)} query R{a f}"

type ctxKey struct{}

func sha(t string) string { h := sha256.Sum256([]byte(t)); return hex.EncodeToString(h[:]) }

type extVariant struct {
	kind string
	make func(r *hx.Rand, pool []string) (extJSON string, model string)
}

func pq(version string, hashJSON string) string {
	parts := []string{}
	if version != "" {
		parts = append(parts, `"version":`+version)
	}
	if hashJSON != "" {
		parts = append(parts, `"sha256Hash":`+hashJSON)
	}
	return `{"persistedQuery":{` + strings.Join(parts, ",") + `}}`
}

func strHash(v, h string) (string, string) {
	j, _ := json.Marshal(h)
	mv := "other"
	if v == "1" || v == "1.0" || v == "1e0" {
		mv = "one"
	}
	return pq(v, string(j)), hx.N("ext", hx.A(mv), hx.N("str", hx.A(h))).String()
}

func variants() []extVariant {
	pick := func(r *hx.Rand, pool []string) string { return hx.Pick(r, pool) }
	return []extVariant{
		{"absent", func(r *hx.Rand, p []string) (string, string) { return "", "none" }},
		{"nonobject", func(r *hx.Rand, p []string) (string, string) {
			return `{"persistedQuery":` + hx.Pick(r, []string{`"x"`, `5`, `null`, `[1]`, `true`}) + `}`, "none"
		}},
		{"otherkey", func(r *hx.Rand, p []string) (string, string) { return `{"other":{"version":1}}`, "none" }},
		{"v1-hash-of-text", func(r *hx.Rand, p []string) (string, string) { return strHash("1", sha(pick(r, p))) }},
		{"v1.0-hash-of-text", func(r *hx.Rand, p []string) (string, string) { return strHash("1.0", sha(pick(r, p))) }},
		{"v1-upper", func(r *hx.Rand, p []string) (string, string) { return strHash("1", strings.ToUpper(sha(pick(r, p)))) }},
		{"v1-hash-plus-junk", func(r *hx.Rand, p []string) (string, string) {
			return strHash("1", sha(pick(r, p))+hx.Pick(r, []string{"zz", "0", "00", "g", " "}))
		}},
		{"v1-short", func(r *hx.Rand, p []string) (string, string) { return strHash("1", sha(pick(r, p))[:r.Range(0, 63)]) }},
		{"v1-corrupt-middle", func(r *hx.Rand, p []string) (string, string) {
			h := []byte(sha(pick(r, p)))
			h[r.Intn(len(h))] = hx.Pick(r, []byte{'x', ' ', 'G', '-'})
			return strHash("1", string(h))
		}},
		{"v1-empty-text-hash", func(r *hx.Rand, p []string) (string, string) { return strHash("1", sha("")) }},
		{"v1-empty-string", func(r *hx.Rand, p []string) (string, string) { return strHash("1", "") }},
		{"v1-nonhex", func(r *hx.Rand, p []string) (string, string) { return strHash("1", "not a hash at all") }},
		{"v1-unregistered", func(r *hx.Rand, p []string) (string, string) { return strHash("1", sha("never sent "+pick(r, p))) }},
		{"v1-hash-not-string", func(r *hx.Rand, p []string) (string, string) {
			return pq("1", hx.Pick(r, []string{"5", "null", "[]", "true"})), hx.N("ext", hx.A("one"), hx.A("nostr")).String()
		}},
		{"v1-no-hash", func(r *hx.Rand, p []string) (string, string) {
			return pq("1", ""), hx.N("ext", hx.A("one"), hx.A("nostr")).String()
		}},
		{"v2", func(r *hx.Rand, p []string) (string, string) { return strHash("2", sha(pick(r, p))) }},
		{"vstring", func(r *hx.Rand, p []string) (string, string) { return strHash(`"1"`, sha(pick(r, p))) }},
		{"vnull", func(r *hx.Rand, p []string) (string, string) { return strHash("null", sha(pick(r, p))) }},
		{"v1.5", func(r *hx.Rand, p []string) (string, string) { return strHash("1.5", sha(pick(r, p))) }},
		{"vabsent", func(r *hx.Rand, p []string) (string, string) { return strHash("", sha(pick(r, p))) }},
		// a version of any other JSON kind is an unknown version like any other (and must not crash a comparison or lookup)
		{"v-other-kind", func(r *hx.Rand, p []string) (string, string) {
			return strHash(hx.Pick(r, []string{`[1]`, `[]`, `{"major":1}`, `{}`, `true`, `false`, `[[1]]`, `-1`, `0`, `1.0000000000000002`, `"one"`, `""`}), sha(pick(r, p)))
		}},
		{"hash-other-kind", func(r *hx.Rand, p []string) (string, string) {
			return pq("1", hx.Pick(r, []string{`{"a":1}`, `[["x"]]`, `1.5`, `false`, `{}`})), hx.N("ext", hx.A("one"), hx.A("nostr")).String()
		}},
		// member names are case-sensitive protocol keys: a differently-cased key is a different (unknown) member
		{"key-case-Version", func(r *hx.Rand, p []string) (string, string) {
			h := sha(pick(r, p))
			return `{"persistedQuery":{"` + hx.Pick(r, []string{"Version", "VERSION", "vErsion"}) + `":1,"sha256Hash":"` + h + `"}}`, hx.N("ext", hx.A("other"), hx.N("str", hx.A(h))).String()
		}},
		{"key-case-both", func(r *hx.Rand, p []string) (string, string) {
			h := sha(pick(r, p))
			return `{"persistedQuery":{"VERSION":1,"SHA256HASH":"` + h + `"}}`, hx.N("ext", hx.A("other"), hx.A("nostr")).String()
		}},
		{"key-case-hash", func(r *hx.Rand, p []string) (string, string) {
			h := sha(pick(r, p))
			return `{"persistedQuery":{"version":1,"` + hx.Pick(r, []string{"Sha256Hash", "SHA256HASH", "sha256hash"}) + `":"` + h + `"}}`, hx.N("ext", hx.A("one"), hx.A("nostr")).String()
		}},
		{"key-case-top", func(r *hx.Rand, p []string) (string, string) {
			return `{"` + hx.Pick(r, []string{"PersistedQuery", "persistedquery", "PERSISTEDQUERY"}) + `":{"version":1,"sha256Hash":"` + sha(pick(r, p)) + `"}}`, "none"
		}},
		{"v2-and-Version1", func(r *hx.Rand, p []string) (string, string) {
			h := sha(pick(r, p))
			return `{"persistedQuery":{"version":2,"Version":1,"sha256Hash":"` + h + `"}}`, hx.N("ext", hx.A("other"), hx.N("str", hx.A(h))).String()
		}},
		{"extra-members", func(r *hx.Rand, p []string) (string, string) {
			h := sha(pick(r, p))
			return `{"other":[1],"persistedQuery":{"junk":{"version":1},"version":1,"sha256Hash":"` + h + `","sha256hash":"00"}}`, hx.N("ext", hx.A("one"), hx.N("str", hx.A(h))).String()
		}},
	}
}

// ---- the real side ---------------------------------------------------------------------------

type call struct {
	Op, Text, Hex string
}

type storage struct {
	m     map[string]string
	calls []call
}

// key32: the storage keeps its entries under fixed-size keys (a [32]byte array, as a backend with a
// BINARY(32) key column would): a shorter key is zero-padded, a longer one cut. For the digests the
// unchanged extension passes (always exactly 32 bytes) this is the plain map of the model; it is
// what makes a missing length check on the client's key observable as a wrong document.
func key32(hash []byte) string {
	var k [sha256.Size]byte
	copy(k[:], hash)
	return string(k[:])
}

func (s *storage) GetPersistedQuery(ctx context.Context, hash []byte) string {
	s.calls = append(s.calls, call{"get", "", hex.EncodeToString(hash)})
	return s.m[key32(hash)]
}

func (s *storage) PersistQuery(ctx context.Context, query string, hash []byte) {
	s.calls = append(s.calls, call{"put", query, hex.EncodeToString(hash)})
	s.m[key32(hash)] = query
}

// zeroTailText is a valid document whose digest ends in a zero byte (its 31-byte prefix, zero-padded, is the digest itself).
var zeroTailText = func() string {
	for n := 0; ; n++ {
		if t := fmt.Sprintf("{a} #%d", n); strings.HasSuffix(sha(t), "00") {
			return t
		}
	}
}()

type world struct {
	api      *apifu.API
	st       *storage
	resolved *[]string
}

func newWorld(withStorage bool) *world {
	w := &world{resolved: new([]string)}
	cfg := &apifu.Config{}
	log := w.resolved
	cfg.AddQueryField("a", &graphql.FieldDefinition{Type: graphql.IntType, Resolve: func(ctx graphql.FieldContext) (interface{}, error) {
		*log = append(*log, "a")
		return 1, nil
	}})
	cfg.AddQueryField("b", &graphql.FieldDefinition{Type: graphql.StringType, Resolve: func(ctx graphql.FieldContext) (interface{}, error) {
		*log = append(*log, "b")
		return "bee", nil
	}})
	cfg.AddQueryField("n", &graphql.FieldDefinition{Type: graphql.IntType,
		Arguments: map[string]*graphql.InputValueDefinition{"x": {Type: graphql.IntType}},
		Resolve: func(ctx graphql.FieldContext) (interface{}, error) {
			*log = append(*log, "n")
			x, _ := ctx.Arguments["x"].(int)
			return x * 2, nil
		}})
	// every other Config knob is set to something observable, identically with and without storage:
	// the persisted-query feature must not change what any of them does to a request
	cfg.AddQueryField("f", &graphql.FieldDefinition{Type: graphql.StringType, RequiredFeatures: graphql.NewFeatureSet("beta"), Cost: graphql.FieldResolverCost(7),
		Resolve: func(ctx graphql.FieldContext) (interface{}, error) {
			*log = append(*log, "f")
			return "feat", nil
		}})
	cfg.Features = func(ctx context.Context) graphql.FeatureSet { return graphql.NewFeatureSet("beta", "gamma") }
	cfg.DefaultFieldCost = graphql.FieldCost{Resolver: 3}
	cfg.Execute = func(r *graphql.Request, info *apifu.RequestInfo) *graphql.Response {
		feats := []string{}
		for f := range r.Features {
			feats = append(feats, f)
		}
		sort.Strings(feats)
		vars, _ := json.Marshal(r.VariableValues)
		*log = append(*log, fmt.Sprintf("execute: cost=%d operationName=%q features=%v variables=%s context=%v document=%v", info.Cost, r.OperationName, feats, vars, r.Context.Value(ctxKey{}), r.Document != nil))
		return graphql.Execute(r)
	}
	if withStorage {
		w.st = &storage{m: map[string]string{}}
		cfg.PersistedQueryStorage = w.st
	}
	api, err := apifu.NewAPI(cfg)
	if err != nil {
		panic(err)
	}
	w.api = api
	return w
}

type observed struct {
	Status   int
	Body     string
	Resolved []string
	Calls    []call
	// direct mode
	Direct       bool
	Executed     []execRec
	InputMutated bool
}

func (w *world) serve(s Step) (o observed) {
	*w.resolved = nil
	if w.st != nil {
		w.st.calls = nil
	}
	var req *http.Request
	if s.Transport == "GET" {
		q := url.Values{}
		if s.Query != "" {
			q.Set("query", s.Query)
		}
		if s.ExtJSON != "" {
			q.Set("extensions", s.ExtJSON)
		}
		if s.Op != "" {
			q.Set("operationName", s.Op)
		}
		if s.Vars != "" {
			q.Set("variables", s.Vars)
		}
		req = httptest.NewRequest("GET", "/graphql?"+q.Encode(), nil)
	} else {
		parts := []string{}
		if s.Query != "" {
			j, _ := json.Marshal(s.Query)
			parts = append(parts, `"query":`+string(j))
		}
		if s.ExtJSON != "" {
			parts = append(parts, `"extensions":`+s.ExtJSON)
		}
		if s.Op != "" {
			j, _ := json.Marshal(s.Op)
			parts = append(parts, `"operationName":`+string(j))
		}
		if s.Vars != "" {
			parts = append(parts, `"variables":`+s.Vars)
		}
		req = httptest.NewRequest("POST", "/graphql", bytes.NewReader([]byte("{"+strings.Join(parts, ",")+"}")))
		req.Header.Set("Content-Type", "application/json")
	}
	req = req.WithContext(context.WithValue(req.Context(), ctxKey{}, "request-scoped value"))
	rec := httptest.NewRecorder()
	func() {
		defer func() {
			if p := recover(); p != nil {
				o.Status = -1
				o.Body = fmt.Sprintf("panic: %v", p)
			}
		}()
		w.api.ServeGraphQL(rec, req)
		o.Status = rec.Code
		o.Body = rec.Body.String()
	}()
	o.Resolved = append([]string{}, *w.resolved...)
	if w.st != nil {
		o.Calls = append([]call{}, w.st.calls...)
	}
	return o
}

func isNotFound(body string) bool {
	var r struct {
		Data   json.RawMessage `json:"data"`
		Errors []struct {
			Message string `json:"message"`
		} `json:"errors"`
	}
	if json.Unmarshal([]byte(body), &r) != nil {
		return false
	}
	return len(r.Errors) == 1 && r.Errors[0].Message == "PersistedQueryNotFound" && (r.Data == nil || string(r.Data) == "null")
}

// ---- comparison --------------------------------------------------------------------------------

type harness struct {
	run      *hx.Run
	model    *hx.Model
	disabled *world
	refCache map[string]observed
}

// reference: what the API without the feature answers to this text sent with the same operation
// name and variables as the step (response and the log of the Execute hook and the resolvers).
func (h *harness) reference(text string, s Step) observed {
	key := text + "\x00" + s.Op + "\x00" + s.Vars
	if o, ok := h.refCache[key]; ok {
		return o
	}
	o := h.disabled.serve(Step{Transport: "POST", Query: text, Op: s.Op, Vars: s.Vars})
	h.refCache[key] = o
	return o
}

// playHistory runs one history on a fresh storage on both sides. It returns a description of the
// first failure ("" when none), its kind and whether the property itself is violated.
func (h *harness) playHistory(hist []Step) (what, kind string) {
	w := newWorld(true)
	var replies []string
	if h.model != nil {
		lines := []string{"(reset)"}
		for _, s := range hist {
			if s.Transport == "EVICT" {
				lines = append(lines, hx.N("evict", hx.A(s.Evict)).String())
				continue
			}
			ge, doc := s.GoExt, "nodoc"
			if ge == "" {
				ge = extSexpOfJSON(s.ExtJSON)
			}
			if s.HasDoc {
				doc = "doc"
			}
			lines = append(lines, fmt.Sprintf("(greq %s %s %s)", hx.A(s.Query).String(), doc, ge))
		}
		var err error
		replies, err = h.model.AskAll(lines)
		if err != nil {
			return "model driver failed: " + err.Error(), "correspondence"
		}
		replies = replies[1:]
	}
	registered := map[string]bool{}
	for i, s := range hist {
		h.run.Count("transport:" + s.Transport)
		if s.Transport == "EVICT" {
			if k, err := hex.DecodeString(s.Evict); err == nil {
				if _, held := w.st.m[key32(k)]; held {
					h.run.Count("evict:held")
				}
				delete(w.st.m, key32(k))
			}
			if h.model != nil && replies[i] != "ok" {
				return fmt.Sprintf("step %d: unexpected model reply %q", i, replies[i]), "correspondence"
			}
			continue
		}
		h.run.Count("ext:" + s.ExtKind)
		if s.Transport == "DIRECT" {
			if s.GoExt == "" {
				s.GoExt = extSexpOfJSON(s.ExtJSON)
			}
			rep := ""
			if h.model != nil {
				rep = replies[i]
			}
			if what, kind := h.directStep(i, s, w.direct(s), w, registered, rep); what != "" {
				return what, kind
			}
			continue
		}
		o := w.serve(s)
		if o.Status == -1 {
			return fmt.Sprintf("step %d: %s", i, o.Body), "crash"
		}
		// (3) model-free storage invariant: stored pairs are (sha256(text), text)
		for k, t := range w.st.m {
			if d := sha256.Sum256([]byte(t)); string(d[:]) != k {
				return fmt.Sprintf("step %d: storage maps %x to a text with digest %x (%q)", i, k, d, t), "property"
			}
		}
		// model-free lookup oracle
		nf := isNotFound(o.Body)
		if nf {
			h.run.Count("outcome:notFound")
			if len(o.Resolved) != 0 {
				return fmt.Sprintf("step %d: PersistedQueryNotFound but resolvers ran: %v", i, o.Resolved), "property"
			}
		} else {
			h.run.Count("outcome:executed")
		}
		if s.Query == "" && strings.HasPrefix(s.ModelExt, "(ext one") && !nf && o.Status == 200 {
			// hash-only request that executed something: it must be a registered text with that digest (or "")
			// exact member names (a struct would match keys case-insensitively — the very mistake to catch)
			var ext map[string]interface{}
			json.Unmarshal([]byte(s.ExtJSON), &ext)
			pqm, _ := ext["persistedQuery"].(map[string]interface{})
			hs, _ := pqm["sha256Hash"].(string)
			key, _ := hex.DecodeString(hs)
			ok := false
			if bytes.Equal(key, func() []byte { d := sha256.Sum256(nil); return d[:] }()) && o.Body == h.reference("", s).Body && reflect.DeepEqual(o.Resolved, h.reference("", s).Resolved) {
				ok = true
			}
			for t := range registered {
				if d := sha256.Sum256([]byte(t)); bytes.Equal(d[:], key) && o.Body == h.reference(t, s).Body && reflect.DeepEqual(o.Resolved, h.reference(t, s).Resolved) {
					ok = true
				}
			}
			if !ok {
				return fmt.Sprintf("step %d: hash-only request for key %x executed something that is not a registered text with that digest: %s", i, key, o.Body), "property"
			}
		}
		if s.Query != "" && strings.HasPrefix(s.ModelExt, "(ext one") {
			registered[s.Query] = true
		}
		if s.Query != "" {
			// a request that supplies text executes the supplied text, whatever hash it claims
			ref := h.reference(s.Query, s)
			if o.Body != ref.Body || o.Status != ref.Status || !reflect.DeepEqual(o.Resolved, ref.Resolved) {
				return fmt.Sprintf("step %d: request supplying text %q did not execute that text: got %d %s (resolvers %v), the text alone gives %d %s (resolvers %v)", i, s.Query, o.Status, o.Body, o.Resolved, ref.Status, ref.Body, ref.Resolved), "property"
			}
			if strings.HasPrefix(s.ModelExt, "(ext one") {
				// … and registers it under its true digest: an immediate hash-only lookup must find exactly it
				d := sha256.Sum256([]byte(s.Query))
				if got, ok := w.st.m[string(d[:])]; !ok || got != s.Query {
					return fmt.Sprintf("step %d: text %q sent with a version-1 extension is not stored under its own digest %x (stored there: %q)", i, s.Query, d, got), "property"
				}
			}
		}
		if s.ModelExt == "none" || strings.HasPrefix(s.ModelExt, "(ext other") {
			// behaves exactly as if the feature were disabled
			ref := h.reference(s.Query, s)
			if o.Body != ref.Body || o.Status != ref.Status || !reflect.DeepEqual(o.Resolved, ref.Resolved) || len(o.Calls) != 0 {
				return fmt.Sprintf("step %d: request without a version-1 extension differs from the disabled behaviour: got %d %s calls=%v, disabled gives %d %s", i, o.Status, o.Body, o.Calls, ref.Status, ref.Body), "property"
			}
		}
		// correspondence with the model
		if h.model == nil {
			continue
		}
		x, err := hx.ParseSexp(replies[i])
		if err != nil || !x.IsList || len(x.List) != 4 {
			return fmt.Sprintf("step %d: unexpected model reply %q", i, replies[i]), "correspondence"
		}
		if s.GoExt == "" {
			s.GoExt = extSexpOfJSON(s.ExtJSON)
		}
		if what := absMismatch(i, s, x.List[3]); what != "" {
			return what, "correspondence"
		}
		mcalls := modelCalls(x.List[2])
		if len(mcalls) != len(o.Calls) || (len(mcalls) > 0 && !reflect.DeepEqual(mcalls, o.Calls)) {
			return fmt.Sprintf("step %d: storage calls differ: implementation %v, model %v", i, o.Calls, mcalls), "correspondence"
		}
		if !x.List[1].IsList {
			if !nf {
				return fmt.Sprintf("step %d: model says NotFound, implementation answered %s", i, o.Body), "correspondence"
			}
			continue
		}
		t := x.List[1].List[1].Atom
		ref := h.reference(t, s)
		if nf && !isNotFound(ref.Body) {
			return fmt.Sprintf("step %d: model executes %q, implementation answered NotFound", i, t), "correspondence"
		}
		if o.Body != ref.Body || !reflect.DeepEqual(o.Resolved, ref.Resolved) {
			return fmt.Sprintf("step %d: model executes %q (→ %s), implementation answered %s", i, t, ref.Body, o.Body), "correspondence"
		}
	}
	return "", ""
}

func (h *harness) check(hist []Step) {
	what, kind := h.playHistory(hist)
	lookups, regs := 0, 0
	for _, s := range hist {
		if strings.HasPrefix(s.ModelExt, "(ext one") {
			if s.Query == "" {
				lookups++
			} else {
				regs++
			}
		}
	}
	b, _ := json.Marshal(hist)
	h.run.Case(string(b), lookups > 0 && regs > 0)
	h.run.Oblige("step-correspondence(storage calls, outcome)", "correspondence", len(hist), kind != "correspondence", what)
	h.run.Oblige("oracle: storage ⊆ {(sha256 t, t)}, lookup executes registered digest, no-extension = disabled", "oracle", len(hist), kind != "property" && kind != "crash", what)
	if what == "" {
		return
	}
	// shrink: drop steps while it still fails the same way
	cur := hist
	for changed := true; changed; {
		changed = false
		for i := range cur {
			cand := append(append([]Step{}, cur[:i]...), cur[i+1:]...)
			if w2, k2 := h.playHistory(cand); w2 != "" && k2 == kind {
				cur, what, changed = cand, w2, true
				break
			}
		}
	}
	// a correspondence disagreement in which no oracle failed: the property is not shown violated
	h.run.Violate(kind, what, "", kind == "correspondence", cur)
}

func main() {
	run := hx.Init("C18")
	h := &harness{run: run, disabled: newWorld(false), refCache: map[string]observed{}}
	if run.ModelPath != "" {
		m, err := hx.StartModel(run.ModelPath)
		if err != nil {
			fmt.Fprintln(os.Stderr, "cannot start model:", err)
			os.Exit(2)
		}
		h.model = m
		defer m.Close()
		// the driver's H is a SHA-256 written in Lean: compare it with crypto/sha256 on every text
		// the run can mention and on random byte-ish strings of many lengths (padding boundaries)
		all := append([]string{""}, texts...)
		r := hx.NewRand(uint64(run.Seed) + 99)
		for n := 0; n < 200; n++ {
			b := make([]rune, n)
			for i := range b {
				b[i] = rune(hx.Pick(r, []int{'a', '{', ' ', 0xe9, 0x1F600, '\n', '"'}))
			}
			all = append(all, string(b))
		}
		bad := ""
		for _, t := range all {
			if rep, err := m.Ask(hx.N("hash", hx.A(t), hx.A(sha(t))).String()); err != nil || rep != "ok" {
				bad = fmt.Sprintf("text %q: %s %v", t, rep, err)
				break
			}
		}
		run.Oblige("lean-sha256 = crypto/sha256 (the driver's H)", "correspondence", len(all), bad == "", bad)
		if bad != "" {
			run.Violate("correspondence", "the Lean SHA-256 disagrees with crypto/sha256: "+bad, "", true, bad)
		}
	}
	run.SetRule("histories of requests {GET, POST, direct call of PersistedQueryExtension} × {no text, 15 texts (valid, invalid, multi-operation, whitespace-bearing), parsed document present} × 29 JSON extension spellings + 11 Go-level extension kinds (int/float64/int64/other dynamic types, nil and typed-nil maps), interleaved with evictions from the storage; distinct = distinct history; non-trivial = contains a version-1 registration and a version-1 hash-only lookup")

	if run.Replay != "" {
		var hist []Step
		if err := hx.LoadReplayCase(run.Replay, &hist); err != nil {
			fmt.Fprintln(os.Stderr, err)
			os.Exit(2)
		}
		what, kind := h.playHistory(hist)
		fmt.Printf("replay: kind=%q what=%q\n", kind, what)
		if what != "" {
			run.Violate(kind, what, "", kind == "correspondence", hist)
		}
		run.Finish(h.model)
		return
	}
	for _, f := range run.CorpusFiles() {
		var hist []Step
		if hx.LoadReplayCase(f, &hist) == nil && len(hist) > 0 {
			h.check(hist)
			run.Count("corpus")
		}
	}

	vs := variants()
	mk := func(r *hx.Rand, pool []string, forceV int, forceQ int) Step {
		v := vs[forceV]
		ej, me := v.make(r, pool)
		q := ""
		if forceQ > 0 {
			q = pool[forceQ-1]
		}
		st := Step{Transport: hx.Pick(r, []string{"GET", "POST"}), Query: q, ExtJSON: ej, ModelExt: me, ExtKind: v.kind}
		// operation name and variables travel next to the text / the hash and must reach the executor unchanged
		usesKnob := q == knobText || (q == "" && len(pool) > 0 && pool[0] == knobText)
		if usesKnob {
			st.Op = hx.Pick(r, []string{"Q", "Q", "R", ""})
			st.Vars = hx.Pick(r, []string{`{"x":4}`, `{"x":4}`, ""})
		} else if r.Chance(1, 10) {
			st.Op = "Nope"
		}
		return st
	}
	dvs := directVariants()
	mkDirect := func(r *hx.Rand, pool []string, di int, forceQ int, hasDoc bool) Step {
		ext, label := dvs[di].make(r, pool)
		q := ""
		if forceQ > 0 {
			q = pool[forceQ-1]
		}
		return Step{Transport: "DIRECT", Query: q, ModelExt: label, ExtKind: dvs[di].kind, GoExt: valueSexp(ext).String(), HasDoc: hasDoc}
	}
	// hand-picked: a registered text whose digest ends in a zero byte, then look-ups under keys of the wrong length
	for _, tr := range []string{"GET", "POST", "DIRECT"} {
		d := sha(zeroTailText)
		for _, key := range []string{d[:62], d[:60], d + "00", d + "ab", d + d, strings.ToUpper(d[:62]), d} {
			mkS := func(q, hash string) Step {
				if tr == "DIRECT" {
					return Step{Transport: tr, Query: q, ModelExt: lbl("one", hash), ExtKind: "zero-tail", GoExt: valueSexp(pqMap(1, hash)).String()}
				}
				ej, me := strHash("1", hash)
				return Step{Transport: tr, Query: q, ExtJSON: ej, ModelExt: me, ExtKind: "zero-tail"}
			}
			h.check([]Step{mkS(zeroTailText, d), mkS("", key)})
		}
	}
	// hand-picked: texts whose outcome depends on the other Config knobs (feature set, cost, operation name,
	// variables, request context), in the spellings text only / text + hash / hash only / unknown version
	for _, tr := range []string{"GET", "POST"} {
		for _, c := range []struct{ text, op, vars string }{{"{f}", "", ""}, {"{a f}", "", ""}, {knobText, "Q", `{"x":4}`}, {knobText, "R", ""}, {knobText, "", ""}} {
			mkS := func(q, version string) Step {
				ej, me := strHash(version, sha(c.text))
				return Step{Transport: tr, Query: q, ExtJSON: ej, ModelExt: me, ExtKind: "knobs", Op: c.op, Vars: c.vars}
			}
			h.check([]Step{{Transport: tr, Query: c.text, ModelExt: "none", ExtKind: "knobs", Op: c.op, Vars: c.vars}})
			h.check([]Step{mkS(c.text, "1"), mkS("", "1"), mkS("", "1.0")})
			h.check([]Step{mkS(c.text, "2"), mkS("", "1")})
			h.check([]Step{mkS("", "1"), mkS(c.text, "1.0"), mkS("", "2"), mkS("", "1")})
		}
	}
	// bounded-exhaustive part: every history of length ≤ L over (2 texts + none) × all extension kinds
	small := texts[:2]
	L := run.Scale(2, 3)
	var rec func(prefix []Step, depth int)
	rec = func(prefix []Step, depth int) {
		if depth > 0 {
			h.check(prefix)
		}
		if depth == L {
			return
		}
		for vi := range vs {
			for qi := 0; qi <= len(small); qi++ {
				if depth == 2 && qi != 0 {
					continue // thorough tier: the third step of an exhaustive history is a request without text (a look-up)
				}
				rec(append(append([]Step{}, prefix...), mk(run.Rand, small, vi, qi)), depth+1)
			}
		}
	}
	rec(nil, 0)
	// the same for direct calls: every history of length ≤ 2 over Go-level extension kinds × {no text, no text + document, 2 texts, text + document}
	var recD func(prefix []Step, depth int)
	recD = func(prefix []Step, depth int) {
		if depth > 0 {
			h.check(prefix)
		}
		if depth == 2 {
			return
		}
		for di := range dvs {
			for _, c := range []struct {
				q   int
				doc bool
			}{{0, false}, {0, true}, {1, false}, {2, false}, {1, true}} {
				recD(append(append([]Step{}, prefix...), mkDirect(run.Rand, small, di, c.q, c.doc)), depth+1)
			}
		}
	}
	recD(nil, 0)
	run.Note("exhaustive over extension kind × text choice up to history length %d (a third step carries no text; hash/junk details drawn from the PRNG); direct calls exhaustive up to length 2", L)
	// random longer histories over all texts, biased towards lookups that follow registrations
	n := run.Scale(2500, 60000)
	for i := 0; i < n; i++ {
		r := run.Rand.Fork()
		ln := r.Range(3, run.Scale(8, 14))
		pool := append([]string{}, texts...)
		hx.Shuffle(r, pool)
		pool = pool[:r.Range(1, 3)]
		var hist []Step
		for j := 0; j < ln; j++ {
			vi := r.Intn(len(vs))
			if r.Chance(1, 2) {
				vi = hx.Pick(r, []int{3, 4, 5, 6})
			}
			qi := 0
			if r.Chance(1, 2) {
				qi = 1 + r.Intn(len(pool))
			}
			if j > 0 && r.Chance(1, 12) {
				// a best-effort storage loses an entry (usually one that was registered)
				hist = append(hist, Step{Transport: "EVICT", Evict: sha(hx.Pick(r, pool)), ModelExt: "none", ExtKind: "evict"})
				continue
			}
			if r.Chance(1, 3) {
				di := r.Intn(len(dvs))
				if r.Chance(1, 2) {
					di = hx.Pick(r, []int{0, 1})
				}
				hist = append(hist, mkDirect(r, pool, di, qi, r.Chance(1, 4)))
				continue
			}
			hist = append(hist, mk(r, pool, vi, qi))
		}
		h.check(hist)
		if i < 3 {
			run.Sample(hist)
		}
	}
	run.Finish(h.model)
}
