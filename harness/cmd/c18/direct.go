// Direct mode: apifu.PersistedQueryExtension is called as a Go function, with Go-level values that
// JSON decoding can never produce (the int 1 that the source's `case 1` is there for, int64, uint,
// typed nil maps, a parsed Document next to an empty Query …). The model driver receives the same
// Go-level value tree (`greq`), applies the Lean abstraction `Go.abs` and runs `Model.step`; the
// abstraction it reports back is compared with the label written by hand next to every variant.
package main

import (
	"encoding/hex"
	"encoding/json"
	"fmt"
	"math"
	"reflect"
	"sort"
	"strconv"
	"strings"

	apifu "github.com/ccbrown/api-fu"
	"github.com/ccbrown/api-fu/graphql"
	"github.com/ccbrown/api-fu/graphql/ast"

	"verifharness/hx"
)

// valueSexp writes a Go interface{} value in the driver's notation.
func valueSexp(v interface{}) hx.Sexp {
	switch v := v.(type) {
	case nil:
		return hx.N("nil")
	case bool:
		return hx.N("bool", hx.B(v))
	case float64:
		return hx.N("f64", hx.A(strconv.FormatUint(math.Float64bits(v), 10)))
	case int:
		return hx.N("int", hx.I(int64(v)))
	case int64:
		return hx.N("int64", hx.I(v))
	case string:
		return hx.N("str", hx.A(v))
	case map[string]interface{}:
		if v == nil {
			return hx.N("nilmap")
		}
		keys := make([]string, 0, len(v))
		for k := range v {
			keys = append(keys, k)
		}
		sort.Strings(keys)
		items := []hx.Sexp{}
		for _, k := range keys {
			items = append(items, hx.L(hx.A(k), valueSexp(v[k])))
		}
		return hx.N("map", items...)
	case []interface{}:
		items := []hx.Sexp{}
		for _, e := range v {
			items = append(items, valueSexp(e))
		}
		return hx.N("slice", items...)
	}
	return hx.N("other", hx.A(fmt.Sprintf("%T", v)))
}

// goValue rebuilds the Go value from the notation (replays, corpus files).
func goValue(x hx.Sexp) interface{} {
	if !x.IsList || len(x.List) == 0 {
		return nil
	}
	arg := func(i int) string {
		if len(x.List) > i {
			return x.List[i].Atom
		}
		return ""
	}
	switch x.List[0].Atom {
	case "bool":
		return arg(1) == "true"
	case "f64":
		b, _ := strconv.ParseUint(arg(1), 10, 64)
		return math.Float64frombits(b)
	case "int":
		n, _ := strconv.ParseInt(arg(1), 10, 64)
		return int(n)
	case "int64":
		n, _ := strconv.ParseInt(arg(1), 10, 64)
		return n
	case "str":
		return arg(1)
	case "nilmap":
		return map[string]interface{}(nil)
	case "map":
		m := map[string]interface{}{}
		for _, kv := range x.List[1:] {
			if kv.IsList && len(kv.List) == 2 {
				m[kv.List[0].Atom] = goValue(kv.List[1])
			}
		}
		return m
	case "slice":
		l := []interface{}{}
		for _, e := range x.List[1:] {
			l = append(l, goValue(e))
		}
		return l
	case "other":
		switch arg(1) {
		case "uint":
			return uint(1)
		case "int32":
			return int32(1)
		case "float32":
			return float32(1)
		case "json.Number":
			return json.Number("1")
		case "[]uint8":
			return []byte{1}
		case "map[string]string":
			return map[string]string{"version": "1"}
		}
		return struct{}{}
	}
	return nil
}

// extSexpOfJSON is the Go-level value that encoding/json produces for an `extensions` member.
func extSexpOfJSON(extJSON string) string {
	if extJSON == "" {
		return hx.N("nilmap").String()
	}
	var v interface{}
	if json.Unmarshal([]byte(extJSON), &v) != nil {
		return hx.N("nilmap").String()
	}
	if m, ok := v.(map[string]interface{}); ok {
		return valueSexp(m).String()
	}
	return hx.N("nilmap").String()
}

type directVariant struct {
	kind string
	make func(r *hx.Rand, pool []string) (ext map[string]interface{}, label string)
}

func lbl(version string, hash interface{}) string {
	if h, ok := hash.(string); ok {
		return hx.N("ext", hx.A(version), hx.N("str", hx.A(h))).String()
	}
	return hx.N("ext", hx.A(version), hx.A("nostr")).String()
}

func pqMap(version, hash interface{}) map[string]interface{} {
	return map[string]interface{}{"persistedQuery": map[string]interface{}{"version": version, "sha256Hash": hash}}
}

// directVariants: every label is written by hand from the Go language rules (interface equality
// needs identical dynamic types), not computed with the expressions the source uses.
func directVariants() []directVariant {
	hashSpelling := func(r *hx.Rand, p []string) string {
		h := sha(hx.Pick(r, p))
		return hx.Pick(r, []string{h, h, h, strings.ToUpper(h), h + "zz", h + "0", h[:r.Range(0, 63)], sha(""), "", sha("never sent " + h)})
	}
	return []directVariant{
		{"d-int-1", func(r *hx.Rand, p []string) (map[string]interface{}, string) {
			h := hashSpelling(r, p)
			return pqMap(int(1), h), lbl("one", h)
		}},
		{"d-float64-1", func(r *hx.Rand, p []string) (map[string]interface{}, string) {
			h := hashSpelling(r, p)
			return pqMap(float64(1), h), lbl("one", h)
		}},
		{"d-int64-1", func(r *hx.Rand, p []string) (map[string]interface{}, string) {
			h := sha(hx.Pick(r, p))
			return pqMap(int64(1), h), lbl("other", h)
		}},
		{"d-other-numeric-type-1", func(r *hx.Rand, p []string) (map[string]interface{}, string) {
			h := sha(hx.Pick(r, p))
			return pqMap(hx.Pick(r, []interface{}{uint(1), int32(1), float32(1), json.Number("1")}), h), lbl("other", h)
		}},
		{"d-version-not-a-number", func(r *hx.Rand, p []string) (map[string]interface{}, string) {
			h := sha(hx.Pick(r, p))
			return pqMap(hx.Pick(r, []interface{}{"1", true, nil, []interface{}{1}, map[string]interface{}{"major": 1}, map[string]interface{}(nil)}), h), lbl("other", h)
		}},
		{"d-version-other-value", func(r *hx.Rand, p []string) (map[string]interface{}, string) {
			h := sha(hx.Pick(r, p))
			return pqMap(hx.Pick(r, []interface{}{int(2), int(0), int(-1), float64(2), 1.0000000000000002, 0.9999999999999999, math.NaN(), math.Copysign(0, -1), math.Inf(1), int64(2)}), h), lbl("other", h)
		}},
		{"d-extensions-nil", func(r *hx.Rand, p []string) (map[string]interface{}, string) { return nil, "none" }},
		{"d-pq-typed-nil-map", func(r *hx.Rand, p []string) (map[string]interface{}, string) {
			return map[string]interface{}{"persistedQuery": map[string]interface{}(nil)}, "none"
		}},
		{"d-pq-not-a-map", func(r *hx.Rand, p []string) (map[string]interface{}, string) {
			return map[string]interface{}{"persistedQuery": hx.Pick(r, []interface{}{map[string]string{"version": "1"}, []interface{}{1}, "x", 1, 1.0, nil, true}), "version": 1}, "none"
		}},
		{"d-hash-not-a-string", func(r *hx.Rand, p []string) (map[string]interface{}, string) {
			v := hx.Pick(r, []interface{}{[]byte{1}, 5, nil, 1.0, true, []interface{}{"x"}, map[string]interface{}{}})
			return pqMap(hx.Pick(r, []interface{}{int(1), float64(1)}), v), lbl("one", nil)
		}},
		{"d-empty-pq-map", func(r *hx.Rand, p []string) (map[string]interface{}, string) {
			return map[string]interface{}{"persistedQuery": map[string]interface{}{}}, lbl("other", nil)
		}},
	}
}

type execRec struct {
	Query      string
	DocSame    bool
	ExtSame    bool
	OthersSame bool
}

// direct calls the extension as a function on this world's storage.
func (w *world) direct(s Step) (o observed) {
	o.Direct = true
	w.st.calls = nil
	x, err := hx.ParseSexp(s.GoExt)
	if err != nil {
		o.Status, o.Body = -1, "bad go_ext: "+err.Error()
		return o
	}
	ext, _ := goValue(x).(map[string]interface{})
	var doc *ast.Document
	if s.HasDoc {
		doc = &ast.Document{}
	}
	in := &graphql.Request{Query: s.Query, Document: doc, Extensions: ext, OperationName: "Op", VariableValues: map[string]interface{}{"v": 1}}
	before := *in
	marker := &graphql.Response{}
	execute := func(r *graphql.Request) *graphql.Response {
		o.Executed = append(o.Executed, execRec{
			Query: r.Query, DocSame: r.Document == doc,
			ExtSame:    reflect.ValueOf(r.Extensions).Pointer() == reflect.ValueOf(ext).Pointer(),
			OthersSame: r.OperationName == "Op" && reflect.ValueOf(r.VariableValues).Pointer() == reflect.ValueOf(before.VariableValues).Pointer() && r.Schema == nil,
		})
		return marker
	}
	func() {
		defer func() {
			if p := recover(); p != nil {
				o.Status, o.Body = -1, fmt.Sprintf("panic: %v", p)
			}
		}()
		resp := apifu.PersistedQueryExtension(w.st, execute)(in)
		o.Status = 200
		switch {
		case resp == marker:
			o.Body = "executed"
		case resp != nil && resp.Data == nil && len(resp.Errors) == 1 && resp.Errors[0] != nil && resp.Errors[0].Message == "PersistedQueryNotFound":
			o.Body = "notfound"
		default:
			b, _ := json.Marshal(resp)
			o.Body = "other response: " + string(b)
		}
	}()
	o.InputMutated = in.Query != before.Query || in.Document != before.Document ||
		reflect.ValueOf(in.Extensions).Pointer() != reflect.ValueOf(before.Extensions).Pointer() || in.OperationName != before.OperationName
	o.Calls = append([]call{}, w.st.calls...)
	return o
}

// directStep evaluates the oracles and the correspondence for one direct step.
func (h *harness) directStep(i int, s Step, o observed, w *world, registered map[string]bool, reply string) (what, kind string) {
	v1 := strings.HasPrefix(s.ModelExt, "(ext one")
	if o.Status == -1 {
		return fmt.Sprintf("step %d: %s", i, o.Body), "crash"
	}
	for k, t := range w.st.m {
		if sha(t) != hex.EncodeToString([]byte(k)) {
			return fmt.Sprintf("step %d: storage maps %x to a text with digest %s (%q)", i, k, sha(t), t), "property"
		}
	}
	if o.InputMutated {
		return fmt.Sprintf("step %d: the caller's request was modified in place", i), "property"
	}
	switch o.Body {
	case "notfound":
		h.run.Count("outcome:notFound")
		if len(o.Executed) != 0 {
			return fmt.Sprintf("step %d: NotFound response although execute ran on %q", i, o.Executed[0].Query), "property"
		}
	case "executed":
		h.run.Count("outcome:executed")
		if len(o.Executed) != 1 {
			return fmt.Sprintf("step %d: execute ran %d times", i, len(o.Executed)), "property"
		}
		if e := o.Executed[0]; !e.DocSame || !e.ExtSame || !e.OthersSame {
			return fmt.Sprintf("step %d: execute received a request that differs from the caller's in more than Query: %+v", i, e), "property"
		}
	default:
		return fmt.Sprintf("step %d: %s", i, o.Body), "property"
	}
	lookup := v1 && s.Query == "" && !s.HasDoc
	if lookup && o.Body == "executed" {
		hs := ""
		if x, err := hx.ParseSexp(s.ModelExt); err == nil && len(x.List) == 3 && x.List[2].IsList {
			hs = x.List[2].List[1].Atom
		}
		key, _ := hex.DecodeString(hs)
		t := o.Executed[0].Query
		ok := (t == "" && hex.EncodeToString(key) == sha("")) || (registered[t] && hex.EncodeToString(key) == sha(t))
		if !ok {
			return fmt.Sprintf("step %d: hash-only request for key %x executed %q, which is not a registered text with that digest", i, key, t), "property"
		}
	}
	if !lookup {
		if o.Body != "executed" || o.Executed[0].Query != s.Query {
			return fmt.Sprintf("step %d: request with text %q (document: %v) did not execute its own text: %s %+v", i, s.Query, s.HasDoc, o.Body, o.Executed), "property"
		}
	}
	if s.Query != "" && v1 {
		registered[s.Query] = true
		d, _ := hex.DecodeString(sha(s.Query))
		if got, ok := w.st.m[string(d)]; !ok || got != s.Query {
			return fmt.Sprintf("step %d: text %q sent with a version-1 extension is not stored under its own digest (stored there: %q)", i, s.Query, got), "property"
		}
	}
	if (!v1 || (s.Query == "" && s.HasDoc)) && len(o.Calls) != 0 {
		return fmt.Sprintf("step %d: storage calls %v for a request that is neither a version-1 lookup nor a version-1 registration", i, o.Calls), "property"
	}
	if h.model == nil {
		return "", ""
	}
	x, err := hx.ParseSexp(reply)
	if err != nil || !x.IsList || len(x.List) != 4 {
		return fmt.Sprintf("step %d: unexpected model reply %q", i, reply), "correspondence"
	}
	if what := absMismatch(i, s, x.List[3]); what != "" {
		return what, "correspondence"
	}
	mcalls := modelCalls(x.List[2])
	if len(mcalls) != len(o.Calls) || (len(mcalls) > 0 && !reflect.DeepEqual(mcalls, o.Calls)) {
		return fmt.Sprintf("step %d: storage calls differ: implementation %v, model %v", i, o.Calls, mcalls), "correspondence"
	}
	if !x.List[1].IsList {
		if o.Body != "notfound" {
			return fmt.Sprintf("step %d: model says NotFound, implementation %s %+v", i, o.Body, o.Executed), "correspondence"
		}
		return "", ""
	}
	if t := x.List[1].List[1].Atom; o.Body != "executed" || o.Executed[0].Query != t {
		return fmt.Sprintf("step %d: model executes %q, implementation %s %+v", i, t, o.Body, o.Executed), "correspondence"
	}
	return "", ""
}

// absMismatch compares the abstraction the driver applied (Lean `Go.abs`) with the hand-written label.
func absMismatch(i int, s Step, got hx.Sexp) string {
	want, err := hx.ParseSexp(s.ModelExt)
	if err != nil || want.String() != got.String() {
		return fmt.Sprintf("step %d: the Lean abstraction of %s is %s, the label says %s", i, s.GoExt, got.String(), s.ModelExt)
	}
	return ""
}

func modelCalls(x hx.Sexp) (mcalls []call) {
	for _, c := range x.List {
		if c.List[0].Atom == "get" {
			mcalls = append(mcalls, call{"get", "", c.List[1].Atom})
		} else {
			mcalls = append(mcalls, call{"put", c.List[1].Atom, c.List[2].Atom})
		}
	}
	return mcalls
}
