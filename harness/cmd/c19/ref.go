package main

// RefStatus in Go: the status the property demands, written from the rules the handler documents
// (Accept negotiation comment, query-parameter comments, the doc comments of Get/Patch/Create/Delete)
// and the JSON:API specification — NOT from the router's code and not from the Lean model. It reads
// the world (resolver outcomes) and the concrete request. The Lean `Spec.refStatus` states the same
// rules; both are compared with each other and with the real status on every request.
//
//	R1 406  no Accept line is the JSON:API media type without parameters other than profile
//	R2 400  a query parameter is malformed or of an unsupported family
//	R3 404  the path addresses nothing          R4 405  the route does not offer the method
//	R5 400  undecodable body                    R6 409  type/id conflict
//	R7 405  the needed handler is not defined   R8 status of the resolver's error (500 if none)
//	R9 404  nil resource / unknown relationship R10 500 unmarshalable document, else 200/201

import (
	"strconv"
	"strings"
	"unicode/utf8"
)

func refAcceptable(q *ReqSpec) bool {
	for _, a := range q.acceptInstances() {
		if a.err || a.media != mediaType {
			continue
		}
		ok := true
		for _, p := range a.params {
			if p != "profile" {
				ok = false
			}
		}
		if ok {
			return true
		}
	}
	return false
}

func alnum(c rune) bool {
	return c >= 'a' && c <= 'z' || c >= 'A' && c <= 'Z' || c >= '0' && c <= '9'
}

// refMemberName: JSON:API member names as the library restricts them (a-z A-Z 0-9, '-' and '_'
// inside only).
func refMemberName(s string) bool {
	if s == "" || !utf8.ValidString(s) {
		return false
	}
	rs := []rune(s)
	for _, c := range rs {
		if !alnum(c) && c != '-' && c != '_' {
			return false
		}
	}
	return alnum(rs[0]) && alnum(rs[len(rs)-1])
}

// refSupportedKey: family ('[' name ']')* ; all-lowercase families are reserved: only `page`.
func refSupportedKey(k string) bool {
	family := k
	rest := ""
	if i := strings.IndexByte(k, '['); i >= 0 {
		family, rest = k[:i], k[i:]
	}
	if !refMemberName(family) {
		return false
	}
	for rest != "" {
		if rest[0] != '[' {
			return false
		}
		j := strings.IndexByte(rest, ']')
		if j < 0 || !refMemberName(rest[1:j]) {
			return false
		}
		rest = rest[j+1:]
	}
	reserved := true
	for _, c := range family {
		if c < 'a' || c > 'z' {
			reserved = false
		}
	}
	return !reserved || family == "page"
}

func errStatus(status string) int {
	if status == "" {
		return 500
	}
	n, err := strconv.Atoi(status)
	if err != nil {
		return 0
	}
	return n
}

// completionError: the status of the first resolver error when a resource of this type is turned
// into a resource object (attributes, then relationships resolved by default); -1 = none.
// (The generator keeps the erroring attributes of a type on one status, likewise the relationships,
// so Go's map order does not matter.)
func completionError(t *TypeSpec) int {
	for _, a := range t.Attrs {
		if a.Kind == "err" {
			return errStatus(a.Status)
		}
	}
	for _, r := range t.Rels {
		if r.ByDefault && r.Resolve.Kind == "err" {
			return errStatus(r.Resolve.Status)
		}
	}
	return -1
}

func unmarshalable(t *TypeSpec) bool {
	for _, a := range t.Attrs {
		if a.Kind == "nan" {
			return true
		}
	}
	return false
}

func sendResource(t *TypeSpec, ok int) int {
	if e := completionError(t); e >= 0 {
		return e
	}
	if unmarshalable(t) {
		return 500
	}
	return ok
}

func viaHandler(t *TypeSpec, h Table, id string) int {
	if !h.Defined {
		return 405
	}
	switch o := h.at(id); o.Kind {
	case "err":
		return errStatus(o.Status)
	case "nil":
		return 404
	}
	return sendResource(t, 200)
}

func withRelationship(t *TypeSpec, h Table, id, rel string, k func(*RelSpec) int) int {
	if !h.Defined {
		return 405
	}
	switch o := h.at(id); o.Kind {
	case "err":
		return errStatus(o.Status)
	case "nil":
		return 404
	}
	r := t.rel(rel)
	if r == nil {
		return 404
	}
	return k(r)
}

func linkageStatus(r *RelSpec) int {
	if r.Resolve.Kind == "err" {
		return errStatus(r.Resolve.Status)
	}
	return 200
}

func membersStatus(o *LinkOut) int {
	if o == nil {
		return 405
	}
	if o.Kind == "err" {
		return errStatus(o.Status)
	}
	return 200
}

// relatedFailure: why fetching a related resource fails (-1: it does not).
func relatedFailure(w *World, id RId) int {
	t := w.typ(id.Type)
	if t == nil {
		return -1
	}
	if !t.Get.Defined {
		return 405
	}
	switch o := t.Get.at(id.Id); o.Kind {
	case "err":
		return errStatus(o.Status)
	case "nil":
		return -1
	}
	return completionError(t)
}

func relatedUnmarshalable(w *World, id RId) bool {
	t := w.typ(id.Type)
	return t != nil && t.Get.Defined && t.Get.at(id.Id).Kind == "found" && unmarshalable(t)
}

func fetchRelatedStatus(w *World, r *RelSpec) int {
	if r.Resolve.Kind == "err" {
		return errStatus(r.Resolve.Status)
	}
	if r.Resolve.Kind == "nil" {
		return 200
	}
	for _, id := range r.Resolve.Ids {
		if f := relatedFailure(w, id); f >= 0 {
			return f
		}
	}
	for _, id := range r.Resolve.Ids {
		if relatedUnmarshalable(w, id) {
			return 500
		}
	}
	return 200
}

func refStatus(w *World, q *ReqSpec) int {
	if q.Inject != nil {
		// the document carries exactly the injected errors: first error carrying a status, else 500
		if len(*q.Inject) == 0 {
			return 200
		}
		for _, s := range *q.Inject {
			if s != "" {
				return errStatus(s)
			}
		}
		return 500
	}
	if !refAcceptable(q) {
		return 406
	}
	for _, k := range q.queryKeys() {
		if !refSupportedKey(k) {
			return 400
		}
	}
	c := q.components()
	if len(c) == 0 || len(c) > 4 {
		return 404
	}
	t := w.typ(c[0])
	if t == nil {
		return 404
	}
	l := q.Label
	switch {
	case len(c) == 1:
		if q.Method != "POST" {
			return 404
		}
		if !l.PostOK {
			return 400
		}
		if l.PostType != c[0] {
			return 409
		}
		if !t.Create.Defined {
			return 405
		}
		switch t.Create.Kind {
		case "err":
			return errStatus(t.Create.Status)
		case "nil":
			return 404
		}
		return sendResource(t, 201)
	case len(c) == 2:
		switch q.Method {
		case "GET":
			return viaHandler(t, t.Get, c[1])
		case "PATCH":
			if !l.PatchOK {
				return 400
			}
			if l.PatchType != c[0] || l.PatchId != c[1] {
				return 409
			}
			return viaHandler(t, t.Patch, c[1])
		case "DELETE":
			if !t.Delete.Defined {
				return 405
			}
			if o := t.Delete.at(c[1]); o.Kind == "err" {
				return errStatus(o.Status)
			}
			return 200
		}
		return 405
	case len(c) == 3:
		switch q.Method {
		case "GET":
			return withRelationship(t, t.Get, c[1], c[2], func(r *RelSpec) int { return fetchRelatedStatus(w, r) })
		case "PATCH":
			return withRelationship(t, t.Get, c[1], c[2], func(r *RelSpec) int {
				if r.Resolve.Kind == "err" {
					return errStatus(r.Resolve.Status)
				}
				if r.Many || r.Resolve.Kind != "id" {
					return 404
				}
				rid := r.Resolve.Ids[0]
				rt := w.typ(rid.Type)
				if rt == nil {
					return 404
				}
				if !l.PatchOK {
					return 400
				}
				if l.PatchType != rid.Type || l.PatchId != rid.Id {
					return 409
				}
				return viaHandler(rt, rt.Patch, rid.Id)
			})
		}
		return 405
	default:
		if c[2] != "relationships" {
			return 404
		}
		switch q.Method {
		case "GET":
			return withRelationship(t, t.Get, c[1], c[3], linkageStatus)
		case "PATCH":
			if !l.RelOK {
				return 400
			}
			return withRelationship(t, t.Patch, c[1], c[3], linkageStatus)
		case "POST", "DELETE":
			if !l.MemOK {
				return 400
			}
			return withRelationship(t, t.Get, c[1], c[3], func(r *RelSpec) int {
				if !r.Many {
					return 405
				}
				if q.Method == "POST" {
					return membersStatus(r.Add)
				}
				return membersStatus(r.Remove)
			})
		}
		return 405
	}
}
