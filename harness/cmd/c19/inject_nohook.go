//go:build !c19hook

package main

import "net/http"

// Built without the response-injection hook: the injected-error-list cases are skipped.
const injectAvailable = false

func withInjection(req *http.Request, statuses []string) *http.Request { return req }
