package main

// Systematic Accept headers. The hand-picked table in gen.go (acceptVariants) only had the
// unacceptable JSON:API instance *before* the acceptable one (as the repository's own test does), so
// a handler in which the last JSON:API instance decides slipped through (round-3 seed C19-7). Here
// the header is a *sequence of instance kinds*: every sequence of length 1 and 2 over the alphabet
// below is enumerated per world (both orders of every pair), longer ones are sampled, and each
// sequence is laid out over header lines in several ways.

import (
	"fmt"
	"strings"

	"verifharness/hx"
)

// instKind is one Accept value as the handler classifies it.
type instKind struct {
	name string
	// acceptable: a parsable JSON:API instance with no parameter other than profile
	acceptable bool
	text       func(r *hx.Rand) string
}

var instKinds = []instKind{
	{"plain", true, func(r *hx.Rand) string {
		return hx.Pick(r, []string{jsonAPI, jsonAPI + ";", " " + jsonAPI, "Application/Vnd.Api+Json"})
	}},
	{"profile", true, func(r *hx.Rand) string {
		return jsonAPI + hx.Pick(r, []string{`; profile="https://example.com/p"`, "; profile=x", "; PROFILE=y"})
	}},
	{"ext", false, func(r *hx.Rand) string {
		return jsonAPI + hx.Pick(r, []string{"; ext=x", `; ext="https://jsonapi.org/ext/version"`})
	}},
	{"charset", false, func(r *hx.Rand) string { return jsonAPI + "; charset=utf-8" }},
	{"q", false, func(r *hx.Rand) string { return jsonAPI + hx.Pick(r, []string{"; q=0.9", "; q=1"}) }},
	{"profile+other", false, func(r *hx.Rand) string {
		return jsonAPI + hx.Pick(r, []string{"; profile=x; charset=utf-8", "; ext=y; profile=z", "; profile=x; q=0.5"})
	}},
	{"jsonapi-parse-error", false, func(r *hx.Rand) string {
		// mime.ParseMediaType returns the media type AND an error
		return jsonAPI + hx.Pick(r, []string{"; q", "; profile=x; q", "; profile=x; profile=y"})
	}},
	{"other-media", false, func(r *hx.Rand) string {
		return hx.Pick(r, []string{"text/html", "application/json", "application/vnd.api+jsonx", "application/foo; profile=x"})
	}},
	{"wildcard", false, func(r *hx.Rand) string { return hx.Pick(r, []string{"*/*", "application/*", "*/*; profile=x"}) }},
	{"junk", false, func(r *hx.Rand) string { return hx.Pick(r, []string{"", ";;", "a/b/c", jsonAPI + "; =x"}) }},
}

// layout spreads the values over header lines: one value per line (the only layout in which the
// handler sees the instances), everything comma-joined on one line, or a mixture.
func layouts(r *hx.Rand, values []string) (out [][]string, names []string) {
	out = append(out, append([]string{}, values...))
	names = append(names, "lines")
	if len(values) >= 2 {
		out = append(out, []string{strings.Join(values, ", ")})
		names = append(names, "joined")
		out = append(out, []string{strings.Join(values, ",")})
		names = append(names, "joined-nospace")
	}
	if len(values) >= 3 {
		k := 1 + r.Intn(len(values)-1)
		out = append(out, []string{strings.Join(values[:k], ", "), strings.Join(values[k:], ", ")})
		names = append(names, "mixed")
		out = append(out, append([]string{values[0]}, strings.Join(values[1:], ", ")))
		names = append(names, "first-line-then-joined")
	}
	return out, names
}

type acceptCase struct {
	kind  string // sequence of instance kinds + layout (distribution key)
	lines []string
	// wantAcceptable: by construction (only meaningful for the one-value-per-line layout)
	anyAcceptable bool
}

func acceptSequence(r *hx.Rand, seq []int) []acceptCase {
	var values, ks []string
	anyOK := false
	for _, k := range seq {
		values = append(values, instKinds[k].text(r))
		ks = append(ks, instKinds[k].name)
		anyOK = anyOK || instKinds[k].acceptable
	}
	ls, ns := layouts(r, values)
	var out []acceptCase
	for i := range ls {
		out = append(out, acceptCase{kind: fmt.Sprintf("seq[%s]/%s", strings.Join(ks, ","), ns[i]), lines: ls[i], anyAcceptable: anyOK})
	}
	return out
}

// systematicAccepts: every sequence of length 1 and 2 (both orders of every pair), plus sampled
// sequences of length 3..5 that contain at least two JSON:API instances of which one is acceptable
// (acceptable first / in the middle / last).
func systematicAccepts(r *hx.Rand, sampled int) []acceptCase {
	var out []acceptCase
	n := len(instKinds)
	for a := 0; a < n; a++ {
		out = append(out, acceptSequence(r, []int{a})...)
		for b := 0; b < n; b++ {
			out = append(out, acceptSequence(r, []int{a, b})...)
		}
	}
	okKinds := []int{0, 1}
	badJSONAPI := []int{2, 3, 4, 5, 6}
	for i := 0; i < sampled; i++ {
		ln := r.Range(3, 5)
		seq := make([]int, ln)
		for j := range seq {
			seq[j] = r.Intn(n)
		}
		// plant one acceptable and one unacceptable JSON:API instance at random distinct positions
		p, q := r.Intn(ln), r.Intn(ln)
		for q == p {
			q = r.Intn(ln)
		}
		seq[p] = hx.Pick(r, okKinds)
		seq[q] = hx.Pick(r, badJSONAPI)
		if r.Intn(100) < 30 {
			// all others neutral: the planted pair alone decides
			for j := range seq {
				if j != p && j != q {
					seq[j] = hx.Pick(r, []int{7, 8, 9})
				}
			}
		}
		out = append(out, acceptSequence(r, seq)...)
	}
	return out
}

// randomAccept draws one systematic Accept header (for the random request stream).
func randomAccept(r *hx.Rand) acceptCase {
	ln := hx.Pick(r, []int{1, 2, 2, 2, 3, 3, 4})
	seq := make([]int, ln)
	for j := range seq {
		seq[j] = r.Intn(len(instKinds))
		if r.Intn(100) < 50 {
			seq[j] = r.Intn(7) // a JSON:API instance
		}
	}
	cs := acceptSequence(r, seq)
	if r.Intn(100) < 75 {
		return cs[0] // one value per line
	}
	return hx.Pick(r, cs)
}
