package main

// Canonical observable of a real response (the same S-expression the model driver prints) and the
// model-free oracles: the document invariants of the property evaluated directly on the response.

import (
	"bytes"
	"encoding/json"
	"fmt"
	"sort"
	"strconv"
	"strings"

	"verifharness/hx"
)

const mediaType = "application/vnd.api+json"

type doc struct {
	top     map[string]any
	hasData bool
	data    any
	errors  []any
	hasErrs bool
}

func parseDoc(body []byte) (*doc, error) {
	dec := json.NewDecoder(bytes.NewReader(body))
	dec.UseNumber()
	var v any
	if err := dec.Decode(&v); err != nil {
		return nil, err
	}
	if dec.More() {
		return nil, fmt.Errorf("trailing data after the document")
	}
	top, ok := v.(map[string]any)
	if !ok {
		return nil, fmt.Errorf("top level is not an object")
	}
	d := &doc{top: top}
	d.data, d.hasData = top["data"]
	if e, ok := top["errors"]; ok {
		d.hasErrs = true
		d.errors, _ = e.([]any)
	}
	return d, nil
}

func sortedKeys[V any](m map[string]V) []string {
	var ks []string
	for k := range m {
		ks = append(ks, k)
	}
	sort.Strings(ks)
	return ks
}

func linksSexp(tag string, v any) hx.Sexp {
	m, _ := v.(map[string]any)
	var xs []hx.Sexp
	for _, k := range sortedKeys(m) {
		if k == extraLinkKey {
			// the additional link of a custom resolver (custom_rel.go): not part of the model's
			// observable, checked by additionalLinkOracle on the implementation's output
			continue
		}
		s, ok := m[k].(string)
		if !ok {
			s = fmt.Sprintf("<non-string %v>", m[k])
		}
		xs = append(xs, hx.L(hx.A(k), hx.A(s)))
	}
	return hx.N(tag, xs...)
}

func str(v any) string {
	if s, ok := v.(string); ok {
		return s
	}
	return fmt.Sprintf("<non-string %v>", v)
}

func objSexp(v any) hx.Sexp {
	m, ok := v.(map[string]any)
	if !ok {
		return hx.N("bad-object", hx.A(fmt.Sprint(v)))
	}
	var attrs, rels []hx.Sexp
	if a, ok := m["attributes"].(map[string]any); ok {
		for _, k := range sortedKeys(a) {
			attrs = append(attrs, hx.A(k))
		}
	}
	if r, ok := m["relationships"].(map[string]any); ok {
		for _, k := range sortedKeys(r) {
			rel, _ := r[k].(map[string]any)
			d, has := rel["data"]
			rels = append(rels, hx.L(hx.A(k), linksSexp("links", rel["links"]), dataSexp(d, has)))
		}
	}
	out := []hx.Sexp{hx.A(str(m["type"])), hx.A(str(m["id"])), hx.N("attrs", attrs...), hx.N("rels", rels...)}
	for _, k := range sortedKeys(m) {
		switch k {
		case "type", "id", "attributes", "relationships":
		default:
			out = append(out, hx.N("extra", hx.A(k)))
		}
	}
	return hx.L(out...)
}

func dataSexp(v any, present bool) hx.Sexp {
	if !present {
		return hx.A("nodata")
	}
	switch x := v.(type) {
	case nil:
		return hx.A("null")
	case []any:
		var xs []hx.Sexp
		for _, e := range x {
			xs = append(xs, objSexp(e))
		}
		return hx.N("list", xs...)
	default:
		return hx.N("obj", objSexp(v))
	}
}

// canonical renders a real response in the model driver's output syntax.
func canonical(r Real) string {
	if r.Panic != "" {
		return hx.N("panic").String()
	}
	d, err := parseDoc(r.Body)
	if err != nil {
		return hx.N("wrote", hx.I(int64(r.Status)), hx.A(r.ContentType), hx.N("malformed-body", hx.A(err.Error()))).String()
	}
	var hs []hx.Sexp
	for _, k := range sortedKeys(r.Header) {
		if k == "Content-Type" || k == "Content-Length" {
			continue
		}
		hs = append(hs, hx.L(hx.A(k), hx.A(strings.Join(r.Header[k], "\x00"))))
	}
	version := "none"
	if j, ok := d.top["jsonapi"].(map[string]any); ok {
		if v, ok := j["version"].(string); ok {
			version = v
		}
	}
	var errs []hx.Sexp
	for _, e := range d.errors {
		m, _ := e.(map[string]any)
		st, _ := m["status"].(string)
		errs = append(errs, stSexp(st))
	}
	body := []hx.Sexp{hx.N("jsonapi", hx.A(version)), dataSexp(d.data, d.hasData), hx.N("errors", errs...), linksSexp("links", d.top["links"])}
	for _, k := range sortedKeys(d.top) {
		switch k {
		case "jsonapi", "data", "errors", "links":
		default:
			body = append(body, hx.N("extra", hx.A(k)))
		}
	}
	return hx.N("wrote", hx.I(int64(r.Status)), hx.A(r.ContentType), hx.N("headers", hs...), hx.N("doc", body...)).String()
}

// ---- oracles -----------------------------------------------------------------------------------

type failure struct {
	oracle string // short name of the invariant
	what   string
}

// resourceObjects lists the resource objects of primary data.
func resourceObjects(d *doc) []map[string]any {
	var out []map[string]any
	switch x := d.data.(type) {
	case map[string]any:
		out = append(out, x)
	case []any:
		for _, e := range x {
			if m, ok := e.(map[string]any); ok {
				out = append(out, m)
			}
		}
	}
	return out
}

// documentOracles checks the invariants of the property that need nothing but the response (and,
// for identity and link form, the request path and the world's linkage).
func documentOracles(c *Case, r Real) []failure {
	var fs []failure
	if r.Panic != "" {
		return []failure{{"no-panic", "the handler panicked: " + r.Panic}}
	}
	if r.ContentType != mediaType {
		fs = append(fs, failure{"media-type", fmt.Sprintf("Content-Type is %q", r.ContentType)})
	}
	d, err := parseDoc(r.Body)
	if err != nil {
		return append(fs, failure{"well-formed-json", fmt.Sprintf("body is not a JSON document (%v): %.200q", err, r.Body)})
	}
	for _, k := range sortedKeys(d.top) {
		switch k {
		case "data", "errors", "meta", "jsonapi", "links", "included":
		default:
			fs = append(fs, failure{"well-formed-document", fmt.Sprintf("top-level member %q is not a JSON:API document member: %.200s", k, r.Body)})
		}
	}
	if j, ok := d.top["jsonapi"].(map[string]any); !ok {
		fs = append(fs, failure{"jsonapi-version", fmt.Sprintf("no jsonapi member: %.200s", r.Body)})
	} else if v, ok := j["version"].(string); !ok || v == "" {
		fs = append(fs, failure{"jsonapi-version", fmt.Sprintf("jsonapi member without a version: %.200s", r.Body)})
	}
	if d.hasData && d.hasErrs {
		fs = append(fs, failure{"never-data-and-errors", fmt.Sprintf("document has both data and errors: %.200s", r.Body)})
	}
	if d.hasErrs {
		if len(d.errors) == 0 {
			fs = append(fs, failure{"well-formed-document", "errors member is not a non-empty array"})
		}
		want := 500
		for _, e := range d.errors {
			m, ok := e.(map[string]any)
			if !ok {
				fs = append(fs, failure{"well-formed-document", "an error is not an object"})
				continue
			}
			if st, ok := m["status"].(string); ok && st != "" {
				n, err := strconv.Atoi(st)
				if err != nil {
					n = -1
				}
				want = n
				break
			}
		}
		if r.Status != want {
			fs = append(fs, failure{"status-from-errors", fmt.Sprintf("errors present, status %d, but the first error carrying a status says %d (500 if none): %.200s", r.Status, want, r.Body)})
		}
	} else if r.Status < 200 || r.Status > 299 {
		fs = append(fs, failure{"status-from-errors", fmt.Sprintf("no errors in the document but status %d is not 2xx", r.Status)})
	}
	comps := c.Req.components()
	if d.hasErrs || r.Status < 200 || r.Status > 299 || c.Req.Inject != nil {
		return fs
	}
	// link form inside every returned resource object
	for _, o := range resourceObjects(d) {
		ty, _ := o["type"].(string)
		id, _ := o["id"].(string)
		if _, ok := o["type"].(string); !ok {
			fs = append(fs, failure{"resource-identity", fmt.Sprintf("resource object without a string type: %v", o)})
		}
		if _, ok := o["id"].(string); !ok {
			fs = append(fs, failure{"resource-identity", fmt.Sprintf("resource object without a string id: %v", o)})
		}
		rels, _ := o["relationships"].(map[string]any)
		for _, name := range sortedKeys(rels) {
			rel, _ := rels[name].(map[string]any)
			links, _ := rel["links"].(map[string]any)
			if s, _ := links["self"].(string); s != "/"+ty+"/"+id+"/relationships/"+name {
				fs = append(fs, failure{"links-form", fmt.Sprintf("relationship %q of %s/%s has self link %q", name, ty, id, s)})
			}
			if s, _ := links["related"].(string); s != "/"+ty+"/"+id+"/"+name {
				fs = append(fs, failure{"links-form", fmt.Sprintf("relationship %q of %s/%s has related link %q", name, ty, id, s)})
			}
			if f := additionalLinkOracle(&c.World, ty, name, links); f != nil {
				fs = append(fs, *f)
			}
		}
	}
	objs := resourceObjects(d)
	idOf := func(o map[string]any) RId { return RId{str(o["type"]), str(o["id"])} }
	switch {
	case len(comps) == 1: // created resource: the addressed type, the id Create chose, Location = its URL
		if t := c.World.typ(comps[0]); t != nil && len(objs) == 1 {
			got := idOf(objs[0])
			if got.Type != comps[0] || got.Id != t.Create.Id.Id {
				fs = append(fs, failure{"resource-identity", fmt.Sprintf("POST /%s returned resource %v, created was %v", comps[0], got, t.Create.Id)})
			}
			if loc := r.Header.Get("Location"); r.Status == 201 && loc != "/"+got.Type+"/"+got.Id {
				fs = append(fs, failure{"links-form", fmt.Sprintf("Location %q for created resource %v", loc, got)})
			}
		}
	case len(comps) == 2:
		for _, o := range objs {
			if got := idOf(o); got.Type != comps[0] || got.Id != comps[1] {
				fs = append(fs, failure{"resource-identity", fmt.Sprintf("%s %s returned resource %v", c.Req.Method, c.Req.Path, got)})
			}
		}
	case len(comps) == 3:
		// related resources: each returned object is one of the relationship's linkage ids, in order
		if t := c.World.typ(comps[0]); t != nil {
			if rel := t.rel(comps[2]); rel != nil {
				i := 0
				for _, o := range objs {
					got := idOf(o)
					for i < len(rel.Resolve.Ids) && rel.Resolve.Ids[i] != got {
						i++
					}
					if i >= len(rel.Resolve.Ids) {
						fs = append(fs, failure{"resource-identity", fmt.Sprintf("%s %s returned resource %v which is not (in order) in the linkage %v", c.Req.Method, c.Req.Path, got, rel.Resolve.Ids)})
						break
					}
					i++
				}
			}
		}
	case len(comps) == 4 && comps[2] == "relationships":
		links, _ := d.top["links"].(map[string]any)
		if s, _ := links["self"].(string); s != "/"+comps[0]+"/"+comps[1]+"/relationships/"+comps[3] {
			fs = append(fs, failure{"links-form", fmt.Sprintf("%s %s: self link %q", c.Req.Method, c.Req.Path, s)})
		}
		if s, _ := links["related"].(string); s != "/"+comps[0]+"/"+comps[1]+"/"+comps[3] {
			fs = append(fs, failure{"links-form", fmt.Sprintf("%s %s: related link %q", c.Req.Method, c.Req.Path, s)})
		}
		if f := additionalLinkOracle(&c.World, comps[0], comps[3], links); f != nil {
			fs = append(fs, *f)
		}
	}
	return fs
}
