package main

// The concrete resource schema ("world") of a case: which handlers a type defines and what every
// resolver answers. It is (1) turned into a real jsonapi.Schema, (2) printed as the model's
// abstract resource schema, (3) read by the Go RefStatus and the identity oracle.

import (
	"context"
	"encoding/json"
	"fmt"
	"math"
	"strconv"

	"github.com/ccbrown/api-fu/jsonapi"
	"github.com/ccbrown/api-fu/jsonapi/types"

	"verifharness/hx"
)

// Out is the outcome of a resolver: Kind "found" | "nil" | "err" | "ok"(delete) with the error's
// Status text ("" = an error without status).
type Out struct {
	Kind   string `json:"k"`
	Status string `json:"s,omitempty"`
}

type Row struct {
	Id  string `json:"id"`
	Out Out    `json:"out"`
}

// Table is a handler: absent, or a default outcome plus per-id rows.
type Table struct {
	Defined bool  `json:"defined"`
	Default Out   `json:"default"`
	Rows    []Row `json:"rows,omitempty"`
}

func (t Table) at(id string) Out {
	for _, r := range t.Rows {
		if r.Id == id {
			return r.Out
		}
	}
	return t.Default
}

type RId struct {
	Type string `json:"type"`
	Id   string `json:"id"`
}

type AttrSpec struct {
	Name string `json:"name"`
	// Kind: "val" | "nan" (a value json-iterator cannot marshal) | "err"
	Kind   string `json:"k"`
	Status string `json:"s,omitempty"`
	Value  int    `json:"v,omitempty"` // which value / which unmarshalable value
}

// Linkage outcome of Resolve / AddMembers / RemoveMembers.
type LinkOut struct {
	// Kind: "id" (to-one value) | "ids" (to-many value) | "nil" | "err"
	Kind   string `json:"k"`
	Status string `json:"s,omitempty"`
	Ids    []RId  `json:"ids,omitempty"`
}

type RelSpec struct {
	Name      string  `json:"name"`
	Many      bool    `json:"many"`
	ByDefault bool    `json:"by_default"`
	Resolve   LinkOut `json:"resolve"`
	// Custom: served through sharedLinksResolver (custom_rel.go): a stock resolver wrapped by a custom
	// RelationshipResolver that adds one additional link from a links map it reuses on every call.
	Custom bool     `json:"custom,omitempty"`
	Add    *LinkOut `json:"add,omitempty"`    // nil = AddMembers not defined
	Remove *LinkOut `json:"remove,omitempty"` // nil = RemoveMembers not defined
}

type CreateSpec struct {
	Defined bool `json:"defined"`
	// Kind: "created" | "nil" | "err"
	Kind   string `json:"k"`
	Status string `json:"s,omitempty"`
	Id     RId    `json:"id"`
}

type TypeSpec struct {
	Name   string     `json:"name"`
	Get    Table      `json:"get"`
	Patch  Table      `json:"patch"`
	Create CreateSpec `json:"create"`
	Delete Table      `json:"delete"`
	Attrs  []AttrSpec `json:"attrs,omitempty"`
	Rels   []RelSpec  `json:"rels,omitempty"`
}

type World struct {
	Types []TypeSpec `json:"types"`
	// Share: "" = every name gets its own definition values (as an application that writes its schema as one
	// literal does). Otherwise the key of a process-wide pool (sharing.go): relationships / attributes with the same
	// specification share ONE *RelationshipDefinition / *AttributeDefinition — under two names of one type, in two
	// types, and in every schema built later in the process with the same key — and equal attribute / relationship
	// sets share one map.
	Share string `json:"share,omitempty"`
}

func (w *World) typ(name string) *TypeSpec {
	for i := range w.Types {
		if w.Types[i].Name == name {
			return &w.Types[i]
		}
	}
	return nil
}

func (t *TypeSpec) rel(name string) *RelSpec {
	for i := range t.Rels {
		if t.Rels[i].Name == name {
			return &t.Rels[i]
		}
	}
	return nil
}

// ---- real side -------------------------------------------------------------------------------

type res struct{ id string }

func mkErr(status string) *types.Error {
	return &types.Error{Status: status, Title: "resolver error", Detail: "from the world"}
}

type attrResolver struct{ spec AttrSpec }

var attrValues = []any{"text", 42, nil, true, 1.5, []any{1, "two"}, map[string]any{"nested": map[string]any{"k": []int{1}}}, ""}

func unmarshalableValue(i int) any {
	switch i % 4 {
	case 0:
		return math.NaN()
	case 1:
		return math.Inf(1)
	case 2:
		return make(chan int)
	default:
		return map[string]any{"deep": []any{math.Inf(-1)}}
	}
}

func (a attrResolver) ResolveAttribute(ctx context.Context, r *res) (any, *types.Error) {
	switch a.spec.Kind {
	case "err":
		return nil, mkErr(a.spec.Status)
	case "nan":
		return unmarshalableValue(a.spec.Value), nil
	}
	return attrValues[a.spec.Value%len(attrValues)], nil
}

func toIds(ids []RId) []types.ResourceId {
	out := make([]types.ResourceId, 0, len(ids))
	for _, x := range ids {
		out = append(out, types.ResourceId{Type: x.Type, Id: x.Id})
	}
	return out
}

func manyFunc(o LinkOut) func(ctx context.Context, r *res, members []types.ResourceId) ([]types.ResourceId, *types.Error) {
	return func(ctx context.Context, r *res, members []types.ResourceId) ([]types.ResourceId, *types.Error) {
		switch o.Kind {
		case "err":
			return nil, mkErr(o.Status)
		case "nil":
			return nil, nil
		}
		return toIds(o.Ids), nil
	}
}

func tableFunc(t Table) func(ctx context.Context, id string) (*res, *types.Error) {
	return func(ctx context.Context, id string) (*res, *types.Error) {
		o := t.at(id)
		switch o.Kind {
		case "err":
			return nil, mkErr(o.Status)
		case "nil":
			return nil, nil
		}
		return &res{id: id}, nil
	}
}

func (w *World) build() (*jsonapi.Schema, error) {
	def := &jsonapi.SchemaDefinition{ResourceTypes: map[string]jsonapi.AnyResourceType{}}
	for _, ts := range w.Types {
		ts := ts
		rt := jsonapi.ResourceType[*res]{}
		pool := poolFor(w.Share)
		if len(ts.Attrs) > 0 {
			rt.Attributes = pool.attrMap(ts.Attrs, func() map[string]*jsonapi.AttributeDefinition[*res] {
				m := map[string]*jsonapi.AttributeDefinition[*res]{}
				for _, a := range ts.Attrs {
					a := a
					m[a.Name] = pool.attrDef(a, func() *jsonapi.AttributeDefinition[*res] {
						return &jsonapi.AttributeDefinition[*res]{Resolver: attrResolver{a}}
					})
				}
				return m
			})
		}
		if m := pool.relMapCached(ts.Rels); m != nil {
			rt.Relationships = m
		} else if len(ts.Rels) > 0 {
			rt.Relationships = map[string]*jsonapi.RelationshipDefinition[*res]{}
			pool.storeRelMap(ts.Rels, rt.Relationships)
			for _, rs := range ts.Rels {
				rs := rs
				if d := pool.relDefCached(rs); d != nil {
					rt.Relationships[rs.Name] = d
					continue
				}
				wrap := func(inner jsonapi.RelationshipResolver[*res]) jsonapi.RelationshipResolver[*res] {
					if rs.Custom {
						return newSharedLinksResolver(inner, rs.Name)
					}
					return inner
				}
				if !rs.Many {
					rt.Relationships[rs.Name] = &jsonapi.RelationshipDefinition[*res]{Resolver: wrap(jsonapi.ToOneRelationshipResolver[*res]{
						ResolveByDefault: rs.ByDefault,
						Resolve: func(ctx context.Context, r *res) (*types.ResourceId, *types.Error) {
							switch rs.Resolve.Kind {
							case "err":
								return nil, mkErr(rs.Resolve.Status)
							case "nil":
								return nil, nil
							}
							return &types.ResourceId{Type: rs.Resolve.Ids[0].Type, Id: rs.Resolve.Ids[0].Id}, nil
						},
					})}
					pool.storeRelDef(rs, rt.Relationships[rs.Name])
					continue
				}
				many := jsonapi.ToManyRelationshipResolver[*res]{ResolveByDefault: rs.ByDefault}
				resolve := manyFunc(rs.Resolve)
				many.Resolve = func(ctx context.Context, r *res) ([]types.ResourceId, *types.Error) { return resolve(ctx, r, nil) }
				if rs.Add != nil {
					many.AddMembers = manyFunc(*rs.Add)
				}
				if rs.Remove != nil {
					many.RemoveMembers = manyFunc(*rs.Remove)
				}
				rt.Relationships[rs.Name] = &jsonapi.RelationshipDefinition[*res]{Resolver: wrap(many)}
				pool.storeRelDef(rs, rt.Relationships[rs.Name])
			}
		}
		if ts.Get.Defined {
			rt.Get = tableFunc(ts.Get)
		}
		if ts.Patch.Defined {
			f := tableFunc(ts.Patch)
			rt.Patch = func(ctx context.Context, id string, attributes map[string]json.RawMessage, relationships map[string]any) (*res, *types.Error) {
				return f(ctx, id)
			}
		}
		if ts.Create.Defined {
			c := ts.Create
			rt.Create = func(ctx context.Context, attributes map[string]json.RawMessage, relationships map[string]any) (*res, types.ResourceId, *types.Error) {
				switch c.Kind {
				case "err":
					return nil, types.ResourceId{}, mkErr(c.Status)
				case "nil":
					return nil, types.ResourceId{}, nil
				}
				return &res{id: c.Id.Id}, types.ResourceId{Type: c.Id.Type, Id: c.Id.Id}, nil
			}
		}
		if ts.Delete.Defined {
			d := ts.Delete
			rt.Delete = func(ctx context.Context, id string) *types.Error {
				if o := d.at(id); o.Kind == "err" {
					return mkErr(o.Status)
				}
				return nil
			}
		}
		if _, dup := def.ResourceTypes[ts.Name]; dup {
			return nil, fmt.Errorf("duplicate type name %q", ts.Name)
		}
		def.ResourceTypes[ts.Name] = rt
	}
	return jsonapi.NewSchema(def)
}

// ---- model side --------------------------------------------------------------------------------

// stSexp abstracts an error's Status text: "" | decimal text of n | anything else.
func stSexp(status string) hx.Sexp {
	if status == "" {
		return hx.A("empty")
	}
	if n, err := strconv.ParseUint(status, 10, 31); err == nil && strconv.FormatUint(n, 10) == status {
		return hx.A(status)
	}
	return hx.A("junk")
}

func outSexp(o Out) hx.Sexp {
	switch o.Kind {
	case "err":
		return hx.N("err", stSexp(o.Status))
	case "nil":
		return hx.A("nil")
	case "ok":
		return hx.A("ok")
	}
	return hx.A("found")
}

func tableSexp(t Table) hx.Sexp {
	if !t.Defined {
		return hx.A("none")
	}
	xs := []hx.Sexp{outSexp(t.Default)}
	seen := map[string]bool{}
	for _, r := range t.Rows {
		if seen[r.Id] {
			continue
		}
		seen[r.Id] = true
		xs = append(xs, hx.L(hx.A(r.Id), outSexp(r.Out)))
	}
	return hx.N("tbl", xs...)
}

func idsSexp(ids []RId) []hx.Sexp {
	var xs []hx.Sexp
	for _, x := range ids {
		xs = append(xs, hx.L(hx.A(x.Type), hx.A(x.Id)))
	}
	return xs
}

func linkSexp(o *LinkOut, many bool) hx.Sexp {
	if o == nil {
		return hx.A("none")
	}
	switch o.Kind {
	case "err":
		return hx.N("err", stSexp(o.Status))
	case "nil":
		return hx.A("nil")
	}
	if many {
		return hx.N("ids", idsSexp(o.Ids)...)
	}
	return hx.N("id", hx.A(o.Ids[0].Type), hx.A(o.Ids[0].Id))
}

func (w *World) sexp() hx.Sexp {
	var ts []hx.Sexp
	for _, t := range w.Types {
		var create hx.Sexp
		switch {
		case !t.Create.Defined:
			create = hx.A("none")
		case t.Create.Kind == "err":
			create = hx.N("err", stSexp(t.Create.Status))
		case t.Create.Kind == "nil":
			create = hx.A("nil")
		default:
			create = hx.N("created", hx.A(t.Create.Id.Type), hx.A(t.Create.Id.Id))
		}
		var attrs, rels []hx.Sexp
		for _, a := range t.Attrs {
			var o hx.Sexp
			switch a.Kind {
			case "err":
				o = hx.N("err", stSexp(a.Status))
			case "nan":
				o = hx.A("nan")
			default:
				o = hx.A("val")
			}
			attrs = append(attrs, hx.L(hx.A(a.Name), o))
		}
		for _, r := range t.Rels {
			r := r
			if r.Many {
				rels = append(rels, hx.L(hx.A(r.Name), hx.N("many", hx.B(r.ByDefault), linkSexp(&r.Resolve, true), linkSexp(r.Add, true), linkSexp(r.Remove, true))))
			} else {
				rels = append(rels, hx.L(hx.A(r.Name), hx.N("one", hx.B(r.ByDefault), linkSexp(&r.Resolve, false))))
			}
		}
		ts = append(ts, hx.N("type", hx.A(t.Name), tableSexp(t.Get), tableSexp(t.Patch), create, tableSexp(t.Delete),
			hx.N("attrs", attrs...), hx.N("rels", rels...)))
	}
	return hx.N("schema", ts...)
}
