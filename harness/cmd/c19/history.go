package main

// The history dimension: the property makes the response a function of (schema, request) alone, so
// nothing a process served before — on the same API value or on another one (package-level state!) —
// may change an answer. Two mechanisms:
//
//   - confusable families: groups of requests that a naive cache key would conflate (same Accept
//     values split differently over header lines, same path with another method / Accept / query /
//     body, trailing slash, case, the same request against another schema), served in a random order
//     and then served again, every answer judged against the stateless model and RefStatus. Every
//     family carries a fresh token (filler media type, ignorable query key) so that its keys are new
//     to the process and the order inside the family decides.
//   - a final re-serve pass over a sample of everything served before, interleaved across worlds: the
//     canonical answer must equal the first-time answer.
//
// A failure that disappears when the request is served alone in a fresh process (child process,
// "c19-child") is state-dependent; its history is shrunk with child-process evaluations.

import (
	"bytes"
	"encoding/json"
	"fmt"
	"os"
	"os/exec"
	"strings"

	"github.com/ccbrown/api-fu/jsonapi"

	"verifharness/hx"
)

// Step is an earlier request of a history (World nil = the case's own world).
type Step struct {
	World *World  `json:"world,omitempty"`
	Req   ReqSpec `json:"req"`
}

type worldEntry struct {
	w      World
	schema *jsonapi.Schema
	sexp   string
}

type histStep struct {
	wi  int
	req ReqSpec
	fam int
}

// ---- child process: serve a history in a fresh process, print the last answer --------------------

type childInput struct {
	Steps []Step `json:"steps"` // every step carries its world
}

func childMain() {
	var in childInput
	if err := json.NewDecoder(os.Stdin).Decode(&in); err != nil {
		fmt.Fprintln(os.Stderr, "c19-child:", err)
		os.Exit(2)
	}
	schemas := map[string]*jsonapi.Schema{}
	var last Real
	for i := range in.Steps {
		st := &in.Steps[i]
		key := worldShape(st.World)
		schema, ok := schemas[key]
		if !ok {
			var err error
			if schema, err = st.World.build(); err != nil {
				fmt.Fprintln(os.Stderr, "c19-child:", err)
				os.Exit(2)
			}
			schemas[key] = schema
		}
		last = serve(schema, &st.Req)
	}
	json.NewEncoder(os.Stdout).Encode(last)
}

// fresh serves the case's history and request in a new process and returns the last answer.
func fresh(c *Case) (Real, error) {
	var in childInput
	for _, b := range c.Before {
		w := b.World
		if w == nil {
			w = &c.World
		}
		in.Steps = append(in.Steps, Step{World: w, Req: b.Req})
	}
	in.Steps = append(in.Steps, Step{World: &c.World, Req: c.Req})
	exe, err := os.Executable()
	if err != nil {
		return Real{}, err
	}
	b, _ := json.Marshal(in)
	cmd := exec.Command(exe, "c19-child")
	cmd.Stdin = bytes.NewReader(b)
	cmd.Stderr = os.Stderr
	out, err := cmd.Output()
	if err != nil {
		return Real{}, err
	}
	var real Real
	if err := json.Unmarshal(out, &real); err != nil {
		return Real{}, err
	}
	return real, nil
}

// evalFresh judges the case on an answer obtained in a fresh process.
func (h *harness) evalFresh(c *Case) (*verdict, error) {
	real, err := fresh(c)
	if err != nil {
		return nil, err
	}
	reply := ""
	if h.model != nil {
		rs, err := h.model.AskAll([]string{c.World.sexp().String(), c.Req.sexp().String()})
		if err != nil || rs[0] != "ok" {
			return nil, fmt.Errorf("model driver: %v %v", err, rs)
		}
		reply = rs[1]
	}
	return judge(c, real, reply), nil
}

// ---- confusable families --------------------------------------------------------------------------

const jsonAPI = "application/vnd.api+json"

// splitVariants spreads the same Accept values over header lines in different ways; all of them have
// the same strings.Join(lines, ", ").
func splitVariants(values []string) [][]string {
	out := [][]string{append([]string{}, values...), {strings.Join(values, ", ")}}
	if len(values) >= 3 {
		out = append(out,
			[]string{values[0], strings.Join(values[1:], ", ")},
			[]string{strings.Join(values[:2], ", "), strings.Join(values[2:], ", ")})
	}
	return out
}

// genFamily builds one confusable family around a request that is meant to reach a handler.
func (h *harness) genFamily(r *hx.Rand, wi int, fam int) []histStep {
	w := &h.worlds[wi].w
	tok := fmt.Sprintf("%d", fam)
	base := intentRequest(r, w)
	base.Accept, base.AcceptKind = []string{jsonAPI}, "plain"
	base.RawQuery, base.QueryKind = "Tok"+tok+"=1", "token"
	var members []ReqSpec
	add := func(q ReqSpec, kind string) {
		q.AcceptKind = kind
		members = append(members, q)
	}
	add(base, "family:base")
	// the same Accept values, split differently over header lines
	filler := "text/x" + tok
	valueSets := [][]string{
		{jsonAPI, filler},
		{filler, jsonAPI},
		{jsonAPI + "; ext=u" + tok, jsonAPI, filler},
		{jsonAPI + `; profile="p` + tok, `q"`},                     // joined: one quoted parameter value containing ", "
		{jsonAPI + "; ext=u" + tok, jsonAPI + `; profile=p` + tok}, // split: second line acceptable
		{filler, "*/*"},
		{jsonAPI, jsonAPI + "; ext=u" + tok}, // acceptable instance first, unacceptable last
		{jsonAPI + "; profile=p" + tok, filler, jsonAPI + "; q=0.5"}, // likewise, three values
	}
	for _, vs := range valueSets {
		for _, lines := range splitVariants(vs) {
			q := base
			q.Accept = lines
			add(q, fmt.Sprintf("family:accept-split-%d-lines", len(lines)))
		}
	}
	// header value case, absent vs empty line
	q := base
	q.Accept = []string{"Application/VND.api+JSON"}
	add(q, "family:accept-case")
	q = base
	q.Accept = nil
	add(q, "family:accept-absent")
	q = base
	q.Accept = []string{""}
	add(q, "family:accept-empty-line")
	// same path, other methods
	for _, m := range []string{"GET", "POST", "PATCH", "DELETE", "get", "PUT"} {
		if m != base.Method {
			q := base
			q.Method = m
			add(q, "family:other-method")
		}
	}
	// same path and Accept, other query (good / reserved / malformed), same query other Accept
	for _, raw := range []string{"", "page[size]=" + tok, "sort=" + tok, "Tok" + tok + "[=1", "Tok" + tok + "=2"} {
		q := base
		q.RawQuery = raw
		add(q, "family:other-query")
		q.Accept = []string{jsonAPI + "; ext=u" + tok}
		add(q, "family:other-query-unacceptable")
	}
	// path spelling: trailing slash, upper-case type, double slash, no leading slash
	for _, p := range []string{base.Path + "/", strings.ToUpper(base.Path), "/" + base.Path, strings.TrimPrefix(base.Path, "/")} {
		q := base
		q.Path = p
		add(q, "family:path-spelling")
	}
	// same URL, other body (matching / conflicting / undecodable)
	comps := base.components()
	for _, f := range []string{"resource", "linkage-array", "data-null", "not-json", "empty"} {
		q := base
		q.Body, q.Label = bodyFor(r, w, comps, famIndex(f))
		add(q, "family:other-body")
	}
	var steps []histStep
	for _, m := range members {
		steps = append(steps, histStep{wi: wi, req: m, fam: fam})
	}
	// the same requests against another API value in the same process
	if len(h.worlds) > 1 {
		other := r.Intn(len(h.worlds))
		for _, m := range members[:1+r.Intn(len(members))] {
			if r.Intn(100) < 25 {
				steps = append(steps, histStep{wi: other, req: m, fam: fam})
			}
		}
	}
	hx.Shuffle(r, steps)
	again := append([]histStep{}, steps...)
	hx.Shuffle(r, again)
	return append(steps, again[:len(again)/2]...)
}

// runHistory serves the steps in order (switching API values as needed) and judges every answer
// against the stateless model and RefStatus.
func (h *harness) runHistory(steps []histStep, source string) {
	var replies []string
	if h.model != nil {
		var lines []string
		idx := make([]int, len(steps))
		cur := -1
		for i, st := range steps {
			if st.wi != cur {
				lines = append(lines, h.worlds[st.wi].sexp)
				cur = st.wi
			}
			idx[i] = len(lines)
			lines = append(lines, st.req.sexp().String())
		}
		rs, err := h.model.AskAll(lines)
		if err != nil {
			fmt.Fprintln(os.Stderr, "model driver failed:", err)
			os.Exit(2)
		}
		replies = make([]string, len(steps))
		for i := range steps {
			replies[i] = rs[idx[i]]
		}
	}
	for i, st := range steps {
		we := &h.worlds[st.wi]
		c := Case{World: we.w, Req: st.req}
		real := serve(we.schema, &c.Req)
		reply := ""
		if replies != nil {
			reply = replies[i]
		}
		v := judge(&c, real, reply)
		h.run.Case(fmt.Sprintf("hist|%d|%d|%d", st.wi, st.fam, i), v.goRef != 406 && v.goRef != 400)
		h.run.Count("source:" + source)
		h.run.Count(fmt.Sprintf("status:%d", real.Status))
		h.run.Count("accept:" + c.Req.AcceptKind)
		h.record(&c, v, 1)
		h.remember(st.wi, st.req, v.realObs)
		if v.kind() != "" {
			// the earlier requests of the same family are the candidate history
			for j := 0; j < i; j++ {
				if steps[j].fam == st.fam {
					b := Step{Req: steps[j].req}
					if steps[j].wi != st.wi {
						w := h.worlds[steps[j].wi].w
						b.World = &w
					}
					c.Before = append(c.Before, b)
				}
			}
			h.report(c, v)
		}
	}
}

// ---- re-serve pass ----------------------------------------------------------------------------------

type remembered struct {
	wi  int
	req ReqSpec
	obs string
}

// remember keeps a uniform sample (reservoir) of what was served, with the first-time answer.
func (h *harness) remember(wi int, req ReqSpec, obs string) {
	h.served++
	const capN = 4000
	if len(h.sample) < capN {
		h.sample = append(h.sample, remembered{wi, req, obs})
		return
	}
	if j := h.sampleRand.Intn(h.served); j < capN {
		h.sample[j] = remembered{wi, req, obs}
	}
}

// reserve serves the sample again, interleaved across worlds, after everything else the process has
// served: the canonical answer must be the first-time answer.
func (h *harness) reserve() {
	hx.Shuffle(h.sampleRand, h.sample)
	for _, m := range h.sample {
		we := &h.worlds[m.wi]
		c := Case{World: we.w, Req: m.req}
		real := serve(we.schema, &c.Req)
		obs := canonical(real)
		ok := obs == m.obs
		h.run.Case("reserve|"+hx.Hash(m.obs+c.Req.sexp().String()), false)
		h.run.Count("source:re-serve")
		h.run.Oblige(obState, "oracle", 1, true, "")
		if !ok {
			what := fmt.Sprintf("[state-independence] %s %q (accept %q, query %q) answered %s when first served and %s when served again later in the same process", c.Req.Method, c.Req.Path, c.Req.Accept, c.Req.RawQuery, m.obs, obs)
			h.run.Oblige(obState, "oracle", 0, false, what)
			c.Before = []Step{{Req: m.req}}
			h.run.Violate("property", what, "", false, map[string]any{"world": c.World, "req": c.Req, "before": c.Before, "first_answer": m.obs, "later_answer": obs,
				"note": "the history between the two answers is everything the run served in between; it is not minimised"})
		}
	}
}
