package main

// Character-class probes (added after seed C19-22 slipped through: the member-name classes became a
// [256] table indexed with uint8(r), so U+0161 counted as 'a' — but only strictly inside a name).
//
// Principle (the "truncation alias" class, see design-notes/C07.md): wherever the JSON:API code
// classifies characters, put at EVERY position where the class is tested (first, inner, last, alone)
//
//   - every ASCII character itself (all class boundaries ±1, bit-folding neighbours such as c^0x20),
//   - the runes congruent to every ASCII character modulo 2^7 (Latin-1), 2^8 and 2^16,
//   - Unicode look-alikes a broader class test (unicode.IsLetter/IsDigit, case folding) would admit,
//   - U+0080, U+FFFD, noncharacters, astral runes, and invalid UTF-8 byte sequences.
//
// Class-test sites of jsonapi/*.go: validateMemberName on the query parameter family and on every
// bracketed part (handler.go:181,192), the a-z test that separates reserved from
// implementation-specific families (handler.go:202), validateMemberName on resource type,
// attribute and relationship names (schema.go:15, resource.go:265,275). Path segments (type, id,
// relationship name) are not classified, only looked up — they are probed as well (a normalising
// lookup would show as a wrong status / identity).
//
// The verdict (400 vs the route's own status; NewSchema error vs nil) comes from ref.go
// (refMemberName / refSupportedKey) and from the Lean model on the same runes.

import (
	"fmt"
	"net/url"
	"os"
	"strings"
	"unicode/utf8"

	"verifharness/hx"
)

type probeChar struct {
	s   string // the character (UTF-8), or an invalid byte sequence
	tag string
}

// offsets added to every ASCII character: 0 (itself), 2^7, multiples of 2^8 in several blocks
// (Latin Extended-A, Cyrillic, CJK, halfwidth forms), multiples of 2^16 (planes 1, 2, 16).
var aliasOffsets = []rune{0, 0x80, 0x100, 0x400, 0x4E00, 0xFF00, 0x10000, 0x20000, 0x100000}

var lookalikeRunes = []rune{
	0x80, 0x85, 0xA0, 0xAA, 0xAD, 0xB2, 0xB5, 0xBA, 0xBD, 0xC0, 0xDF, 0xE9, 0xFF, // Latin-1: controls, NBSP, ª, soft hyphen, ², µ, º, ½, À, ß, é, ÿ
	0x130, 0x131, 0x17F, 0x212A, 0x2126, // İ ı ſ K Ω: case-folding partners of ASCII letters
	0x391, 0x3B1, 0x410, 0x430, 0x441, // Greek Α α, Cyrillic А а с
	0x660, 0x661, 0x669, 0x6F0, 0x966, // Arabic-Indic / Devanagari digits
	0xFF10, 0xFF19, 0xFF21, 0xFF3A, 0xFF41, 0xFF5A, 0xFF0D, 0xFF3F, 0xFF3B, 0xFF3D, // full-width 0 9 A Z a z - _ [ ]
	0x2010, 0x2011, 0x2012, 0x2013, 0x2014, 0x2212, 0xFE63, 0xFE58, 0x203F, 0x2040, 0xFE4D, // hyphens, dashes, minus, underties
	0x2000, 0x200B, 0x2028, 0x3000, 0xFEFF, // spaces, ZWSP, LS, BOM
	0x1D7CE, 0x1D400, 0x1F600, 0x10000, 0x10FFFF, 0xFFFD, 0xFFFE, 0xFFFF, 0xD7FF, 0xE000, // astral digits/letters, emoji, plane edges, U+FFFD, noncharacters, surrogate neighbours
	0x2D00 + '-', 0x5F00 + '_', 0x6100 + 'a', // low byte AND high byte an allowed character
}

// invalid UTF-8: stray bytes, overlong 'a' / '-' / '/', truncated sequences, an encoded surrogate, > U+10FFFF
var invalidSequences = []string{"\xff", "\x80", "\xe1", "\xc1\xa1", "\xc0\xad", "\xc0\xaf", "\xe1\x80", "\xed\xa0\x80", "\xf4\x90\x80\x80", "\xc5", "\xe0\x81\xa1"}

func probeChars() []probeChar {
	var out []probeChar
	seen := map[string]bool{}
	add := func(s, tag string) {
		if !seen[s] {
			seen[s] = true
			out = append(out, probeChar{s, tag})
		}
	}
	for _, off := range aliasOffsets {
		for a := rune(0); a < 128; a++ {
			r := a + off
			if !utf8.ValidRune(r) {
				continue
			}
			tag := fmt.Sprintf("ascii+0x%x", off)
			if off == 0 {
				tag = "ascii"
			}
			add(string(r), tag)
		}
	}
	for _, r := range lookalikeRunes {
		add(string(r), "lookalike")
	}
	for _, s := range invalidSequences {
		add(s, "invalid-utf8")
	}
	return out
}

// positions puts c at every class-test position of a name built on the skeleton: alone, replacing
// the first / an inner / the last character, inserted before / inside / after.
func positions(skeleton, c string) []string {
	rs := []rune(skeleton)
	n := len(rs)
	mid := n / 2
	if mid == 0 {
		mid = 1
	}
	out := []string{c, c + skeleton, string(rs[:mid]) + c + string(rs[mid:]), skeleton + c, c + string(rs[1:]), string(rs[:n-1]) + c}
	if n > 2 {
		out = append(out, string(rs[:mid])+c+string(rs[mid+1:]))
	}
	return out
}

type keyProbe struct {
	key, kind string
}

// keyProbes: every query key that carries c at a class-test position.
//
//	family, implementation-specific skeleton "Ab"; reserved skeletons "page" (supported) and "sort"
//	(unsupported unless c makes it a valid non-a-z name: "s-rt", "sOrt", "s0rt");
//	bracketed part of a supported family, first and second bracket; after the closing bracket.
func keyProbes(c probeChar) []keyProbe {
	var out []keyProbe
	for _, sk := range []string{"Ab", "page", "sort"} {
		for _, n := range positions(sk, c.s) {
			out = append(out, keyProbe{n, "family:" + sk})
		}
	}
	for _, n := range positions("ab", c.s) {
		out = append(out, keyProbe{"page[" + n + "]", "bracket:1"}, keyProbe{"Foo[x][" + n + "]", "bracket:2"})
	}
	out = append(out, keyProbe{"page[a]" + c.s, "after-bracket"}, keyProbe{"Foo" + c.s + "[a]", "before-bracket"})
	return out
}

var allKeyProbes = func() (out []struct {
	keyProbe
	tag string
}) {
	for _, c := range probeChars() {
		for _, k := range keyProbes(c) {
			out = append(out, struct {
				keyProbe
				tag string
			}{k, c.tag})
		}
	}
	return out
}()

// charclassBase: a request that reaches a handler and whose own RefStatus is neither 400 nor 406, so
// that a 400 can only come from the probed key.
func charclassBase(r *hx.Rand, w *World) ReqSpec {
	plain := acceptVariants[0]
	for tries := 0; tries < 30; tries++ {
		q := intentRequest(r, w)
		q.Accept, q.AcceptKind, q.RawQuery, q.QueryKind = plain.lines, plain.kind, "", "none"
		if st := refStatus(w, &q); st != 400 && st != 406 {
			return q
		}
	}
	return ReqSpec{Method: "GET", Path: "/", Accept: plain.lines, AcceptKind: plain.kind, QueryKind: "none"}
}

// charclassRequests: slice `part` of `parts` of the full probe-key family (the slices of a quick run
// cover the family exactly once), one key per request, plus a few path probes.
func charclassRequests(r *hx.Rand, w *World, part, parts int) []ReqSpec {
	var out []ReqSpec
	base := charclassBase(r, w)
	for i := part; i < len(allKeyProbes); i += parts {
		p := allKeyProbes[i]
		q := base
		q.RawQuery = url.QueryEscape(p.key) + "=1"
		q.QueryKind = "charclass/" + p.tag + "/" + p.kind
		out = append(out, q)
		if i%7 == 0 {
			// the same key next to a supported one, in both orders (the verdict must not depend on company)
			q2 := q
			if i%2 == 0 {
				q2.RawQuery = "page%5Bsize%5D=1&" + q.RawQuery
			} else {
				q2.RawQuery = q.RawQuery + "&Zz=1"
			}
			out = append(out, q2)
		}
	}
	// path probes: a registered type name / a relationship name / an id with c at some position
	chars := probeChars()
	plain := acceptVariants[0]
	for n := 0; n < 60; n++ {
		c := hx.Pick(r, chars)
		if strings.Contains(c.s, "/") || !utf8.ValidString(c.s) {
			// a path segment that is not valid UTF-8 cannot be echoed in a JSON document (the encoder writes
			// U+FFFD): identity and link form are not defined for it, the statement does not cover it
			continue
		}
		t := &w.Types[r.Intn(len(w.Types))]
		ty, id, rel := t.Name, hx.Pick(r, idPool), "nope"
		if len(t.Rels) > 0 {
			rel = hx.Pick(r, t.Rels).Name
		}
		switch r.Intn(3) {
		case 0:
			ty = hx.Pick(r, positions(ty, c.s))
		case 1:
			id = hx.Pick(r, positions("1x", c.s))
		default:
			rel = hx.Pick(r, positions(rel, c.s))
		}
		comps := [][]string{{ty, id}, {ty, id, rel}, {ty, id, "relationships", rel}}[r.Intn(3)]
		q := ReqSpec{Method: hx.Pick(r, []string{"GET", "GET", "PATCH", "DELETE", "POST"}), Path: "/" + strings.Join(comps, "/"),
			Accept: plain.lines, AcceptKind: plain.kind, QueryKind: "none"}
		q.Body, q.Label = bodyFor(r, w, comps, pickFam(r))
		out = append(out, q)
	}
	return out
}

// ---- NewSchema: the same probes as type / attribute / relationship names --------------------------

// schemaNameProbes checks jsonapi.NewSchema's verdict on every probe name in every role against the
// reference member-name definition. A schema accepted although a name is not a member name is served
// once: when the answer carries the invalid name, that is a malformed document (property, with the
// request as failing input); otherwise the member-name rules no longer correspond (no failing input).
func (h *harness) schemaNameProbes() {
	const ob = "oracle: jsonapi.NewSchema accepts a type / attribute / relationship name iff it is a member name by the reference definition (every probe character at every position; id / type; attribute = relationship name)"
	const obModel = "tie: Lean MemberNames.newSchemaOK (hypothesis of emitted_member_names) = jsonapi.NewSchema accepts, on the name-probe schemas and every generated schema"
	type probe struct {
		w              World
		want           bool
		role, name, tg string
	}
	var probes []probe
	mk := func(role int, name string) (World, string) {
		t := TypeSpec{Name: "t", Get: Table{Defined: true, Default: Out{Kind: "found"}}}
		roleName := ""
		switch role {
		case 0:
			t.Name, roleName = name, "type"
		case 1:
			t.Attrs, roleName = []AttrSpec{{Name: name, Kind: "val"}}, "attribute"
		default:
			t.Rels, roleName = []RelSpec{{Name: name, ByDefault: true, Resolve: LinkOut{Kind: "nil"}}}, "relationship"
		}
		return World{Types: []TypeSpec{t}}, roleName
	}
	for _, c := range probeChars() {
		for _, name := range positions("ab", c.s) {
			for role := 0; role < 3; role++ {
				w, roleName := mk(role, name)
				probes = append(probes, probe{w, refMemberName(name), roleName, name, c.tag})
			}
		}
	}
	for _, name := range []string{"id", "type", "Id", "TYPE", "ids", "typ", "i-d", "id-", "a", "9", "relationships", "attributes", "links", "data"} {
		for role := 0; role < 3; role++ {
			w, roleName := mk(role, name)
			probes = append(probes, probe{w, refMemberName(name) && !(role > 0 && (name == "id" || name == "type")), roleName, name, "reserved-word"})
		}
	}
	// one name used for an attribute and for a relationship of the same type / of different types
	{
		w, _ := mk(1, "ab")
		w.Types[0].Rels = []RelSpec{{Name: "ab", ByDefault: true, Resolve: LinkOut{Kind: "nil"}}}
		probes = append(probes, probe{w, false, "attribute+relationship", "ab", "clash"})
		w2, _ := mk(1, "ab")
		w2.Types = append(w2.Types, TypeSpec{Name: "u", Rels: []RelSpec{{Name: "ab", ByDefault: true, Resolve: LinkOut{Kind: "nil"}}}})
		probes = append(probes, probe{w2, true, "attribute+relationship", "ab", "no-clash-across-types"})
	}
	var replies []string
	if h.model != nil {
		var lines []string
		for i := range probes {
			x := probes[i].w.sexp()
			x.List[0] = hx.A("newschema")
			lines = append(lines, x.String())
		}
		rs, err := h.model.AskAll(lines)
		if err != nil {
			fmt.Fprintln(os.Stderr, "model driver failed:", err)
			os.Exit(2)
		}
		replies = rs
	}
	// the three Lean member-name predicates (transliterated Go, Spec.memberName, the decision procedure of the
	// specification-text grammar) on every probe name, against the reference and NewSchema's verdict on the type name
	if h.model != nil {
		const obGrammar = "tie: Lean validateMemberName = Spec.memberName = MemberNames.recommendedB (specification-text grammar) = Go reference = jsonapi.NewSchema's verdict on the name as resource type name, for every probe name"
		var lines []string
		var idx []int
		for i := range probes {
			if probes[i].role == "type" {
				lines = append(lines, hx.L(hx.A("membername"), hx.A(probes[i].name)).String())
				idx = append(idx, i)
			}
		}
		rs, err := h.model.AskAll(lines)
		if err != nil {
			fmt.Fprintln(os.Stderr, "model driver failed:", err)
			os.Exit(2)
		}
		badG := 0
		for k, i := range idx {
			want := fmt.Sprintf("(name %v %v %v)", probes[i].want, probes[i].want, probes[i].want)
			if rs[k] != want {
				if badG++; badG == 1 {
					what := fmt.Sprintf("Lean member-name predicates answer %s for %+q, the reference says %v", rs[k], probes[i].name, probes[i].want)
					h.run.Oblige(obGrammar, "correspondence", 0, false, what)
					h.run.Violate("correspondence", what, "", true, map[string]any{"name": probes[i].name, "model_reply": rs[k]})
				}
			}
		}
		h.run.Oblige(obGrammar, "correspondence", len(idx), true, "")
	}
	bad, badModel := 0, 0
	for i, p := range probes {
		schema, err := p.w.build()
		h.run.Case("schema-name|"+p.role+"|"+hx.Quote(p.name)+"|"+p.tg, false)
		h.run.Count(fmt.Sprintf("schema-name:%s/%s/valid=%v", p.role, p.tg, p.want))
		if replies != nil {
			if m := replies[i]; (m == "accept") != (err == nil) || (m != "accept" && m != "reject") {
				if badModel++; badModel <= 1 {
					what := fmt.Sprintf("Lean newSchemaOK answers %q for the %s name %+q, jsonapi.NewSchema error: %v", m, p.role, p.name, err)
					h.run.Oblige(obModel, "correspondence", 0, false, what)
					if (err == nil) == p.want {
						// the implementation agrees with the reference: only the Lean transliteration is off
						h.run.Violate("correspondence", what, "", true, map[string]any{"world": p.w, "model_reply": m})
					}
				}
			}
		}
		if (err == nil) == p.want {
			continue
		}
		if bad++; bad > 1 { // one report is enough; hx keeps three replays per kind and the request-level failures should get the others
			continue
		}
		if err != nil {
			h.schemaRejected(p.w, err)
			continue
		}
		q := ReqSpec{Method: "GET", Path: "/" + p.w.Types[0].Name + "/1", Accept: acceptVariants[0].lines, AcceptKind: "plain", QueryKind: "none"}
		real := serve(schema, &q)
		what := fmt.Sprintf("jsonapi.NewSchema accepts the %s name %q (%+q), which is not allowed (member names: letters, digits, inner '-' '_' only; not id / type; not both attribute and relationship)", p.role, p.name, p.name)
		kind, noInput := "correspondence", true
		if strings.Contains(string(real.Body), js(p.name)) && real.Status >= 200 && real.Status <= 299 {
			kind, noInput = "property", false
			what += fmt.Sprintf("; GET %q then answers %d with a document that carries it: %.300s", q.Path, real.Status, real.Body)
		}
		h.run.Oblige(ob, "oracle", 0, false, what)
		h.run.Violate(kind, what, "", noInput, map[string]any{"world": p.w, "req": q, "raw_body": string(real.Body), "invalid_name": p.name, "role": p.role})
	}
	h.run.Oblige(ob, "oracle", len(probes), true, "")
	if replies != nil {
		h.run.Oblige(obModel, "correspondence", len(probes), true, "")
	}
}

// charclassParts: the probe-key family is spread over this many consecutive worlds (= the number of
// worlds of a quick run, so that every quick run serves the whole family once).
const charclassParts = 40

func worldNamesValid(w *World) bool {
	for _, t := range w.Types {
		if !refMemberName(t.Name) {
			return false
		}
		for _, a := range t.Attrs {
			if !refMemberName(a.Name) {
				return false
			}
		}
		for _, r := range t.Rels {
			if !refMemberName(r.Name) {
				return false
			}
		}
	}
	return true
}

// tieNewSchemaAccepted: a generated schema that jsonapi.NewSchema accepted must be accepted by the
// Lean newSchemaOK as well (the hypothesis of emitted_member_names then holds for the schema served).
func (h *harness) tieNewSchemaAccepted(w *World) {
	if h.model == nil {
		return
	}
	x := w.sexp()
	x.List[0] = hx.A("newschema")
	m, err := h.model.Ask(x.String())
	if err != nil {
		fmt.Fprintln(os.Stderr, "model driver failed:", err)
		os.Exit(2)
	}
	const obModel = "tie: Lean MemberNames.newSchemaOK (hypothesis of emitted_member_names) = jsonapi.NewSchema accepts, on the name-probe schemas and every generated schema"
	if m != "accept" {
		what := fmt.Sprintf("Lean newSchemaOK answers %q for a generated schema that jsonapi.NewSchema accepts", m)
		h.run.Oblige(obModel, "correspondence", 1, false, what)
		h.run.Violate("correspondence", what, "", true, map[string]any{"world": *w, "model_reply": m})
		return
	}
	h.run.Oblige(obModel, "correspondence", 1, true, "")
}
