package main

// Request headers other than Accept (added after seed C19-25 slipped through: the handler took its
// query parameters from r.ParseForm()/r.Form, so a write request sent with
// Content-Type: application/x-www-form-urlencoded had its JSON body eaten as a form).
//
// The property makes the answer a function of method, path, query string, Accept and body. Every
// other request header must therefore be irrelevant; the harness never set one. Now: on write routes
// with a body that fits the route (and on the other routes too) every Content-Type of
// contentTypeVariants × {no query, a supported query, an unsupported query} × {JSON body, a form-encoded
// body whose keys would be query parameters}; plus method-override / content-negotiation look-alike
// headers. The abstract request sent to the model has no headers: the tie and RefStatus say "same
// answer as without them".

import (
	"strings"

	"verifharness/hx"
)

var contentTypeVariants = [][][2]string{
	nil, // absent
	{{"Content-Type", "application/vnd.api+json"}},
	{{"Content-Type", `application/vnd.api+json; profile="https://example.com/p"`}},
	{{"Content-Type", "application/vnd.api+json; charset=utf-8"}},
	{{"Content-Type", "application/json"}},
	{{"Content-Type", "application/x-www-form-urlencoded"}},
	{{"Content-Type", "application/x-www-form-urlencoded; charset=UTF-8"}},
	{{"Content-Type", "APPLICATION/X-WWW-FORM-URLENCODED"}},
	{{"Content-Type", "multipart/form-data; boundary=xyz"}},
	{{"Content-Type", "text/plain"}},
	{{"Content-Type", ""}},
	{{"Content-Type", "application/x-www-form-urlencoded"}, {"Content-Type", "application/vnd.api+json"}},
	{{"Content-Type", "garbage;;="}},
}

var otherHeaderVariants = [][][2]string{
	{{"X-HTTP-Method-Override", "GET"}},
	{{"X-HTTP-Method-Override", "DELETE"}, {"X-Method-Override", "PATCH"}},
	{{"Content-Encoding", "gzip"}},
	{{"Transfer-Encoding", "chunked"}},
	{{"Content-Length", "0"}},
	{{"Accept-Charset", "utf-8"}, {"Accept-Encoding", "gzip"}, {"Accept-Language", "de"}},
	{{"Content-Type", "application/x-www-form-urlencoded"}, {"X-HTTP-Method-Override", "GET"}},
	{{"Cookie", "sort=1; page=2"}, {"Authorization", "Bearer x"}},
	{{"X-Forwarded-Prefix", "/api"}, {"X-Original-URL", "/a/1"}, {"Forwarded", "host=x"}},
	{{"If-None-Match", "*"}, {"If-Modified-Since", "Mon, 02 Jan 2006 15:04:05 GMT"}, {"Range", "bytes=0-1"}, {"Expect", "100-continue"}},
}

// writeRoutes enumerates the write routes of the world with a body that fits the route.
func writeRoutes(r *hx.Rand, w *World) []ReqSpec {
	plain := acceptVariants[0]
	var out []ReqSpec
	mk := func(method string, comps []string, fam string, ty, id string) {
		q := ReqSpec{Method: method, Path: "/" + strings.Join(comps, "/"), Accept: plain.lines, AcceptKind: plain.kind, QueryKind: "none"}
		q.Body, q.Label = genBody(r, famIndex(fam), ty, id)
		out = append(out, q)
	}
	for ti := range w.Types {
		t := &w.Types[ti]
		mk("POST", []string{t.Name}, "resource", t.Name, "")
		ids := []string{hx.Pick(r, idPool)}
		for _, row := range t.Patch.Rows {
			ids = append(ids, row.Id)
		}
		for _, row := range t.Get.Rows {
			ids = append(ids, row.Id)
		}
		for _, id := range ids {
			mk("PATCH", []string{t.Name, id}, hx.Pick(r, []string{"resource", "resource+attrs+rels"}), t.Name, id)
			mk("DELETE", []string{t.Name, id}, "empty", "", "")
			for _, rel := range t.Rels {
				if tgt, ok := relatedTarget(w, t.Name, rel.Name); ok {
					mk("PATCH", []string{t.Name, id, rel.Name}, "resource", tgt.Type, tgt.Id)
				}
				if rel.Many {
					mk("PATCH", []string{t.Name, id, "relationships", rel.Name}, "linkage-array", t.Name, "1")
					mk("POST", []string{t.Name, id, "relationships", rel.Name}, "linkage-array", t.Name, "1")
					mk("DELETE", []string{t.Name, id, "relationships", rel.Name}, "linkage-array", t.Name, "1")
				} else {
					mk("PATCH", []string{t.Name, id, "relationships", rel.Name}, hx.Pick(r, []string{"resource", "data-null"}), t.Name, "1")
				}
			}
		}
	}
	return out
}

// headerRequests: a sample of the write routes (and two read routes) × every header variant × query
// and body shapes.
func headerRequests(r *hx.Rand, w *World, routes int) []ReqSpec {
	all := writeRoutes(r, w)
	hx.Shuffle(r, all)
	if len(all) > routes {
		all = all[:routes]
	}
	for k := 0; k < 2; k++ {
		q := intentRequest(r, w)
		q.RawQuery, q.QueryKind = "", "none"
		all = append(all, q)
	}
	formBodies := []string{"Foo=1", "sort=x", "page%5Bsize%5D=1&Zz=2", "a%zz=1", "%7B%22data%22%3Anull%7D=", "data=null"}
	var out []ReqSpec
	for _, base := range all {
		for vi, hs := range append(append([][][2]string{}, contentTypeVariants...), otherHeaderVariants...) {
			q := base
			q.Headers = hs
			q.QueryKind = "headers"
			out = append(out, q)
			switch vi % 3 {
			case 0:
				q.RawQuery = "page%5Bsize%5D=1"
				out = append(out, q)
			case 1:
				q.RawQuery = "sort=x"
				out = append(out, q)
			}
		}
		// a form-encoded body (its keys would be parameters if the body were read as a form), with and without a
		// query string in the URL as well
		for _, fb := range formBodies {
			for _, hs := range contentTypeVariants[4:8] {
				q := base
				q.Headers, q.QueryKind = hs, "headers+form-body"
				q.Body, q.Label = fb, BodyLabel{Family: "form-encoded"}
				if r.Bool() {
					q.RawQuery = hx.Pick(r, []string{"page%5Bsize%5D=1", "Foo=2", "sort=y"})
				}
				out = append(out, q)
			}
		}
	}
	return out
}

func headerKey(q *ReqSpec) string {
	if len(q.Headers) == 0 {
		return ""
	}
	var b strings.Builder
	for _, hv := range q.Headers {
		b.WriteString("|" + hv[0] + ":" + hv[1])
	}
	return b.String()
}
