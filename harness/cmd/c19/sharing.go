package main

// The sharing dimension (added after seed C19-26 slipped through: the standard link suffixes were
// cached ON the *RelationshipDefinition by validate(name), so a definition registered under two names
// kept the name validated last). Nothing in the API says a definition value belongs to one name: an
// application may write `owner := &RelationshipDefinition{…}` once and use it for `author` and
// `reviewer`, for two resource types, or in two schemas built one after the other. The answer must be
// a function of (schema, request), so the harness shares on purpose:
//
//   - a pool per World.Share key, living as long as the process: relationships / attributes with the
//     same specification (everything but the name) get ONE definition pointer; equal attribute /
//     relationship sets get one map;
//   - generated "twins": a relationship / attribute copied under another name into the same type and
//     into other types (genTwins);
//   - a second schema built later from the same pool with the names rotated (variantOf), after which
//     the first schema's route grid is served again.
//
// The links-form / identity / member-name oracles and the tie judge every answer as before.

import (
	"encoding/json"

	"github.com/ccbrown/api-fu/jsonapi"

	"verifharness/hx"
)

type defPool struct {
	attrDefs map[string]*jsonapi.AttributeDefinition[*res]
	attrMaps map[string]map[string]*jsonapi.AttributeDefinition[*res]
	relDefs  map[string]*jsonapi.RelationshipDefinition[*res]
	relMaps  map[string]map[string]*jsonapi.RelationshipDefinition[*res]
}

var pools = map[string]*defPool{}

// poolFor returns the pool of a share key; nil (= no sharing) for "".
func poolFor(key string) *defPool {
	if key == "" {
		return nil
	}
	p := pools[key]
	if p == nil {
		p = &defPool{map[string]*jsonapi.AttributeDefinition[*res]{}, map[string]map[string]*jsonapi.AttributeDefinition[*res]{},
			map[string]*jsonapi.RelationshipDefinition[*res]{}, map[string]map[string]*jsonapi.RelationshipDefinition[*res]{}}
		pools[key] = p
	}
	return p
}

func specKey(v any) string { b, _ := json.Marshal(v); return string(b) }

func (p *defPool) attrDef(a AttrSpec, mk func() *jsonapi.AttributeDefinition[*res]) *jsonapi.AttributeDefinition[*res] {
	if p == nil {
		return mk()
	}
	a.Name = ""
	k := specKey(a)
	if d := p.attrDefs[k]; d != nil {
		return d
	}
	d := mk()
	p.attrDefs[k] = d
	return d
}

func (p *defPool) attrMap(as []AttrSpec, mk func() map[string]*jsonapi.AttributeDefinition[*res]) map[string]*jsonapi.AttributeDefinition[*res] {
	if p == nil {
		return mk()
	}
	k := specKey(as)
	if m := p.attrMaps[k]; m != nil {
		return m
	}
	m := mk()
	p.attrMaps[k] = m
	return m
}

// relKey: a custom relationship's resolver carries its name (additional link), so it is shared only
// under the same name.
func relKey(rs RelSpec) string {
	if !rs.Custom {
		rs.Name = ""
	}
	return specKey(rs)
}

func (p *defPool) relDefCached(rs RelSpec) *jsonapi.RelationshipDefinition[*res] {
	if p == nil {
		return nil
	}
	return p.relDefs[relKey(rs)]
}

func (p *defPool) storeRelDef(rs RelSpec, d *jsonapi.RelationshipDefinition[*res]) {
	if p != nil {
		p.relDefs[relKey(rs)] = d
	}
}

func (p *defPool) relMapCached(rels []RelSpec) map[string]*jsonapi.RelationshipDefinition[*res] {
	if p == nil || len(rels) == 0 {
		return nil
	}
	return p.relMaps[specKey(rels)]
}

func (p *defPool) storeRelMap(rels []RelSpec, m map[string]*jsonapi.RelationshipDefinition[*res]) {
	if p != nil {
		p.relMaps[specKey(rels)] = m
	}
}

// genTwins copies relationships and attributes under other names into the same type and into other
// types, and (sometimes) gives a type the whole attribute / relationship set of another one.
func genTwins(r *hx.Rand, w *World) {
	unused := func(pool []string, used func(string) bool) string {
		for _, n := range pool {
			if !used(n) {
				return n
			}
		}
		return ""
	}
	for ti := range w.Types {
		t := &w.Types[ti]
		nameUsed := func(tt *TypeSpec) func(string) bool {
			return func(n string) bool {
				if tt.rel(n) != nil {
					return true
				}
				for _, a := range tt.Attrs {
					if a.Name == n {
						return true
					}
				}
				return false
			}
		}
		for n := r.Intn(3); n > 0 && len(t.Rels) > 0; n-- {
			src := t.Rels[r.Intn(len(t.Rels))]
			src.Custom = false
			dst := t
			// an erroring member stays in its type: the generator keeps the simultaneous errors of one resource on
			// one status (Go's map order must not decide the answer)
			if len(w.Types) > 1 && r.Bool() && src.Resolve.Kind != "err" {
				dst = &w.Types[r.Intn(len(w.Types))]
			}
			name := unused(append([]string{"twin", "other", "z9"}, relNames...), nameUsed(dst))
			if dst != t && r.Bool() && !nameUsed(dst)(src.Name) {
				name = src.Name // the same name in another type
			}
			if name == "" {
				continue
			}
			for i := range t.Rels {
				if t.Rels[i].Name == src.Name {
					t.Rels[i].Custom = false
				}
			}
			src.Name = name
			dst.Rels = append(dst.Rels, src)
		}
		if len(t.Attrs) > 0 && r.Bool() {
			src := t.Attrs[r.Intn(len(t.Attrs))]
			dst := &w.Types[r.Intn(len(w.Types))]
			if src.Kind == "err" {
				dst = t
			}
			if name := unused(append([]string{"twin-attr", "copy"}, attrNames...), nameUsed(dst)); name != "" {
				src.Name = name
				dst.Attrs = append(dst.Attrs, src)
			}
		}
	}
	if len(w.Types) > 1 && r.Intn(100) < 35 {
		a, b := r.Intn(len(w.Types)), r.Intn(len(w.Types))
		if a != b {
			w.Types[b].Attrs = append([]AttrSpec{}, w.Types[a].Attrs...)
			w.Types[b].Rels = append([]RelSpec{}, w.Types[a].Rels...)
		}
	}
}

// variantOf: the same world with every type's relationship and attribute names rotated by one (so
// that, built from the same pool, every shared definition is registered under another name).
func variantOf(w World) World {
	var v World
	b, _ := json.Marshal(w)
	json.Unmarshal(b, &v)
	for ti := range v.Types {
		t := &v.Types[ti]
		if n := len(t.Rels); n > 1 {
			first := t.Rels[0].Name
			for i := 0; i < n-1; i++ {
				t.Rels[i].Name = t.Rels[i+1].Name
			}
			t.Rels[n-1].Name = first
		} else if n == 1 && t.rel("renamed") == nil {
			clash := false
			for _, a := range t.Attrs {
				clash = clash || a.Name == "renamed"
			}
			if !clash {
				t.Rels[0].Name = "renamed"
			}
		}
		if n := len(t.Attrs); n > 1 {
			first := t.Attrs[0].Name
			for i := 0; i < n-1; i++ {
				t.Attrs[i].Name = t.Attrs[i+1].Name
			}
			t.Attrs[n-1].Name = first
		}
	}
	return v
}
