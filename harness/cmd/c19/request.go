package main

// The concrete request of a case, its abstraction to the model's abstract request (thin: only
// standard-library parsing — strings.Split, mime.ParseMediaType, url.Values — plus the body label
// the generator attached by construction), and the call into the real handler.

import (
	"fmt"
	"io"
	"mime"
	"net/http"
	"net/http/httptest"
	"net/url"
	"sort"
	"strings"

	"github.com/ccbrown/api-fu/jsonapi"

	"verifharness/hx"
)

// BodyLabel is what json-iterator makes of the body for each of the request structs the handler
// decodes into. The generator knows it by construction (the body texts come from a fixed family).
type BodyLabel struct {
	PatchOK   bool   `json:"patch_ok"` // types.PatchResourceRequest decodes
	PatchType string `json:"patch_type,omitempty"`
	PatchId   string `json:"patch_id,omitempty"`
	PostOK    bool   `json:"post_ok"` // types.PostResourceRequest decodes
	PostType  string `json:"post_type,omitempty"`
	RelOK     bool   `json:"rel_ok"` // types.RelationshipData decodes
	MemOK     bool   `json:"mem_ok"` // types.PostRelationshipRequest / DeleteRelationshipRequest decodes
	Family    string `json:"family"`
}

type ReqSpec struct {
	Method   string    `json:"method"`
	Path     string    `json:"path"`      // r.URL.Path (decoded form)
	RawQuery string    `json:"raw_query"` // r.URL.RawQuery
	Accept   []string  `json:"accept"`    // Accept header lines (nil = header absent)
	Body     string    `json:"body"`
	Label    BodyLabel `json:"label"`
	// Headers: further request headers (name, value), e.g. Content-Type. They are NOT part of the abstract
	// request: the property makes the answer a function of method, path, query, Accept and body only.
	Headers [][2]string `json:"headers,omitempty"`
	// Inject, when non-nil, is a list of error Status texts that replaces the router's answer (verif
	// hook, inject_hook.go): the request then only exercises the response-writing half of ServeHTTP.
	Inject *[]string `json:"inject,omitempty"`
	// generator annotations (for the distribution only)
	AcceptKind string `json:"accept_kind,omitempty"`
	QueryKind  string `json:"query_kind,omitempty"`
}

type Case struct {
	World World   `json:"world"`
	Req   ReqSpec `json:"req"`
	// Before: requests served earlier in the same process (history.go); the property makes the answer
	// to Req independent of them.
	Before []Step `json:"before,omitempty"`
}

func (q *ReqSpec) components() []string {
	return strings.Split(strings.TrimPrefix(q.Path, "/"), "/")
}

func (q *ReqSpec) queryKeys() []string {
	u := url.URL{RawQuery: q.RawQuery}
	var keys []string
	for k := range u.Query() {
		keys = append(keys, k)
	}
	sort.Strings(keys)
	return keys
}

type acceptInst struct {
	media  string
	params []string
	err    bool
}

func (q *ReqSpec) acceptInstances() []acceptInst {
	var out []acceptInst
	for _, a := range q.Accept {
		m, ps, err := mime.ParseMediaType(a)
		inst := acceptInst{media: m, err: err != nil}
		for k := range ps {
			inst.params = append(inst.params, k)
		}
		sort.Strings(inst.params)
		out = append(out, inst)
	}
	return out
}

// sexp is the abstract request sent to the model.
func (q *ReqSpec) sexp() hx.Sexp {
	if q.Inject != nil {
		var sts []hx.Sexp
		for _, s := range *q.Inject {
			sts = append(sts, stSexp(s))
		}
		return hx.N("inject", sts...)
	}
	var comps, acc, keys []hx.Sexp
	for _, c := range q.components() {
		comps = append(comps, hx.A(c))
	}
	for _, a := range q.acceptInstances() {
		var ps []hx.Sexp
		for _, p := range a.params {
			ps = append(ps, hx.A(p))
		}
		acc = append(acc, hx.L(hx.A(a.media), hx.L(ps...), hx.B(a.err)))
	}
	for _, k := range q.queryKeys() {
		keys = append(keys, hx.A(k))
	}
	l := q.Label
	patch, post, rel, mem := hx.A("err"), hx.A("err"), hx.A("err"), hx.A("err")
	if l.PatchOK {
		patch = hx.N("ok", hx.A(l.PatchType), hx.A(l.PatchId))
	}
	if l.PostOK {
		post = hx.N("ok", hx.A(l.PostType))
	}
	if l.RelOK {
		rel = hx.A("ok")
	}
	if l.MemOK {
		mem = hx.A("ok")
	}
	return hx.N("req", hx.A(q.Method), hx.B(strings.HasPrefix(q.Path, "/")), hx.N("path", comps...), hx.N("accept", acc...),
		hx.N("query", keys...), hx.N("body", patch, post, rel, mem))
}

// Real is what the real handler did.
type Real struct {
	Panic       string
	Status      int
	ContentType string
	Header      http.Header
	Body        []byte
}

func serve(schema *jsonapi.Schema, q *ReqSpec) (out Real) {
	req := &http.Request{
		Method:     q.Method,
		URL:        &url.URL{Path: q.Path, RawQuery: q.RawQuery},
		Proto:      "HTTP/1.1",
		ProtoMajor: 1,
		ProtoMinor: 1,
		Header:     http.Header{},
		Body:       io.NopCloser(strings.NewReader(q.Body)),
		Host:       "example.com",
		RequestURI: "",
	}
	for _, a := range q.Accept {
		req.Header.Add("Accept", a)
	}
	for _, hv := range q.Headers {
		req.Header.Add(hv[0], hv[1])
	}
	req.ContentLength = int64(len(q.Body))
	if q.Inject != nil {
		req = withInjection(req, *q.Inject)
	}
	rec := httptest.NewRecorder()
	defer func() {
		if p := recover(); p != nil {
			out.Panic = fmt.Sprint(p)
		}
	}()
	jsonapi.API{Schema: schema}.ServeHTTP(rec, req)
	out.Status = rec.Code
	out.Header = rec.Header()
	out.ContentType = rec.Header().Get("Content-Type")
	out.Body = rec.Body.Bytes()
	return out
}
