package main

// A custom RelationshipResolver as the interface documents it ("the relationship will automatically
// have links added to it, but resolvers may add additional links to the result"): it delegates to a
// stock to-one/to-many resolver and adds one additional link — from ONE links map that it hands out
// on every call (a package-level `types.Links{"describedby": …}` is the natural way to write that).
// The handler must never write into the resolver's map: the self/related links of a resource object
// are that resource's own (round-5 seed C19-13 filled them into the shared map, pinning the first
// served id).

import (
	"context"
	"net/url"

	"github.com/ccbrown/api-fu/jsonapi"
	"github.com/ccbrown/api-fu/jsonapi/types"
)

const extraLinkKey = "describedby"

func extraLinkValue(relName string) string { return "/schemas/relationships/" + relName }

type sharedLinksResolver struct {
	inner jsonapi.RelationshipResolver[*res]
	links types.Links // the same map on every call
}

func newSharedLinksResolver(inner jsonapi.RelationshipResolver[*res], relName string) sharedLinksResolver {
	return sharedLinksResolver{inner: inner, links: types.Links{extraLinkKey: extraLinkValue(relName)}}
}

func (c sharedLinksResolver) ResolveRelationship(ctx context.Context, r *res, dataRequested bool, params url.Values) (types.Relationship, *types.Error) {
	rel, err := c.inner.ResolveRelationship(ctx, r, dataRequested, params)
	if err != nil {
		return rel, err
	}
	rel.Links = c.links
	return rel, nil
}

func (c sharedLinksResolver) AddRelationshipMembers(ctx context.Context, r *res, members []types.ResourceId) (types.Relationship, *types.Error) {
	rel, err := c.inner.AddRelationshipMembers(ctx, r, members)
	if err != nil {
		return rel, err
	}
	rel.Links = c.links
	return rel, nil
}

func (c sharedLinksResolver) RemoveRelationshipMembers(ctx context.Context, r *res, members []types.ResourceId) (types.Relationship, *types.Error) {
	rel, err := c.inner.RemoveRelationshipMembers(ctx, r, members)
	if err != nil {
		return rel, err
	}
	rel.Links = c.links
	return rel, nil
}

// additionalLinkOracle: a relationship object (or relationship document) carries the resolver's
// additional link exactly when the relationship is served by the custom resolver; the canonical
// observable compared with the model leaves the additional link out (the model abstracts it away).
func additionalLinkOracle(w *World, ty, relName string, links map[string]any) *failure {
	t := w.typ(ty)
	if t == nil {
		return nil
	}
	rs := t.rel(relName)
	if rs == nil {
		return nil
	}
	got, has := links[extraLinkKey]
	if rs.Custom {
		if s, _ := got.(string); !has || s != extraLinkValue(relName) {
			return &failure{"additional-links", "relationship " + relName + " of type " + ty + " is served by a resolver that adds the link " + extraLinkKey + "=" + extraLinkValue(relName) + "; the response has " + str(got)}
		}
	} else if has {
		return &failure{"additional-links", "relationship " + relName + " of type " + ty + " carries a link " + extraLinkKey + " no resolver added"}
	}
	return nil
}
