//go:build c19hook

package main

// Uses the `verif` hook of repo-patches/C19/03-hook-response-injection.patch: the request context
// carries an error list that replaces the router's answer, so that ServeHTTP's status derivation is
// exercised on multi-error lists (the router only ever builds one-element lists).

import (
	"context"
	"net/http"

	"github.com/ccbrown/api-fu/jsonapi"
	"github.com/ccbrown/api-fu/jsonapi/types"
)

const injectAvailable = true

func withInjection(req *http.Request, statuses []string) *http.Request {
	errs := jsonapi.VerifInjectedErrors{}
	for _, s := range statuses {
		errs = append(errs, types.Error{Status: s, Title: "injected"})
	}
	return req.WithContext(context.WithValue(req.Context(), jsonapi.VerifInjectKey{}, errs))
}
