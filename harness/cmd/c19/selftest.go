package main

// Development aid (C19_SELFTEST=1): compares the by-construction body labels with what json-iterator
// makes of the body texts. Not part of the check.

import (
	"bytes"
	"fmt"

	jsoniter "github.com/json-iterator/go"

	"github.com/ccbrown/api-fu/jsonapi/types"

	"verifharness/hx"
)

func selfTest() {
	r := hx.NewRand(7)
	bad := 0
	for n := 0; n < 200; n++ {
		for fi := range bodyFamilies {
			b, l := genBody(r, fi, hx.Pick(r, typeNames), hx.Pick(r, idPool))
			var p types.PatchResourceRequest
			e1 := jsoniter.NewDecoder(bytes.NewReader([]byte(b))).Decode(&p)
			var q types.PostResourceRequest
			e2 := jsoniter.NewDecoder(bytes.NewReader([]byte(b))).Decode(&q)
			var rd types.RelationshipData
			e3 := jsoniter.NewDecoder(bytes.NewReader([]byte(b))).Decode(&rd)
			var m types.PostRelationshipRequest
			e4 := jsoniter.NewDecoder(bytes.NewReader([]byte(b))).Decode(&m)
			var d types.DeleteRelationshipRequest
			e5 := jsoniter.NewDecoder(bytes.NewReader([]byte(b))).Decode(&d)
			ok := (e1 == nil) == l.PatchOK && (e2 == nil) == l.PostOK && (e3 == nil) == l.RelOK && (e4 == nil) == l.MemOK && (e5 == nil) == l.MemOK
			if l.PatchOK && (p.Data.Type != l.PatchType || p.Data.Id != l.PatchId) {
				ok = false
			}
			if l.PostOK && q.Data.Type != l.PostType {
				ok = false
			}
			if !ok {
				bad++
				fmt.Printf("LABEL MISMATCH family %s body %q label %+v: patch err=%v (%q,%q) post err=%v %q rel err=%v mem err=%v/%v\n", l.Family, b, l, e1, p.Data.Type, p.Data.Id, e2, q.Data.Type, e3, e4, e5)
			}
		}
	}
	fmt.Println("selftest mismatches:", bad)
}
