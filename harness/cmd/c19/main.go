// Harness for C19 — the JSON:API handler always answers with a well-formed, correctly-statused
// document.
//
// Real side: jsonapi.API.ServeHTTP on an httptest.ResponseRecorder for a generated resource schema
// ("world": handler subsets, attributes, to-one/to-many relationships, resolver outcomes) and a
// generated request (method × path depth 0..6 × Accept variants × query-parameter families ×
// bodies). Model side: lean/ApiFu/C19 (driver c19model) on the *abstract* request (request.go).
//
//	(1) tie: canonical observable (status, content type, headers, document shape) of the real
//	    response == the model's serveHTTP output, exactly;
//	(2) model-free oracles on every real response: no panic, media type, well-formed JSON:API
//	    document, jsonapi.version, never data+errors, status-from-errors rule, resource identity,
//	    link form (obs.go);
//	(3) model-free: real status == Go RefStatus (ref.go), and Go RefStatus == Lean Spec.refStatus.
package main

import (
	"encoding/json"
	"fmt"
	"os"
	"strings"

	"github.com/ccbrown/api-fu/jsonapi"

	"verifharness/hx"
)

const (
	obCorr   = "tie: model serveHTTP = jsonapi.API.ServeHTTP (status, content type, headers, canonical document)"
	obDoc    = "oracle: document invariants on the real response (no panic, media type, well-formed JSON, jsonapi.version, never data+errors, status-from-errors, resource identity, link form, every member name a valid member name)"
	obRef    = "oracle: real status = RefStatus (independent Go transcription of the documented rules)"
	obSpec   = "cross-check: Lean Spec.refStatus = Go RefStatus on the abstracted request"
	obState  = "oracle: state independence — a request served again later in the same process (after other requests, on other API values) gets its first-time answer"
	keyF19a  = "F-19a-marshal-fallback-not-a-document"
	keyF19b  = "F-19b-relationship-route-without-get-404"
	ruleText = "cases = (generated resource schema, request); requests: method(10) × path depth 0..6 (known/unknown type, ids incl. empty/unicode/'relationships', relationship/attribute/unknown names) × 25 hand-picked Accept variants + systematic Accept sequences (all sequences of 1 and 2 instance kinds over 10 kinds in both orders, sampled length 3..5 with an acceptable and an unacceptable JSON:API instance at random positions, each in up to 5 line layouts) × 61 query-key variants + character-class probes (every ASCII character and its aliases modulo 2^7, 2^8, 2^16 in several blocks, Unicode look-alikes, invalid UTF-8 — at the first / inner / last / only position of the parameter family (implementation-specific, `page`, `sort` skeletons) and of bracketed names, after and before brackets; the same names as type / attribute / relationship names through NewSchema; as path segments) × 24 body families (matching/conflicting/undecodable) × request headers other than Accept on write routes with a fitting body (13 Content-Type variants incl. form-urlencoded / multipart / duplicated, 10 sets of method-override, encoding, conditional, forwarding, cookie headers; form-encoded bodies whose keys would be parameters) ; 40 % of the schemas share definition values (one *RelationshipDefinition / *AttributeDefinition / map under two names, in two types, in a second schema built later with the names rotated, after which the first schema's route grid is served again) ; per schema a method×route grid and an Accept×query grid are enumerated, the rest is random; history dimension: per schema several confusable families (same Accept values split differently over header lines, same path with other method/Accept/query/body/spelling, same request on another schema) served in random order and again, plus a final re-serve pass over a sample of everything served (answers must equal the first-time answers). distinct = distinct (schema, abstract request); non-trivial = negotiation and the parameter check pass and the path's first component is a defined type at depth 1..4 (the request reaches the routing tree)"
)

type harness struct {
	run      *hx.Run
	model    *hx.Model
	reported map[string]int // violations already shrunk and written, per signature and finding key

	worlds     []worldEntry // every API value of this process (history.go)
	recentOK   []ReqSpec    // the most recent successful requests on the current world (candidate history of a state-dependent failure)
	recentWi   int
	sample     []remembered
	sampleRand *hx.Rand
	served     int
	// extraBefore: steps that precede every request of the current batch (a schema built later from the same
	// definition pool, sharing.go); they become the history of a failure found in that batch
	extraBefore []Step
	families    int
}

type verdict struct {
	real     Real
	realObs  string
	modelObs string
	goRef    int
	leanRef  int
	hasModel bool
	fails    []failure // oracle failures (document invariants, RefStatus)
	corr     string    // tie disagreement
	spec     string    // Lean/Go RefStatus disagreement
}

func (v *verdict) kind() string {
	for _, f := range v.fails {
		if f.oracle == "no-panic" {
			return "crash"
		}
	}
	if len(v.fails) > 0 {
		for _, f := range v.fails {
			if f.oracle != "additional-links" {
				return "property"
			}
		}
		// keeping a custom resolver's additional link is the resolver interface's documentation, not
		// part of C19's statement: a disagreement there is reported without claiming the property
		return "correspondence"
	}
	if v.corr != "" || v.spec != "" {
		return "correspondence"
	}
	return ""
}

func (v *verdict) signature() string {
	if len(v.fails) > 0 {
		return v.kind() + ":" + v.fails[0].oracle
	}
	if v.corr != "" {
		return "correspondence:tie"
	}
	if v.spec != "" {
		return "correspondence:spec"
	}
	return ""
}

func (v *verdict) what() string {
	var parts []string
	for _, f := range v.fails {
		parts = append(parts, "["+f.oracle+"] "+f.what)
	}
	if v.corr != "" {
		parts = append(parts, v.corr)
	}
	if v.spec != "" {
		parts = append(parts, v.spec)
	}
	return strings.Join(parts, " ; ")
}

// normalise re-prints an S-expression with the Go printer (so both sides are quoted alike).
func normalise(s string) string {
	x, err := hx.ParseSexp(s)
	if err != nil {
		return "unparsable: " + s
	}
	return x.String()
}

// judge evaluates the oracles on a real response and compares with the model's reply ("" = no model).
func judge(c *Case, real Real, reply string) *verdict {
	v := &verdict{real: real, realObs: canonical(real), goRef: refStatus(&c.World, &c.Req)}
	v.fails = documentOracles(c, real)
	v.fails = append(v.fails, memberNameOracle(real)...)
	if real.Panic == "" && real.Status != v.goRef {
		v.fails = append(v.fails, failure{"ref-status", fmt.Sprintf("%s %q (accept %q, other headers %q, query %q, body %.120q) answered %d, RefStatus is %d", c.Req.Method, c.Req.Path, c.Req.Accept, c.Req.Headers, c.Req.RawQuery, c.Req.Body, real.Status, v.goRef)})
	}
	if reply == "" {
		return v
	}
	v.hasModel = true
	x, err := hx.ParseSexp(reply)
	if err != nil || !x.IsList || len(x.List) != 3 || x.List[0].Atom != "out" {
		v.corr = fmt.Sprintf("unexpected model reply %q", reply)
		return v
	}
	v.modelObs = x.List[1].String()
	fmt.Sscan(x.List[2].Atom, &v.leanRef)
	if v.modelObs != normalise(v.realObs) {
		v.corr = fmt.Sprintf("model and implementation differ: implementation %s, model %s", v.realObs, v.modelObs)
	}
	if v.leanRef != v.goRef {
		v.spec = fmt.Sprintf("Lean Spec.refStatus = %d, Go RefStatus = %d", v.leanRef, v.goRef)
	}
	return v
}

// evalOne runs a single case on both sides (used for corpus, replay and shrinking).
func (h *harness) evalOne(c *Case) (*verdict, error) {
	schema, err := c.World.build()
	if err != nil {
		return nil, err
	}
	for i := range c.Before {
		bs := schema
		if c.Before[i].World != nil {
			if bs, err = c.Before[i].World.build(); err != nil {
				return nil, err
			}
		}
		serve(bs, &c.Before[i].Req)
	}
	real := serve(schema, &c.Req)
	reply := ""
	if h.model != nil {
		rs, err := h.model.AskAll([]string{c.World.sexp().String(), c.Req.sexp().String()})
		if err != nil {
			return nil, err
		}
		if rs[0] != "ok" {
			return nil, fmt.Errorf("model rejected the schema: %s", rs[0])
		}
		reply = rs[1]
	}
	return judge(c, real, reply), nil
}

func classify(c *Case, v *verdict) string {
	for _, f := range v.fails {
		switch f.oracle {
		case "jsonapi-version", "well-formed-document":
			if v.real.Status == 500 && strings.Contains(string(v.real.Body), `"title":"Internal Server Error"`) && !strings.Contains(string(v.real.Body), `"errors"`) {
				return keyF19a
			}
		case "ref-status":
			comps := c.Req.components()
			if t := c.World.typ(comps[0]); t != nil && !t.Get.Defined && len(comps) >= 3 && v.real.Status == 404 && v.goRef == 405 {
				return keyF19b
			}
		}
	}
	return ""
}

// schemaRejected: jsonapi.NewSchema refused a world whose names all are member names by the
// reference definition (refMemberName). The handler cannot be exercised on it; the member-name rules
// no longer correspond to the model's.
func (h *harness) schemaRejected(w World, err error) {
	h.run.Count("world:rejected-by-NewSchema")
	what := "jsonapi.NewSchema rejects a schema whose type/attribute/relationship names are all valid member names: " + err.Error()
	h.run.Oblige(obCorr, "correspondence", 0, false, what)
	h.run.Violate("correspondence", what, "", true, map[string]any{"world": w, "new_schema_error": err.Error()})
}

func (h *harness) record(c *Case, v *verdict, n int) {
	h.run.Oblige(obDoc, "oracle", n, true, "")
	h.run.Oblige(obRef, "oracle", n, true, "")
	if v == nil || !v.hasModel {
		return
	}
	h.run.Oblige(obCorr, "correspondence", n, true, "")
	h.run.Oblige(obSpec, "correspondence", n, true, "")
}

// report shrinks a failing case and records the violation.
func (h *harness) report(c Case, v *verdict) {
	sig := v.signature()
	cur, curV := c, v
	if k := sig + "|" + classify(&c, v); h.reported[k] >= 3 {
		// hx keeps three replays per (kind, finding key); further hits are only counted
		h.run.Violate(v.kind(), v.what(), classify(&c, v), v.kind() == "correspondence", nil)
		return
	} else {
		h.reported[k]++
	}
	// Is the failure state-dependent? Serve the request alone in a fresh process.
	eval := h.evalOne
	stateNote := ""
	alone := Case{World: c.World, Req: c.Req}
	if va, err := h.evalFresh(&alone); err == nil && va.signature() != sig {
		// alone it is answered differently: the history matters; all evaluations move to fresh processes
		eval = h.evalFresh
		if vh, err := h.evalFresh(&cur); err == nil && vh.signature() == sig {
			curV = vh
			stateNote = "state-dependent"
		} else {
			stateNote = "[state-dependent: alone in a fresh process the request is answered " + va.realObs + "; the recorded history (earlier requests of its family) does not reproduce it in a fresh process, the cause lies further back in the run] "
			eval = nil
		}
	} else {
		cur.Before = nil
	}
	try := func(cand Case) bool {
		if eval == nil {
			return false
		}
		v2, err := eval(&cand)
		if err != nil || v2.signature() != sig {
			return false
		}
		cur, curV = cand, v2
		return true
	}
	for changed, rounds := true, 0; changed && rounds < 40; rounds++ {
		changed = false
		for _, cand := range shrinkCandidates(cur) {
			if try(cand) {
				changed = true
				break
			}
		}
	}
	kind := curV.kind()
	docFail, refFail := false, false
	for _, f := range curV.fails {
		if f.oracle == "ref-status" {
			refFail = true
		} else {
			docFail = true
		}
	}
	if stateNote == "state-dependent" {
		stateNote = "[state-dependent] "
		alone := Case{World: cur.World, Req: cur.Req}
		if va, err := h.evalFresh(&alone); err == nil {
			stateNote = "[state-dependent: alone in a fresh process the request is answered " + va.realObs + "] "
		}
	}
	what := stateNote + curV.what()
	if len(cur.Before) > 0 {
		what += fmt.Sprintf(" ; served before in the same process: %d request(s), first %s %q accept %q", len(cur.Before), cur.Before[0].Req.Method, cur.Before[0].Req.Path, cur.Before[0].Req.Accept)
	}
	if docFail {
		h.run.Oblige(obDoc, "oracle", 0, false, what)
	}
	if refFail {
		h.run.Oblige(obRef, "oracle", 0, false, what)
	}
	if curV.corr != "" {
		h.run.Oblige(obCorr, "correspondence", 0, false, what)
	}
	if curV.spec != "" {
		h.run.Oblige(obSpec, "correspondence", 0, false, what)
	}
	replay := map[string]any{"world": cur.World, "req": cur.Req, "before": cur.Before, "implementation": curV.realObs, "model": curV.modelObs,
		"ref_status_go": curV.goRef, "ref_status_lean": curV.leanRef, "raw_body": string(curV.real.Body)}
	h.run.Violate(kind, what, classify(&cur, curV), kind == "correspondence", replay)
}

func shrinkCandidates(c Case) []Case {
	var out []Case
	clone := func() Case {
		var d Case
		b, _ := json.Marshal(c)
		json.Unmarshal(b, &d)
		return d
	}
	// history: drop halves, then single steps
	if n := len(c.Before); n > 0 {
		if n > 3 {
			d := clone()
			d.Before = d.Before[n/2:]
			out = append(out, d)
			d = clone()
			d.Before = d.Before[:n/2]
			out = append(out, d)
		}
		for i := 0; i < n; i++ {
			d := clone()
			d.Before = append(d.Before[:i], d.Before[i+1:]...)
			out = append(out, d)
		}
	}
	comps := c.Req.components()
	for i := range c.World.Types {
		if len(c.World.Types) > 1 && (len(comps) == 0 || c.World.Types[i].Name != comps[0]) {
			d := clone()
			d.World.Types = append(d.World.Types[:i], d.World.Types[i+1:]...)
			out = append(out, d)
		}
		t := c.World.Types[i]
		for j := range t.Attrs {
			d := clone()
			d.World.Types[i].Attrs = append(d.World.Types[i].Attrs[:j], d.World.Types[i].Attrs[j+1:]...)
			out = append(out, d)
		}
		for j := range t.Rels {
			d := clone()
			d.World.Types[i].Rels = append(d.World.Types[i].Rels[:j], d.World.Types[i].Rels[j+1:]...)
			out = append(out, d)
			if len(t.Rels[j].Resolve.Ids) > 1 {
				for k := range t.Rels[j].Resolve.Ids {
					d := clone()
					ids := d.World.Types[i].Rels[j].Resolve.Ids
					d.World.Types[i].Rels[j].Resolve.Ids = append(ids[:k], ids[k+1:]...)
					out = append(out, d)
				}
			}
			if t.Rels[j].Add != nil {
				d := clone()
				d.World.Types[i].Rels[j].Add = nil
				out = append(out, d)
			}
			if t.Rels[j].Remove != nil {
				d := clone()
				d.World.Types[i].Rels[j].Remove = nil
				out = append(out, d)
			}
		}
		for _, pick := range []func(*TypeSpec) *Table{
			func(t *TypeSpec) *Table { return &t.Get }, func(t *TypeSpec) *Table { return &t.Patch }, func(t *TypeSpec) *Table { return &t.Delete }} {
			if tb := pick(&t); len(tb.Rows) > 0 {
				d := clone()
				pick(&d.World.Types[i]).Rows = nil
				out = append(out, d)
			}
			if tb := pick(&t); tb.Defined && (len(comps) == 0 || t.Name != comps[0]) {
				d := clone()
				pick(&d.World.Types[i]).Defined = false
				out = append(out, d)
			}
		}
		if t.Create.Defined {
			d := clone()
			d.World.Types[i].Create.Defined = false
			out = append(out, d)
		}
	}
	if len(c.Req.Accept) != 1 || c.Req.Accept[0] != mediaType {
		d := clone()
		d.Req.Accept, d.Req.AcceptKind = []string{mediaType}, "plain"
		out = append(out, d)
	}
	if len(c.Req.Accept) > 1 {
		for i := range c.Req.Accept {
			d := clone()
			d.Req.Accept = append(d.Req.Accept[:i], d.Req.Accept[i+1:]...)
			out = append(out, d)
		}
	}
	if len(c.Req.Headers) > 0 {
		d := clone()
		d.Req.Headers = nil
		out = append(out, d)
		for i := range c.Req.Headers {
			if len(c.Req.Headers) > 1 {
				d := clone()
				d.Req.Headers = append(d.Req.Headers[:i], d.Req.Headers[i+1:]...)
				out = append(out, d)
			}
		}
	}
	if c.Req.RawQuery != "" {
		d := clone()
		d.Req.RawQuery, d.Req.QueryKind = "", "none"
		out = append(out, d)
		if parts := strings.Split(c.Req.RawQuery, "&"); len(parts) > 1 {
			for i := range parts {
				d := clone()
				d.Req.RawQuery = strings.Join(append(append([]string{}, parts[:i]...), parts[i+1:]...), "&")
				out = append(out, d)
			}
		}
	}
	if c.Req.Inject != nil && len(*c.Req.Inject) > 0 {
		for i := range *c.Req.Inject {
			d := clone()
			l := append(append([]string{}, (*c.Req.Inject)[:i]...), (*c.Req.Inject)[i+1:]...)
			d.Req.Inject = &l
			out = append(out, d)
		}
	}
	if c.Req.Body != "" {
		d := clone()
		d.Req.Body, d.Req.Label = "", BodyLabel{Family: "empty"}
		out = append(out, d)
		if c.Req.Label.PatchOK && c.Req.Label.Family != "resource" {
			d := clone()
			d.Req.Body, d.Req.Label = genBody(hx.NewRand(1), 0, c.Req.Label.PatchType, c.Req.Label.PatchId)
			out = append(out, d)
		}
	}
	return out
}

func worldShape(w *World) string {
	b, _ := json.Marshal(w)
	return hx.Hash(string(b))
}

// runBatch evaluates many requests against one world.
func (h *harness) runBatch(w World, schema *jsonapi.Schema, reqs []ReqSpec, source string) {
	var replies []string
	if h.model != nil {
		lines := []string{w.sexp().String()}
		for i := range reqs {
			lines = append(lines, reqs[i].sexp().String())
		}
		rs, err := h.model.AskAll(lines)
		if err != nil || rs[0] != "ok" {
			fmt.Fprintln(os.Stderr, "model driver failed:", err, rs)
			os.Exit(2)
		}
		replies = rs[1:]
	}
	shape := worldShape(&w)
	for i := range reqs {
		c := Case{World: w, Req: reqs[i]}
		real := serve(schema, &c.Req)
		reply := ""
		if replies != nil {
			reply = replies[i]
		}
		v := judge(&c, real, reply)
		comps := c.Req.components()
		known := c.World.typ(comps[0]) != nil
		nontrivial := c.Req.Inject == nil && v.goRef != 406 && known && len(comps) <= 4 && !(v.goRef == 400 && !queryAllSupported(&c.Req))
		h.run.Case(shape+"|"+c.Req.sexp().String()+headerKey(&c.Req), nontrivial)
		h.run.Count("source:" + source)
		h.run.Count(fmt.Sprintf("status:%d", real.Status))
		h.run.Count("method:" + c.Req.Method)
		h.run.Count(fmt.Sprintf("depth:%d", len(comps)))
		h.run.Count("accept:" + acceptCountKey(&c.Req))
		h.run.Count("query:" + c.Req.QueryKind)
		h.run.Count("body:" + c.Req.Label.Family)
		if c.Req.Inject != nil {
			h.run.Count(fmt.Sprintf("inject:errors=%d", len(*c.Req.Inject)))
		}
		if real.Panic == "" {
			if d, err := parseDoc(real.Body); err == nil {
				switch {
				case d.hasErrs:
					h.run.Count("doc:errors")
				case !d.hasData:
					h.run.Count("doc:no-data")
				case d.data == nil:
					h.run.Count("doc:data-null")
				default:
					if _, isList := d.data.([]any); isList {
						h.run.Count("doc:data-list")
					} else {
						h.run.Count("doc:data-object")
					}
				}
				if real.Status == 500 && d.hasErrs && strings.Contains(string(real.Body), "unsupported value") {
					h.run.Count("doc:marshal-fallback")
				}
			}
		}
		h.record(&c, v, 1)
		if len(h.worlds) > 0 && c.Req.Inject == nil {
			h.remember(len(h.worlds)-1, c.Req, v.realObs)
			if h.recentWi != len(h.worlds)-1 {
				h.recentWi, h.recentOK = len(h.worlds)-1, nil
			}
			if v.kind() != "" {
				c.Before = append(c.Before, h.extraBefore...)
				for _, q := range h.recentOK {
					c.Before = append(c.Before, Step{Req: q})
				}
			}
			if real.Panic == "" && real.Status >= 200 && real.Status <= 299 && v.kind() == "" {
				h.recentOK = append(h.recentOK, c.Req)
				if len(h.recentOK) > 40 {
					h.recentOK = h.recentOK[len(h.recentOK)-40:]
				}
			}
		}
		if v.kind() != "" {
			h.report(c, v)
		}
	}
}

var gridMethods = []string{"GET", "POST", "PATCH", "DELETE", "PUT", "get"}

// acceptCountKey keeps the distribution readable: systematic sequences are counted by length, layout
// and by where the acceptable JSON:API instance stands relative to an unacceptable one.
func acceptCountKey(q *ReqSpec) string {
	k := q.AcceptKind
	if !strings.HasPrefix(k, "seq[") {
		return k
	}
	inner := k[4:strings.Index(k, "]")]
	layout := k[strings.Index(k, "]")+2:]
	kinds := strings.Split(inner, ",")
	firstOK, lastBad := -1, -1
	for i, x := range kinds {
		switch x {
		case "plain", "profile":
			if firstOK < 0 {
				firstOK = i
			}
		case "ext", "charset", "q", "profile+other", "jsonapi-parse-error":
			lastBad = i
		}
	}
	order := "no-acceptable"
	switch {
	case firstOK >= 0 && lastBad < 0:
		order = "only-acceptable"
	case firstOK >= 0 && lastBad > firstOK:
		order = "acceptable-before-unacceptable"
	case firstOK >= 0:
		order = "unacceptable-before-acceptable"
	}
	return fmt.Sprintf("seq/len=%d/%s/%s", len(kinds), layout, order)
}

func queryAllSupported(q *ReqSpec) bool {
	for _, k := range q.queryKeys() {
		if !refSupportedKey(k) {
			return false
		}
	}
	return true
}

// gridRequests enumerates method × route for one world with an acceptable Accept header, plus an
// Accept × query grid on a few routes.
func gridRequests(r *hx.Rand, w *World) (routes []ReqSpec, nego []ReqSpec) {
	plain := acceptVariants[0]
	for ti := range w.Types {
		t := &w.Types[ti]
		ids := []string{hx.Pick(r, idPool)}
		for _, rows := range [][]Row{t.Get.Rows, t.Patch.Rows, t.Delete.Rows} {
			for _, row := range rows {
				ids = append(ids, row.Id)
			}
		}
		names := []string{"nope"}
		for _, rel := range t.Rels {
			names = append(names, rel.Name)
		}
		if len(t.Attrs) > 0 {
			names = append(names, t.Attrs[0].Name)
		}
		var paths [][]string
		paths = append(paths, []string{t.Name})
		for _, id := range ids {
			paths = append(paths, []string{t.Name, id})
			for _, n := range names {
				paths = append(paths, []string{t.Name, id, n}, []string{t.Name, id, "relationships", n})
			}
		}
		paths = append(paths, []string{t.Name, ids[0], "x", names[len(names)-1]}, []string{t.Name, ids[0], "relationships", names[len(names)-1], "x"})
		for _, p := range paths {
			for _, m := range gridMethods {
				q := ReqSpec{Method: m, Path: "/" + strings.Join(p, "/"), Accept: plain.lines, AcceptKind: plain.kind, QueryKind: "none"}
				q.Body, q.Label = bodyFor(r, w, p, pickFam(r))
				routes = append(routes, q)
			}
		}
	}
	routes = append(routes, ReqSpec{Method: "GET", Path: "/", Accept: plain.lines, AcceptKind: plain.kind, QueryKind: "none"},
		ReqSpec{Method: "POST", Path: "", Accept: plain.lines, AcceptKind: plain.kind, QueryKind: "none"},
		ReqSpec{Method: "GET", Path: "/ghost/1", Accept: plain.lines, AcceptKind: plain.kind, QueryKind: "none"})
	// negotiation × parameters on one route that otherwise succeeds or fails in a route-specific way
	for k := 0; k < 2; k++ {
		base := intentRequest(r, w)
		for _, av := range acceptVariants {
			for _, qv := range queryVariants {
				if av.kind != "plain" && qv.kind != "none" && !r.Chance(1, 12) {
					continue
				}
				q := base
				q.Accept, q.AcceptKind, q.RawQuery, q.QueryKind = av.lines, av.kind, qv.raw, qv.kind
				nego = append(nego, q)
			}
		}
	}
	return routes, nego
}

// acceptSequenceRequests: one request that reaches a handler × every systematic Accept header
// (accept_gen.go): all sequences of one and two instance kinds in both orders, sampled longer ones,
// each in several line layouts.
func acceptSequenceRequests(r *hx.Rand, w *World, sampled int) []ReqSpec {
	base := intentRequest(r, w)
	base.RawQuery, base.QueryKind = "", "none"
	var out []ReqSpec
	for _, ac := range systematicAccepts(r, sampled) {
		q := base
		q.Accept, q.AcceptKind = ac.lines, ac.kind
		if strings.HasSuffix(ac.kind, "/lines") && refAcceptable(&q) != ac.anyAcceptable {
			panic(fmt.Sprintf("accept generator label disagrees with the reference: %q any-acceptable=%v", ac.lines, ac.anyAcceptable))
		}
		out = append(out, q)
	}
	return out
}

func main() {
	if len(os.Args) > 1 && os.Args[1] == "c19-child" {
		childMain()
		return
	}
	run := hx.Init("C19")
	h := &harness{run: run, reported: map[string]int{}}
	h.sampleRand = run.Rand.Fork()
	if run.ModelPath != "" {
		m, err := hx.StartModel(run.ModelPath)
		if err != nil {
			fmt.Fprintln(os.Stderr, "cannot start model:", err)
			os.Exit(2)
		}
		h.model = m
		defer m.Close()
	}
	run.SetRule(ruleText)
	if !injectAvailable {
		run.Note("built without tag c19hook: the injected-error-list cases (multi-error documents through the verif hook of repo-patches/C19/03) are not run")
	}

	if run.Replay != "" {
		var c Case
		if err := hx.LoadReplayCase(run.Replay, &c); err != nil {
			fmt.Fprintln(os.Stderr, err)
			os.Exit(2)
		}
		if len(c.World.Types) == 0 {
			// not a (schema, request) case: a status-site or newSchemaOK report — re-run those two passes
			fmt.Println("replay: no schema in the case; re-running the status-site comparison and the NewSchema name probes")
			h.checkStatusSites()
			h.schemaNameProbes()
			run.Finish(h.model)
			return
		}
		if _, err := c.World.build(); err != nil && !worldNamesValid(&c.World) {
			// replay of a schema-name probe: the schema has a name that is not a member name; rejecting it is the correct answer
			fmt.Printf("replay: jsonapi.NewSchema rejects the schema (%v); it has a name that is not a member name, so this is the demanded behaviour\n", err)
			run.Finish(h.model)
			return
		}
		v, err := h.evalOne(&c)
		if err != nil {
			fmt.Fprintln(os.Stderr, "replay:", err)
			os.Exit(2)
		}
		for i, b := range c.Before {
			fmt.Printf("history %d: %s %q accept=%q query=%q body=%q\n", i+1, b.Req.Method, b.Req.Path, b.Req.Accept, b.Req.RawQuery, b.Req.Body)
		}
		fmt.Printf("replay: %s %q accept=%q headers=%q query=%q body=%q\n", c.Req.Method, c.Req.Path, c.Req.Accept, c.Req.Headers, c.Req.RawQuery, c.Req.Body)
		fmt.Printf("implementation: %s\nraw body:       %s\nmodel:          %s\nRefStatus: go=%d lean=%d\n", v.realObs, v.real.Body, v.modelObs, v.goRef, v.leanRef)
		fmt.Printf("verdict: kind=%q %s\n", v.kind(), v.what())
		h.record(&c, v, 1)
		if v.kind() != "" {
			h.run.Violate(v.kind(), v.what(), classify(&c, v), v.kind() == "correspondence", c)
		}
		run.Finish(h.model)
		return
	}
	if os.Getenv("C19_DUMP_SITES") != "" {
		h.checkStatusSites()
		return
	}
	if os.Getenv("C19_SELFTEST") != "" {
		selfTest()
		return
	}

	for _, f := range run.CorpusFiles() {
		var c Case
		if err := hx.LoadReplayCase(f, &c); err != nil || len(c.World.Types) == 0 {
			fmt.Fprintln(os.Stderr, "skipping corpus file", f, err)
			continue
		}
		v, err := h.evalOne(&c)
		if err != nil {
			h.schemaRejected(c.World, err)
			continue
		}
		run.Case("corpus|"+f, true)
		run.Count("source:corpus")
		h.record(&c, v, 1)
		if v.kind() != "" {
			h.report(c, v)
		}
	}

	h.checkStatusSites()
	h.schemaNameProbes()

	worlds := run.Scale(40, 1200)
	randomPer := run.Scale(2500, 3000)
	for wi := 0; wi < worlds; wi++ {
		r := run.Rand.Fork()
		gen := func() World {
			w := genWorld(r)
			if r.Intn(100) < 40 {
				// a schema whose definitions are shared between names / types / later schemas (sharing.go)
				w.Share = fmt.Sprintf("pool-%d", wi)
				genTwins(r, &w)
			}
			return w
		}
		w := gen()
		schema, err := w.build()
		for tries := 0; err != nil && tries < 20; tries++ {
			// every generated name is a member name by the reference definition: NewSchema must accept
			h.schemaRejected(w, err)
			w = gen()
			schema, err = w.build()
		}
		if err != nil {
			continue
		}
		run.Count(fmt.Sprintf("world:types=%d", len(w.Types)))
		for _, t := range w.Types {
			hs := ""
			for _, d := range []bool{t.Get.Defined, t.Patch.Defined, t.Create.Defined, t.Delete.Defined} {
				if d {
					hs += "1"
				} else {
					hs += "0"
				}
			}
			run.Count("handlers(get,patch,create,delete):" + hs)
		}
		h.worlds = append(h.worlds, worldEntry{w: w, schema: schema, sexp: w.sexp().String()})
		h.tieNewSchemaAccepted(&w)
		widx := len(h.worlds) - 1
		routes, nego := gridRequests(r, &w)
		h.runBatch(w, schema, routes, "route-grid")
		h.runBatch(w, schema, nego, "accept-query-grid")
		h.runBatch(w, schema, headerRequests(r.Fork(), &w, run.Scale(8, 8)), "header-grid")
		if w.Share != "" {
			run.Count("world:shared-definitions")
			// a second schema built later from the same pool, names rotated; then the first schema's routes again
			v := variantOf(w)
			if vs, err := v.build(); err == nil {
				vr, _ := gridRequests(r.Fork(), &v)
				h.worlds = append(h.worlds, worldEntry{w: v, schema: vs, sexp: v.sexp().String()})
				h.runBatch(v, vs, vr, "route-grid-of-rebuilt-variant")
				h.worlds = append(h.worlds, worldEntry{w: w, schema: schema, sexp: w.sexp().String()})
				widx = len(h.worlds) - 1
				first := ReqSpec{Method: "GET", Path: "/", Accept: acceptVariants[0].lines}
				h.extraBefore = []Step{{Req: first}, {World: &v, Req: first}}
				h.runBatch(w, schema, routes, "route-grid-after-rebuild")
				h.extraBefore = nil
			} else {
				h.schemaRejected(v, err)
			}
		}
		h.runBatch(w, schema, acceptSequenceRequests(r, &w, run.Scale(60, 150)), "accept-sequences")
		ccParts := run.Scale(charclassParts, 3*charclassParts) // quick: the whole family once per run; thorough: ten times
		h.runBatch(w, schema, charclassRequests(r.Fork(), &w, wi%ccParts, ccParts), "charclass-probes")
		var reqs []ReqSpec
		for i := 0; i < randomPer; i++ {
			reqs = append(reqs, genRequest(r.Fork(), &w))
		}
		h.runBatch(w, schema, reqs, "random")
		if injectAvailable {
			var inj []ReqSpec
			for i := 0; i < run.Scale(150, 300); i++ {
				q := genRequest(r.Fork(), &w)
				list := []string{}
				for n := hx.Pick(r, []int{0, 1, 1, 2, 2, 2, 3, 3, 4}); n > 0; n-- {
					list = append(list, hx.Pick(r, []string{"", "", "", "400", "403", "404", "409", "422", "500", "503", "201", "999", "418"}))
				}
				q.Inject = &list
				inj = append(inj, q)
			}
			h.runBatch(w, schema, inj, "injected-error-lists")
		}
		for f := 0; f < run.Scale(6, 10); f++ {
			h.families++
			h.runHistory(h.genFamily(r, widx, h.families), "confusable-history")
		}
		if wi < 2 {
			run.Sample(Case{World: w, Req: reqs[0]})
		}
	}
	h.reserve()
	run.Finish(h.model)
}
