package main

// Model-free oracle matching the theorem emitted_member_names: every member name of a document the
// handler writes is a JSON:API member name (the library's own rule: letters, digits, inner '-' '_'),
// attribute and relationship names are not id / type and no name is both. Attribute VALUES and meta
// objects are application data and are not walked.

import "fmt"

func memberNameOracle(r Real) []failure {
	if r.Panic != "" {
		return nil
	}
	d, err := parseDoc(r.Body)
	if err != nil {
		return nil // reported by the well-formed-json oracle
	}
	var fs []failure
	bad := func(where, k string) {
		if len(fs) < 3 {
			fs = append(fs, failure{"member-names", fmt.Sprintf("%s member %q (%+q) is not a valid member name: %.200s", where, k, k, r.Body)})
		}
	}
	var walk func(v any, where string)
	walk = func(v any, where string) {
		switch x := v.(type) {
		case []any:
			for _, e := range x {
				walk(e, where)
			}
		case map[string]any:
			for _, k := range sortedKeys(x) {
				if !refMemberName(k) {
					bad(where, k)
				}
				switch k {
				case "meta":
				case "attributes":
					if m, ok := x[k].(map[string]any); ok {
						rels, _ := x["relationships"].(map[string]any)
						for _, a := range sortedKeys(m) {
							if !refMemberName(a) || a == "id" || a == "type" {
								bad("attributes", a)
							}
							if _, clash := rels[a]; clash {
								bad("attributes+relationships", a)
							}
						}
					}
				case "relationships":
					if m, ok := x[k].(map[string]any); ok {
						for _, a := range sortedKeys(m) {
							if a == "id" || a == "type" {
								bad("relationships", a)
							}
						}
					}
					walk(x[k], k)
				default:
					walk(x[k], k)
				}
			}
		}
	}
	walk(d.top, "top-level")
	return fs
}
