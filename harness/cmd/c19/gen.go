package main

// Generators: resource schemas (worlds) and the request grid.

import (
	"encoding/json"
	"fmt"
	"net/url"
	"strings"

	"verifharness/hx"
)

var (
	typeNames = []string{"a", "b", "people", "relationships", "T-1", "x_y"}
	idPool    = []string{"1", "2", "3", "x y", "é", "relationships", "", "a"}
	relNames  = []string{"r", "author", "items", "relationships", "a", "q-1"}
	attrNames = []string{"title", "n", "x-1", "a_b"}
	statuses  = []string{"", "400", "403", "404", "409", "422", "500", "503", "418", "401", "", "405", "406", "200"}
	methods   = []string{"GET", "POST", "PATCH", "DELETE", "PUT", "HEAD", "OPTIONS", "TRACE", "get", ""}
)

func js(s string) string { b, _ := json.Marshal(s); return string(b) }

// ---- worlds ------------------------------------------------------------------------------------

func genOut(r *hx.Rand, pFound, pNil int) Out {
	x := r.Intn(100)
	switch {
	case x < pFound:
		return Out{Kind: "found"}
	case x < pFound+pNil:
		return Out{Kind: "nil"}
	}
	return Out{Kind: "err", Status: hx.Pick(r, statuses)}
}

func genTable(r *hx.Rand, pDefined int, del bool) Table {
	t := Table{Defined: r.Intn(100) < pDefined}
	t.Default = genOut(r, 88, 6)
	n := r.Intn(3)
	for i := 0; i < n; i++ {
		t.Rows = append(t.Rows, Row{Id: hx.Pick(r, idPool), Out: genOut(r, 20, 40)})
	}
	if del {
		fix := func(o Out) Out {
			if o.Kind != "err" {
				return Out{Kind: "ok"}
			}
			return o
		}
		t.Default = fix(t.Default)
		for i := range t.Rows {
			t.Rows[i].Out = fix(t.Rows[i].Out)
		}
	}
	return t
}

func genTarget(r *hx.Rand, names []string) RId {
	ty := "ghost"
	if r.Intn(100) < 85 {
		ty = hx.Pick(r, names)
	}
	return RId{Type: ty, Id: hx.Pick(r, idPool)}
}

// unregistered type names a linkage may mention (never defined in any world)
var ghostTypes = []string{"ghost", "", "phantom", "Ghost"}

// genRun draws a linkage list with structure: runs of one type (registered, unregistered, empty
// name), alternations, duplicates of the same identifier. Such lists exercise per-member type lookup
// in getResources (each member must be looked up on its own: unknown types are left out).
func genRun(r *hx.Rand, names []string) []RId {
	ids := []RId{}
	pick := func(pool []string) string { return hx.Pick(r, pool) }
	id := func() string { return hx.Pick(r, idPool) }
	switch r.Intn(8) {
	case 0: // a run of one unregistered type
		ty := pick(ghostTypes)
		for n := r.Range(2, 4); n > 0; n-- {
			ids = append(ids, RId{ty, id()})
		}
	case 1: // unregistered run, then registered members
		ty := pick(ghostTypes)
		ids = append(ids, RId{ty, id()}, RId{ty, id()}, RId{pick(names), id()}, RId{pick(names), id()})
	case 2: // registered, then an unregistered run
		ty := pick(ghostTypes)
		ids = append(ids, RId{pick(names), id()}, RId{ty, id()}, RId{ty, id()})
	case 3: // alternation registered / unregistered
		a, g := pick(names), pick(ghostTypes)
		for n := r.Range(3, 6); n > 0; n-- {
			if n%2 == 0 {
				ids = append(ids, RId{a, id()})
			} else {
				ids = append(ids, RId{g, id()})
			}
		}
	case 4: // duplicates of the same identifier
		x := RId{pick(append(append([]string{}, names...), ghostTypes...)), id()}
		ids = append(ids, x, x)
		if r.Bool() {
			ids = append(ids, RId{pick(names), id()}, x)
		}
	case 5: // a run of one registered type
		a := pick(names)
		for n := r.Range(2, 5); n > 0; n-- {
			ids = append(ids, RId{a, id()})
		}
	case 6: // two different unregistered types around each other
		g1, g2 := pick(ghostTypes), pick(ghostTypes)
		ids = append(ids, RId{g1, id()}, RId{g2, id()}, RId{g1, id()}, RId{g1, id()})
	default: // the empty type name first / alone
		ids = append(ids, RId{"", id()})
		if r.Bool() {
			ids = append(ids, RId{pick(names), id()}, RId{"", id()}, RId{"", id()})
		}
	}
	return ids
}

func genLink(r *hx.Rand, many bool, names []string, clean bool, errStatus string) LinkOut {
	x := r.Intn(100)
	if !clean && x < 12 {
		return LinkOut{Kind: "err", Status: errStatus}
	}
	if x < 24 {
		return LinkOut{Kind: "nil"}
	}
	if !many {
		t := genTarget(r, names)
		if r.Intn(100) < 8 {
			t.Type = hx.Pick(r, ghostTypes)
		}
		return LinkOut{Kind: "id", Ids: []RId{t}}
	}
	if r.Intn(100) < 55 {
		return LinkOut{Kind: "ids", Ids: genRun(r, names)}
	}
	o := LinkOut{Kind: "ids", Ids: []RId{}}
	n := r.Intn(4)
	for i := 0; i < n; i++ {
		o.Ids = append(o.Ids, genTarget(r, names))
	}
	return o
}

func genWorld(r *hx.Rand) World {
	names := append([]string{}, typeNames...)
	hx.Shuffle(r, names)
	names = names[:r.Range(1, 4)]
	clean := r.Chance(3, 5) // a clean world has no failing completion: the deep success paths stay reachable
	var w World
	for _, name := range names {
		t := TypeSpec{Name: name}
		pd := hx.Pick(r, []int{50, 70, 90})
		t.Get = genTable(r, pd+5, false)
		t.Patch = genTable(r, pd-10, false)
		t.Delete = genTable(r, pd-10, true)
		t.Create.Defined = r.Intn(100) < pd-10
		switch x := r.Intn(100); {
		case x < 70:
			t.Create.Kind = "created"
			t.Create.Id = RId{Type: name, Id: hx.Pick(r, idPool)}
		case x < 80:
			t.Create.Kind = "nil"
		default:
			t.Create.Kind, t.Create.Status = "err", hx.Pick(r, statuses)
		}
		// one error status per type for attributes, one for relationships (map order must not matter)
		attrErr, relErr := hx.Pick(r, statuses), hx.Pick(r, statuses)
		an := append([]string{}, attrNames...)
		hx.Shuffle(r, an)
		for _, n := range an[:r.Intn(4)] {
			a := AttrSpec{Name: n, Kind: "val", Value: r.Intn(8)}
			if !clean {
				switch x := r.Intn(100); {
				case x < 10:
					a.Kind, a.Status = "err", attrErr
				case x < 20:
					a.Kind = "nan"
				}
			}
			t.Attrs = append(t.Attrs, a)
		}
		rn := append([]string{}, relNames...)
		hx.Shuffle(r, rn)
		for _, n := range rn[:r.Intn(4)] {
			rel := RelSpec{Name: n, Many: r.Bool(), ByDefault: r.Bool(), Custom: r.Intn(100) < 30}
			rel.Resolve = genLink(r, rel.Many, names, clean && rel.ByDefault, relErr)
			if !rel.ByDefault && r.Intn(100) < 10 {
				// an error that only shows when the relationship's data is requested
				rel.Resolve = LinkOut{Kind: "err", Status: hx.Pick(r, statuses)}
			}
			if rel.Many {
				if r.Bool() {
					o := genLink(r, true, names, false, hx.Pick(r, statuses))
					rel.Add = &o
				}
				if r.Bool() {
					o := genLink(r, true, names, false, hx.Pick(r, statuses))
					rel.Remove = &o
				}
			}
			t.Rels = append(t.Rels, rel)
		}
		w.Types = append(w.Types, t)
	}
	return w
}

// ---- Accept / query variants -------------------------------------------------------------------

type acceptVariant struct {
	kind  string
	lines []string
}

var acceptVariants = []acceptVariant{
	{"plain", []string{"application/vnd.api+json"}},
	{"absent", nil},
	{"star", []string{"*/*"}},
	{"profile", []string{`application/vnd.api+json; profile="https://example.com/p"`}},
	{"ext", []string{`application/vnd.api+json; ext="https://jsonapi.org/ext/version"`}},
	{"charset", []string{"application/vnd.api+json; charset=utf-8"}},
	{"profile+charset", []string{"application/vnd.api+json; charset=utf-8; profile=x"}},
	{"q", []string{"application/vnd.api+json; q=0.9"}},
	{"other", []string{"application/json"}},
	{"other,plain", []string{"text/html", "application/vnd.api+json"}},
	{"ext,plain", []string{`application/vnd.api+json; ext=x`, "application/foo", "application/vnd.api+json"}},
	{"ext,profile", []string{`application/vnd.api+json; ext=x`, `application/vnd.api+json; profile=y`}},
	{"ext,ext", []string{`application/vnd.api+json; ext=x`, `application/vnd.api+json; ext=y; profile=z`}},
	{"badparam", []string{"application/vnd.api+json; q"}},
	{"badparam-after-profile", []string{"application/vnd.api+json; profile=x; q"}},
	{"badparam,plain", []string{"application/vnd.api+json; q", "application/vnd.api+json"}},
	{"dup-profile", []string{"application/vnd.api+json; profile=x; profile=y"}},
	{"comma-list", []string{"application/vnd.api+json, text/html"}},
	{"upper", []string{"APPLICATION/VND.API+JSON; PROFILE=x"}},
	{"spaces", []string{"  application/vnd.api+json ;"}},
	{"empty-line", []string{""}},
	{"empty,plain", []string{"", "application/vnd.api+json"}},
	{"prefix", []string{"application/vnd.api+jsonx"}},
	{"unparsable", []string{"application/vnd.api+json; =x", ";;", "a/b/c"}},
	{"star-with-profile", []string{"*/*; profile=x"}},
}

type queryVariant struct {
	kind string
	raw  string
}

func qk(keys ...string) string {
	var parts []string
	for _, k := range keys {
		parts = append(parts, url.QueryEscape(k)+"=v")
	}
	return strings.Join(parts, "&")
}

var queryVariants = []queryVariant{
	{"none", ""},
	{"page[size]", qk("page[size]")},
	{"page", qk("page")},
	{"page[a][b]", qk("page[number]", "page[a][b-c]")},
	{"include", qk("include")},
	{"fields[]", qk("fields[people]")},
	{"sort", qk("sort")},
	{"filter[]", qk("filter[x]")},
	{"filter", qk("filter")},
	{"unknown-lower", qk("foo")},
	{"unknown-lower[]", qk("foo[bar]")},
	{"impl-camel", qk("fooBar")},
	{"impl-camel[]", qk("Foo", "Foo[bar]")},
	{"impl-underscore", qk("foo_bar")},
	{"impl-hyphen", qk("foo-bar[x]")},
	{"impl-digit", qk("a1")},
	{"digit-only", qk("9")},
	{"pagex", qk("pagex")},
	{"pag", qk("pag")},
	{"Page", qk("Page")},
	{"illegal-chars", qk("aa123@!@#$")},
	{"illegal-space", qk("a b")},
	{"extension", qk("foo:bar")},
	{"unbalanced-open", qk("foo[asd")},
	{"unbalanced-close", qk("Foo]")},
	{"page-unbalanced", qk("page[size")},
	{"page-extra-close", qk("page[size]]")},
	{"page-nested-open", qk("page[[size]]")},
	{"page-trailing", qk("page[size]x")},
	{"page-trailing-open", qk("page[size][")},
	{"empty-brackets", qk("page[]")},
	{"bracket-hyphen-start", qk("page[-x]")},
	{"bracket-hyphen-end", qk("page[x-]")},
	{"bracket-underscore", qk("page[x_y]", "page[_]")},
	{"bracket-illegal", qk("page[x y]")},
	{"bracket-only", qk("[a]")},
	{"hyphen-start", qk("-Foo")},
	{"hyphen-end", qk("Foo-")},
	{"underscore-only", qk("_")},
	{"empty-key", "=v"},
	{"unicode", qk("fóo")},
	{"unicode-upper", qk("FÓO")},
	{"unicode-bracket", qk("Foo[é]")},
	{"invalid-utf8", "F%ffoo=1"},
	{"good+bad", qk("page[size]", "Foo", "sort")},
	{"good+good", qk("page[size]", "Foo", "a-B[c_d][e]")},
	{"dropped-by-parser", "a%zz=1&b;c=2"},
	{"no-value", "Foo"},
	{"plus", "Foo+bar=1"},
	{"upper-Z", qk("Z")},
	{"boundary-chars", qk("Az", "A9", "A0", "Aa", "aA", "zZ", "z9", "a0")},
	{"boundary-chars-bracket", qk("page[z]", "page[Z9]", "page[0a]", "page[a]", "page[A]", "page[9]")},
	{"lower-a", qk("a")},
	{"lower-az", qk("az")},
	{"lower-with-digit", qk("a1b")},
	{"page-prefix-upper", qk("pagE")},
	{"lower-z", qk("z")},
	{"brace", qk("a{")},
	{"backtick", qk("a`")},
	{"at", qk("A@")},
	{"slash", qk("A/b")},
}

// ---- bodies ------------------------------------------------------------------------------------

type bodyFamily struct {
	name string
	mk   func(t, i string, r *hx.Rand) (string, BodyLabel)
}

func resLabel(t, i string) BodyLabel {
	return BodyLabel{PatchOK: true, PatchType: t, PatchId: i, PostOK: true, PostType: t, RelOK: true}
}

var bodyFamilies = []bodyFamily{
	{"resource", func(t, i string, r *hx.Rand) (string, BodyLabel) {
		return fmt.Sprintf(`{"data":{"type":%s,"id":%s}}`, js(t), js(i)), resLabel(t, i)
	}},
	{"resource+attrs+rels", func(t, i string, r *hx.Rand) (string, BodyLabel) {
		return fmt.Sprintf(`{"data": {"id":%s, "type":%s, "attributes":{"title":"x","n":[1,{"a":null}]}, "relationships":{"r":{"data":{"type":"b","id":"2"}},"items":{"data":[{"type":"a","id":"1"}]},"q-1":{"data":null},"z":{}}}, "meta":{"x":1}}`, js(i), js(t)), resLabel(t, i)
	}},
	{"resource+trailing", func(t, i string, r *hx.Rand) (string, BodyLabel) {
		return fmt.Sprintf(`{"data":{"type":%s,"id":%s}} trailing garbage {`, js(t), js(i)), resLabel(t, i)
	}},
	{"resource-upper-keys", func(t, i string, r *hx.Rand) (string, BodyLabel) {
		return fmt.Sprintf(`{"DATA":{"Type":%s,"ID":%s}}`, js(t), js(i)), resLabel(t, i)
	}},
	{"resource-duplicate-data", func(t, i string, r *hx.Rand) (string, BodyLabel) {
		return fmt.Sprintf(`{"data":{"type":"zzz","id":"zzz"},"data":{"type":%s,"id":%s}}`, js(t), js(i)), resLabel(t, i)
	}},
	{"resource-no-id", func(t, i string, r *hx.Rand) (string, BodyLabel) {
		return fmt.Sprintf(`{"data":{"type":%s}}`, js(t)), resLabel(t, "")
	}},
	{"resource-null-id", func(t, i string, r *hx.Rand) (string, BodyLabel) {
		return fmt.Sprintf(`{"data":{"type":%s,"id":null}}`, js(t)), resLabel(t, "")
	}},
	{"resource-numeric-id", func(t, i string, r *hx.Rand) (string, BodyLabel) {
		return fmt.Sprintf(`{"data":{"type":%s,"id":1}}`, js(t)), BodyLabel{PostOK: true, PostType: t}
	}},
	{"resource-numeric-type", func(t, i string, r *hx.Rand) (string, BodyLabel) {
		return fmt.Sprintf(`{"data":{"type":5,"id":%s}}`, js(i)), BodyLabel{}
	}},
	{"resource-bad-attributes", func(t, i string, r *hx.Rand) (string, BodyLabel) {
		return fmt.Sprintf(`{"data":{"type":%s,"id":%s,"attributes":5}}`, js(t), js(i)), BodyLabel{RelOK: true}
	}},
	{"resource-bad-relationships", func(t, i string, r *hx.Rand) (string, BodyLabel) {
		return fmt.Sprintf(`{"data":{"type":%s,"id":%s,"relationships":{"r":5}}}`, js(t), js(i)), BodyLabel{RelOK: true}
	}},
	{"resource-bad-linkage", func(t, i string, r *hx.Rand) (string, BodyLabel) {
		bad := hx.Pick(r, []string{`5`, `"x"`, `{"type":"a","id":7}`, `[{"type":"a","id":"1"},5]`, `[{"type":1}]`, `true`})
		return fmt.Sprintf(`{"data":{"type":%s,"id":%s,"relationships":{"r":{"data":%s}}}}`, js(t), js(i), bad), BodyLabel{RelOK: true}
	}},
	{"resource-unterminated", func(t, i string, r *hx.Rand) (string, BodyLabel) {
		return fmt.Sprintf(`{"data":{"type":%s,"id":%s}`, js(t), js(i)), BodyLabel{}
	}},
	{"linkage-array", func(t, i string, r *hx.Rand) (string, BodyLabel) {
		return fmt.Sprintf(`{"data":[{"type":%s,"id":%s},{"type":"b","id":"2"}]}`, js(t), js(i)), BodyLabel{RelOK: true, MemOK: true}
	}},
	{"linkage-empty-array", func(t, i string, r *hx.Rand) (string, BodyLabel) {
		return hx.Pick(r, []string{`{"data":[]}`, `{"data": [ ]}`}), BodyLabel{RelOK: true, MemOK: true}
	}},
	{"linkage-array-partial-ids", func(t, i string, r *hx.Rand) (string, BodyLabel) {
		return fmt.Sprintf(`{"data":[{"type":%s},{}]}`, js(t)), BodyLabel{RelOK: true, MemOK: true}
	}},
	{"linkage-array-bad-element", func(t, i string, r *hx.Rand) (string, BodyLabel) {
		bad := hx.Pick(r, []string{`5`, `"x"`, `{"type":"a","id":7}`, `[]`, `true`})
		return fmt.Sprintf(`{"data":[{"type":%s,"id":%s},%s]}`, js(t), js(i), bad), BodyLabel{}
	}},
	{"data-null", func(t, i string, r *hx.Rand) (string, BodyLabel) {
		b := hx.Pick(r, []string{`{"data":null}`, `{}`, `null`, `{"meta":{}}`, ` {"data" : null } `})
		return b, BodyLabel{PatchOK: true, PostOK: true, RelOK: true, MemOK: true}
	}},
	{"data-empty-object", func(t, i string, r *hx.Rand) (string, BodyLabel) {
		return `{"data":{}}`, BodyLabel{PatchOK: true, PostOK: true, RelOK: true}
	}},
	{"data-scalar", func(t, i string, r *hx.Rand) (string, BodyLabel) {
		return fmt.Sprintf(`{"data":%s}`, hx.Pick(r, []string{`5`, `"str"`, `true`, `1.5e3`})), BodyLabel{}
	}},
	{"not-an-object", func(t, i string, r *hx.Rand) (string, BodyLabel) {
		return hx.Pick(r, []string{`[]`, `5`, `"x"`, `true`, `[{"data":null}]`}), BodyLabel{}
	}},
	{"not-json", func(t, i string, r *hx.Rand) (string, BodyLabel) {
		return hx.Pick(r, []string{`{`, `xyz`, `{"data":`, `{data:null}`, "\x00", `{"data":nul}`, `}`}), BodyLabel{}
	}},
	{"empty", func(t, i string, r *hx.Rand) (string, BodyLabel) { return "", BodyLabel{} }},
	{"whitespace", func(t, i string, r *hx.Rand) (string, BodyLabel) { return "  \n\t ", BodyLabel{} }},
}

func genBody(r *hx.Rand, fam int, t, i string) (string, BodyLabel) {
	f := bodyFamilies[fam]
	b, l := f.mk(t, i, r)
	l.Family = f.name
	return b, l
}

// ---- requests ----------------------------------------------------------------------------------

// relatedTarget returns the to-one linkage target of /{ty}/{id}/{rel} when the world has one.
func relatedTarget(w *World, ty, rel string) (RId, bool) {
	if t := w.typ(ty); t != nil {
		if rs := t.rel(rel); rs != nil && !rs.Many && rs.Resolve.Kind == "id" {
			return rs.Resolve.Ids[0], true
		}
	}
	return RId{}, false
}

// bodyFor picks a body for the path: mostly one that addresses the right resource, sometimes a
// conflicting or undecodable one.
func bodyFor(r *hx.Rand, w *World, comps []string, fam int) (string, BodyLabel) {
	ty, id := "", ""
	if len(comps) > 0 {
		ty = comps[0]
	}
	if len(comps) > 1 {
		id = comps[1]
	}
	if len(comps) == 3 {
		if tgt, ok := relatedTarget(w, comps[0], comps[2]); ok && r.Intn(100) < 90 {
			ty, id = tgt.Type, tgt.Id
		}
	}
	switch x := r.Intn(100); {
	case x < 5:
		ty = hx.Pick(r, typeNames)
	case x < 10:
		id = hx.Pick(r, idPool)
	case x < 12:
		ty, id = id, ty
	}
	return genBody(r, fam, ty, id)
}

func pickFam(r *hx.Rand) int {
	if r.Intn(100) < 45 {
		return r.Intn(2) // the plain valid resource bodies
	}
	if r.Intn(100) < 25 {
		return 13 + r.Intn(2) // valid linkage arrays
	}
	return r.Intn(len(bodyFamilies))
}

func joinPath(r *hx.Rand, comps []string) string {
	p := "/" + strings.Join(comps, "/")
	switch x := r.Intn(100); {
	case x < 2:
		return strings.Join(comps, "/") // no leading slash
	case x < 4:
		return "/" + p // double leading slash
	case x < 7:
		return p + "/" // trailing slash: one more (empty) component
	}
	return p
}

// genPath draws path components of the given depth for the world.
func genPath(r *hx.Rand, w *World, depth int) []string {
	if depth == 0 {
		return nil
	}
	var comps []string
	t := &w.Types[r.Intn(len(w.Types))]
	ty := t.Name
	if r.Intn(100) < 8 {
		ty = hx.Pick(r, []string{"ghost", "", strings.ToUpper(t.Name), t.Name + "s", "relationships"})
	}
	comps = append(comps, ty)
	if depth >= 2 {
		id := hx.Pick(r, idPool)
		if r.Bool() {
			// prefer ids the tables distinguish
			var rows []Row
			rows = append(rows, t.Get.Rows...)
			rows = append(rows, t.Patch.Rows...)
			rows = append(rows, t.Delete.Rows...)
			if len(rows) > 0 {
				id = hx.Pick(r, rows).Id
			}
		}
		comps = append(comps, id)
	}
	name := func() string {
		if len(t.Rels) > 0 && r.Intn(100) < 80 {
			return hx.Pick(r, t.Rels).Name
		}
		if len(t.Attrs) > 0 && r.Intn(100) < 30 {
			return hx.Pick(r, t.Attrs).Name
		}
		return hx.Pick(r, append(append([]string{}, relNames...), "relationships", "", "nope"))
	}
	switch {
	case depth == 3:
		comps = append(comps, name())
	case depth >= 4:
		mid := "relationships"
		if r.Intn(100) < 10 {
			mid = hx.Pick(r, []string{"relationship", "Relationships", "", "r", name()})
		}
		comps = append(comps, mid, name())
		for len(comps) < depth {
			comps = append(comps, hx.Pick(r, []string{"x", "", "relationships", name()}))
		}
	}
	return comps
}

func famIndex(name string) int {
	for i, f := range bodyFamilies {
		if f.name == name {
			return i
		}
	}
	panic("unknown body family " + name)
}

// intentRequest draws a request that is meant to reach a handler: the method fits the depth, the
// body fits the route and addresses the right resource (bodyFor still perturbs it sometimes).
func intentRequest(r *hx.Rand, w *World) ReqSpec {
	depth := hx.Pick(r, []int{1, 2, 2, 2, 3, 3, 3, 4, 4, 4, 4})
	comps := genPath(r, w, depth)
	q := ReqSpec{Path: "/" + strings.Join(comps, "/"), Accept: acceptVariants[0].lines, AcceptKind: "plain", QueryKind: "none"}
	fam := hx.Pick(r, []string{"resource", "resource+attrs+rels", "resource+trailing", "resource-upper-keys", "resource-duplicate-data"})
	switch depth {
	case 1:
		q.Method = "POST"
	case 2:
		q.Method = hx.Pick(r, []string{"GET", "GET", "PATCH", "PATCH", "DELETE"})
	case 3:
		q.Method = hx.Pick(r, []string{"GET", "GET", "PATCH"})
	default:
		q.Method = hx.Pick(r, []string{"GET", "PATCH", "POST", "DELETE"})
		switch q.Method {
		case "PATCH":
			fam = hx.Pick(r, []string{"resource", "linkage-array", "linkage-empty-array", "data-null", "resource-no-id"})
		case "POST", "DELETE":
			fam = hx.Pick(r, []string{"linkage-array", "linkage-empty-array", "linkage-array-partial-ids", "data-null"})
		}
	}
	if r.Intn(100) < 10 {
		qv := hx.Pick(r, queryVariants[:4])
		q.RawQuery, q.QueryKind = qv.raw, qv.kind
	}
	if r.Intn(100) < 10 {
		av := hx.Pick(r, []acceptVariant{acceptVariants[3], acceptVariants[9], acceptVariants[10], acceptVariants[18]})
		q.Accept, q.AcceptKind = av.lines, av.kind
	}
	if r.Intn(100) < 8 {
		// several instances, one per line, at least one acceptable at any position: still served
		for tries := 0; tries < 8; tries++ {
			if ac := randomAccept(r); ac.anyAcceptable && strings.HasSuffix(ac.kind, "/lines") {
				q.Accept, q.AcceptKind = ac.lines, ac.kind
				break
			}
		}
	}
	q.Body, q.Label = bodyFor(r, w, comps, famIndex(fam))
	return q
}

func genRequest(r *hx.Rand, w *World) ReqSpec {
	if r.Intn(100) < 70 {
		return intentRequest(r, w)
	}
	depth := hx.Pick(r, []int{0, 1, 1, 1, 2, 2, 2, 2, 2, 3, 3, 3, 3, 3, 4, 4, 4, 4, 4, 4, 5, 6})
	comps := genPath(r, w, depth)
	q := ReqSpec{Path: joinPath(r, comps)}
	q.Method = hx.Pick(r, methods)
	if r.Intn(100) < 70 {
		q.Method = hx.Pick(r, methods[:4])
	}
	av := acceptVariants[0]
	if r.Intn(100) < 15 {
		av = hx.Pick(r, acceptVariants)
	}
	q.Accept, q.AcceptKind = av.lines, av.kind
	if r.Intn(100) < 12 {
		ac := randomAccept(r)
		q.Accept, q.AcceptKind = ac.lines, ac.kind
	}
	qv := queryVariants[0]
	if r.Intn(100) < 15 {
		qv = hx.Pick(r, queryVariants)
	}
	q.RawQuery, q.QueryKind = qv.raw, qv.kind
	q.Body, q.Label = bodyFor(r, w, q.components(), pickFam(r))
	return q
}
