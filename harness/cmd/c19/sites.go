package main

// The status-site tie. The status theorems (Props.lean: status_rule_406/400/409/405/404,
// status_from_errors, status_eq_refStatus …) speak about a transliteration of the router. This file
// regenerates, from the source under test ($VERIF_REPO/jsonapi/*.go, go/ast), the list of every place
// where a status can come from:
//
//	http.Status… selectors, integer literals 100..999 (other than array lengths, indices, slice bounds,
//	make sizes), calls of errorForHTTPStatus / WriteHeader /
//	strconv.ParseInt|Atoi|Itoa, types.Error composite literals, `Status:` keys of composite literals and
//	assignments to / reads of a `.Status` field
//
// in source order per function, and compares it with the committed table status_sites.json, whose rows
// name the theorem that covers the site. A site that is new, gone, moved to another function, reordered
// or rewritten is an undischarged obligation: the theorems were proved about the old list. It is
// reported as `correspondence` without failing input (the request-level oracles decide whether the
// property itself is broken). `C19_DUMP_SITES=1` prints the current table (used to refresh the file
// after the theorems have been re-read against the new code).

import (
	_ "embed"
	"encoding/json"
	"fmt"
	"go/ast"
	"go/parser"
	"go/printer"
	"go/token"
	"os"
	"path/filepath"
	"regexp"
	"sort"
	"strconv"
	"strings"
)

//go:embed status_sites.json
var statusSitesJSON []byte

type statusSite struct {
	File    string `json:"file"`
	Func    string `json:"func"`
	Seq     int    `json:"seq"` // position among the sites of the function, in source order
	Site    string `json:"site"`
	Guard   string `json:"guard,omitempty"` // innermost enclosing if / case condition of an error-constructing site
	Theorem string `json:"theorem"`         // covering theorem(s) of Props.lean, or "outside: <reason>"
}

func exprText(fset *token.FileSet, n ast.Node) string {
	var b strings.Builder
	printer.Fprint(&b, fset, n)
	s := strings.Join(strings.Fields(b.String()), " ")
	if len(s) > 160 {
		s = s[:160] + "…"
	}
	return s
}

func isStatusCall(name string) bool {
	switch name {
	case "errorForHTTPStatus", "WriteHeader", "ParseInt", "Atoi", "Itoa", "StatusText":
		return true
	}
	return false
}

// extractStatusSites walks the non-test Go files of dir (built without and with the verif tag: every
// file is read, build constraints are ignored — a status site in a tagged file counts too).
func extractStatusSites(dir string) ([]statusSite, error) {
	files, err := filepath.Glob(filepath.Join(dir, "*.go"))
	if err != nil {
		return nil, err
	}
	sort.Strings(files)
	var out []statusSite
	fset := token.NewFileSet()
	for _, path := range files {
		if strings.HasSuffix(path, "_test.go") {
			continue
		}
		f, err := parser.ParseFile(fset, path, nil, parser.SkipObjectResolution)
		if err != nil {
			return nil, err
		}
		base := filepath.Base(path)
		for _, d := range f.Decls {
			fname := "(package level)"
			var body ast.Node = d
			if fd, ok := d.(*ast.FuncDecl); ok {
				fname = fd.Name.Name
				if fd.Recv != nil && len(fd.Recv.List) > 0 {
					fname = exprText(fset, fd.Recv.List[0].Type) + "." + fname
				}
				if fd.Body == nil {
					continue
				}
				body = fd.Body
			}
			seq := 0
			add := func(site string) {
				out = append(out, statusSite{File: base, Func: fname, Seq: seq, Site: site})
				seq++
			}
			var stack []ast.Node
			// integer literals that are sizes or indices, not statuses
			notStatus := map[ast.Node]bool{}
			// guard: the condition under which control reaches the innermost enclosing branch
			guard := func() string {
				for i := len(stack) - 1; i > 0; i-- {
					switch p := stack[i-1].(type) {
					case *ast.IfStmt:
						if stack[i] == ast.Node(p.Body) {
							return "if " + exprText(fset, p.Cond)
						}
						if p.Else != nil && stack[i] == p.Else {
							return "else of " + exprText(fset, p.Cond)
						}
					case *ast.CaseClause:
						tag := ""
						for j := i - 1; j > 0; j-- {
							if sw, ok := stack[j-1].(*ast.SwitchStmt); ok {
								if sw.Tag != nil {
									tag = exprText(fset, sw.Tag) + " "
								}
								break
							}
						}
						if p.List == nil {
							return "switch " + tag + "default"
						}
						var cs []string
						for _, e := range p.List {
							cs = append(cs, exprText(fset, e))
						}
						return "switch " + tag + "case " + strings.Join(cs, ", ")
					}
				}
				return "(function level)"
			}
			ast.Inspect(body, func(n ast.Node) bool {
				if n == nil {
					stack = stack[:len(stack)-1]
					return true
				}
				stack = append(stack, n)
				switch x := n.(type) {
				case *ast.ArrayType:
					if x.Len != nil {
						notStatus[x.Len] = true
					}
				case *ast.IndexExpr:
					notStatus[x.Index] = true
				case *ast.SliceExpr:
					for _, b := range []ast.Expr{x.Low, x.High, x.Max} {
						if b != nil {
							notStatus[b] = true
						}
					}
				}
				switch x := n.(type) {
				case *ast.CallExpr:
					if id, ok := x.Fun.(*ast.Ident); ok && (id.Name == "make" || id.Name == "new") {
						for _, a := range x.Args {
							notStatus[a] = true
						}
					}
					name := ""
					switch fn := x.Fun.(type) {
					case *ast.Ident:
						name = fn.Name
					case *ast.SelectorExpr:
						name = fn.Sel.Name
					}
					if isStatusCall(name) {
						add("call " + exprText(fset, x))
						if name == "errorForHTTPStatus" {
							out[len(out)-1].Guard = guard()
						}
					}
				case *ast.SelectorExpr:
					if id, ok := x.X.(*ast.Ident); ok && id.Name == "http" && strings.HasPrefix(x.Sel.Name, "Status") && x.Sel.Name != "StatusText" {
						add("const http." + x.Sel.Name)
					} else if x.Sel.Name == "Status" {
						add("field " + exprText(fset, x))
					}
				case *ast.BasicLit:
					if x.Kind == token.INT && !notStatus[x] {
						if v, err := strconv.ParseInt(x.Value, 0, 64); err == nil && v >= 100 && v <= 999 {
							add("literal " + x.Value)
						}
					}
				case *ast.CompositeLit:
					if t := exprText(fset, x.Type); t == "types.Error" || t == "Error" {
						add("construct " + t)
					}
				case *ast.KeyValueExpr:
					if id, ok := x.Key.(*ast.Ident); ok && id.Name == "Status" {
						add("key Status: " + exprText(fset, x.Value))
						out[len(out)-1].Guard = guard()
					}
				}
				return true
			})
		}
	}
	return out, nil
}

func siteKey(s statusSite) string {
	return fmt.Sprintf("%s|%s|%d|%s|%s", s.File, s.Func, s.Seq, s.Site, s.Guard)
}

func repoDir() string {
	if d := os.Getenv("VERIF_REPO"); d != "" {
		return d
	}
	return "/repo"
}

var theoremDecl = regexp.MustCompile(`(?m)^theorem\s+([A-Za-z0-9_']+)`)

// checkStatusSites compares the regenerated table with the committed one and checks that every
// theorem a row names is declared in the audited Props files.
func (h *harness) checkStatusSites() {
	const ob = "tie: every status site of $VERIF_REPO/jsonapi/*.go (http.Status…, numeric literals, errorForHTTPStatus / types.Error / WriteHeader / Status fields; go/ast, source order per function) is a row of the committed table status_sites.json naming its covering theorem"
	dir := filepath.Join(repoDir(), "jsonapi")
	got, err := extractStatusSites(dir)
	if os.Getenv("C19_DUMP_SITES") != "" {
		b, _ := json.MarshalIndent(got, "", " ")
		fmt.Println(string(b))
		os.Exit(0)
	}
	if err != nil {
		h.run.Note("status-site tie skipped: cannot read " + dir + ": " + err.Error())
		return
	}
	var want []statusSite
	if err := json.Unmarshal(statusSitesJSON, &want); err != nil {
		fmt.Fprintln(os.Stderr, "status_sites.json:", err)
		os.Exit(2)
	}
	declared := map[string]bool{}
	for _, f := range []string{"Props.lean", "PropsNames.lean"} {
		if b, err := os.ReadFile(filepath.Join(h.run.VerifDir, "lean", "ApiFu", "C19", f)); err == nil {
			for _, m := range theoremDecl.FindAllStringSubmatch(string(b), -1) {
				declared[m[1]] = true
			}
		}
	}
	wantBy := map[string]statusSite{}
	var problems []string
	for _, s := range want {
		wantBy[siteKey(s)] = s
		if strings.HasPrefix(s.Theorem, "outside:") {
			continue
		}
		if s.Theorem == "" {
			problems = append(problems, "row without a theorem: "+siteKey(s))
		}
		if len(declared) > 0 {
			for _, th := range strings.Split(s.Theorem, ",") {
				if th = strings.TrimSpace(th); th != "" && !declared[th] {
					problems = append(problems, fmt.Sprintf("row %s names theorem %q, which Props.lean does not declare", siteKey(s), th))
				}
			}
		}
	}
	gotBy := map[string]bool{}
	for _, s := range got {
		gotBy[siteKey(s)] = true
		h.run.Count("status-site:" + s.File)
		if _, ok := wantBy[siteKey(s)]; !ok {
			problems = append(problems, fmt.Sprintf("uncovered status site in %s func %s (#%d): %s", s.File, s.Func, s.Seq, s.Site))
		}
	}
	for _, s := range want {
		if !gotBy[siteKey(s)] {
			problems = append(problems, fmt.Sprintf("status site of the table no longer in the source: %s func %s (#%d): %s [was covered by %s]", s.File, s.Func, s.Seq, s.Site, s.Theorem))
		}
	}
	if len(problems) == 0 {
		h.run.Oblige(ob, "correspondence", len(got), true, "")
		return
	}
	sort.Strings(problems)
	what := fmt.Sprintf("the status sites of %s differ from the table the status theorems were proved against (%d difference(s)); first: %s", dir, len(problems), strings.Join(firstN(problems, 4), " ;; "))
	h.run.Oblige(ob, "correspondence", len(got), false, what)
	h.run.Violate("correspondence", what, "", true, map[string]any{"status_site_differences": problems})
}

func firstN(xs []string, n int) []string {
	if len(xs) > n {
		return xs[:n]
	}
	return xs
}
