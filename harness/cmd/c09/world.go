package main

import (
	"bytes"
	"encoding/json"
	"fmt"
	"net/http/httptest"
	"reflect"
	"sort"
	"strconv"
	"strings"

	apifu "github.com/ccbrown/api-fu"
	"github.com/ccbrown/api-fu/graphql"
	"github.com/ccbrown/api-fu/pagination"

	"verifharness/hx"
)

// ---- direct API (pagination.EdgesToReturn) ------------------------------------------------------

type icur int

func (c icur) LessThan(o icur) bool { return c < o }

type iedge struct{ c int }

func (e iedge) Cursor() icur { return icur(e.c) }

type directObs struct {
	Panic   string
	Edges   []int
	HasPrev bool
	HasNext bool
	Start   *int
	End     *int
}

func runDirect(E []int, after, before, first, last *int) (o directObs) {
	defer func() {
		if p := recover(); p != nil {
			o = directObs{Panic: fmt.Sprint(p)}
		}
	}()
	edges := make([]iedge, len(E))
	for i, c := range E {
		edges[i] = iedge{c}
	}
	var a, b *icur
	if after != nil {
		x := icur(*after)
		a = &x
	}
	if before != nil {
		x := icur(*before)
		b = &x
	}
	page, pi := pagination.EdgesToReturn[iedge, icur](edges, a, b, first, last)
	o.Edges = []int{}
	for _, e := range page {
		o.Edges = append(o.Edges, e.c)
	}
	o.HasPrev, o.HasNext = pi.HasPreviousPage, pi.HasNextPage
	if pi.StartCursor != nil {
		x := int(*pi.StartCursor)
		o.Start = &x
	}
	if pi.EndCursor != nil {
		x := int(*pi.EndCursor)
		o.End = &x
	}
	return o
}

// ---- served connection ---------------------------------------------------------------------------

type item struct{ C int }

func nodeOf(c int) string { return "n" + strconv.Itoa(c) }

// edgeOfNode identifies an edge by its node value (independently of the cursor codec).
func edgeOfNode(n string) (int, bool) {
	if !strings.HasPrefix(n, "n") {
		return 0, false
	}
	c, err := strconv.Atoi(n[1:])
	return c, err == nil
}

// cur is the application's cursor type: the ordering key K plus a key-dependent padding, so that
// serialised cursors have every length modulo 3 (base64 without padding) and the codec is exercised
// on a struct, not only on a bare integer. The model sees K.
type cur struct {
	K int
	P string
}

func pad(c int) string { return strings.Repeat("p", ((c%3)+3)%3) }

func curOf(c int) cur { return cur{c, pad(c)} }

var cursorType = reflect.TypeOf(cur{})

// tagCur is a second, NOT HASHABLE cursor type (a struct holding a slice): legal — cursors are only
// ever ordered by cursorLess and (un)marshalled — and used by the `tagCursor` connection.
type tagCur struct {
	K    int
	Tags []string
}

func tagCurOf(c int) tagCur { return tagCur{c, []string{"t" + pad(c), "x"}} }

var tagCursorType = reflect.TypeOf(tagCur{})

func tagLess(a, b any) bool { return a.(tagCur).K < b.(tagCur).K }

// anyCur is a third cursor type: its ordering key is INTERFACE-typed (a "sort by whatever column
// the client chose" cursor) and holds an int64, a uint32, a float64 or a string, depending on the
// edge; the application's comparator type-switches on it. (A plain `int` is not used: the unchanged
// codec already hands an `int` inside an interface back as int64 — noted in design-notes/C09.md.)
type anyCur struct {
	Key any
	Id  int64
}

func anyKeyOf(c int) any {
	switch ((c/10)%4 + 4) % 4 {
	case 0:
		return int64(c)
	case 1:
		return uint32(c)
	case 2:
		return float64(c)
	}
	return "k" + strconv.Itoa(c)
}

func anyCurOf(c int) anyCur { return anyCur{anyKeyOf(c), int64(c) * 3} }

var anyCursorType = reflect.TypeOf(anyCur{})

// anyKeyValue is the application's reading of a key: exactly the four types it ever emits; a key of
// any other type is not one of its keys and is not ordered relative to anything.
func anyKeyValue(k any) (float64, bool) {
	switch k := k.(type) {
	case int64:
		return float64(k), true
	case uint32:
		return float64(k), true
	case float64:
		return k, true
	case string:
		if strings.HasPrefix(k, "k") {
			if n, err := strconv.Atoi(k[1:]); err == nil {
				return float64(n), true
			}
		}
	}
	return 0, false
}

func anyLess(a, b any) bool {
	x, ok1 := anyKeyValue(a.(anyCur).Key)
	y, ok2 := anyKeyValue(b.(anyCur).Key)
	return ok1 && ok2 && x < y
}

// anyKeyNumber is the HARNESS's lenient reading of a decoded key (any numeric kind), so that a key
// that came back with another Go type is still attributed to its edge and the failure is reported
// from the server's behaviour and from the round-trip oracle, not from the harness's bookkeeping.
func anyKeyNumber(k any) (int, bool) {
	if v, ok := anyKeyValue(k); ok {
		return int(v), true
	}
	rv := reflect.ValueOf(k)
	switch rv.Kind() {
	case reflect.Int, reflect.Int8, reflect.Int16, reflect.Int32, reflect.Int64:
		return int(rv.Int()), true
	case reflect.Uint, reflect.Uint8, reflect.Uint16, reflect.Uint32, reflect.Uint64:
		return int(rv.Uint()), true
	case reflect.Float32, reflect.Float64:
		return int(rv.Float()), true
	}
	return 0, false
}

// activeField selects the codec `emit` / `decode` speak: the cursor type of the connection field the
// current case is served by (set by evalServedObs).
var activeField string

func emitFor(field string, c int) string {
	if field == "tagCursor" {
		return emitAny(tagCurOf(c))
	}
	if field == "anyCursor" {
		return emitAny(anyCurOf(c))
	}
	return emitAny(curOf(c))
}

type getterCall struct {
	After  *int  `json:"after"`
	Before *int  `json:"before"`
	Limit  int   `json:"limit"`
	Reply  []int `json:"reply"`
}

// world is the application behind the four connection fields. Its state is set per case.
type world struct {
	apis []*apifu.API
	// per case
	E          []int // application order
	policy     int
	policySeed uint64
	nilEmpty   bool
	// recorded
	allCalls int
	tcCalls  int
	winCalls []getterCall
	// several resolutions of one connection field in one request (multi.go): edge set and recorded
	// application calls per resolution
	multiE   [][]int
	multiAll []int
	multiTC  []int
	multiWin [][]getterCall
}

const numPolicies = 5

var policyNames = []string{"exact", "everything-shuffled", "exact+neighbours-outside", "whole-range-reversed", "exact+seeded-extras"}

// window getter policies — every one honours the documented ResolveEdges contract: the reply
// contains (at least) the first `limit` / last `-limit` edges of the range, no duplicates, only
// edges of the connection; extra and out-of-order edges are explicitly allowed.
func (w *world) windowReply(after, before *int, limit int) []int {
	return w.windowReplyOn(w.E, after, before, limit)
}

// windowReplyOn: the reply over the edge set E (several resolutions of one request have their own).
func (w *world) windowReplyOn(E []int, after, before *int, limit int) []int {
	S := sortedCopy(E)
	var in []int
	for _, c := range S {
		if (after == nil || *after < c) && (before == nil || c < *before) {
			in = append(in, c)
		}
	}
	exact := in
	if limit > 0 && len(in) > limit {
		exact = in[:limit]
	} else if limit < 0 && len(in) > -limit {
		exact = in[len(in)+limit:]
	}
	exact = append([]int{}, exact...)
	r := hx.NewRand(w.policySeed ^ uint64(limit*7919))
	switch w.policy {
	case 0:
		return exact
	case 1:
		all := append([]int{}, E...)
		hx.Shuffle(r, all)
		return all
	case 2:
		out := exact
		// nearest edge at or outside each end of the range
		if after != nil {
			for i := len(S) - 1; i >= 0; i-- {
				if S[i] <= *after {
					out = append(out, S[i])
					break
				}
			}
		}
		if before != nil {
			for _, c := range S {
				if c >= *before && indexOf(out, c) < 0 {
					out = append(out, c)
					break
				}
			}
		}
		return out
	case 3:
		out := []int{}
		for i := len(in) - 1; i >= 0; i-- {
			out = append(out, in[i])
		}
		return out
	default:
		out := exact
		for _, c := range S {
			if indexOf(out, c) < 0 && r.Bool() {
				out = append(out, c)
			}
		}
		hx.Shuffle(r, out)
		return out
	}
}

func (w *world) items(cs []int) []item {
	if len(cs) == 0 && w.nilEmpty {
		return nil
	}
	return items(cs)
}

func items(cs []int) []item {
	out := make([]item, len(cs))
	for i, c := range cs {
		out[i] = item{c}
	}
	return out
}

func toIntPtr(v any) *int {
	if v == nil {
		return nil
	}
	x := v.(cur).K
	return &x
}

func intLess(a, b any) bool { return a.(cur).K < b.(cur).K }

// Edge fields beyond `node`: their resolvers are not interchangeable (different values, different
// types), so an edge that is resolved by another field's resolver is seen.
func labelOf(c int) string { return "L" + strconv.Itoa(c) }
func weightOf(c int) int   { return ((c % 1000) + 1000) % 1000 }
func evenOf(c int) bool    { return c%2 == 0 }

func edgeFieldDefs() map[string]*graphql.FieldDefinition {
	return map[string]*graphql.FieldDefinition{
		"node": {Type: graphql.StringType, Resolve: func(ctx graphql.FieldContext) (any, error) {
			return nodeOf(ctx.Object.(item).C), nil
		}},
		"label": {Type: graphql.NewNonNullType(graphql.StringType), Resolve: func(ctx graphql.FieldContext) (any, error) {
			return labelOf(ctx.Object.(item).C), nil
		}},
		"weight": {Type: graphql.IntType, Resolve: func(ctx graphql.FieldContext) (any, error) {
			return weightOf(ctx.Object.(item).C), nil
		}},
		"even": {Type: graphql.BooleanType, Resolve: func(ctx graphql.FieldContext) (any, error) {
			return evenOf(ctx.Object.(item).C), nil
		}},
	}
}

// The APIs of one process, built in this order (the order is part of the history: definitions of
// one connection must not change how another one — defined before or after, in the same or in
// another schema — answers):
//
//	0 "plain, built first"   the plain connections only, before any customised connection exists
//	1 "plain then custom"    the plain connections, then connections with custom Arguments
//	2 "custom then plain"    the customised connections defined first
//	3 "plain, built last"    plain only again, after all customisations happened
//
// Plain connections: all/window × sync/promise (bidirectional), fwdOnly, bwdOnly. Customised ones:
// customAll (bidirectional; `first` overridden with a default page size, a required `ownerId`),
// customFwd (forward only; a required `tenant`), customBwd (backward only; `last` overridden with a
// default).
const numWorlds = 4

var worldNames = []string{"plain-built-first", "plain-then-custom", "custom-then-plain", "plain-built-last"}

const customAllDefaultFirst = 2
const customBwdDefaultLast = 1

func (w *world) allEdgesResolver(promise bool) func(ctx graphql.FieldContext) (any, func(a, b any) bool, error) {
	return func(ctx graphql.FieldContext) (any, func(a, b any) bool, error) {
		w.allCalls++
		slice := w.items(w.E)
		if promise {
			return apifu.Go(ctx.Context, func() (any, error) { return slice, nil }), intLess, nil
		}
		return slice, intLess, nil
	}
}

func (w *world) addPlain(cfg *apifu.Config) {
	for _, promise := range []bool{false, true} {
		promise := promise
		suffix := "Sync"
		if promise {
			suffix = "Promise"
		}
		cfg.AddQueryField("all"+suffix, apifu.Connection(&apifu.ConnectionConfig{
			NamePrefix:      "All" + suffix,
			ResolveAllEdges: w.allEdgesResolver(promise),
			CursorType:      cursorType,
			EdgeCursor:      func(edge any) any { return curOf(edge.(item).C) },
			EdgeFields:      edgeFieldDefs(),
		}))
		cfg.AddQueryField("window"+suffix, apifu.Connection(&apifu.ConnectionConfig{
			NamePrefix: "Window" + suffix,
			ResolveEdges: func(ctx graphql.FieldContext, after, before any, limit int) (any, func(a, b any) bool, error) {
				a, b := toIntPtr(after), toIntPtr(before)
				reply := w.windowReply(a, b, limit)
				w.winCalls = append(w.winCalls, getterCall{a, b, limit, append([]int{}, reply...)})
				slice := w.items(reply)
				if promise {
					return apifu.Go(ctx.Context, func() (any, error) { return slice, nil }), intLess, nil
				}
				return slice, intLess, nil
			},
			ResolveTotalCount: func(ctx graphql.FieldContext) (any, error) {
				w.tcCalls++
				return len(w.E), nil
			},
			CursorType: cursorType,
			EdgeCursor: func(edge any) any { return curOf(edge.(item).C) },
			EdgeFields: edgeFieldDefs(),
		}))
	}
	cfg.AddQueryField("tagCursor", apifu.Connection(&apifu.ConnectionConfig{
		NamePrefix: "TagCursor",
		ResolveAllEdges: func(ctx graphql.FieldContext) (any, func(a, b any) bool, error) {
			w.allCalls++
			return w.items(w.E), tagLess, nil
		},
		CursorType: tagCursorType,
		EdgeCursor: func(edge any) any { return tagCurOf(edge.(item).C) },
		EdgeFields: edgeFieldDefs(),
	}))
	cfg.AddQueryField("anyCursor", apifu.Connection(&apifu.ConnectionConfig{
		NamePrefix: "AnyCursor",
		ResolveAllEdges: func(ctx graphql.FieldContext) (any, func(a, b any) bool, error) {
			w.allCalls++
			return w.items(w.E), anyLess, nil
		},
		CursorType: anyCursorType,
		EdgeCursor: func(edge any) any { return anyCurOf(edge.(item).C) },
		EdgeFields: edgeFieldDefs(),
	}))
	cfg.AddQueryField("fwdOnly", apifu.Connection(&apifu.ConnectionConfig{
		NamePrefix:      "FwdOnly",
		Direction:       apifu.ConnectionDirectionForwardOnly,
		ResolveAllEdges: w.allEdgesResolver(false),
		CursorType:      cursorType,
		EdgeCursor:      func(edge any) any { return curOf(edge.(item).C) },
		EdgeFields:      edgeFieldDefs(),
	}))
	cfg.AddQueryField("bwdOnly", apifu.Connection(&apifu.ConnectionConfig{
		NamePrefix:      "BwdOnly",
		Direction:       apifu.ConnectionDirectionBackwardOnly,
		ResolveAllEdges: w.allEdgesResolver(true),
		CursorType:      cursorType,
		EdgeCursor:      func(edge any) any { return curOf(edge.(item).C) },
		EdgeFields:      edgeFieldDefs(),
	}))
}

func (w *world) addCustom(cfg *apifu.Config) {
	cfg.AddQueryField("customAll", apifu.Connection(&apifu.ConnectionConfig{
		NamePrefix: "CustomAll",
		Arguments: map[string]*graphql.InputValueDefinition{
			"first":   {Type: graphql.IntType, DefaultValue: customAllDefaultFirst},
			"ownerId": {Type: graphql.NewNonNullType(graphql.IDType)},
		},
		ResolveAllEdges: w.allEdgesResolver(false),
		CursorType:      cursorType,
		EdgeCursor:      func(edge any) any { return curOf(edge.(item).C) },
		EdgeFields:      edgeFieldDefs(),
	}))
	cfg.AddQueryField("customFwd", apifu.Connection(&apifu.ConnectionConfig{
		NamePrefix: "CustomFwd",
		Direction:  apifu.ConnectionDirectionForwardOnly,
		Arguments: map[string]*graphql.InputValueDefinition{
			"tenant": {Type: graphql.NewNonNullType(graphql.StringType)},
		},
		ResolveAllEdges: w.allEdgesResolver(true),
		CursorType:      cursorType,
		EdgeCursor:      func(edge any) any { return curOf(edge.(item).C) },
		EdgeFields:      edgeFieldDefs(),
	}))
	cfg.AddQueryField("customBwd", apifu.Connection(&apifu.ConnectionConfig{
		NamePrefix: "CustomBwd",
		Direction:  apifu.ConnectionDirectionBackwardOnly,
		Arguments: map[string]*graphql.InputValueDefinition{
			"last": {Type: graphql.IntType, DefaultValue: customBwdDefaultLast},
		},
		ResolveAllEdges: w.allEdgesResolver(false),
		CursorType:      cursorType,
		EdgeCursor:      func(edge any) any { return curOf(edge.(item).C) },
		EdgeFields:      edgeFieldDefs(),
	}))
}

func newWorld() *world {
	w := &world{}
	for i := 0; i < numWorlds; i++ {
		cfg := &apifu.Config{}
		switch i {
		case 0, 3:
			w.addPlain(cfg)
		case 1:
			w.addPlain(cfg)
			w.addCustom(cfg)
		case 2:
			w.addCustom(cfg)
			w.addPlain(cfg)
		}
		w.addMultiFields(cfg, "M")
		api, err := apifu.NewAPI(cfg)
		if err != nil {
			panic(err)
		}
		w.apis = append(w.apis, api)
	}
	return w
}

// ---- requests ---------------------------------------------------------------------------------------

// CurArg is an `after` / `before` argument.
type CurArg struct {
	// Kind: "emitted" — the string the server emits for cursor C (SerializeCursor(C)); C may belong
	// to no edge of E (a foreign but well-formed cursor). "raw" — an arbitrary string S.
	Kind string `json:"kind"`
	C    int    `json:"c,omitempty"`
	S    string `json:"s"`
}

type Req struct {
	Mode    string  `json:"mode"` // all | window
	Promise bool    `json:"promise"`
	First   *int    `json:"first"`
	Last    *int    `json:"last"`
	After   *CurArg `json:"after"`
	Before  *CurArg `json:"before"`
	SelPI   bool    `json:"sel_page_info"`
	SelTC   bool    `json:"sel_total_count"`
	// spelling: pass arguments as variables instead of literals; explicit null for absent ones
	Vars       bool `json:"vars"`
	NullAbsent bool `json:"null_absent"`
	// the application represents an empty result (no edges at all, an empty window) as a typed nil
	// slice (`var ret []T` with no appends) instead of a non-nil empty slice — directly and through
	// a promise. (An untyped nil is not a slice: completeConnection answers it with an error.)
	NilEmpty bool `json:"nil_empty"`
	// which of the process's APIs serves the request (see newWorld), and — when not "" — which
	// connection field instead of the plain <mode><Sync|Promise> one: tagCursor | anyCursor | fwdOnly | bwdOnly | customAll |
	// customFwd | customBwd (all of them ResolveAllEdges connections)
	World int    `json:"world"`
	Field string `json:"field,omitempty"`
	// select only `cursor node` on the edges (otherwise also label, weight, even)
	NodeOnly bool `json:"node_only,omitempty"`
}

func (r Req) field() string {
	if r.Field != "" {
		return r.Field
	}
	if r.Promise {
		return r.Mode + "Promise"
	}
	return r.Mode + "Sync"
}

// effective: the counts the resolver sees — a customised connection may give `first` / `last` a
// default value.
func (r Req) effective() (first, last *int) {
	first, last = r.First, r.Last
	if r.Field == "customAll" && first == nil {
		v := customAllDefaultFirst
		first = &v
	}
	if r.Field == "customBwd" && last == nil {
		v := customBwdDefaultLast
		last = &v
	}
	return first, last
}

// validationRejects: the schema (not the resolver) rejects the request — a direction-only
// connection declares its count as a required argument.
func (r Req) validationRejects() bool {
	return (r.Field == "fwdOnly" || r.Field == "customFwd") && r.First == nil || r.Field == "bwdOnly" && r.Last == nil
}

type servedEdge struct {
	Cursor string  `json:"cursor"`
	Node   string  `json:"node"`
	Label  *string `json:"label,omitempty"`
	Weight *int    `json:"weight,omitempty"`
	Even   *bool   `json:"even,omitempty"`
}

type servedObs struct {
	Panic     string       `json:"panic,omitempty"`
	Status    int          `json:"status"`
	Body      string       `json:"body"`
	Errors    []string     `json:"errors,omitempty"`
	NullData  bool         `json:"null_data,omitempty"`
	Edges     []servedEdge `json:"edges"`
	HasPI     bool         `json:"has_page_info"`
	HasPrev   bool         `json:"has_prev"`
	HasNext   bool         `json:"has_next"`
	Start     string       `json:"start"`
	End       string       `json:"end"`
	TC        *int         `json:"total_count"`
	AllCalls  int          `json:"all_calls"`
	TCCalls   int          `json:"tc_calls"`
	WinCalls  []getterCall `json:"win_calls"`
	Malformed string       `json:"malformed,omitempty"`
}

func gqlString(s string) string {
	b, _ := json.Marshal(s)
	return string(b)
}

func (r Req) build() (query string, vars map[string]any) {
	sel := "edges { cursor node label weight even }"
	if r.NodeOnly {
		sel = "edges { cursor node }"
	}
	if r.SelPI {
		sel += " pageInfo { hasPreviousPage hasNextPage startCursor endCursor }"
	}
	if r.SelTC {
		sel += " totalCount"
	}
	var args, decls []string
	vars = map[string]any{}
	add := func(name, typ string, present bool, lit string, val any) {
		if !present && !r.NullAbsent {
			return
		}
		if r.Vars {
			decls = append(decls, "$"+name+": "+typ)
			args = append(args, name+": $"+name)
			if present {
				vars[name] = val
			} else {
				vars[name] = nil
			}
			return
		}
		if !present {
			lit = "null"
		}
		args = append(args, name+": "+lit)
	}
	if r.First != nil {
		add("first", "Int", true, strconv.Itoa(*r.First), *r.First)
	} else {
		add("first", "Int", false, "", nil)
	}
	if r.Last != nil {
		add("last", "Int", true, strconv.Itoa(*r.Last), *r.Last)
	} else {
		add("last", "Int", false, "", nil)
	}
	if r.After != nil {
		add("after", "String", true, gqlString(r.After.S), r.After.S)
	} else {
		add("after", "String", false, "", nil)
	}
	if r.Before != nil {
		add("before", "String", true, gqlString(r.Before.S), r.Before.S)
	} else {
		add("before", "String", false, "", nil)
	}
	switch r.Field {
	case "customAll":
		args = append(args, `ownerId: "o1"`)
	case "customFwd":
		args = append(args, `tenant: "t1"`)
	}
	q := "query"
	if len(decls) > 0 {
		q += "(" + strings.Join(decls, ", ") + ")"
	}
	q += " { c: " + r.field()
	if len(args) > 0 {
		q += "(" + strings.Join(args, ", ") + ")"
	}
	q += " { " + sel + " } }"
	return q, vars
}

func (w *world) serve(E []int, policy int, policySeed uint64, r Req) (o servedObs) {
	w.E, w.policy, w.policySeed, w.nilEmpty = E, policy, policySeed, r.NilEmpty
	w.allCalls, w.tcCalls, w.winCalls = 0, 0, nil
	query, vars := r.build()
	body, _ := json.Marshal(map[string]any{"query": query, "variables": vars})
	req := httptest.NewRequest("POST", "/graphql", bytes.NewReader(body))
	req.Header.Set("Content-Type", "application/json")
	rec := httptest.NewRecorder()
	func() {
		defer func() {
			if p := recover(); p != nil {
				o.Panic = fmt.Sprint(p)
			}
		}()
		w.apis[r.World%len(w.apis)].ServeGraphQL(rec, req)
	}()
	o.AllCalls, o.TCCalls, o.WinCalls = w.allCalls, w.tcCalls, w.winCalls
	if o.WinCalls == nil {
		o.WinCalls = []getterCall{}
	}
	if o.Panic != "" {
		return o
	}
	o.Status = rec.Code
	o.Body = rec.Body.String()
	var resp struct {
		Data *struct {
			C *struct {
				Edges    []servedEdge `json:"edges"`
				PageInfo *struct {
					HasPreviousPage bool   `json:"hasPreviousPage"`
					HasNextPage     bool   `json:"hasNextPage"`
					StartCursor     string `json:"startCursor"`
					EndCursor       string `json:"endCursor"`
				} `json:"pageInfo"`
				TotalCount *int `json:"totalCount"`
			} `json:"c"`
		} `json:"data"`
		Errors []struct {
			Message   string          `json:"message"`
			Locations json.RawMessage `json:"locations"`
			Path      json.RawMessage `json:"path"`
		} `json:"errors"`
	}
	dec := json.NewDecoder(strings.NewReader(o.Body))
	dec.DisallowUnknownFields()
	if err := dec.Decode(&resp); err != nil || o.Status != 200 {
		o.Malformed = fmt.Sprintf("status %d, undecodable response (%v)", o.Status, err)
		return o
	}
	for _, e := range resp.Errors {
		o.Errors = append(o.Errors, e.Message)
	}
	if resp.Data == nil || resp.Data.C == nil {
		o.NullData = true
		return o
	}
	c := resp.Data.C
	o.Edges = c.Edges
	if o.Edges == nil {
		o.Edges = []servedEdge{}
	}
	if c.PageInfo != nil {
		o.HasPI = true
		o.HasPrev, o.HasNext, o.Start, o.End = c.PageInfo.HasPreviousPage, c.PageInfo.HasNextPage, c.PageInfo.StartCursor, c.PageInfo.EndCursor
	}
	o.TC = c.TotalCount
	return o
}

// ---- cursor codec (the real one) -----------------------------------------------------------------

func emit(c int) string {
	return emitFor(activeField, c)
}

// emitAny serialises an arbitrary value with the real codec (to build foreign cursor strings).
func emitAny(v any) string {
	s, err := apifu.SerializeCursor(v)
	if err != nil {
		panic(err)
	}
	return s
}

// decode runs the real DeserializeCursor; ok=false when it answers nil. A panic is reported.
func decode(s string) (c int, ok bool, panicked string) {
	defer func() {
		if p := recover(); p != nil {
			panicked = fmt.Sprint(p)
		}
	}()
	if activeField == "anyCursor" {
		v := apifu.DeserializeCursor(anyCursorType, s)
		if v == nil {
			return 0, false, ""
		}
		k, ok := anyKeyNumber(v.(anyCur).Key)
		return k, ok, ""
	}
	if activeField == "tagCursor" {
		v := apifu.DeserializeCursor(tagCursorType, s)
		if v == nil {
			return 0, false, ""
		}
		return v.(tagCur).K, true, ""
	}
	v := apifu.DeserializeCursor(cursorType, s)
	if v == nil {
		return 0, false, ""
	}
	return v.(cur).K, true, ""
}

// decodeFull also returns the padding (for the round-trip oracle).
func decodeFull(s string) (c cur, ok bool, panicked string) {
	defer func() {
		if p := recover(); p != nil {
			panicked = fmt.Sprint(p)
		}
	}()
	v := apifu.DeserializeCursor(cursorType, s)
	if v == nil {
		return cur{}, false, ""
	}
	return v.(cur), true, ""
}

var errClasses = map[string]string{
	"The `first` argument cannot be negative.":                "first-negative",
	"You cannot provide both `first` and `last` arguments.":   "both",
	"The `last` argument cannot be negative.":                 "last-negative",
	"You must provide either the `first` or `last` argument.": "neither",
	"Invalid after cursor.":                                   "invalid-after",
	"Invalid before cursor.":                                  "invalid-before",
}

func sortedInts(m map[int]bool) []int {
	var out []int
	for k := range m {
		out = append(out, k)
	}
	sort.Ints(out)
	return out
}
