// Codec tie for C09 / C16: the Lean model of the cursor codec (lean/ApiFu/C09/Codec.lean — Go's
// base64.RawURLEncoding and the vmihailenco/msgpack v4 wire format of integers, strings and structs
// of them) against the real code, verdict and value compared EXACTLY.
//
// Driver operations (c09model, CodecDriver.lean):
//
//	(b64enc HEX)             -> (ok text)           base64.RawURLEncoding.EncodeToString
//	(b64dec "text")          -> invalid | (ok HEX)  base64.RawURLEncoding.DecodeString
//	(cursor-enc TY VAL)      -> (ok text)           apifu.SerializeCursor
//	(cursor-dec TY "text")   -> invalid | (ok VAL)  apifu.DeserializeCursor(type, text); nil = invalid
//
// TY = i8|i16|i32|i64|u8|u16|u32|u64|str | (struct (Name sty)…); VAL = integer | (s HEX) | (v sval…).
// Go types: the scalars are int8…uint64 / string (with GoInt: int / uint for i64 / u64), the struct
// (struct (Nano i64) (Id str)) is apifu.TimeBasedCursor itself, (struct (K i64) (P str)) is the
// harness's cursor type `cur` (K is a Go int), every other struct is built with reflect.StructOf.
//
// Generators (genCodecTie): base64 — every byte string ≤ 3 over 8 boundary bytes, length 4 over 4,
// random ones; every text ≤ 4 over 11 characters incl. '=', '+', '/', CR, LF, blank, non-ASCII up to 3;
// truncations / replacements / inserted line breaks of valid encodings. msgpack — every scalar type ×
// boundary values (type limits, every msgpack width boundary ± 1), strings of length
// 0,1,31,32,255,256,65535,65536, TimeBasedCursor, cur, the empty struct, structs of 16 and 17 fields,
// random schemas; every encoding decoded back into its own type and into other types (Go's
// truncating conversions); hand-built msgpack: every integer wire format × every integer target,
// every string/bin header, struct targets with maps (key order, duplicates, missing and unknown keys
// whose value is each msgpack kind incl. nested containers and ext, nil, wrong kinds), arrays
// (short, exact, surplus), huge claimed lengths; every truncation and single-byte corruption of
// valid cursors, at the msgpack level and at the text level.
//
// Model-free oracles: base64 Decode(Encode(b)) = b; Deserialize(T, Serialize(v)) = v and
// Serialize(v) ≠ ""; no panic anywhere. A disagreement with the model where these hold is reported
// as `correspondence` (no failing input for the property).
package main

import (
	"encoding/base64"
	"encoding/hex"
	"fmt"
	"math/big"
	"reflect"
	"strings"

	apifu "github.com/ccbrown/api-fu"

	"verifharness/hx"
)

type CodecTie struct {
	Op    string `json:"op"`
	Ty    string `json:"ty,omitempty"`
	Val   string `json:"val,omitempty"`
	Hex   string `json:"hex,omitempty"`
	Text  string `json:"text,omitempty"`
	GoInt bool   `json:"go_int,omitempty"` // use Go int / uint for a scalar i64 / u64
}

const (
	obB64    = "correspondence: base64.RawURLEncoding Encode/Decode = model b64enc/b64dec (verdict and bytes)"
	obCursor = "correspondence: SerializeCursor/DeserializeCursor = model cursorEnc/cursorDec (verdict and value), every modelled cursor type, well-formed and malformed input"
	obCodecO = "oracle: codec round trips (base64; Deserialize(Serialize(v)) = v, non-empty) and no panic, every modelled cursor type"
)

// ---- types and values ----------------------------------------------------------------------------------

type fieldDesc struct {
	name string
	ty   string
}

type tyDesc struct {
	scalar   string // "" for a struct
	isStruct bool
	fields   []fieldDesc
}

func (t tyDesc) sexp() hx.Sexp {
	if !t.isStruct {
		return hx.A(t.scalar)
	}
	xs := []hx.Sexp{hx.A("struct")}
	for _, f := range t.fields {
		xs = append(xs, hx.L(hx.A(f.name), hx.A(f.ty)))
	}
	return hx.L(xs...)
}

func parseTy(s string) (tyDesc, error) {
	x, err := hx.ParseSexp(s)
	if err != nil {
		return tyDesc{}, err
	}
	if !x.IsList {
		return tyDesc{scalar: x.Atom}, nil
	}
	t := tyDesc{isStruct: true}
	for _, f := range x.List[1:] {
		if !f.IsList || len(f.List) != 2 {
			return tyDesc{}, fmt.Errorf("bad field")
		}
		t.fields = append(t.fields, fieldDesc{f.List[0].Atom, f.List[1].Atom})
	}
	return t, nil
}

var scalarTypes = map[string]reflect.Type{
	"i8": reflect.TypeOf(int8(0)), "i16": reflect.TypeOf(int16(0)), "i32": reflect.TypeOf(int32(0)), "i64": reflect.TypeOf(int64(0)),
	"u8": reflect.TypeOf(uint8(0)), "u16": reflect.TypeOf(uint16(0)), "u32": reflect.TypeOf(uint32(0)), "u64": reflect.TypeOf(uint64(0)),
	"str": reflect.TypeOf(""),
}

var scalarNames = []string{"i8", "i16", "i32", "i64", "u8", "u16", "u32", "u64", "str"}

var structTypeCache = map[string]reflect.Type{}

func (t tyDesc) goType(goInt bool) reflect.Type {
	if !t.isStruct {
		if goInt && t.scalar == "i64" {
			return reflect.TypeOf(int(0))
		}
		if goInt && t.scalar == "u64" {
			return reflect.TypeOf(uint(0))
		}
		return scalarTypes[t.scalar]
	}
	key := t.sexp().String()
	switch key {
	case "(struct (Nano i64) (Id str))":
		return reflect.TypeOf(apifu.TimeBasedCursor{})
	case "(struct (K i64) (P str))":
		return cursorType
	}
	if rt, ok := structTypeCache[key]; ok {
		return rt
	}
	var fs []reflect.StructField
	for _, f := range t.fields {
		fs = append(fs, reflect.StructField{Name: f.name, Type: scalarTypes[f.ty]})
	}
	rt := reflect.StructOf(fs)
	structTypeCache[key] = rt
	return rt
}

func setScalar(v reflect.Value, x hx.Sexp) error {
	if x.IsList {
		if len(x.List) != 2 || x.List[0].Atom != "s" {
			return fmt.Errorf("bad value")
		}
		b, err := hex.DecodeString(x.List[1].Atom)
		if err != nil {
			return err
		}
		if v.Kind() != reflect.String {
			return fmt.Errorf("string for %s", v.Kind())
		}
		v.SetString(string(b))
		return nil
	}
	n, ok := new(big.Int).SetString(x.Atom, 10)
	if !ok {
		return fmt.Errorf("bad integer")
	}
	switch v.Kind() {
	case reflect.Int, reflect.Int8, reflect.Int16, reflect.Int32, reflect.Int64:
		if !n.IsInt64() || v.OverflowInt(n.Int64()) {
			return fmt.Errorf("out of range")
		}
		v.SetInt(n.Int64())
	case reflect.Uint, reflect.Uint8, reflect.Uint16, reflect.Uint32, reflect.Uint64:
		if !n.IsUint64() || v.OverflowUint(n.Uint64()) {
			return fmt.Errorf("out of range")
		}
		v.SetUint(n.Uint64())
	default:
		return fmt.Errorf("integer for %s", v.Kind())
	}
	return nil
}

func buildValue(t tyDesc, goInt bool, val string) (reflect.Value, error) {
	x, err := hx.ParseSexp(val)
	if err != nil {
		return reflect.Value{}, err
	}
	v := reflect.New(t.goType(goInt)).Elem()
	if !t.isStruct {
		return v, setScalar(v, x)
	}
	if !x.IsList || len(x.List) != len(t.fields)+1 || x.List[0].Atom != "v" {
		return v, fmt.Errorf("bad struct value")
	}
	for i := range t.fields {
		if err := setScalar(v.Field(i), x.List[i+1]); err != nil {
			return v, err
		}
	}
	return v, nil
}

func scalarSexp(v reflect.Value) hx.Sexp {
	switch v.Kind() {
	case reflect.String:
		return hx.L(hx.A("s"), hx.A(hex.EncodeToString([]byte(v.String()))))
	case reflect.Uint, reflect.Uint8, reflect.Uint16, reflect.Uint32, reflect.Uint64:
		return hx.A(new(big.Int).SetUint64(v.Uint()).String())
	default:
		return hx.I(v.Int())
	}
}

func valueSexp(t tyDesc, v reflect.Value) hx.Sexp {
	if !t.isStruct {
		return scalarSexp(v)
	}
	xs := []hx.Sexp{hx.A("v")}
	for i := range t.fields {
		xs = append(xs, scalarSexp(v.Field(i)))
	}
	return hx.L(xs...)
}

// ---- one case ---------------------------------------------------------------------------------------------

func (c CodecTie) modelLine() string {
	switch c.Op {
	case "b64enc":
		return hx.L(hx.A("b64enc"), hx.A(c.Hex)).String()
	case "b64dec":
		return hx.L(hx.A("b64dec"), hx.A(c.Text)).String()
	case "cursor-enc":
		return "(cursor-enc " + c.Ty + " " + c.Val + ")"
	default:
		return "(cursor-dec " + c.Ty + " " + hx.A(c.Text).String() + ")"
	}
}

func okLine(x hx.Sexp) string { return hx.L(hx.A("ok"), x).String() }

// real runs the real code: its answer in the driver's reply syntax, the failure of the model-free
// oracle ("" = holds) and a recovered panic.
func (c CodecTie) real() (reply, oracle, panicked string) {
	defer func() {
		if p := recover(); p != nil {
			panicked = fmt.Sprint(p)
		}
	}()
	switch c.Op {
	case "b64enc":
		b, err := hex.DecodeString(c.Hex)
		if err != nil {
			return "bad-case", "", ""
		}
		s := base64.RawURLEncoding.EncodeToString(b)
		back, err := base64.RawURLEncoding.DecodeString(s)
		if err != nil || string(back) != string(b) {
			oracle = fmt.Sprintf("base64: Decode(Encode(%x)) = %x, %v", b, back, err)
		}
		return okLine(hx.A(s)), oracle, ""
	case "b64dec":
		b, err := base64.RawURLEncoding.DecodeString(c.Text)
		if err != nil {
			return "invalid", "", ""
		}
		return okLine(hx.A(hex.EncodeToString(b))), "", ""
	}
	t, err := parseTy(c.Ty)
	if err != nil {
		return "bad-case", "", ""
	}
	switch c.Op {
	case "cursor-enc":
		v, err := buildValue(t, c.GoInt, c.Val)
		if err != nil {
			return "bad-case", "", ""
		}
		s, err := apifu.SerializeCursor(v.Interface())
		if err != nil {
			return "error", "SerializeCursor fails on a cursor value: " + err.Error(), ""
		}
		back := apifu.DeserializeCursor(v.Type(), s)
		if back == nil || !reflect.DeepEqual(back, v.Interface()) {
			oracle = fmt.Sprintf("Deserialize(Serialize(%s : %s)) = %v: the emitted cursor %q does not come back as the cursor it was", c.Val, c.Ty, back, s)
		} else if s == "" {
			oracle = "a cursor serialises to the empty string (which the connection treats as absent)"
		}
		return okLine(hx.A(s)), oracle, ""
	case "cursor-dec":
		rt := t.goType(c.GoInt)
		d := apifu.DeserializeCursor(rt, c.Text)
		if d == nil {
			return "invalid", "", ""
		}
		if reflect.TypeOf(d) != rt {
			oracle = fmt.Sprintf("DeserializeCursor(%s, %q) returned a %T", rt, c.Text, d)
		}
		return okLine(valueSexp(t, reflect.ValueOf(d))), oracle, ""
	}
	return "bad-case", "", ""
}

func (c CodecTie) key() string {
	g := ""
	if c.GoInt {
		g = "g"
	}
	return c.Op + "|" + c.Ty + g + "|" + c.Val + c.Hex + c.Text
}

func (c CodecTie) obligation() string {
	if c.Op == "b64enc" || c.Op == "b64dec" {
		return obB64
	}
	return obCursor
}

// judge compares one case's real answer with the model's reply ("" = model not available).
func (c CodecTie) judge(reply, oracle, panicked, model string, haveModel bool) (what, kind string) {
	if panicked != "" {
		return fmt.Sprintf("the cursor codec panicked on %s: %s", c.modelLine(), panicked), "crash"
	}
	if oracle != "" {
		return oracle, "property"
	}
	if haveModel && model != reply {
		return fmt.Sprintf("codec model and code disagree on %s: model %s, code %s", c.modelLine(), model, reply), "correspondence"
	}
	return "", ""
}

func (h *harness) evalCodecTie(c Case) (what, kind string) {
	t := *c.Tie
	reply, oracle, panicked := t.real()
	model := ""
	if h.model != nil {
		m, err := h.model.Ask(t.modelLine())
		if err != nil {
			return "model: " + err.Error(), "correspondence"
		}
		model = m
	}
	if h.verbose {
		fmt.Printf("request: %s\ncode:    %s\nmodel:   %s\n", t.modelLine(), reply, model)
	}
	return t.judge(reply, oracle, panicked, model, h.model != nil)
}

// tieBatch evaluates many cases with one pipelined model conversation.
func (h *harness) tieBatch(cases []CodecTie) {
	if len(cases) == 0 {
		return
	}
	type res struct{ reply, oracle, panicked string }
	rs := make([]res, len(cases))
	lines := make([]string, len(cases))
	for i, c := range cases {
		r, o, p := c.real()
		rs[i] = res{r, o, p}
		lines[i] = c.modelLine()
	}
	var models []string
	if h.model != nil {
		var err error
		models, err = h.model.AskAll(lines)
		if err != nil {
			h.run.Oblige(obCursor, "correspondence", 1, false, "model: "+err.Error())
			h.run.Violate("correspondence", "model: "+err.Error(), "", true, nil)
			return
		}
	}
	for i, c := range cases {
		m := ""
		if models != nil {
			m = models[i]
		}
		what, kind := c.judge(rs[i].reply, rs[i].oracle, rs[i].panicked, m, models != nil)
		nontriv := c.Op == "b64dec" || c.Op == "cursor-dec" || (c.Op == "b64enc" && c.Hex != "") || c.Op == "cursor-enc"
		h.run.Case(c.key(), nontriv)
		h.run.Count("kind:codectie")
		h.run.Count("codectie:" + c.Op)
		if c.Op == "b64dec" || c.Op == "cursor-dec" {
			if rs[i].reply == "invalid" {
				h.run.Count("codectie:" + c.Op + ":invalid")
			} else {
				h.run.Count("codectie:" + c.Op + ":accepted")
			}
		}
		h.run.Oblige(c.obligation(), "correspondence", 1, kind != "correspondence", what)
		h.run.Oblige(obCodecO, "oracle", 1, kind != "property" && kind != "crash", what)
		if what != "" {
			cc := c
			h.run.Violate(kind, what, "", kind == "correspondence", Case{Kind: "codectie", Tie: &cc})
		}
	}
}

// ---- generators -------------------------------------------------------------------------------------------

func b64(b []byte) string { return base64.RawURLEncoding.EncodeToString(b) }

func be(n uint64, k int) []byte {
	out := make([]byte, k)
	for i := k - 1; i >= 0; i-- {
		out[i] = byte(n)
		n >>= 8
	}
	return out
}

func cat(parts ...[]byte) []byte {
	var out []byte
	for _, p := range parts {
		out = append(out, p...)
	}
	return out
}

func mpStr(s string) []byte {
	l := len(s)
	switch {
	case l < 32:
		return cat([]byte{0xa0 | byte(l)}, []byte(s))
	case l < 256:
		return cat([]byte{0xd9, byte(l)}, []byte(s))
	case l < 65536:
		return cat([]byte{0xda}, be(uint64(l), 2), []byte(s))
	}
	return cat([]byte{0xdb}, be(uint64(l), 4), []byte(s))
}

func intBounds(ty string) (lo, hi *big.Int) {
	bits := map[string]uint{"i8": 8, "i16": 16, "i32": 32, "i64": 64, "u8": 8, "u16": 16, "u32": 32, "u64": 64}[ty]
	one := big.NewInt(1)
	if ty[0] == 'u' {
		return big.NewInt(0), new(big.Int).Sub(new(big.Int).Lsh(one, bits), one)
	}
	h := new(big.Int).Lsh(one, bits-1)
	return new(big.Int).Neg(h), new(big.Int).Sub(h, one)
}

var boundaryInts = func() []*big.Int {
	var out []*big.Int
	add := func(n *big.Int) {
		for d := int64(-1); d <= 1; d++ {
			out = append(out, new(big.Int).Add(n, big.NewInt(d)))
		}
	}
	for _, k := range []uint{0, 5, 7, 8, 15, 16, 31, 32, 53, 63, 64} {
		p := new(big.Int).Lsh(big.NewInt(1), k)
		add(p)
		add(new(big.Int).Neg(p))
	}
	return out
}()

func intsFor(ty string, r *hx.Rand, nRandom int) []string {
	lo, hi := intBounds(ty)
	seen := map[string]bool{}
	var out []string
	put := func(n *big.Int) {
		if n.Cmp(lo) >= 0 && n.Cmp(hi) <= 0 && !seen[n.String()] {
			seen[n.String()] = true
			out = append(out, n.String())
		}
	}
	put(lo)
	put(new(big.Int).Add(lo, big.NewInt(1)))
	put(hi)
	put(new(big.Int).Sub(hi, big.NewInt(1)))
	for _, n := range boundaryInts {
		put(n)
	}
	for i := 0; i < nRandom; i++ {
		n := new(big.Int).SetUint64(r.Uint64() >> uint(r.Intn(64)))
		if r.Bool() {
			n.Neg(n)
		}
		put(n)
	}
	return out
}

func randBytes(r *hx.Rand, n int) []byte {
	b := make([]byte, n)
	for i := range b {
		switch r.Intn(4) {
		case 0:
			b[i] = byte(r.Intn(256))
		case 1:
			b[i] = "\x00\x7f\x80\xff\xc0\xa0"[r.Intn(6)]
		default:
			b[i] = byte('a' + r.Intn(26))
		}
	}
	return b
}

func strVal(b []byte) string { return hx.L(hx.A("s"), hx.A(hex.EncodeToString(b))).String() }

func strsFor(r *hx.Rand, lens []int, nRandom int) []string {
	var out []string
	for _, l := range lens {
		out = append(out, strVal(randBytes(r, l)))
	}
	for i := 0; i < nRandom; i++ {
		out = append(out, strVal(randBytes(r, r.Intn(40))))
	}
	return out
}

func valsFor(ty string, r *hx.Rand, nRandom int, strLens []int) []string {
	if ty == "str" {
		return strsFor(r, strLens, nRandom)
	}
	return intsFor(ty, r, nRandom)
}

const tbcTy = "(struct (Nano i64) (Id str))"
const curTy = "(struct (K i64) (P str))"

// unknownValues: msgpack values of every kind, for unknown keys / surplus array elements.
func unknownValues() [][]byte {
	return [][]byte{
		{0xc0}, {0xc2}, {0xc3}, {0x05}, {0xff}, {0xcc, 0x80}, {0xcd, 1, 2}, {0xce, 1, 2, 3, 4}, {0xcf, 1, 2, 3, 4, 5, 6, 7, 8},
		{0xd0, 0x80}, {0xd1, 1, 2}, {0xd2, 1, 2, 3, 4}, {0xd3, 1, 2, 3, 4, 5, 6, 7, 8}, {0xca, 1, 2, 3, 4}, {0xcb, 1, 2, 3, 4, 5, 6, 7, 8},
		{0xa0}, {0xa2, 'h', 'i'}, {0xd9, 2, 'h', 'i'}, {0xda, 0, 2, 'h', 'i'}, {0xdb, 0, 0, 0, 2, 'h', 'i'},
		{0xc4, 1, 0}, {0xc5, 0, 1, 0}, {0xc6, 0, 0, 0, 1, 0},
		{0x90}, {0x92, 1, 0x91, 2}, {0x92, 0x81, 1, 2, 0xc0}, {0x80}, {0x81, 0xa1, 'k', 0x92, 1, 2}, {0x82, 1, 2, 0x90, 0x80},
		{0xdc, 0, 2, 1, 2}, {0xdd, 0, 0, 0, 1, 0xc0}, {0xde, 0, 1, 1, 2}, {0xdf, 0, 0, 0, 1, 0xa0, 0x90},
		{0xd4, 1, 9}, {0xd5, 1, 9, 9}, {0xd6, 1, 9, 9, 9, 9}, {0xd7, 1, 1, 2, 3, 4, 5, 6, 7, 8}, {0xd8, 1, 1, 2, 3, 4, 5, 6, 7, 8, 1, 2, 3, 4, 5, 6, 7, 8},
		{0xc7, 2, 1, 9, 9}, {0xc7, 0, 1}, {0xc8, 0, 1, 1, 9}, {0xc9, 0, 0, 0, 1, 1, 9}, {0xc7, 3, 1, 9}, // the last: short ext payload
		{0xc1}, {0x92, 1, 0xc1}, {0x81, 0xc1, 1},
		{0xdd, 0xff, 0xff, 0xff, 0xff, 1}, {0xdf, 0xff, 0xff, 0xff, 0xff, 1, 2}, {0xdb, 0xff, 0xff, 0xff, 0xff, 'x'}, {0xc6, 0xff, 0xff, 0xff, 0xff},
	}
}

var corruptBytes = []byte{0x00, 0x7f, 0x80, 0x8f, 0x90, 0xa0, 0xbf, 0xc0, 0xc1, 0xc2, 0xc4, 0xcc, 0xcf, 0xd0, 0xd3, 0xd9, 0xdc, 0xde, 0xdf, 0xe0, 0xff}

func (h *harness) genCodecTie() {
	R := h.run.Rand.Fork()
	thorough := h.run.Thorough()
	var batch []CodecTie
	flush := func() { h.tieBatch(batch); batch = batch[:0] }
	add := func(c CodecTie) {
		batch = append(batch, c)
		if len(batch) >= 4000 {
			flush()
		}
	}

	// ---- 1. b64enc
	{
		alpha := []byte{0x00, 0x01, 0x3f, 0x40, 0x7f, 0x80, 0xfb, 0xff}
		var rec func(prefix []byte, n int, alpha []byte)
		rec = func(prefix []byte, n int, alpha []byte) {
			if n == 0 {
				add(CodecTie{Op: "b64enc", Hex: hex.EncodeToString(prefix)})
				return
			}
			for _, a := range alpha {
				rec(append(append([]byte{}, prefix...), a), n-1, alpha)
			}
		}
		for n := 0; n <= 3; n++ {
			rec(nil, n, alpha)
		}
		rec(nil, 4, []byte{0x00, 0x3f, 0x80, 0xff})
		for i := 0; i < h.run.Scale(300, 5000); i++ {
			b := make([]byte, R.Intn(41))
			for j := range b {
				b[j] = byte(R.Intn(256))
			}
			add(CodecTie{Op: "b64enc", Hex: hex.EncodeToString(b)})
		}
	}
	// ---- 2. b64dec
	{
		alpha := []string{"A", "B", "Q", "_", "-", "/", "+", "=", "\n", "\r", " "}
		var rec func(prefix string, n int, alpha []string)
		rec = func(prefix string, n int, alpha []string) {
			if n == 0 {
				add(CodecTie{Op: "b64dec", Text: prefix})
				return
			}
			for _, a := range alpha {
				rec(prefix+a, n-1, alpha)
			}
		}
		for n := 0; n <= 4; n++ {
			rec("", n, alpha)
		}
		wide := append(append([]string{}, alpha...), "é", "z", "9", "\x00", "\t", "日")
		for n := 1; n <= 3; n++ {
			rec("", n, wide)
		}
		repl := []string{"A", "_", "=", "\n", "+", "é", "\x00", "/"}
		for i := 0; i < h.run.Scale(120, 1500); i++ {
			b := make([]byte, R.Range(1, 14))
			for j := range b {
				b[j] = byte(R.Intn(256))
			}
			s := b64(b)
			add(CodecTie{Op: "b64dec", Text: s})
			for k := 0; k < len(s); k++ {
				add(CodecTie{Op: "b64dec", Text: s[:k]})
				for _, x := range repl {
					add(CodecTie{Op: "b64dec", Text: s[:k] + x + s[k+1:]})
				}
			}
			k := R.Intn(len(s) + 1)
			add(CodecTie{Op: "b64dec", Text: s[:k] + "\n" + s[k:]})
			add(CodecTie{Op: "b64dec", Text: s[:k] + "\r\n" + s[k:] + "\n"})
			add(CodecTie{Op: "b64dec", Text: s + "="})
			add(CodecTie{Op: "b64dec", Text: s + "=="})
		}
	}
	flush()

	// ---- 3. cursor-enc, and every encoding decoded into its own and into other types
	type encd struct {
		ty    string
		goInt bool
		text  string
	}
	var emitted []encd
	encode := func(ty string, goInt bool, val string) {
		c := CodecTie{Op: "cursor-enc", Ty: ty, Val: val, GoInt: goInt}
		add(c)
		t, err := parseTy(ty)
		if err != nil {
			return
		}
		v, err := buildValue(t, goInt, val)
		if err != nil {
			return
		}
		func() {
			defer func() { recover() }()
			if s, err := apifu.SerializeCursor(v.Interface()); err == nil {
				emitted = append(emitted, encd{ty, goInt, s})
			}
		}()
	}
	bigLens := []int{0, 1, 31, 32, 255, 256, 65535, 65536}
	smallLens := []int{0, 1, 31, 32, 255, 256}
	for _, ty := range scalarNames {
		for _, v := range valsFor(ty, R, h.run.Scale(60, 1000), bigLens) {
			encode(ty, false, v)
			if (ty == "i64" || ty == "u64") && R.Bool() {
				encode(ty, true, v)
			}
		}
	}
	structVals := func(t tyDesc, r *hx.Rand, n int) []string {
		var out []string
		for i := 0; i < n; i++ {
			xs := []string{"v"}
			for _, f := range t.fields {
				vs := valsFor(f.ty, r, 3, []int{hx.Pick(r, smallLens)})
				xs = append(xs, hx.Pick(r, vs))
			}
			out = append(out, "("+strings.Join(xs, " ")+")")
		}
		return out
	}
	var schemas []string
	{
		// TimeBasedCursor: nano boundaries × id lengths
		nanos := intsFor("i64", R, 10)
		for _, n := range nanos {
			for _, l := range []int{0, 1, 31, 32} {
				encode(tbcTy, false, "(v "+n+" "+strVal(randBytes(R, l))+")")
			}
		}
		for _, l := range smallLens {
			encode(tbcTy, false, "(v "+hx.Pick(R, nanos)+" "+strVal(randBytes(R, l))+")")
			encode(curTy, false, "(v "+hx.Pick(R, nanos)+" "+strVal(randBytes(R, l))+")")
		}
		for _, n := range nanos {
			encode(curTy, false, "(v "+n+" "+strVal([]byte(pad(len(n))))+")")
		}
		schemas = append(schemas, tbcTy, curTy, "(struct)", "(struct (Id str) (Nano i64))", "(struct (Nano i8) (Id str) (Extra u16))", "(struct (K u8))")
		for _, n := range []int{15, 16, 17} {
			fs := []string{"struct"}
			for i := 0; i < n; i++ {
				fs = append(fs, fmt.Sprintf("(F%d u8)", i))
			}
			schemas = append(schemas, "("+strings.Join(fs, " ")+")")
		}
		names := []string{"A", "B", "Nano", "Id", "K", "P", "X1", "LongerFieldName", "Zz", "Q_r"}
		for i := 0; i < h.run.Scale(60, 600); i++ {
			nf := R.Intn(7)
			ns := append([]string{}, names...)
			hx.Shuffle(R, ns)
			fs := []string{"struct"}
			for j := 0; j < nf; j++ {
				fs = append(fs, "("+ns[j]+" "+hx.Pick(R, scalarNames)+")")
			}
			schemas = append(schemas, "("+strings.Join(fs, " ")+")")
		}
		for _, s := range schemas {
			t, err := parseTy(s)
			if err != nil {
				continue
			}
			for _, v := range structVals(t, R, 4) {
				encode(s, false, v)
			}
		}
	}
	flush()
	allTys := append(append([]string{}, scalarNames...), schemas...)
	for _, e := range emitted {
		if len(e.text) > 2000 && !R.Chance(1, 4) {
			continue // the 64 KiB strings: a few are enough
		}
		add(CodecTie{Op: "cursor-dec", Ty: e.ty, Text: e.text, GoInt: e.goInt})
		for k := 0; k < 3; k++ {
			add(CodecTie{Op: "cursor-dec", Ty: hx.Pick(R, allTys), Text: e.text})
		}
	}
	flush()

	// ---- 4. hand-built msgpack
	dec := func(ty string, b []byte) {
		add(CodecTie{Op: "cursor-dec", Ty: ty, Text: b64(b)})
	}
	decT := func(ty string, b []byte) { // also with trailing bytes
		dec(ty, b)
		dec(ty, cat(b, []byte{0xc1}))
		dec(ty, cat(b, []byte{0x00, 0xff}))
	}
	var intForms [][]byte
	for _, c := range []byte{0xc0, 0x00, 0x01, 0x7f, 0xe0, 0xff, 0xc1, 0xc2, 0xc3, 0x90, 0x80, 0xa0} {
		intForms = append(intForms, []byte{c})
	}
	for i, code := range []byte{0xcc, 0xcd, 0xce, 0xcf, 0xd0, 0xd1, 0xd2, 0xd3} {
		k := 1 << uint(i%4)
		for _, pat := range [][2]byte{{0x00, 0x00}, {0xff, 0xff}, {0x7f, 0xff}, {0x80, 0x00}, {0x00, 0x01}, {0x01, 0x00}, {0x80, 0x01}} {
			p := make([]byte, k)
			for j := range p {
				p[j] = pat[1]
			}
			p[0] = pat[0]
			if k == 1 && pat[0] == 0x00 {
				p[0] = pat[1]
			}
			intForms = append(intForms, cat([]byte{code}, p), cat([]byte{code}, p[:k-1]))
		}
	}
	intForms = append(intForms, []byte{0xca, 0x40, 0, 0, 0}, []byte{0xcb, 0x40, 0, 0, 0, 0, 0, 0, 0}, []byte{0xa1, 0x41}, []byte{0xc4, 1, 0}, []byte{0xd4, 0, 0}, []byte{})
	var strForms [][]byte
	for _, l := range []int{0, 1, 5, 31} {
		body := []byte(strings.Repeat("x", l))
		strForms = append(strForms, cat([]byte{0xa0 | byte(l)}, body))
		if l > 0 {
			strForms = append(strForms, cat([]byte{0xa0 | byte(l)}, body[:l-1]))
		}
		for _, hd := range [][]byte{{0xd9, byte(l)}, {0xda, 0, byte(l)}, {0xdb, 0, 0, 0, byte(l)}, {0xc4, byte(l)}, {0xc5, 0, byte(l)}, {0xc6, 0, 0, 0, byte(l)}} {
			strForms = append(strForms, cat(hd, body), cat(hd, body, []byte{'y'}), hd[:len(hd)-1])
			if l > 0 {
				strForms = append(strForms, cat(hd, body[:l-1]))
			}
		}
	}
	strForms = append(strForms, []byte{0xc0}, []byte{0xdb, 0xff, 0xff, 0xff, 0xff, 'x'}, []byte{0xc6, 0xff, 0xff, 0xff, 0xff}, []byte{0xda, 0xff, 0xff, 'x'}, cat([]byte{0xd9, 0xff}, []byte(strings.Repeat("z", 255))), cat([]byte{0xd9, 0xff}, []byte(strings.Repeat("z", 254))))
	for _, ty := range scalarNames {
		for _, f := range intForms {
			decT(ty, f)
		}
		for _, f := range strForms {
			decT(ty, f)
		}
	}
	flush()
	// struct targets
	for _, st := range []struct {
		ty   string
		keys []string
		vals [][]byte // a well-formed value per field
		alt  [][]byte // another value per field (other wire format)
	}{
		{tbcTy, []string{"Nano", "Id"}, [][]byte{{0xd3, 0, 0, 0, 0, 0, 0, 1, 44}, {0xa2, 'i', 'd'}}, [][]byte{{0xd0, 0x85}, {0xc4, 1, 'q'}}},
		{curTy, []string{"K", "P"}, [][]byte{{0xcd, 1, 44}, {0xa1, 'p'}}, [][]byte{{0xe0}, {0xc0}}},
		{"(struct (A i8) (B str) (C u32))", []string{"A", "B", "C"}, [][]byte{{0x05}, {0xd9, 1, 'b'}, {0xce, 0xff, 0xff, 0xff, 0xff}}, [][]byte{{0xd1, 0x12, 0x34}, {0xa0}, {0xd3, 0xff, 0xff, 0xff, 0xff, 0xff, 0xff, 0xff, 0xfe}}},
	} {
		n := len(st.keys)
		entry := func(i int, v []byte) []byte { return cat(mpStr(st.keys[i]), v) }
		var all, rev []byte
		for i := 0; i < n; i++ {
			all = cat(all, entry(i, st.vals[i]))
			rev = cat(entry(i, st.vals[i]), rev)
		}
		decT(st.ty, []byte{0xc0})
		decT(st.ty, []byte{})
		for _, hdr := range [][]byte{{0x80 | byte(n)}, {0xde, 0, byte(n)}, {0xdf, 0, 0, 0, byte(n)}} {
			decT(st.ty, cat(hdr, all))
			decT(st.ty, cat(hdr, rev))
			dec(st.ty, hdr[:len(hdr)-1])
			dec(st.ty, cat(hdr, all[:len(all)-1]))
		}
		for _, cnt := range []int{0, 1, n - 1, n + 1, n + 2, 15} {
			decT(st.ty, cat([]byte{0x80 | byte(cnt)}, all))
			decT(st.ty, cat([]byte{0xde, 0, byte(cnt)}, all))
		}
		for i := 0; i < n; i++ {
			// a key twice (the last one wins), a missing key, nil, the other wire format, a wrong kind
			decT(st.ty, cat([]byte{0x80 | byte(n+1)}, all, entry(i, st.alt[i])))
			decT(st.ty, cat([]byte{0x80 | byte(n+1)}, entry(i, st.alt[i]), all))
			decT(st.ty, cat([]byte{0x81}, entry(i, st.vals[i])))
			decT(st.ty, cat([]byte{0x81}, entry(i, []byte{0xc0})))
			decT(st.ty, cat([]byte{0x81}, entry(i, st.alt[i])))
			decT(st.ty, cat([]byte{0x81}, entry(i, []byte{0xc3})))
			decT(st.ty, cat([]byte{0x81}, entry(i, []byte{0xa1, 'x'})))
			decT(st.ty, cat([]byte{0x81}, entry(i, []byte{0x07})))
			decT(st.ty, cat([]byte{0x81}, entry(i, []byte{0xca, 0, 0, 0, 0})))
			// the key in another string format
			k := st.keys[i]
			for _, kh := range [][]byte{{0xd9, byte(len(k))}, {0xda, 0, byte(len(k))}, {0xdb, 0, 0, 0, byte(len(k))}, {0xc4, byte(len(k))}, {0xc5, 0, byte(len(k))}} {
				decT(st.ty, cat([]byte{0x81}, kh, []byte(k), st.vals[i]))
			}
			decT(st.ty, cat([]byte{0x81}, mpStr(strings.ToLower(k)), st.vals[i]))
			decT(st.ty, cat([]byte{0x81}, mpStr(k+"x"), st.vals[i]))
			decT(st.ty, cat([]byte{0x81}, mpStr(k[:len(k)-1]), st.vals[i]))
		}
		// keys that are not strings
		for _, kb := range [][]byte{{0xc0}, {0x01}, {0xc3}, {0x90}, {0xd3, 0, 0, 0, 0, 0, 0, 0, 1}} {
			decT(st.ty, cat([]byte{0x81}, kb, st.vals[0]))
			decT(st.ty, cat([]byte{0x82}, kb, []byte{0x01}, all))
		}
		// unknown keys with a value of every kind, before / between / after the known ones; every truncation
		for _, u := range unknownValues() {
			decT(st.ty, cat([]byte{0x80 | byte(n+1)}, mpStr("zz"), u, all))
			decT(st.ty, cat([]byte{0x80 | byte(n+1)}, all, mpStr("zz"), u))
			decT(st.ty, cat([]byte{0x80 | byte(n+1)}, entry(0, st.vals[0]), mpStr(""), u, all[len(entry(0, st.vals[0])):]))
			for k := 0; k < len(u); k++ {
				dec(st.ty, cat([]byte{0x81}, mpStr("zz"), u[:k]))
			}
			// array form with a surplus element
			var arr []byte
			for i := 0; i < n; i++ {
				arr = cat(arr, st.vals[i])
			}
			decT(st.ty, cat([]byte{0x90 | byte(n+1)}, arr, u))
			decT(st.ty, cat([]byte{0x90 | byte(n+2)}, arr, u, u))
			decT(st.ty, cat([]byte{0x90 | byte(n+2)}, arr, u))
		}
		// array form
		for cnt := 0; cnt <= n+1; cnt++ {
			var arr []byte
			for i := 0; i < cnt && i < n; i++ {
				arr = cat(arr, st.vals[i])
			}
			for _, hdr := range [][]byte{{0x90 | byte(cnt)}, {0xdc, 0, byte(cnt)}, {0xdd, 0, 0, 0, byte(cnt)}} {
				decT(st.ty, cat(hdr, arr))
				if len(arr) > 0 {
					dec(st.ty, cat(hdr, arr[:len(arr)-1]))
				}
				var alt []byte
				for i := 0; i < cnt && i < n; i++ {
					alt = cat(alt, st.alt[i])
				}
				decT(st.ty, cat(hdr, alt))
			}
		}
		// huge claimed lengths, other codes
		for _, b := range [][]byte{{0xdf, 0xff, 0xff, 0xff, 0xff}, {0xdd, 0xff, 0xff, 0xff, 0xff}, {0xde, 0xff, 0xff}, {0xdc, 0xff, 0xff}, {0xdf, 0xff, 0xff, 0xff, 0xff, 0xa1, 'K', 1}, {0xdd, 0xff, 0xff, 0xff, 0xff, 1, 0xa0, 2},
			{0xc1}, {0xc2}, {0x01}, {0xa1, 'x'}, {0xd4, 0, 0}, {0xc7, 0, 1}, {0xc7, 0, 1, 0x80}, {0xd4, 1, 2, 0x80}, {0xca, 0, 0, 0, 0}} {
			decT(st.ty, b)
			decT(st.ty, cat(b, all))
		}
	}
	flush()

	// ---- 4b. exhaustive: every msgpack byte string of length ≤ 3 (thorough: 4 over a smaller alphabet)
	// over a dense alphabet of codes, into a signed, an unsigned, a string and a struct target
	{
		alpha := []byte{0x00, 0x01, 0x7f, 0x80, 0x81, 0x82, 0x90, 0x91, 0x92, 0xa0, 0xa1, 0xc0, 0xc1, 0xc3, 0xc4, 0xcc, 0xd0, 0xd3, 0xd9, 0xdc, 0xde, 0xe0, 0xff}
		targets := []string{"i64", "u8", "str", curTy, "(struct (A i8))"}
		var rec func(prefix []byte, n int, alpha []byte)
		rec = func(prefix []byte, n int, alpha []byte) {
			if n == 0 {
				t := b64(prefix)
				for _, ty := range targets {
					add(CodecTie{Op: "cursor-dec", Ty: ty, Text: t})
				}
				return
			}
			for _, a := range alpha {
				rec(append(append([]byte{}, prefix...), a), n-1, alpha)
			}
		}
		for n := 0; n <= 3; n++ {
			rec(nil, n, alpha)
		}
		if thorough {
			rec(nil, 4, []byte{0x01, 0x81, 0x82, 0x91, 0x92, 0xa1, 0xc0, 0xc1, 0xc4, 0xcc, 0xd0, 0xd9, 0xdc, 0xde, 0xff})
		}
		// the struct target with its key in place: "A" then every 1..2-byte value
		for _, a := range alpha {
			dec("(struct (A i8))", []byte{0x81, 0xa1, 'A', a})
			for _, b := range alpha {
				dec("(struct (A i8))", []byte{0x81, 0xa1, 'A', a, b})
				dec("(struct (A i8))", []byte{0x82, 0xa1, 'A', a, 0xa1, 'B', b})
				dec("(struct (A i8))", []byte{0x92, a, b})
			}
		}
	}
	flush()

	// ---- 5. every truncation and single-byte corruption of valid cursors (msgpack level and text level)
	nValid := h.run.Scale(50, 400)
	if len(emitted) > 0 {
		for i := 0; i < nValid; i++ {
			e := hx.Pick(R, emitted)
			if len(e.text) > 90 {
				continue
			}
			raw, err := base64.RawURLEncoding.DecodeString(e.text)
			if err != nil {
				continue
			}
			for k := 0; k < len(raw); k++ {
				add(CodecTie{Op: "cursor-dec", Ty: e.ty, Text: b64(raw[:k]), GoInt: e.goInt})
				reps := append(append([]byte{}, corruptBytes...), raw[k]^1, raw[k]+1)
				if !thorough && len(raw) > 24 {
					hx.Shuffle(R, reps)
					reps = reps[:8]
				}
				for _, x := range reps {
					if x == raw[k] {
						continue
					}
					m := append([]byte{}, raw...)
					m[k] = x
					add(CodecTie{Op: "cursor-dec", Ty: e.ty, Text: b64(m), GoInt: e.goInt})
				}
			}
			for k := 0; k < len(e.text); k++ {
				add(CodecTie{Op: "cursor-dec", Ty: e.ty, Text: e.text[:k], GoInt: e.goInt})
				for _, x := range []string{"A", "_", "=", "\n", "é", hx.Pick(R, []string{"B", "z", "9", "-", " ", "+"})} {
					add(CodecTie{Op: "cursor-dec", Ty: e.ty, Text: e.text[:k] + x + e.text[k+1:], GoInt: e.goInt})
				}
			}
		}
	}
	// random byte soup into random types
	for i := 0; i < h.run.Scale(2000, 40000); i++ {
		b := make([]byte, R.Intn(14))
		for j := range b {
			if R.Bool() {
				b[j] = hx.Pick(R, corruptBytes)
			} else {
				b[j] = byte(R.Intn(256))
			}
		}
		add(CodecTie{Op: "cursor-dec", Ty: hx.Pick(R, allTys), Text: b64(b)})
	}
	flush()
}
