// Several resolutions of one connection field in ONE request.
//
// The same connection field (one *ConnectionConfig, one field definition) is resolved more than once
// while a single request is served — under each object of a list of parents (`owners(n: k) { c:
// itemsAll(ARGS) { … } }`) or under aliases that differ in an application-defined argument (`r0:
// setAll(set: 0, ARGS) r1: setAll(set: 1, ARGS)`) — and every resolution has its OWN edge set, which
// the application finds through ctx.Object / ctx.Arguments. Paging arguments identical or different.
// Every resolution must be answered as if it were alone: the Relay page of its own edge set, and the
// model's answer for its own application calls. (Lesson of the round-7 seed C16-22 — a per-request
// memo keyed without the parent — in general form: the observation unit is the request, not the field.)
package main

import (
	"bytes"
	"encoding/json"
	"fmt"
	"net/http/httptest"
	"strconv"
	"strings"

	apifu "github.com/ccbrown/api-fu"
	"github.com/ccbrown/api-fu/graphql"

	"verifharness/hx"
)

// Multi: resolution i works on Sets[i] with the arguments Reqs[i] (Mode / Promise are those of
// Reqs[0] for every resolution: one field definition).
type Multi struct {
	Shape string  `json:"shape"` // parents | aliases
	Sets  [][]int `json:"sets"`
	Reqs  []Req   `json:"reqs"` // shape parents: all equal (one argument list in the query)
}

type ownerObj struct{ idx int }

func (w *world) multiAllResolver(set func(ctx graphql.FieldContext) int, promise bool) func(ctx graphql.FieldContext) (any, func(a, b any) bool, error) {
	return func(ctx graphql.FieldContext) (any, func(a, b any) bool, error) {
		i := set(ctx)
		w.multiAll[i]++
		slice := w.items(w.multiE[i])
		if promise {
			return apifu.Go(ctx.Context, func() (any, error) { return slice, nil }), intLess, nil
		}
		return slice, intLess, nil
	}
}

func (w *world) multiWindowResolver(set func(ctx graphql.FieldContext) int, promise bool) func(ctx graphql.FieldContext, after, before any, limit int) (any, func(a, b any) bool, error) {
	return func(ctx graphql.FieldContext, after, before any, limit int) (any, func(a, b any) bool, error) {
		i := set(ctx)
		a, b := toIntPtr(after), toIntPtr(before)
		reply := w.windowReplyOn(w.multiE[i], a, b, limit)
		w.multiWin[i] = append(w.multiWin[i], getterCall{a, b, limit, append([]int{}, reply...)})
		slice := w.items(reply)
		if promise {
			return apifu.Go(ctx.Context, func() (any, error) { return slice, nil }), intLess, nil
		}
		return slice, intLess, nil
	}
}

// multiFieldName: the connection field for a mode and a delivery.
func multiFieldName(prefix, mode string, promise bool) string {
	n := prefix + "All"
	if mode == "window" {
		n = prefix + "Win"
	}
	if promise {
		n += "P"
	}
	return n
}

// addMultiFields: `owners(n: Int!): [Owner]` with Owner.items{All,Win}{,P} (edge set by parent object)
// and set{All,Win}{,P}(set: Int!, …) (edge set by a custom argument).
func (w *world) addMultiFields(cfg *apifu.Config, tag string) {
	byParent := func(ctx graphql.FieldContext) int { return ctx.Object.(ownerObj).idx }
	byArg := func(ctx graphql.FieldContext) int { return ctx.Arguments["set"].(int) }
	ownerFields := map[string]*graphql.FieldDefinition{
		"idx": {Type: graphql.IntType, Resolve: func(ctx graphql.FieldContext) (any, error) { return ctx.Object.(ownerObj).idx, nil }},
	}
	for _, mode := range []string{"all", "window"} {
		for _, promise := range []bool{false, true} {
			for _, parent := range []bool{true, false} {
				set, prefix := byArg, "set"
				var args map[string]*graphql.InputValueDefinition
				if parent {
					set, prefix = byParent, "items"
				} else {
					args = map[string]*graphql.InputValueDefinition{"set": {Type: graphql.NewNonNullType(graphql.IntType)}}
				}
				name := multiFieldName(prefix, mode, promise)
				cc := &apifu.ConnectionConfig{
					NamePrefix: tag + strings.ToUpper(name[:1]) + name[1:],
					Arguments:  args,
					CursorType: cursorType,
					EdgeCursor: func(edge any) any { return curOf(edge.(item).C) },
					EdgeFields: edgeFieldDefs(),
				}
				if mode == "all" {
					cc.ResolveAllEdges = w.multiAllResolver(set, promise)
				} else {
					set := set
					cc.ResolveEdges = w.multiWindowResolver(set, promise)
					cc.ResolveTotalCount = func(ctx graphql.FieldContext) (any, error) {
						i := set(ctx)
						w.multiTC[i]++
						return len(w.multiE[i]), nil
					}
				}
				if parent {
					ownerFields[name] = apifu.Connection(cc)
				} else {
					cfg.AddQueryField(name, apifu.Connection(cc))
				}
			}
		}
	}
	ownerType := &graphql.ObjectType{Name: "Owner", Fields: ownerFields}
	cfg.AddQueryField("owners", &graphql.FieldDefinition{
		Type:      graphql.NewListType(ownerType),
		Arguments: map[string]*graphql.InputValueDefinition{"n": {Type: graphql.NewNonNullType(graphql.IntType)}},
		Resolve: func(ctx graphql.FieldContext) (any, error) {
			var out []ownerObj
			for i := 0; i < ctx.Arguments["n"].(int); i++ {
				out = append(out, ownerObj{i})
			}
			return out, nil
		},
	})
}

// litArgs: the paging arguments in literal spelling (explicit nulls for the absent ones with NullAbsent).
func (r Req) litArgs() []string {
	var args []string
	add := func(name string, present bool, lit string) {
		if present {
			args = append(args, name+": "+lit)
		} else if r.NullAbsent {
			args = append(args, name+": null")
		}
	}
	if r.First != nil {
		add("first", true, strconv.Itoa(*r.First))
	} else {
		add("first", false, "")
	}
	if r.Last != nil {
		add("last", true, strconv.Itoa(*r.Last))
	} else {
		add("last", false, "")
	}
	if r.After != nil {
		add("after", true, gqlString(r.After.S))
	} else {
		add("after", false, "")
	}
	if r.Before != nil {
		add("before", true, gqlString(r.Before.S))
	} else {
		add("before", false, "")
	}
	return args
}

func (r Req) selection() string {
	sel := "edges { cursor node label weight even }"
	if r.SelPI {
		sel += " pageInfo { hasPreviousPage hasNextPage startCursor endCursor }"
	}
	if r.SelTC {
		sel += " totalCount"
	}
	return sel
}

func (m Multi) build() string {
	r0 := m.Reqs[0]
	var body []string
	if m.Shape == "parents" {
		a := ""
		if args := r0.litArgs(); len(args) > 0 {
			a = "(" + strings.Join(args, ", ") + ")"
		}
		body = append(body, fmt.Sprintf("owners(n: %d) { idx c: %s%s { %s } }", len(m.Sets), multiFieldName("items", r0.Mode, r0.Promise), a, r0.selection()))
	} else {
		for i, r := range m.Reqs {
			args := append([]string{fmt.Sprintf("set: %d", i)}, r.litArgs()...)
			body = append(body, fmt.Sprintf("r%d: %s(%s) { %s }", i, multiFieldName("set", r0.Mode, r0.Promise), strings.Join(args, ", "), r.selection()))
		}
	}
	return "{ " + strings.Join(body, " ") + " }"
}

type connJSON struct {
	Edges    []servedEdge `json:"edges"`
	PageInfo *struct {
		HasPreviousPage bool   `json:"hasPreviousPage"`
		HasNextPage     bool   `json:"hasNextPage"`
		StartCursor     string `json:"startCursor"`
		EndCursor       string `json:"endCursor"`
	} `json:"pageInfo"`
	TotalCount *int `json:"totalCount"`
}

// serveMulti serves the request once and splits the response and the application calls by resolution.
func (w *world) serveMulti(m Multi, policy int, policySeed uint64, world int) (obs []servedObs, problem string) {
	w.policy, w.policySeed, w.nilEmpty = policy, policySeed, m.Reqs[0].NilEmpty
	w.multiE = m.Sets
	w.multiAll, w.multiTC, w.multiWin = make([]int, len(m.Sets)), make([]int, len(m.Sets)), make([][]getterCall, len(m.Sets))
	body, _ := json.Marshal(map[string]any{"query": m.build()})
	req := httptest.NewRequest("POST", "/graphql", bytes.NewReader(body))
	req.Header.Set("Content-Type", "application/json")
	rec := httptest.NewRecorder()
	panicked := ""
	func() {
		defer func() {
			if p := recover(); p != nil {
				panicked = fmt.Sprint(p)
			}
		}()
		w.apis[world%len(w.apis)].ServeGraphQL(rec, req)
	}()
	if panicked != "" {
		return nil, "the server panicked: " + panicked
	}
	text := rec.Body.String()
	var resp struct {
		Data   map[string]json.RawMessage `json:"data"`
		Errors []struct {
			Message string `json:"message"`
		} `json:"errors"`
	}
	if err := json.Unmarshal([]byte(text), &resp); err != nil || rec.Code != 200 {
		return nil, fmt.Sprintf("status %d, undecodable response (%v): %s", rec.Code, err, text)
	}
	if len(resp.Errors) > 0 {
		return nil, "a request with valid arguments was answered with errors: " + text
	}
	conns := make([]*connJSON, len(m.Sets))
	if m.Shape == "parents" {
		var owners []struct {
			Idx int       `json:"idx"`
			C   *connJSON `json:"c"`
		}
		if err := json.Unmarshal(resp.Data["owners"], &owners); err != nil || len(owners) != len(m.Sets) {
			return nil, "unexpected owners list: " + text
		}
		for i, ow := range owners {
			if ow.Idx != i {
				return nil, "owners out of order: " + text
			}
			conns[i] = ow.C
		}
	} else {
		for i := range m.Sets {
			if raw, ok := resp.Data[fmt.Sprintf("r%d", i)]; !ok || json.Unmarshal(raw, &conns[i]) != nil {
				return nil, fmt.Sprintf("resolution r%d missing: %s", i, text)
			}
		}
	}
	for i, c := range conns {
		o := servedObs{Status: 200, Body: text, AllCalls: w.multiAll[i], TCCalls: w.multiTC[i], WinCalls: w.multiWin[i]}
		if o.WinCalls == nil {
			o.WinCalls = []getterCall{}
		}
		if c == nil {
			o.NullData = true
		} else {
			o.Edges = c.Edges
			if o.Edges == nil {
				o.Edges = []servedEdge{}
			}
			if c.PageInfo != nil {
				o.HasPI = true
				o.HasPrev, o.HasNext, o.Start, o.End = c.PageInfo.HasPreviousPage, c.PageInfo.HasNextPage, c.PageInfo.StartCursor, c.PageInfo.EndCursor
			}
			o.TC = c.TotalCount
		}
		obs = append(obs, o)
	}
	return obs, ""
}

// modelConn: the model's answer for one resolution (the `conn` request of evalServedObs).
func (h *harness) modelConn(E []int, r Req, o servedObs) (rep, problem string) {
	aS, p1 := curArgS(r.After)
	bS, p2 := curArgS(r.Before)
	if p1+p2 != "" {
		return "", p1 + p2
	}
	tc := hx.A("none")
	if r.Mode == "window" {
		tc = hx.I(int64(len(E)))
	}
	tbl := []hx.Sexp{}
	for _, gc := range o.WinCalls {
		tbl = append(tbl, hx.L(hx.L(optI(gc.After), optI(gc.Before), hx.I(int64(gc.Limit))), intsS(gc.Reply)))
	}
	line := hx.N("conn", hx.A(r.Mode), intsS(E), tc, hx.B(r.SelPI), hx.B(r.SelTC), optI(r.First), optI(r.Last), aS, bS, hx.N("table", tbl...)).String()
	rep, err := h.model.Ask(line)
	if err != nil {
		return "", "model driver failed: " + err.Error()
	}
	return rep, ""
}

func (h *harness) evalMulti(c Case) (what, kind string) {
	m := *c.Multi
	activeField = ""
	obs, problem := h.w.serveMulti(m, c.Policy, c.PolicySeed, m.Reqs[0].World)
	if problem != "" {
		if strings.HasPrefix(problem, "the server panicked") {
			return problem, "crash"
		}
		return problem, "property"
	}
	for i, o := range obs {
		r := m.Reqs[0]
		if m.Shape != "parents" {
			r = m.Reqs[i]
			r.Mode, r.Promise = m.Reqs[0].Mode, m.Reqs[0].Promise
		}
		canon, _ := servedCanon(r, o)
		if h.verbose {
			fmt.Printf("resolution %d: implementation %s\n", i, canon)
		}
		if w, k := servedOracle(m.Sets[i], r, o); w != "" {
			return fmt.Sprintf("resolution %d of %d of the same connection field in one request (%s), edge set %v: %s", i, len(obs), m.Shape, m.Sets[i], w), k
		}
		if h.model == nil {
			continue
		}
		rep, p := h.modelConn(m.Sets[i], r, o)
		if p != "" {
			return p, "correspondence"
		}
		if h.verbose {
			fmt.Printf("resolution %d: model          %s\n", i, rep)
		}
		if rep != canon {
			return fmt.Sprintf("resolution %d of %d (%s): implementation %s, model %s", i, len(obs), m.Shape, canon, rep), "correspondence"
		}
	}
	return "", ""
}

// shrinkMulti: fewer resolutions (at least two stay), fewer edges.
func (h *harness) shrinkMulti(c Case, kind string) (Case, string) {
	what, _ := h.eval(c)
	try := func(d Case) bool {
		if w, k := h.eval(d); w != "" && k == kind {
			c, what = d, w
			return true
		}
		return false
	}
	for changed := true; changed; {
		changed = false
		m := *c.Multi
		for i := 0; len(m.Sets) > 2 && i < len(m.Sets); i++ {
			d := clone(c)
			d.Multi.Sets = append(append([][]int{}, m.Sets[:i]...), m.Sets[i+1:]...)
			if m.Shape != "parents" && i > 0 {
				d.Multi.Reqs = append(append([]Req{}, m.Reqs[:i]...), m.Reqs[i+1:]...)
			} else if m.Shape != "parents" {
				continue // resolution 0 carries the field's mode
			}
			if try(d) {
				changed = true
				break
			}
		}
		if changed {
			continue
		}
		for i := range m.Sets {
			for j := range m.Sets[i] {
				d := clone(c)
				d.Multi.Sets[i] = append(append([]int{}, m.Sets[i][:j]...), m.Sets[i][j+1:]...)
				if try(d) {
					changed = true
					break
				}
			}
			if changed {
				break
			}
		}
	}
	return c, what
}

// genMulti: 2–3 resolutions; edge sets with values recognisable per set; identical arguments (always
// so under a list of parents) or different ones per alias; every mode, delivery, getter policy, API.
func (h *harness) genMulti() {
	R := h.run.Rand.Fork()
	modes := []struct {
		mode    string
		promise bool
	}{{"all", false}, {"all", true}, {"window", false}, {"window", true}}
	for i := 0; i < h.run.Scale(1200, 15000); i++ {
		k := R.Range(2, 3)
		var sets [][]int
		for si := 0; si < k; si++ {
			var s []int
			for _, c := range []int{10, 20, 30, 40} {
				if R.Bool() {
					s = append(s, c+si)
				}
			}
			hx.Shuffle(R, s)
			sets = append(sets, s)
		}
		md := hx.Pick(R, modes)
		world := R.Intn(numWorlds)
		nilEmpty := R.Bool()
		mkReq := func(si int) Req {
			r := Req{Mode: md.mode, Promise: md.promise, SelPI: R.Chance(3, 4), SelTC: R.Bool(), NullAbsent: R.Chance(1, 4), NilEmpty: nilEmpty, World: world}
			n := R.Range(0, 4)
			if R.Bool() {
				r.First = ip(n)
			} else {
				r.Last = ip(n)
			}
			pick := func() *CurArg {
				s := sets[si]
				if R.Chance(1, 3) {
					s = sets[R.Intn(len(sets))] // a cursor of another resolution's edge: a valid position here too
				}
				if len(s) == 0 || R.Bool() {
					return nil
				}
				c := hx.Pick(R, s)
				return &CurArg{Kind: "emitted", C: c, S: emitFor("", c)}
			}
			r.After, r.Before = pick(), pick()
			return r
		}
		m := Multi{Shape: hx.Pick(R, []string{"parents", "aliases", "aliases"}), Sets: sets}
		if m.Shape == "parents" || R.Bool() {
			r := mkReq(0)
			for si := 0; si < k; si++ {
				m.Reqs = append(m.Reqs, r)
			}
		} else {
			for si := 0; si < k; si++ {
				m.Reqs = append(m.Reqs, mkReq(si))
			}
		}
		h.check(Case{Kind: "multi", Policy: R.Intn(numPolicies), PolicySeed: R.Uint64() >> 1, Multi: &m})
	}
}
