package main

import (
	"encoding/json"
	"fmt"
	apifu "github.com/ccbrown/api-fu"
	"reflect"
	"strings"
	"unicode/utf8"

	"verifharness/hx"
)

// Case is one replayable unit.
type Case struct {
	Kind       string    `json:"kind"` // direct | served | walk | codec
	E          []int     `json:"edges"`
	Policy     int       `json:"policy"`
	PolicySeed uint64    `json:"policy_seed"`
	Req        *Req      `json:"req,omitempty"`
	Direct     *Direct   `json:"direct,omitempty"`
	Walk       *Walk     `json:"walk,omitempty"`
	Codec      *cur      `json:"codec,omitempty"`
	CodecAny   *AnyVal   `json:"codec_any,omitempty"` // round trip of a cursor with an interface-typed component
	Multi      *Multi    `json:"multi,omitempty"`     // kind multi: several resolutions of one connection field in one request (multi.go)
	Tie        *CodecTie `json:"tie,omitempty"`       // kind codectie: one codec operation, model against code (codec.go)
}

type Direct struct {
	After, Before, First, Last *int
}

type Walk struct {
	Mode    string `json:"mode"`
	Promise bool   `json:"promise"`
	Forward bool   `json:"forward"`
	N       int    `json:"n"`
	World   int    `json:"world"`
	Field   string `json:"field,omitempty"` // fwdOnly (forward walks) | bwdOnly (backward walks) | ""
}

type harness struct {
	run      *hx.Run
	model    *hx.Model
	w        *world
	verbose  bool
	announce func(c Case)
}

func optI(p *int) hx.Sexp {
	if p == nil {
		return hx.A("none")
	}
	return hx.I(int64(*p))
}

func intsS(xs []int) hx.Sexp {
	out := make([]hx.Sexp, len(xs))
	for i, x := range xs {
		out[i] = hx.I(int64(x))
	}
	return hx.L(out...)
}

func optStr(p *int) string {
	if p == nil {
		return "none"
	}
	return fmt.Sprint(*p)
}

// ---- direct -------------------------------------------------------------------------------------------

func directCanon(o directObs) string {
	if o.Panic != "" {
		return "panic"
	}
	return hx.N("ok", intsS(o.Edges), hx.B(o.HasPrev), hx.B(o.HasNext), optI(o.Start), optI(o.End)).String()
}

func toPos(p *int) pos {
	if p == nil {
		return pos{}
	}
	return pos{true, *p}
}

// directOracle states the property on EdgesToReturn's own output (non-negative counts only: a
// negative count is outside the direct API's precondition and guarded by the connection field).
func directOracle(E []int, d Direct, o directObs) string {
	if o.Panic != "" {
		return "pagination.EdgesToReturn panicked: " + o.Panic
	}
	ref := relayRef(E, toPos(d.After), toPos(d.Before), d.First, d.Last, false)
	if ref.Err {
		return ""
	}
	if !reflect.DeepEqual(append([]int{}, o.Edges...), append([]int{}, ref.Edges...)) && !(len(o.Edges) == 0 && len(ref.Edges) == 0) {
		return fmt.Sprintf("edges %v, the Relay algorithm selects %v", o.Edges, ref.Edges)
	}
	if len(ref.Edges) == 0 {
		if o.Start != nil || o.End != nil {
			return "start/end cursor set on an empty page"
		}
	} else if o.Start == nil || o.End == nil || *o.Start != ref.Edges[0] || *o.End != ref.Edges[len(ref.Edges)-1] {
		return fmt.Sprintf("startCursor/endCursor %s/%s are not the first/last returned edge's cursor (%v)", optStr(o.Start), optStr(o.End), ref.Edges)
	}
	both := d.First != nil && d.Last != nil
	return flagOracle(E, ref, o.HasPrev, o.HasNext, both)
}

func flagOracle(E []int, ref refOut, hasPrev, hasNext, both bool) string {
	if ref.MustNext != nil {
		if hasNext != *ref.MustNext {
			return fmt.Sprintf("hasNextPage is %v, the specification requires %v", hasNext, *ref.MustNext)
		}
	} else if hasNext && !ref.MayNext {
		return "hasNextPage is true although no edge exists at or after `before`"
	}
	if !both { // with first and last together (direct API only) the Relay text and the edge-beyond reading differ; only soundness is demanded
		if ref.MustPrev != nil {
			if hasPrev != *ref.MustPrev {
				return fmt.Sprintf("hasPreviousPage is %v, the specification requires %v", hasPrev, *ref.MustPrev)
			}
		} else if hasPrev && !ref.MayPrev {
			return "hasPreviousPage is true although no edge exists at or before `after`"
		}
	}
	if hasNext && !edgeBeyond(E, ref.Edges, +1) {
		return "hasNextPage is true but no further edge exists after the page"
	}
	if hasPrev && !edgeBeyond(E, ref.Edges, -1) {
		return "hasPreviousPage is true but no further edge exists before the page"
	}
	return ""
}

func (h *harness) evalDirect(c Case) (what, kind string) {
	d := *c.Direct
	o := runDirect(c.E, d.After, d.Before, d.First, d.Last)
	if h.verbose {
		fmt.Printf("implementation: %s\n", directCanon(o))
	}
	if w := directOracle(c.E, d, o); w != "" {
		if o.Panic != "" {
			return w, "crash"
		}
		return w, "property"
	}
	if h.model == nil {
		return "", ""
	}
	line := hx.N("direct", intsS(c.E), optI(d.After), optI(d.Before), optI(d.First), optI(d.Last)).String()
	rep, err := h.model.Ask(line)
	if err != nil {
		return "model driver failed: " + err.Error(), "correspondence"
	}
	if h.verbose {
		fmt.Printf("model:          %s\n", rep)
	}
	if rep != directCanon(o) {
		return fmt.Sprintf("EdgesToReturn: implementation %s, model %s", directCanon(o), rep), "correspondence"
	}
	// oracle agreement: the Lean Relay specification against the Go RelayRef, on the sorted list
	ref := relayRef(c.E, toPos(d.After), toPos(d.Before), d.First, d.Last, false)
	srep, err := h.model.Ask(hx.N("relay", intsS(sortedCopy(c.E)), optI(d.After), optI(d.Before), optI(d.First), optI(d.Last)).String())
	if err != nil {
		return "model driver failed: " + err.Error(), "correspondence"
	}
	if srep != refCanon(ref) {
		return fmt.Sprintf("the Lean Relay specification says %s, the Go RelayRef says %s", srep, refCanon(ref)), "correspondence"
	}
	return "", ""
}

func refCanon(r refOut) string {
	if r.Err {
		return "error"
	}
	rq := func(must *bool, may bool) hx.Sexp {
		if must != nil {
			return hx.N("must", hx.B(*must))
		}
		return hx.N("may", hx.B(may))
	}
	return hx.N("ok", intsS(r.Edges), rq(r.MustPrev, r.MayPrev), rq(r.MustNext, r.MayNext)).String()
}

// ---- served -------------------------------------------------------------------------------------------

func curArgS(a *CurArg) (hx.Sexp, string) {
	if a == nil {
		return hx.A("none"), ""
	}
	c, ok, p := decode(a.S)
	if p != "" {
		return hx.Sexp{}, "DeserializeCursor panicked on " + fmt.Sprintf("%q", a.S) + ": " + p
	}
	if activeField == "" && utf8.ValidString(a.S) {
		// a cursor of type `cur`: the driver decodes the string itself with the codec model
		return hx.N("s", hx.A(a.S), hx.A("model")), ""
	}
	if !ok {
		return hx.N("s", hx.A(a.S), hx.A("invalid")), ""
	}
	return hx.N("s", hx.A(a.S), hx.I(int64(c))), ""
}

// servedCanon renders the implementation's observable in the model's reply syntax. problem != ""
// when the response cannot even be rendered (an edge whose cursor string is not the serialisation
// of its cursor, …) — those are oracle failures.
func servedCanon(r Req, o servedObs) (canon string, problem string) {
	if len(o.Errors) > 0 {
		if len(o.Errors) != 1 || !o.NullData {
			return "", fmt.Sprintf("unexpected error shape: %v (data null: %v)", o.Errors, o.NullData)
		}
		cls, ok := errClasses[o.Errors[0]]
		if !ok {
			cls = "other:" + o.Errors[0]
		}
		return hx.N("error", hx.A(cls)).String(), ""
	}
	if o.NullData {
		return "", "null connection without an error"
	}
	var es []int
	for _, e := range o.Edges {
		c, ok := edgeOfNode(e.Node)
		if !ok {
			return "", fmt.Sprintf("edge with an unknown node %q", e.Node)
		}
		if e.Cursor != emit(c) {
			return "", fmt.Sprintf("edge %d carries cursor %q, its cursor serialises to %q", c, e.Cursor, emit(c))
		}
		if !r.NodeOnly {
			if e.Label == nil || *e.Label != labelOf(c) || e.Weight == nil || *e.Weight != weightOf(c) || e.Even == nil || *e.Even != evenOf(c) {
				return "", fmt.Sprintf("edge %d carries the edge fields label=%s weight=%s even=%s, its own are %q %d %v", c, strp(e.Label), optStr(e.Weight), boolp(e.Even), labelOf(c), weightOf(c), evenOf(c))
			}
		}
		es = append(es, c)
	}
	pi := hx.A("none")
	if o.HasPI {
		cur := func(s string) (hx.Sexp, string) {
			if s == "" {
				return hx.A("none"), ""
			}
			c, ok, _ := decode(s)
			if !ok || emit(c) != s {
				return hx.Sexp{}, fmt.Sprintf("page-info cursor %q is not a serialised cursor", s)
			}
			return hx.I(int64(c)), ""
		}
		s, p1 := cur(o.Start)
		e, p2 := cur(o.End)
		if p1+p2 != "" {
			return "", p1 + p2
		}
		pi = hx.N("pi", hx.B(o.HasPrev), hx.B(o.HasNext), s, e)
	}
	var calls []hx.Sexp
	for i := 0; i < o.AllCalls; i++ {
		calls = append(calls, hx.A("all"))
	}
	for _, c := range o.WinCalls {
		calls = append(calls, hx.N("w", optI(c.After), optI(c.Before), hx.I(int64(c.Limit))))
	}
	return hx.N("ok", intsS(es), pi, optI(o.TC), hx.N("calls", calls...)).String(), ""
}

func strp(p *string) string {
	if p == nil {
		return "none"
	}
	return fmt.Sprintf("%q", *p)
}

func boolp(p *bool) string {
	if p == nil {
		return "none"
	}
	return fmt.Sprint(*p)
}

// matchRef: does the response equal what RelayRef selects (edges, cursors, page info, total count)?
func matchRef(E []int, r Req, o servedObs, ref refOut) string {
	var es []int
	for _, e := range o.Edges {
		c, _ := edgeOfNode(e.Node)
		es = append(es, c)
	}
	if len(es) != len(ref.Edges) {
		return fmt.Sprintf("edges %v, the Relay algorithm selects %v", es, ref.Edges)
	}
	for i := range es {
		if es[i] != ref.Edges[i] {
			return fmt.Sprintf("edges %v, the Relay algorithm selects %v", es, ref.Edges)
		}
	}
	if r.SelPI {
		if !o.HasPI {
			return "pageInfo missing"
		}
		ws, we := "", ""
		if len(es) > 0 {
			ws, we = emit(es[0]), emit(es[len(es)-1])
		}
		if o.Start != ws || o.End != we {
			return fmt.Sprintf("startCursor/endCursor %q/%q, the first/last returned edge has %q/%q", o.Start, o.End, ws, we)
		}
		if w := flagOracle(E, ref, o.HasPrev, o.HasNext, false); w != "" {
			return w
		}
	}
	if r.SelTC {
		if o.TC == nil || *o.TC != len(E) {
			return fmt.Sprintf("totalCount %s, the connection has %d edges", optStr(o.TC), len(E))
		}
	}
	return ""
}

// candidate positions an arbitrary cursor string may denote
func candidatePositions(E []int) []pos {
	out := []pos{{}}
	seen := map[int]bool{}
	for _, e := range E {
		for _, c := range []int{e - 1, e, e + 1} {
			if !seen[c] {
				seen[c] = true
				out = append(out, pos{true, c})
			}
		}
	}
	if len(E) == 0 {
		out = append(out, pos{true, 0})
	}
	return out
}

// servedOracle states the property on the response, model-free.
func servedOracle(E []int, r Req, o servedObs) (what, kind string) {
	if o.Panic != "" {
		return "the server panicked: " + o.Panic, "crash"
	}
	if o.Malformed != "" {
		return o.Malformed, "property"
	}
	canon, problem := servedCanon(r, o)
	if problem != "" {
		return problem, "property"
	}
	isErr := strings.HasPrefix(canon, "(error")
	// count errors: required by the property statement
	effFirst, effLast := r.effective()
	probe := relayRef(E, pos{}, pos{}, effFirst, effLast, true)
	if probe.Err || r.validationRejects() {
		if !isErr {
			return "a negative count, a missing count or first and last together did not yield an error: " + canon, "property"
		}
		if len(o.WinCalls) > 0 || o.AllCalls > 0 {
			return "the application was called although the arguments are invalid", "property"
		}
		return "", ""
	}
	var as, bs []pos
	rawInvolved := false
	for i, a := range []*CurArg{r.After, r.Before} {
		var ps []pos
		switch {
		case a == nil:
			ps = []pos{{}}
		case a.Kind == "emitted":
			ps = []pos{{true, a.C}}
		default:
			rawInvolved = true
			ps = candidatePositions(E)
		}
		if i == 0 {
			as = ps
		} else {
			bs = ps
		}
	}
	if isErr {
		if rawInvolved && (canon == "(error invalid-after)" || canon == "(error invalid-before)") {
			return "", "" // an arbitrary string may be rejected
		}
		return "a request with valid arguments and server-emitted cursors was answered with an error: " + canon, "property"
	}
	first := ""
	for _, a := range as {
		for _, b := range bs {
			w := matchRef(E, r, o, relayRef(E, a, b, effFirst, effLast, true))
			if w == "" {
				return "", ""
			}
			if first == "" {
				first = w
			}
		}
	}
	if rawInvolved {
		return "the response corresponds to no position of the arbitrary cursor string(s): e.g. " + first, "property"
	}
	return first, "property"
}

func (h *harness) evalServed(c Case) (what, kind string) {
	_, what, kind = h.evalServedObs(c)
	return what, kind
}

func (h *harness) evalServedObs(c Case) (o servedObs, what, kind string) {
	r := *c.Req
	activeField = r.Field // the cursor codec of the connection that serves this case
	if h.announce != nil {
		h.announce(c)
	}
	o = h.w.serve(c.E, c.Policy, c.PolicySeed, r)
	canon, _ := servedCanon(r, o)
	h.countServed(c, o, canon)
	if h.verbose {
		fmt.Printf("request:        %s\n", func() string { q, v := r.build(); b, _ := json.Marshal(v); return q + " " + string(b) }())
		fmt.Printf("response:       %s\n", o.Body)
		fmt.Printf("implementation: %s\n", canon)
	}
	if w, k := servedOracle(c.E, r, o); w != "" {
		return o, w, k
	}
	if h.model == nil || r.validationRejects() {
		// a count that the schema itself requires is rejected by validation, before the resolver the
		// model describes; the oracle above has demanded the error
		return o, "", ""
	}
	aS, p1 := curArgS(r.After)
	bS, p2 := curArgS(r.Before)
	if p1+p2 != "" {
		return o, p1 + p2, "crash"
	}
	tc := hx.A("none")
	if r.Mode == "window" {
		tc = hx.I(int64(len(c.E)))
	}
	tbl := []hx.Sexp{}
	for _, gc := range o.WinCalls {
		tbl = append(tbl, hx.L(hx.L(optI(gc.After), optI(gc.Before), hx.I(int64(gc.Limit))), intsS(gc.Reply)))
	}
	mode := r.Mode
	if r.Field != "" {
		mode = "all" // the direction-only and customised connections are ResolveAllEdges connections
		tc = hx.A("none")
	}
	ef, el := r.effective()
	line := hx.N("conn", hx.A(mode), intsS(c.E), tc, hx.B(r.SelPI), hx.B(r.SelTC), optI(ef), optI(el), aS, bS, hx.N("table", tbl...)).String()
	rep, err := h.model.Ask(line)
	if err != nil {
		return o, "model driver failed: " + err.Error(), "correspondence"
	}
	if h.verbose {
		fmt.Printf("model:          %s\n", rep)
	}
	if rep != canon {
		return o, fmt.Sprintf("connection field: implementation %s, model %s", canon, rep), "correspondence"
	}
	return o, "", ""
}

// countServed feeds the distribution: modes, getter policies, argument shapes, outcomes.
func (h *harness) countServed(c Case, o servedObs, canon string) {
	r := c.Req
	m := r.Mode + "/sync"
	if r.Promise {
		m = r.Mode + "/promise"
	}
	if r.Field != "" {
		m = r.Field
	}
	h.run.Count("mode:" + m)
	h.run.Count("api:" + worldNames[r.World%numWorlds])
	if r.NilEmpty {
		h.run.Count("application-empty-result-as:typed-nil")
	} else {
		h.run.Count("application-empty-result-as:empty-slice")
	}
	if r.Mode == "window" {
		h.run.Count("getter-policy:" + policyNames[c.Policy])
	}
	arg := func(a *CurArg) string {
		switch {
		case a == nil:
			return "absent"
		case a.Kind == "raw":
			return "raw"
		case indexOf(c.E, a.C) >= 0:
			return "edge"
		}
		return "foreign"
	}
	h.run.Count("after:" + arg(r.After))
	h.run.Count("before:" + arg(r.Before))
	switch {
	case r.First != nil && r.Last != nil:
		h.run.Count("count:both")
	case r.First == nil && r.Last == nil:
		h.run.Count("count:neither")
	case r.First != nil && *r.First < 0 || r.Last != nil && *r.Last < 0:
		h.run.Count("count:negative")
	case r.First != nil && *r.First == 0 || r.Last != nil && *r.Last == 0:
		h.run.Count("count:zero(lazy path)")
	case r.First != nil:
		h.run.Count("count:first")
	default:
		h.run.Count("count:last")
	}
	switch {
	case o.Panic != "":
		h.run.Count("outcome:panic")
	case strings.HasPrefix(canon, "(error"):
		h.run.Count("outcome:" + canon)
	default:
		switch {
		case len(o.Edges) == 0:
			h.run.Count("outcome:page-empty")
		case len(o.Edges) == len(c.E):
			h.run.Count("outcome:page-all")
		default:
			h.run.Count("outcome:page-proper")
		}
		if o.HasPI {
			h.run.Count(fmt.Sprintf("flags:prev=%v,next=%v", o.HasPrev, o.HasNext))
		}
		if r.After != nil && r.After.Kind == "raw" || r.Before != nil && r.Before.Kind == "raw" {
			h.run.Count("raw-cursor:accepted-as-position")
		}
	}
	if len(o.WinCalls) == 0 && o.AllCalls == 0 && o.Panic == "" && !strings.HasPrefix(canon, "(error") {
		h.run.Count("application-not-called(lazy)")
	}
}

// ---- walks --------------------------------------------------------------------------------------------

// evalWalk follows endCursor with `after` (or startCursor with `before`) the way a client does and
// demands that the pages concatenate to the sorted edge list, every edge exactly once. Each
// request of the walk is also put through the per-request oracle and the model.
func (h *harness) evalWalk(c Case) (what, kind string) {
	wk := *c.Walk
	S := sortedCopy(c.E)
	var visited []int
	var cur *CurArg
	pages := 0
	var realPages [][]int // in the order visited
	var sent []string     // the cursor strings the client sent, in order
	var winCalls []getterCall
	for {
		if pages > len(c.E)+2 {
			return fmt.Sprintf("the walk does not terminate: %d pages over %d edges", pages, len(c.E)), "property"
		}
		n := wk.N
		r := Req{Mode: wk.Mode, Promise: wk.Promise, SelPI: true, SelTC: pages%2 == 0, NilEmpty: (c.PolicySeed>>1)&1 == 1, World: wk.World, Field: wk.Field}
		if wk.Forward {
			r.First, r.After = &n, cur
		} else {
			r.Last, r.Before = &n, cur
		}
		step := Case{Kind: "served", E: c.E, Policy: c.Policy, PolicySeed: c.PolicySeed + uint64(pages), Req: &r}
		o, w, k := h.evalServedObs(step)
		if w != "" {
			return fmt.Sprintf("page %d of the walk: %s", pages, w), k
		}
		pages++
		var page []int
		for _, e := range o.Edges {
			c, _ := edgeOfNode(e.Node)
			page = append(page, c)
		}
		if len(page) > wk.N {
			return fmt.Sprintf("a page holds %d edges, %d were requested", len(page), wk.N), "property"
		}
		realPages = append(realPages, page)
		winCalls = append(winCalls, o.WinCalls...)
		if cur != nil {
			sent = append(sent, cur.S)
		}
		if wk.Forward {
			visited = append(visited, page...)
			if !o.HasNext {
				break
			}
			if o.End == "" {
				return "hasNextPage is true on a page without endCursor: the walk cannot continue", "property"
			}
			cur = &CurArg{Kind: "raw", S: o.End} // exactly the string the server emitted
			if d, ok, _ := decode(o.End); ok {
				cur = &CurArg{Kind: "emitted", C: d, S: o.End}
			}
		} else {
			visited = append(append([]int{}, page...), visited...)
			if !o.HasPrev {
				break
			}
			if o.Start == "" {
				return "hasPreviousPage is true on a page without startCursor: the walk cannot continue", "property"
			}
			cur = &CurArg{Kind: "raw", S: o.Start}
			if d, ok, _ := decode(o.Start); ok {
				cur = &CurArg{Kind: "emitted", C: d, S: o.Start}
			}
		}
	}
	if !reflect.DeepEqual(append([]int{}, visited...), append([]int{}, S...)) && !(len(visited) == 0 && len(S) == 0) {
		dir := "forward"
		if !wk.Forward {
			dir = "backward"
		}
		return fmt.Sprintf("%s walk with page size %d visited %v, the connection is %v", dir, wk.N, visited, S), "property"
	}
	h.run.CountN("walk-pages", pages)
	// the walk tie: Walk.lean's client (walkForward / walkBackward, the subject of walk_exact_codec) run
	// by the driver with the concrete codec model, against the walk just made: same pages, same
	// cursor strings sent
	if h.model != nil && wk.Field == "" {
		tc := hx.A("none")
		if wk.Mode == "window" {
			tc = hx.I(int64(len(c.E)))
		}
		tbl := []hx.Sexp{}
		seen := map[string]string{}
		for _, gc := range winCalls {
			k, v := hx.L(optI(gc.After), optI(gc.Before), hx.I(int64(gc.Limit))).String(), intsS(gc.Reply).String()
			if old, ok := seen[k]; ok {
				if old != v {
					// the same window answered in two ways on different pages (a seeded policy): the
					// model's getter is a function of the window — no walk tie for this walk
					h.run.Count("walk-tie-skipped:inconsistent-getter-table")
					return "", ""
				}
				continue
			}
			seen[k] = v
			tbl = append(tbl, hx.L(hx.L(optI(gc.After), optI(gc.Before), hx.I(int64(gc.Limit))), intsS(gc.Reply)))
		}
		dir := "fwd"
		inOrder := realPages
		if !wk.Forward {
			dir = "bwd"
			inOrder = nil
			for i := len(realPages) - 1; i >= 0; i-- {
				inOrder = append(inOrder, realPages[i])
			}
		}
		var ps, ss []hx.Sexp
		for _, p := range inOrder {
			ps = append(ps, intsS(p))
		}
		for _, x := range sent {
			ss = append(ss, hx.A(x))
		}
		canon := hx.N("ok", hx.L(ps...), hx.N("sent", ss...)).String()
		line := hx.N("walk", hx.A(dir), hx.A(wk.Mode), intsS(c.E), tc, hx.I(int64(wk.N)), hx.N("table", tbl...)).String()
		rep, err := h.model.Ask(line)
		if err != nil {
			return "model driver failed: " + err.Error(), "correspondence"
		}
		if h.verbose {
			fmt.Printf("walk: implementation %s\nwalk: model          %s\n", canon, rep)
		}
		h.run.Count("walk-tie")
		if rep != canon {
			return fmt.Sprintf("walk (pages in connection order, cursor strings sent): implementation %s, model %s", canon, rep), "correspondence"
		}
	}
	return "", ""
}

// ---- codec --------------------------------------------------------------------------------------------

// AnyVal spells a value of the interface-typed cursor component replayably.
type AnyVal struct {
	T  string  `json:"type"` // int64 | uint32 | int32 | uint8 | float64 | float32 | string | bool | nil
	N  int64   `json:"n,omitempty"`
	F  float64 `json:"f,omitempty"`
	S  string  `json:"s,omitempty"`
	Id int64   `json:"id"`
}

func (a AnyVal) value() any {
	switch a.T {
	case "int64":
		return a.N
	case "uint32":
		return uint32(a.N)
	case "int32":
		return int32(a.N)
	case "uint8":
		return uint8(a.N)
	case "float64":
		return a.F
	case "float32":
		return float32(a.F)
	case "string":
		return a.S
	case "bool":
		return a.N != 0
	}
	return nil
}

func (h *harness) evalCodecAny(c Case) (what, kind string) {
	v := anyCur{c.CodecAny.value(), c.CodecAny.Id}
	var d any
	s := ""
	p := ""
	func() {
		defer func() {
			if r := recover(); r != nil {
				p = fmt.Sprint(r)
			}
		}()
		s = emitAny(v)
		d = apifu.DeserializeCursor(anyCursorType, s)
	}()
	if p != "" {
		return "the cursor codec panicked on an emitted cursor: " + p, "crash"
	}
	if d == nil || !reflect.DeepEqual(d, v) {
		got := "nil"
		if dc, ok := d.(anyCur); ok {
			got = fmt.Sprintf("{Key: %T(%v), Id: %d}", dc.Key, dc.Key, dc.Id)
		}
		return fmt.Sprintf("Deserialize(Serialize({Key: %T(%v), Id: %d})) = %s: the emitted cursor does not come back as the cursor it was", v.Key, v.Key, v.Id, got), "property"
	}
	return "", ""
}

func (h *harness) evalCodec(c Case) (what, kind string) {
	if c.CodecAny != nil {
		return h.evalCodecAny(c)
	}
	v := *c.Codec
	s := emitAny(v)
	d, ok, p := decodeFull(s)
	if p != "" {
		return "DeserializeCursor panicked on an emitted cursor: " + p, "crash"
	}
	if !ok || d != v {
		return fmt.Sprintf("Deserialize(Serialize(%v)) = %v (accepted: %v)", v, d, ok), "property"
	}
	if s == "" {
		return "a cursor serialises to the empty string (which the connection treats as absent)", "property"
	}
	return "", ""
}

// ---- dispatch, shrinking ------------------------------------------------------------------------------

func (h *harness) eval(c Case) (what, kind string) {
	switch c.Kind {
	case "direct":
		return h.evalDirect(c)
	case "served":
		return h.evalServed(c)
	case "walk":
		return h.evalWalk(c)
	case "codec":
		return h.evalCodec(c)
	case "multi":
		if c.Multi == nil || len(c.Multi.Sets) == 0 || len(c.Multi.Reqs) == 0 {
			return "multi case without resolutions", "correspondence"
		}
		return h.evalMulti(c)
	case "codectie":
		if c.Tie == nil {
			return "codectie case without a tie", "correspondence"
		}
		return h.evalCodecTie(c)
	}
	return "unknown case kind " + c.Kind, "correspondence"
}

func clone(c Case) Case {
	b, _ := json.Marshal(c)
	var d Case
	json.Unmarshal(b, &d)
	return d
}

func dec1(p **int) bool {
	if *p == nil || **p <= 0 {
		return false
	}
	v := **p - 1
	*p = &v
	return true
}

// shrink: smaller edge sets, fewer / simpler arguments, simplest getter and spelling — while the
// case still fails in the same way.
func (h *harness) shrink(c Case, kind string) (Case, string) {
	what, _ := h.eval(c)
	if c.Kind == "codectie" {
		return c, what // a single codec operation: nothing to drop
	}
	if c.Kind == "multi" {
		return h.shrinkMulti(c, kind)
	}
	try := func(mut func(d *Case) bool) bool {
		d := clone(c)
		if !mut(&d) {
			return false
		}
		if w, k := h.eval(d); w != "" && k == kind {
			c, what = d, w
			return true
		}
		return false
	}
	for changed := true; changed; {
		changed = false
		for i := range c.E {
			i := i
			if try(func(d *Case) bool { d.E = append(append([]int{}, d.E[:i]...), d.E[i+1:]...); return true }) {
				changed = true
				break
			}
		}
		muts := []func(d *Case) bool{
			func(d *Case) bool { ok := d.Policy != 0; d.Policy = 0; return ok },
			func(d *Case) bool {
				if d.Req == nil {
					return false
				}
				ok := d.Req.Promise || d.Req.Vars || d.Req.NullAbsent || d.Req.NilEmpty
				d.Req.Promise, d.Req.Vars, d.Req.NullAbsent, d.Req.NilEmpty = false, false, false, false
				return ok
			},
			func(d *Case) bool {
				if d.Req == nil || d.Req.After == nil {
					return false
				}
				d.Req.After = nil
				return true
			},
			func(d *Case) bool {
				if d.Req == nil || d.Req.Before == nil {
					return false
				}
				d.Req.Before = nil
				return true
			},
			func(d *Case) bool { return d.Req != nil && dec1(&d.Req.First) },
			func(d *Case) bool { return d.Req != nil && dec1(&d.Req.Last) },
			func(d *Case) bool {
				if d.Req == nil || !d.Req.SelTC {
					return false
				}
				d.Req.SelTC = false
				return true
			},
			func(d *Case) bool {
				if d.Req == nil || !d.Req.SelPI {
					return false
				}
				d.Req.SelPI = false
				return true
			},
			func(d *Case) bool {
				if d.Direct == nil || d.Direct.After == nil {
					return false
				}
				d.Direct.After = nil
				return true
			},
			func(d *Case) bool {
				if d.Direct == nil || d.Direct.Before == nil {
					return false
				}
				d.Direct.Before = nil
				return true
			},
			func(d *Case) bool { return d.Direct != nil && dec1(&d.Direct.First) },
			func(d *Case) bool { return d.Direct != nil && dec1(&d.Direct.Last) },
			func(d *Case) bool {
				if d.Walk == nil || !d.Walk.Promise {
					return false
				}
				d.Walk.Promise = false
				return true
			},
		}
		for _, m := range muts {
			if try(m) {
				changed = true
			}
		}
	}
	return c, what
}

func nontrivial(c Case) bool {
	switch c.Kind {
	case "direct":
		d := c.Direct
		ref := relayRef(c.E, toPos(d.After), toPos(d.Before), d.First, d.Last, false)
		return !ref.Err && len(ref.Edges) > 0 && len(ref.Edges) < len(c.E)
	case "served":
		r := c.Req
		if r.After != nil && r.After.Kind == "raw" || r.Before != nil && r.Before.Kind == "raw" {
			return true
		}
		var a, b pos
		if r.After != nil {
			a = pos{true, r.After.C}
		}
		if r.Before != nil {
			b = pos{true, r.Before.C}
		}
		ef, el := r.effective()
		ref := relayRef(c.E, a, b, ef, el, true)
		return !ref.Err && !r.validationRejects() && len(ref.Edges) > 0 && len(ref.Edges) < len(c.E)
	case "walk":
		return len(c.E) > c.Walk.N
	case "codectie":
		return true
	case "multi":
		n := 0
		for _, s := range c.Multi.Sets {
			if len(s) > 0 {
				n++
			}
		}
		return n >= 2
	}
	return false
}

// check evaluates one case and records everything.
func (h *harness) check(c Case) {
	what, kind := h.eval(c)
	key, _ := json.Marshal(c)
	h.run.Case(string(key), nontrivial(c))
	h.run.Count("kind:" + c.Kind)
	switch c.Kind {
	case "direct":
		h.run.Oblige("correspondence: pagination.EdgesToReturn = model edgesToReturn; Lean Relay spec = Go RelayRef", "correspondence", 1, kind != "correspondence", what)
		h.run.Oblige("oracle: EdgesToReturn output = RelayRef (edges, start/end cursor, flag requirements, edge-beyond soundness)", "oracle", 1, kind != "property" && kind != "crash", what)
	case "served":
		h.run.Oblige("correspondence: served connection field = model resolve (edges, page info, totalCount | error class, getter calls) in {all,window}×{sync,promise}", "correspondence", 1, kind != "correspondence", what)
		h.run.Oblige("oracle: served response = RelayRef; count errors; emitted cursors accepted; arbitrary strings rejected or a position; no crash", "oracle", 1, kind != "property" && kind != "crash", what)
	case "walk":
		h.run.Oblige("oracle: forward/backward walks visit every edge exactly once, in order, pages ≤ n", "oracle", 1, what == "" || kind == "correspondence", what)
		h.run.Oblige("correspondence: the walk = model walkForward/walkBackward with the concrete codec (pages, cursor strings sent)", "correspondence", 1, kind != "correspondence", what)
	case "codec":
		h.run.Oblige("oracle: Deserialize(Serialize(c)) = c, non-empty", "oracle", 1, what == "", what)
	case "multi":
		h.run.Oblige("correspondence: every resolution of a connection field resolved several times in one request (list of parents, aliases with a custom argument) = model resolve for its own edge set and application calls", "correspondence", 1, kind != "correspondence", what)
		h.run.Oblige("oracle: every resolution of a connection field resolved several times in one request = RelayRef over its OWN edge set", "oracle", 1, kind != "property" && kind != "crash", what)
	case "codectie":
		h.run.Oblige(c.Tie.obligation(), "correspondence", 1, kind != "correspondence", what)
		h.run.Oblige(obCodecO, "oracle", 1, kind != "property" && kind != "crash", what)
	}
	if what == "" {
		return
	}
	sc, w2 := h.shrink(c, kind)
	if w2 != "" {
		what = w2
	}
	h.run.Violate(kind, what, "", kind == "correspondence", sc)
}
