// Harness for C09 — connections implement the Relay cursor algorithm; paging visits each edge once.
//
// Real side: (i) pagination.EdgesToReturn called directly with integer cursors; (ii) four connection
// fields {ResolveAllEdges, ResolveEdges} × {sync, promise} served through apifu.API.ServeGraphQL
// (httptest). Model side: lean/ApiFu/C09 (driver c09model). Model-free oracle: RelayRef (ref.go).
//
// The run happens in a child process: a panic on a promise goroutine (apifu.Go) cannot be recovered
// and kills the process; the parent then reports the case the child had announced last as a crash.
package main

import (
	"bufio"
	"encoding/json"
	"fmt"
	"os"
	"os/exec"
	"strings"

	"verifharness/hx"
)

func ip(v int) *int { return &v }

func subsets(u []int) [][]int {
	var out [][]int
	for m := 0; m < 1<<len(u); m++ {
		var s []int
		for i, c := range u {
			if m&(1<<i) != 0 {
				s = append(s, c)
			}
		}
		out = append(out, s)
	}
	return out
}

// rawCursorStrings: arbitrary `after` / `before` strings — truncated, corrupted and re-typed
// msgpack, other base64 alphabets, text.
func rawCursorStrings(r *hx.Rand) []string {
	out := []string{
		"", " ", "x", "!!!!", "not a cursor", "AA", "AAA", "AAAA", "wA", "ww", "w8", "wg", // nil / bool / 1-byte prefixes
		"oWE", "pGFiY2Q", // msgpack strings
		"kQE", "gaFhAQ", "xAEA", // array, map, bin
		"y0AJIftURC0Y", "ykBJD9s", // float64, float32
		"z___________", "z4AAAAAAAAAA", // uint64 max, 2^63
		"0____w", "04AAAAAAAAAA", "0f__", "0IA", // negative ints of every width
		"zQ", "zf8", "0gAA", // truncated ints
		"FA==", "FA=", "FA\n", "F A", "FA+/", "-_-_", "FAAA", "1AEA", // padding, whitespace, std alphabet, trailing bytes, ext
		"ŧ", "日本", strings.Repeat("A", 200),
	}
	// well-formed and ill-formed encodings of the struct-typed cursor
	out = append(out,
		emitAny(map[string]any{"K": 25}), emitAny(map[string]any{"K": 25, "P": "zzz"}), emitAny(map[string]any{"K": 20, "P": ""}),
		emitAny(map[string]any{"K": "x", "P": "p"}), emitAny(map[string]any{"K": 25, "Q": 1}), emitAny(map[string]any{"P": "p"}),
		emitAny(map[string]any{"K": 2.5}), emitAny(map[string]any{"K": nil}), emitAny(map[string]any{}), emitAny([]any{25, "p"}),
		emitAny(map[string]any{"K": uint64(1) << 63}), emitAny(map[string]any{"K": -7, "P": "p", "Z": []int{1}}), emitAny(25), emitAny("25"))
	// corruptions of real cursors
	for _, c := range []int{10, 20, 300, -7, 70000} {
		s := emitFor("", c)
		out = append(out, s[:len(s)-1], s+"A", s+"=", strings.ToUpper(s), s+s)
		b := []byte(s)
		b[r.Intn(len(b))] = "ABCDwxyz0189-_"[r.Intn(14)]
		out = append(out, string(b))
	}
	for i := 0; i < 12; i++ {
		n := r.Range(1, 12)
		b := make([]byte, n)
		for j := range b {
			b[j] = "ABCDEFGHIJKLMNOPQRSTUVWXYZabcdefghijklmnopqrstuvwxyz0123456789-_"[r.Intn(64)]
		}
		out = append(out, string(b))
	}
	return out
}

func main() {
	run := hx.Init("C09")
	if os.Getenv("C09_CHILD") == "" && run.Replay == "" {
		superviseChild(run)
		return
	}
	h := &harness{run: run, w: newWorld()}
	if f := os.NewFile(3, "announce"); f != nil && os.Getenv("C09_CHILD") != "" {
		h.announce = func(c Case) {
			if c.Req != nil && c.Req.Promise {
				b, _ := json.Marshal(c)
				f.Write(append(b, '\n'))
			}
		}
	}
	if run.ModelPath != "" {
		m, err := hx.StartModel(run.ModelPath)
		if err != nil {
			fmt.Fprintln(os.Stderr, "cannot start model:", err)
			os.Exit(2)
		}
		h.model = m
		defer m.Close()
	}
	run.SetRule("direct: every subset E of a 4(5)-cursor universe in seeded order × after,before ∈ {absent} ∪ every integer position (members and gaps) × first,last ∈ {absent,0..|E|+1}; served (four APIs built in one process — plain connections built before, next to, after customised ones — the API seeded per case): every subset of a 4(5)-cursor universe × {all,window}×{sync,promise} × (first|last ∈ 0..|E|+1) × after,before ∈ {absent} ∪ cursors(E) ∪ 3 foreign emitted cursors, getter policy / selection / argument spelling seeded, all four selections on the zero-edge path; count-error combinations; connections with a non-hashable cursor type and with an interface-typed cursor component (int64/uint32/float64/string keys), forward-only, backward-only and customised (default first/last, required extra argument) connections × counts × cursors on every API; edges selected with four edge fields (node, label, weight, even); arbitrary cursor strings; forward and backward walks for every page size 1..|E|+1; random larger sets; codec round trips; codec tie (base64 and msgpack model against encoding/base64 and SerializeCursor/DeserializeCursor: exhaustive short byte strings and texts, every scalar type at every width boundary, structs, hand-built and corrupted msgpack); one connection field resolved 2–3 times in one request (list of parents / aliases with a custom argument), each resolution with its own edge set. distinct = distinct canonical case; non-trivial = the selected page is a non-empty proper sub-list of E (direct/served), an arbitrary cursor string is involved, the walk needs more than one page, a codec operation other than encoding nothing, or at least two resolutions have edges")

	if run.Replay != "" {
		var c Case
		if err := hx.LoadReplayCase(run.Replay, &c); err != nil {
			fmt.Fprintln(os.Stderr, err)
			os.Exit(2)
		}
		h.verbose = true
		what, kind := h.eval(c)
		fmt.Printf("replay: kind=%q what=%q\n", kind, what)
		if what != "" {
			run.Violate(kind, what, "", kind == "correspondence", c)
		}
		run.Finish(h.model)
		return
	}
	for _, f := range run.CorpusFiles() {
		var c Case
		if hx.LoadReplayCase(f, &c) == nil && c.Kind != "" {
			h.check(c)
			run.Count("corpus")
		}
	}

	R := run.Rand
	// ---- codec round trips
	for _, v := range []int{0, 1, -1, 31, -32, -33, 127, 128, 255, 256, -128, -129, 32767, 32768, 65535, 65536, -32768, -32769,
		1<<31 - 1, 1 << 31, -(1 << 31), -(1 << 31) - 1, 1<<32 - 1, 1 << 32, 1<<53 + 1, 1<<63 - 1, -(1 << 63)} {
		h.check(Case{Kind: "codec", Codec: &cur{v, pad(v)}})
	}
	for i := 0; i < run.Scale(300, 5000); i++ {
		v := int(R.Uint64() >> uint(R.Intn(64)))
		if R.Bool() {
			v = -v
		}
		h.check(Case{Kind: "codec", Codec: &cur{v, hx.Pick(R, []string{"", "p", "pp", "ü", "a b", strings.Repeat("q", R.Intn(40))})}})
	}

	// ---- codec round trips of a cursor with an interface-typed component (DeepEqual, Go types included)
	anyVals := []AnyVal{{T: "nil"}, {T: "bool", N: 1}, {T: "string", S: "k30"}, {T: "string", S: ""}, {T: "float64", F: 2.5}, {T: "float64", F: 20}, {T: "float32", F: 1.5}}
	for _, n := range []int64{0, 1, 7, -1, -32, -33, 127, 128, 255, 256, 500, 32767, 32768, 65535, 65536, 70000, 1<<31 - 1, 1 << 31, 1<<32 - 1, 1 << 32, 1 << 40, -(1 << 31), -(1 << 31) - 1, 1<<63 - 1, -(1 << 63)} {
		anyVals = append(anyVals, AnyVal{T: "int64", N: n})
		if n >= 0 && n < 1<<32 {
			anyVals = append(anyVals, AnyVal{T: "uint32", N: n})
		}
		if n >= -(1<<31) && n < 1<<31 {
			anyVals = append(anyVals, AnyVal{T: "int32", N: n})
		}
		if n >= 0 && n < 256 {
			anyVals = append(anyVals, AnyVal{T: "uint8", N: n})
		}
	}
	for i, v := range anyVals {
		v.Id = int64(i*37 - 100)
		v := v
		h.check(Case{Kind: "codec", CodecAny: &v})
	}

	// ---- codec tie: base64 and msgpack model against encoding/base64 and SerializeCursor/DeserializeCursor (codec.go)
	tieStart := run.Elapsed()
	h.genCodecTie()
	run.Note("codec tie: %d cases in %.1f s", run.Distribution("kind:codectie"), (run.Elapsed() - tieStart).Seconds())

	// ---- (i) pagination.EdgesToReturn, exhaustive
	du := []int{1, 3, 5, 7}
	if run.Thorough() {
		du = []int{1, 3, 5, 7, 9}
	}
	for _, set := range subsets(du) {
		E := append([]int{}, set...)
		hx.Shuffle(R, E)
		curs := []*int{nil}
		for c := 0; c <= du[len(du)-1]+1; c++ {
			curs = append(curs, ip(c))
		}
		counts := []*int{nil}
		for n := 0; n <= len(E)+1; n++ {
			counts = append(counts, ip(n))
		}
		for _, a := range curs {
			for _, b := range curs {
				for _, f := range counts {
					for _, l := range counts {
						h.check(Case{Kind: "direct", E: E, Direct: &Direct{After: a, Before: b, First: f, Last: l}})
					}
				}
			}
		}
	}

	// ---- (ii) served connection, exhaustive
	su := []int{10, 20, 30, 40}
	if run.Thorough() {
		su = []int{10, 20, 30, 40, 50}
	}
	foreign := []int{5, 25, su[len(su)-1] + 5}
	modes := []struct {
		mode    string
		promise bool
	}{{"all", false}, {"all", true}, {"window", false}, {"window", true}}
	for _, set := range subsets(su) {
		E := append([]int{}, set...)
		hx.Shuffle(R, E)
		var curs []*CurArg
		curs = append(curs, nil)
		for _, c := range append(append([]int{}, set...), foreign...) {
			curs = append(curs, &CurArg{Kind: "emitted", C: c, S: emitFor("", c)})
		}
		for _, m := range modes {
			for n := 0; n <= len(E)+1; n++ {
				for _, fwd := range []bool{true, false} {
					for _, a := range curs {
						for _, b := range curs {
							sels := [][2]bool{{R.Chance(3, 4), R.Bool()}}
							if n == 0 && (a == nil || b == nil || a == b) {
								sels = [][2]bool{{false, false}, {true, false}, {false, true}, {true, true}}
							}
							for _, s := range sels {
								r := Req{Mode: m.mode, Promise: m.promise, After: a, Before: b, SelPI: s[0], SelTC: s[1], Vars: R.Chance(1, 3), NullAbsent: R.Chance(1, 4), NilEmpty: R.Bool(), World: R.Intn(numWorlds), NodeOnly: R.Chance(1, 8)}
								if fwd {
									r.First = ip(n)
								} else {
									r.Last = ip(n)
								}
								h.check(Case{Kind: "served", E: E, Policy: R.Intn(numPolicies), PolicySeed: R.Uint64() >> 1, Req: &r})
							}
						}
					}
				}
			}
			// count errors
			for _, fl := range [][2]*int{{nil, nil}, {ip(-1), nil}, {ip(-2), nil}, {nil, ip(-1)}, {nil, ip(-3)}, {ip(1), ip(1)}, {ip(0), ip(0)}, {ip(-1), ip(1)}, {ip(1), ip(-1)}, {ip(-1), ip(-1)}, {ip(2), ip(0)}} {
				for _, a := range []*CurArg{nil, curs[len(curs)-1], {Kind: "raw", S: "!!"}} {
					r := Req{Mode: m.mode, Promise: m.promise, First: fl[0], Last: fl[1], After: a, SelPI: R.Bool(), SelTC: R.Bool(), Vars: R.Chance(1, 3), NullAbsent: R.Chance(1, 4), NilEmpty: R.Bool(), World: R.Intn(numWorlds), NodeOnly: R.Chance(1, 8)}
					h.check(Case{Kind: "served", E: E, Policy: R.Intn(numPolicies), PolicySeed: R.Uint64() >> 1, Req: &r})
				}
			}
			// walks for every page size
			for n := 1; n <= len(E)+1; n++ {
				for _, fwd := range []bool{true, false} {
					h.check(Case{Kind: "walk", E: E, Policy: R.Intn(numPolicies), PolicySeed: R.Uint64() >> 1, Walk: &Walk{Mode: m.mode, Promise: m.promise, Forward: fwd, N: n, World: R.Intn(numWorlds)}})
				}
			}
		}
	}
	// ---- direction-only and customised connections next to the plain ones (every API of the process)
	for _, set := range subsets(su) {
		E := append([]int{}, set...)
		hx.Shuffle(R, E)
		var curs []*CurArg
		curs = append(curs, nil)
		for _, c := range append(append([]int{}, set...), foreign[1]) {
			curs = append(curs, &CurArg{Kind: "emitted", C: c, S: emitFor("", c)})
		}
		for world := 0; world < numWorlds; world++ {
			fields := []string{"fwdOnly", "bwdOnly"}
			if world == 1 || world == 2 {
				fields = append(fields, "customAll", "customFwd", "customBwd")
			}
			for _, f := range fields {
				fwd := f == "fwdOnly" || f == "customFwd"
				both := f == "customAll"
				counts := []*int{nil}
				for n := 0; n <= len(E)+1; n++ {
					counts = append(counts, ip(n))
				}
				for _, n := range counts {
					for _, cur := range curs {
						r := Req{Mode: "all", Field: f, World: world, SelPI: R.Chance(3, 4), SelTC: R.Bool(), NilEmpty: R.Bool()}
						switch {
						case both && R.Bool():
							r.First, r.After, r.Before = n, cur, hx.Pick(R, curs)
						case both:
							r.Last, r.Before = n, cur // with the default `first` this is "both"
						case fwd:
							r.First, r.After = n, cur
						default:
							r.Last, r.Before = n, cur
						}
						h.check(Case{Kind: "served", E: E, Req: &r})
					}
				}
			}
			// connections whose cursor type is not hashable (a struct holding a slice) / has an
			// interface-typed ordering key holding int64, uint32, float64 or string values
			for _, fld := range []string{"tagCursor", "anyCursor"} {
				for n := 0; n <= len(E)+1; n++ {
					for _, fwd := range []bool{true, false} {
						for _, c := range append(append([]int{-1}, set...), foreign[1]) {
							var cur *CurArg
							if c >= 0 {
								cur = &CurArg{Kind: "emitted", C: c, S: emitFor(fld, c)}
							}
							r := Req{Mode: "all", Field: fld, World: world, SelPI: R.Chance(3, 4), SelTC: R.Bool(), NilEmpty: R.Bool()}
							if fwd {
								r.First, r.After = ip(n), cur
							} else {
								r.Last, r.Before = ip(n), cur
							}
							h.check(Case{Kind: "served", E: E, Req: &r})
						}
					}
				}
				for n := 1; n <= len(E)+1; n++ {
					h.check(Case{Kind: "walk", E: E, Walk: &Walk{Mode: "all", Forward: n%2 == 1, N: n, World: world, Field: fld}})
					h.check(Case{Kind: "walk", E: E, Walk: &Walk{Mode: "all", Forward: n%2 == 0, N: n, World: world, Field: fld}})
				}
			}
			// walks over the direction-only connections
			for n := 1; n <= len(E)+1; n++ {
				h.check(Case{Kind: "walk", E: E, Walk: &Walk{Mode: "all", Forward: true, N: n, World: world, Field: "fwdOnly"}})
				h.check(Case{Kind: "walk", E: E, Walk: &Walk{Mode: "all", Forward: false, N: n, World: world, Field: "bwdOnly"}})
			}
		}
	}
	// ---- one connection field resolved several times in one request (multi.go)
	h.genMulti()
	run.SetExhaustive(true)

	// ---- arbitrary cursor strings (never crash: error or some position)
	raws := rawCursorStrings(R)
	for _, E := range [][]int{{10, 20, 30}, {20}, {}, {-5, 0, 7, 300, 70000}} {
		for _, s := range raws {
			for _, m := range modes {
				for k := 0; k < 3; k++ {
					r := Req{Mode: m.mode, Promise: m.promise, SelPI: true, SelTC: R.Bool(), Vars: R.Bool(), NilEmpty: R.Bool(), World: R.Intn(numWorlds)}
					raw := &CurArg{Kind: "raw", S: s}
					switch k {
					case 0:
						r.First, r.After = ip(R.Range(0, 3)), raw
					case 1:
						r.Last, r.Before = ip(R.Range(0, 3)), raw
					default:
						r.First, r.After, r.Before = ip(R.Range(0, 3)), raw, &CurArg{Kind: "raw", S: hx.Pick(R, raws)}
					}
					h.check(Case{Kind: "served", E: E, Policy: R.Intn(numPolicies), PolicySeed: R.Uint64() >> 1, Req: &r})
				}
			}
		}
	}

	// ---- random larger edge sets: requests and walks
	for i := 0; i < run.Scale(4000, 60000); i++ {
		r := R.Fork()
		n := r.Range(0, run.Scale(14, 60))
		seen := map[int]bool{}
		var E []int
		for len(E) < n {
			var c int
			switch r.Intn(4) {
			case 0:
				c = r.Range(-40, 40)
			case 1:
				c = r.Range(-70000, 70000)
			case 2:
				c = int(r.Uint64()>>uint(r.Range(1, 63))) - 1<<uint(r.Range(0, 40))
			default:
				c = r.Range(100, 400)
			}
			if !seen[c] {
				seen[c] = true
				E = append(E, c)
			}
		}
		m := hx.Pick(r, modes)
		if r.Chance(1, 3) {
			h.check(Case{Kind: "walk", E: E, Policy: r.Intn(numPolicies), PolicySeed: r.Uint64() >> 1, Walk: &Walk{Mode: m.mode, Promise: m.promise, Forward: r.Bool(), N: r.Range(1, n+1), World: r.Intn(numWorlds)}})
			continue
		}
		pickCur := func() *CurArg {
			switch r.Intn(4) {
			case 0:
				return nil
			case 1:
				c := r.Range(-50, 450)
				return &CurArg{Kind: "emitted", C: c, S: emitFor("", c)}
			default:
				if len(E) == 0 {
					return nil
				}
				c := hx.Pick(r, E)
				return &CurArg{Kind: "emitted", C: c, S: emitFor("", c)}
			}
		}
		rq := Req{Mode: m.mode, Promise: m.promise, After: pickCur(), Before: pickCur(), SelPI: r.Chance(3, 4), SelTC: r.Bool(), Vars: r.Bool(), NullAbsent: r.Chance(1, 4), NilEmpty: r.Bool(), World: r.Intn(numWorlds), NodeOnly: r.Chance(1, 8)}
		if r.Bool() {
			rq.First = ip(r.Range(0, n+1))
		} else {
			rq.Last = ip(r.Range(0, n+1))
		}
		c := Case{Kind: "served", E: E, Policy: r.Intn(numPolicies), PolicySeed: r.Uint64() >> 1, Req: &rq}
		h.check(c)
		if i < 3 {
			run.Sample(c)
		}
		// the same request through pagination.EdgesToReturn
		d := Direct{First: rq.First, Last: rq.Last}
		if rq.After != nil {
			d.After = ip(rq.After.C)
		}
		if rq.Before != nil {
			d.Before = ip(rq.Before.C)
		}
		h.check(Case{Kind: "direct", E: E, Direct: &d})
	}
	run.Note("direct universe %v, served universe %v + foreign %v, %d arbitrary cursor strings", du, su, foreign, len(raws))
	run.Finish(h.model)
}

// superviseChild re-executes the harness as a child process and turns its death into a crash
// violation carrying the last case it announced.
func superviseChild(run *hx.Run) {
	cmd := exec.Command(os.Args[0], os.Args[1:]...)
	cmd.Env = append(os.Environ(), "C09_CHILD=1")
	pr, pw, err := os.Pipe()
	if err != nil {
		fmt.Fprintln(os.Stderr, err)
		os.Exit(2)
	}
	cmd.ExtraFiles = []*os.File{pw}
	cmd.Stdout = os.Stdout
	var tail tailBuf
	cmd.Stderr = &tail
	if err := cmd.Start(); err != nil {
		fmt.Fprintln(os.Stderr, err)
		os.Exit(2)
	}
	pw.Close()
	last := ""
	sc := bufio.NewScanner(pr)
	sc.Buffer(make([]byte, 1<<20), 1<<24)
	for sc.Scan() {
		last = sc.Text()
	}
	err = cmd.Wait()
	if err == nil {
		return
	}
	var c Case
	json.Unmarshal([]byte(last), &c)
	msg := tail.String()
	if i := strings.Index(msg, "panic:"); i >= 0 {
		msg = msg[i:]
	}
	if len(msg) > 600 {
		msg = msg[:600]
	}
	run.Oblige("oracle: served response = RelayRef; count errors; emitted cursors accepted; arbitrary strings rejected or a position; no crash", "oracle", 1, false, msg)
	run.Violate("crash", "the server process died while serving a request through a promise: "+msg, "", last == "", c)
	run.Finish(nil)
}

type tailBuf struct{ b []byte }

func (t *tailBuf) Write(p []byte) (int, error) {
	t.b = append(t.b, p...)
	if len(t.b) > 1<<16 {
		t.b = t.b[len(t.b)-1<<15:]
	}
	os.Stderr.Write(p)
	return len(p), nil
}

func (t *tailBuf) String() string { return string(t.b) }
