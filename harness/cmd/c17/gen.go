package main

// Generators: JSON values with varied spellings, type-directed variable values, operations
// assembled from selection templates over the schema of schema.go, and text-level mutations that
// make documents invalid.

import (
	"fmt"
	"sort"
	"strings"

	"verifharness/hx"
)

// ---- JSON values ----------------------------------------------------------------------------------

var intSpellings = []string{"0", "1", "-1", "7", "42", "2147483647", "-2147483648", "1.0", "1e2", "5.000", "-0", "3E0", "120e-1", "0.5e1"}
var badIntSpellings = []string{"2147483648", "-2147483649", "1.5", `"12"`, "true", "1e10", "[[1]]", "{}", "0.1e0", "12e-1", "9007199254740993"}
var floatSpellings = []string{"0.1", "-0.0", "1e308", "1E-7", "123456789012345678901234567890", "3", "0.30000000000000004",
	"9007199254740993", "1.7976931348623157e308", "5e-324", "1e-400", "2.5", "-1.25e+2", "100", "0.1e1", "4.9406564584124654e-324", "1e22", "1e23"}
var badFloatSpellings = []string{`"1.5"`, "true", "[]", `{"a":1}`}
var stringPool = []string{"", "plain", "with space", "ünï©ödé", "emoji 😀 and 𝄞", "quote\" back\\slash /slash", "line\nbreak\ttab\r", "ctl \u0001\u001f",
	"   separators", "null", "{\"json\":1}", "a&b=c+d%20e#f;g", "日本語テキスト", "é combining", "\ufeffbom", "<script>alert(1)</script>", "trailing space "}
var colorSpellings = []string{`"RED"`, `"GREEN"`, `"BLUE"`}
var badColorSpellings = []string{`"PURPLE"`, `"red"`, "1", "true", "[\"RED\",\"RED\"]"}

func spellString(r *hx.Rand, s string) string { return jstrSpelled(r, s) }

func genAny(r *hx.Rand, depth int) string {
	k := r.Intn(9)
	if depth <= 0 && k >= 6 {
		k = r.Intn(6)
	}
	switch k {
	case 0:
		return "null"
	case 1:
		return hx.Pick(r, []string{"true", "false"})
	case 2:
		return hx.Pick(r, intSpellings)
	case 3:
		return hx.Pick(r, floatSpellings)
	case 4, 5:
		return spellString(r, hx.Pick(r, stringPool))
	case 6:
		n := r.Intn(4)
		var items []string
		for i := 0; i < n; i++ {
			items = append(items, genAny(r, depth-1))
		}
		return "[" + ws(r) + strings.Join(items, ","+ws(r)) + "]"
	default:
		n := r.Intn(4)
		var items []string
		seen := map[string]bool{}
		for i := 0; i < n; i++ {
			k := hx.Pick(r, []string{"a", "b", "k", "ключ", "", "a b", "x\"y", "Z", "nested", "0"})
			if seen[k] {
				continue
			}
			seen[k] = true
			items = append(items, spellString(r, k)+ws(r)+":"+ws(r)+genAny(r, depth-1))
		}
		return "{" + strings.Join(items, ",") + "}"
	}
}

func genIn(r *hx.Rand, depth int, bad bool) string {
	fields := []string{"a", "b", "c", "e", "nested", "any", "id", "flag"}
	hx.Shuffle(r, fields)
	n := r.Intn(5)
	badAt := -1
	if bad && n > 0 {
		badAt = r.Intn(n)
	}
	var items []string
	for i := 0; i < n; i++ {
		f := fields[i]
		t := map[string]string{"a": "Int", "b": "String", "c": "[Float]", "e": "Color", "nested": "In", "any": "Any", "id": "ID", "flag": "Boolean"}[f]
		if f == "nested" && depth <= 0 {
			t = "Int"
			f = "a"
			if contains(fields[:i], "a") {
				continue
			}
		}
		items = append(items, jstr(f)+":"+ws(r)+genTyped(r, t, depth-1, i == badAt))
	}
	if bad && n == 0 {
		items = append(items, `"unknownField":1`)
	}
	return "{" + ws(r) + strings.Join(items, ","+ws(r)) + "}"
}

func contains(xs []string, s string) bool {
	for _, x := range xs {
		if x == s {
			return true
		}
	}
	return false
}

// genTyped spells a JSON value for a variable of the given GraphQL type; bad = a value the type
// does not admit (at most one bad spot per value, so that the reported error is deterministic).
func genTyped(r *hx.Rand, t string, depth int, bad bool) string {
	if strings.HasSuffix(t, "!") {
		if bad && r.Chance(1, 2) {
			return "null"
		}
		return genTypedNN(r, t[:len(t)-1], depth, bad)
	}
	if !bad && r.Chance(1, 12) {
		return "null"
	}
	return genTypedNN(r, t, depth, bad)
}

// genTypedNN: as genTyped, never the null literal at the top.
func genTypedNN(r *hx.Rand, t string, depth int, bad bool) string {
	if strings.HasPrefix(t, "[") {
		inner := t[1 : len(t)-1]
		if !bad && r.Chance(1, 5) {
			return genTyped(r, inner, depth, false) // single item → list coercion
		}
		n := r.Intn(4)
		if bad && n == 0 {
			n = 1
		}
		badAt := -1
		if bad {
			badAt = r.Intn(n)
		}
		var items []string
		for i := 0; i < n; i++ {
			if i != badAt && r.Chance(1, 6) {
				// a null item: fine in [T], an error in [T!] — the position where the two differ
				items = append(items, "null")
				continue
			}
			items = append(items, genTyped(r, inner, depth, i == badAt))
		}
		return "[" + strings.Join(items, ","+ws(r)) + "]"
	}
	switch t {
	case "Int":
		if bad {
			return hx.Pick(r, badIntSpellings)
		}
		return hx.Pick(r, intSpellings)
	case "Float":
		if bad {
			return hx.Pick(r, badFloatSpellings)
		}
		return hx.Pick(r, floatSpellings)
	case "String":
		if bad {
			return hx.Pick(r, []string{"5", "true", "[\"a\",\"b\"]", "{}"})
		}
		return spellString(r, hx.Pick(r, stringPool))
	case "Boolean":
		if bad {
			return hx.Pick(r, []string{`"true"`, "1", "0", "[]"})
		}
		return hx.Pick(r, []string{"true", "false"})
	case "ID":
		if bad {
			return hx.Pick(r, []string{"1.5", "true", "{}", "[[1]]"})
		}
		return hx.Pick(r, []string{`"abc"`, "123", `"123"`, "9007199254740993", "-5", `""`, "1e3", spellString(r, "id ü")})
	case "Color":
		if bad {
			return hx.Pick(r, badColorSpellings)
		}
		return hx.Pick(r, colorSpellings)
	case "Any":
		return genAny(r, 3)
	case "In":
		return genIn(r, depth, bad)
	case "Box":
		var items []string
		if !bad || r.Bool() {
			items = append(items, `"req":`+ws(r)+genTyped(r, "[Color]", depth, false))
		}
		if r.Bool() {
			items = append(items, `"items":`+genTyped(r, "[In!]", depth-1, bad && len(items) > 0))
		}
		if r.Chance(1, 3) {
			items = append(items, `"deep":`+genTyped(r, "[[Color]!]", depth, false))
		}
		hx.Shuffle(r, items)
		return "{" + strings.Join(items, ","+ws(r)) + "}"
	}
	panic("unknown type " + t)
}

// ---- operations -------------------------------------------------------------------------------------

type VarDecl struct {
	Name    string `json:"name"`
	Type    string `json:"type"`
	Default string `json:"default,omitempty"` // GraphQL literal
}

// Sel is one top-level selection with the variables it uses.
type Sel struct {
	Text string    `json:"text"`
	Vars []VarDecl `json:"vars,omitempty"`
}

type OpSpec struct {
	Kind string `json:"kind"` // query | mutation | subscription | "" (shorthand)
	Name string `json:"name"`
	Sels []Sel  `json:"sels"`
	Frag bool   `json:"frag,omitempty"` // move the selections into a fragment on the root type
}

// TextMut is a text-level edit applied after rendering (makes the document invalid, usually).
type TextMut struct {
	Kind string `json:"kind"` // truncate | delete | insert | replace
	Pos  int    `json:"pos"`
	Arg  string `json:"arg,omitempty"`
	With string `json:"with,omitempty"`
}

type QSpec struct {
	Ops    []OpSpec `json:"ops"`
	Mut    *TextMut `json:"mut,omitempty"`
	Prefix string   `json:"prefix,omitempty"` // leading comment / BOM / newlines
	NL     string   `json:"nl,omitempty"`     // line separator
}

func (q QSpec) render() string {
	nl := q.NL
	if nl == "" {
		nl = "\n"
	}
	var b strings.Builder
	b.WriteString(q.Prefix)
	for oi, op := range q.Ops {
		var decls []string
		seen := map[string]bool{}
		for _, s := range op.Sels {
			for _, v := range s.Vars {
				if seen[v.Name] {
					continue
				}
				seen[v.Name] = true
				d := "$" + v.Name + ": " + v.Type
				if v.Default != "" {
					d += " = " + v.Default
				}
				decls = append(decls, d)
			}
		}
		head := ""
		if op.Kind != "" {
			head = op.Kind
			if op.Name != "" {
				head += " " + op.Name
			}
			if len(decls) > 0 {
				head += "(" + strings.Join(decls, ", ") + ")"
			}
			head += " "
		}
		var sels []string
		for _, s := range op.Sels {
			sels = append(sels, "  "+s.Text)
		}
		body := strings.Join(sels, nl)
		if op.Frag {
			root := "Query"
			if op.Kind == "mutation" {
				root = "Mutation"
			}
			fname := fmt.Sprintf("F%d", oi)
			b.WriteString(head + "{ ..." + fname + " }" + nl)
			b.WriteString("fragment " + fname + " on " + root + " {" + nl + body + nl + "}" + nl)
		} else {
			b.WriteString(head + "{" + nl + body + nl + "}" + nl)
		}
	}
	text := b.String()
	if m := q.Mut; m != nil {
		rs := []rune(text)
		pos := m.Pos
		if pos > len(rs) {
			pos = len(rs)
		}
		switch m.Kind {
		case "truncate":
			text = string(rs[:pos])
		case "truncate-eol":
			// cut, then end the text with line terminators: the error sits at the end of input, whose
			// line/column depends on every trailing terminator reaching the parser
			text = strings.TrimRight(string(rs[:pos]), " \t\r\n,") + m.Arg
		case "delete":
			if pos < len(rs) {
				text = string(rs[:pos]) + string(rs[pos+1:])
			}
		case "insert":
			text = string(rs[:pos]) + m.Arg + string(rs[pos:])
		case "replace":
			text = strings.Replace(text, m.Arg, m.With, 1)
		}
	}
	return text
}

type selGen func(r *hx.Rand, alias string, nv func(t string) string) Sel

// argOrVar: either a literal or a fresh variable of type t.
func argOrVar(r *hx.Rand, s *Sel, nv func(string) string, t string, literals []string, defaults []string) string {
	if r.Chance(2, 5) {
		return hx.Pick(r, literals)
	}
	name := nv(t)
	d := VarDecl{Name: name, Type: t}
	if len(defaults) > 0 && r.Chance(1, 4) {
		d.Default = hx.Pick(r, defaults)
	}
	s.Vars = append(s.Vars, d)
	return "$" + name
}

func directiveMaybe(r *hx.Rand, s *Sel, nv func(string) string) string {
	switch r.Intn(8) {
	case 0:
		return " @skip(if: " + argOrVar(r, s, nv, "Boolean!", []string{"true", "false"}, []string{"false", "true"}) + ")"
	case 1:
		return " @include(if: " + argOrVar(r, s, nv, "Boolean!", []string{"true", "false"}, []string{"true"}) + ")"
	}
	return ""
}

var intLits = []string{"0", "3", "-7", "2147483647"}
var floatLits = []string{"0.5", "1e3", "-2.25", "3", "1.7976931348623157e308"}
var stringLits = []string{`"lit"`, `"ü é \"q\""`, `""`, `"""block "quoted" string"""`, `"\u00fc escaped"`, `"tab\there"`}
var inLits = []string{`{a: 1}`, `{b: "x", c: [1.5, 2]}`, `{nested: {a: 2, e: RED}}`, `{}`, `{any: {k: [1, "two", null]}}`, `{flag: true, id: 5}`}

var querySelGens = []selGen{
	func(r *hx.Rand, a string, nv func(string) string) Sel {
		s := Sel{}
		s.Text = a + ": echoInt(x: " + argOrVar(r, &s, nv, "Int", intLits, []string{"5", "null"}) + ")" + directiveMaybe(r, &s, nv)
		return s
	},
	func(r *hx.Rand, a string, nv func(string) string) Sel {
		s := Sel{}
		s.Text = a + ": echoFloat(x: " + argOrVar(r, &s, nv, "Float", floatLits, []string{"2.5"}) + ")"
		return s
	},
	func(r *hx.Rand, a string, nv func(string) string) Sel {
		s := Sel{}
		s.Text = a + ": echoString(s: " + argOrVar(r, &s, nv, "String", stringLits, []string{`"dv"`}) + ")" + directiveMaybe(r, &s, nv)
		return s
	},
	func(r *hx.Rand, a string, nv func(string) string) Sel {
		s := Sel{}
		s.Text = a + ": echoBool(b: " + argOrVar(r, &s, nv, "Boolean", []string{"true", "false"}, nil) + ")"
		return s
	},
	func(r *hx.Rand, a string, nv func(string) string) Sel {
		s := Sel{}
		s.Text = a + ": echoID(id: " + argOrVar(r, &s, nv, "ID", []string{`"x1"`, "77"}, nil) + ")"
		return s
	},
	func(r *hx.Rand, a string, nv func(string) string) Sel {
		s := Sel{}
		s.Text = a + ": echoList(xs: " + argOrVar(r, &s, nv, "[Int]", []string{"[1, 2, null]", "5", "[]"}, []string{"[9]"}) + ")"
		return s
	},
	func(r *hx.Rand, a string, nv func(string) string) Sel {
		s := Sel{}
		s.Text = a + ": echoFloats(xs: " + argOrVar(r, &s, nv, "[Float!]", []string{"[1.5, 2]", "0.25"}, nil) + ")"
		return s
	},
	func(r *hx.Rand, a string, nv func(string) string) Sel {
		s := Sel{}
		s.Text = a + ": needInt(x: " + argOrVar(r, &s, nv, "Int!", intLits, []string{"1"}) + ")"
		return s
	},
	func(r *hx.Rand, a string, nv func(string) string) Sel {
		s := Sel{}
		s.Text = a + ": echoInput(in: " + argOrVar(r, &s, nv, "In", inLits, nil) + ")"
		return s
	},
	func(r *hx.Rand, a string, nv func(string) string) Sel {
		// a variable nested inside an input-object literal
		s := Sel{}
		s.Text = a + ": echoInput(in: {a: " + argOrVar(r, &s, nv, "Int", intLits, nil) + ", nested: {c: " + argOrVar(r, &s, nv, "[Float]", []string{"[0.5]"}, nil) + "}})"
		return s
	},
	func(r *hx.Rand, a string, nv func(string) string) Sel {
		s := Sel{}
		s.Text = a + ": echoInputs(ins: " + argOrVar(r, &s, nv, "[In]", []string{"[{a: 1}, {b: \"z\"}]"}, nil) + ")"
		return s
	},
	func(r *hx.Rand, a string, nv func(string) string) Sel {
		s := Sel{}
		s.Text = a + ": dump(v: " + argOrVar(r, &s, nv, "Any", []string{"1", "1.5", `"s"`, `[1, {k: "v"}]`, "null", "ENUMISH"}, nil) + ")"
		return s
	},
	func(r *hx.Rand, a string, nv func(string) string) Sel {
		s := Sel{}
		s.Text = a + ": anyBack(v: " + argOrVar(r, &s, nv, "Any", []string{`{k: [1, 2.5]}`}, nil) + ")"
		return s
	},
	func(r *hx.Rand, a string, nv func(string) string) Sel {
		s := Sel{}
		s.Text = a + ": color(c: " + argOrVar(r, &s, nv, "Color", []string{"RED", "BLUE"}, []string{"GREEN"}) + ")"
		return s
	},
	func(r *hx.Rand, a string, nv func(string) string) Sel {
		s := Sel{}
		var args []string
		if r.Bool() {
			args = append(args, "n: "+argOrVar(r, &s, nv, "Int", intLits, nil))
		}
		if r.Bool() {
			args = append(args, "s: "+argOrVar(r, &s, nv, "String", stringLits, nil))
		}
		if r.Chance(1, 3) {
			args = append(args, "e: "+argOrVar(r, &s, nv, "Color", []string{"RED"}, nil))
		}
		if r.Chance(1, 3) {
			args = append(args, "z: "+argOrVar(r, &s, nv, "Float", floatLits, nil))
		}
		s.Text = a + ": withDefault"
		if len(args) > 0 {
			s.Text += "(" + strings.Join(args, ", ") + ")"
		}
		return s
	},
	func(r *hx.Rand, a string, nv func(string) string) Sel { return Sel{Text: a + ": gated"} },
	func(r *hx.Rand, a string, nv func(string) string) Sel { return Sel{Text: a + ": featuresSeen"} },
	func(r *hx.Rand, a string, nv func(string) string) Sel { return Sel{Text: a + ": requestCost"} },
	func(r *hx.Rand, a string, nv func(string) string) Sel {
		s := Sel{}
		s.Text = a + ": fail(msg: " + argOrVar(r, &s, nv, "String", stringLits, nil) + ")"
		return s
	},
	func(r *hx.Rand, a string, nv func(string) string) Sel {
		s := Sel{}
		kinds := []string{"id", "name", "n"}
		if r.Chance(1, 3) {
			kinds = append(kinds, "boom")
		}
		if r.Chance(1, 3) {
			kinds = append(kinds, "must")
		}
		if r.Chance(1, 3) {
			kinds = append(kinds, "scaledBy")
		}
		if r.Chance(1, 3) {
			kinds = append(kinds, "scaled")
		}
		if r.Chance(1, 4) {
			kinds = append(kinds, "secret")
		}
		if r.Chance(1, 4) {
			kinds = append(kinds, "__typename")
		}
		hx.Shuffle(r, kinds)
		kinds = kinds[:r.Range(1, len(kinds))]
		var sub []string
		for _, k := range kinds {
			switch k {
			case "must":
				sub = append(sub, "must(ok: "+argOrVar(r, &s, nv, "Boolean", []string{"true", "false"}, nil)+")")
			case "scaledBy":
				sub = append(sub, "sb: scaled(by: "+argOrVar(r, &s, nv, "Float", floatLits[:3], nil)+")")
			default:
				sub = append(sub, k)
			}
		}
		arg := ""
		if r.Chance(2, 3) {
			arg = "(n: " + argOrVar(r, &s, nv, "Int", []string{"0", "1", "3", "5", "6", "-1"}, []string{"2"}) + ")"
		}
		s.Text = a + ": things" + arg + directiveMaybe(r, &s, nv) + " { " + strings.Join(sub, " ") + " }"
		return s
	},
	func(r *hx.Rand, a string, nv func(string) string) Sel {
		return Sel{Text: a + ": named { __typename name ... on Thing { id n } ... on Other { extra } }"}
	},
	func(r *hx.Rand, a string, nv func(string) string) Sel {
		s := Sel{}
		s.Text = a + ": either(other: " + argOrVar(r, &s, nv, "Boolean", []string{"true", "false"}, nil) + ") { __typename ... on Named { name } ... on Other { extra } }"
		return s
	},
	func(r *hx.Rand, a string, nv func(string) string) Sel {
		return Sel{Text: a + ": thing { id must scaled secret2: name }"}
	},
	func(r *hx.Rand, a string, nv func(string) string) Sel {
		return Sel{Text: a + ": __typename"}
	},
	func(r *hx.Rand, a string, nv func(string) string) Sel {
		return Sel{Text: "introspection_" + a + `: __type(name: "In") { name kind inputFields { name defaultValue type { name kind ofType { name } } } }`}
	},
	func(r *hx.Rand, a string, nv func(string) string) Sel {
		return Sel{Text: "introspection_" + a + `: __type(name: "Query") { fields { name args { name defaultValue type { name kind } } type { name kind } } }`}
	},
	func(r *hx.Rand, a string, nv func(string) string) Sel {
		return Sel{Text: "introspection_" + a + `: __schema { queryType { name } mutationType { name } subscriptionType { name } directives { name locations args { name } } types { name kind possibleTypes { name } enumValues(includeDeprecated: true) { name isDeprecated } } }`}
	},
}

var colorListLits = []string{"[RED, BLUE]", "[RED, null]", "[]", "null", "GREEN", "[null]"}
var inListLits = []string{"[{a: 1}, {b: \"z\"}]", "[{a: 1}, null]", "[]", "null", "{a: 2}"}

func init() {
	withNullArg := func(r *hx.Rand, s *Sel, nv func(string) string) string {
		switch r.Intn(3) {
		case 0:
			return ""
		default:
			return "(withNull: " + argOrVar(r, s, nv, "Boolean", []string{"true", "false"}, nil) + ")"
		}
	}
	querySelGens = append(querySelGens,
		func(r *hx.Rand, a string, nv func(string) string) Sel {
			s := Sel{}
			f := hx.Pick(r, []string{"itemsA", "itemsB"})
			s.Text = a + ": " + f + withNullArg(r, &s, nv) + " { id name }"
			return s
		},
		func(r *hx.Rand, a string, nv func(string) string) Sel {
			s := Sel{}
			s.Text = a + ": grid" + withNullArg(r, &s, nv) + " { id n }"
			return s
		},
		func(r *hx.Rand, a string, nv func(string) string) Sel {
			s := Sel{}
			s.Text = a + ": " + hx.Pick(r, []string{"palette", "paletteB"}) + withNullArg(r, &s, nv)
			return s
		},
		func(r *hx.Rand, a string, nv func(string) string) Sel {
			s := Sel{}
			switch r.Intn(5) {
			case 0:
				s.Text = a + ": paint"
			case 1:
				s.Text = a + ": paintB"
			case 2:
				s.Text = a + ": paint(colors: " + argOrVar(r, &s, nv, "[Color!]", colorListLits, []string{"[RED]"}) + ")"
			case 3:
				s.Text = a + ": paintB(colors: " + argOrVar(r, &s, nv, "[Color]!", colorListLits, []string{"[RED, null]"}) + ")"
			default:
				// the variable's declared type is the other chain: allowed or not depending on the position's type
				f := hx.Pick(r, []string{"paint", "paintB"})
				s.Text = a + ": " + f + "(colors: " + argOrVar(r, &s, nv, hx.Pick(r, []string{"[Color!]", "[Color]!", "[Color!]!", "[Color]"}), colorListLits, nil) + ")"
			}
			return s
		},
		func(r *hx.Rand, a string, nv func(string) string) Sel {
			s := Sel{}
			switch r.Intn(4) {
			case 0:
				s.Text = a + ": " + hx.Pick(r, []string{"insA", "insB"})
			case 1:
				s.Text = a + ": insA(ins: " + argOrVar(r, &s, nv, "[In!]", inListLits, nil) + ")"
			case 2:
				s.Text = a + ": insB(ins: " + argOrVar(r, &s, nv, "[In]!", inListLits, nil) + ")"
			default:
				f := hx.Pick(r, []string{"insA", "insB"})
				s.Text = a + ": " + f + "(ins: " + argOrVar(r, &s, nv, hx.Pick(r, []string{"[In!]", "[In]!", "[In]"}), inListLits, nil) + ")"
			}
			return s
		},
		func(r *hx.Rand, a string, nv func(string) string) Sel {
			s := Sel{}
			s.Text = a + ": echoBox(box: " + argOrVar(r, &s, nv, "Box", []string{"{req: [RED, null]}", "{req: []}", "{}", "{req: null}", "{req: [BLUE], items: [{a: 1}]}", "{req: [RED], items: [null]}", "{req: RED, deep: [[RED, null], []]}", "{req: [], deep: [null]}"}, nil) + ")"
			return s
		},
		func(r *hx.Rand, a string, nv func(string) string) Sel {
			s := Sel{}
			f := hx.Pick(r, []string{"gatedB", "gatedAB", "gatedAB"})
			if f == "gatedAB" && r.Bool() {
				f += "(x: " + argOrVar(r, &s, nv, "Int", intLits, nil) + ")"
			}
			s.Text = a + ": " + f
			return s
		},
		func(r *hx.Rand, a string, nv func(string) string) Sel {
			return Sel{Text: "introspection_" + a + `: __type(name: "` + hx.Pick(r, []string{"Query", "Box", "Thing"}) + `") { fields { name args { name type { kind name ofType { kind name ofType { kind name ofType { kind name } } } } } type { kind name ofType { kind name ofType { kind name ofType { kind name } } } } } inputFields { name type { kind name ofType { kind name ofType { kind name ofType { kind name } } } } } }`}
		},
	)
}

var mutationSelGens = []selGen{
	func(r *hx.Rand, a string, nv func(string) string) Sel {
		s := Sel{}
		s.Text = a + ": bump(by: " + argOrVar(r, &s, nv, "Int!", intLits, nil) + ")"
		return s
	},
	func(r *hx.Rand, a string, nv func(string) string) Sel {
		s := Sel{}
		var args []string
		if r.Bool() {
			args = append(args, "s: "+argOrVar(r, &s, nv, "String", stringLits, nil))
		}
		if r.Bool() {
			args = append(args, "in: "+argOrVar(r, &s, nv, "In", inLits, nil))
		}
		s.Text = a + ": note"
		if len(args) > 0 {
			s.Text += "(" + strings.Join(args, ", ") + ")"
		}
		return s
	},
	func(r *hx.Rand, a string, nv func(string) string) Sel { return Sel{Text: a + ": __typename"} },
}

var opNames = []string{"Q", "Op2", "Müller", "Q_", "query", "A"}

// genVars draws values for the variables a document declares (nil = no `variables` at all).
func genVars(r *hx.Rand, q QSpec) *string {
	var decls []VarDecl
	for _, op := range q.Ops {
		for _, s := range op.Sels {
			decls = append(decls, s.Vars...)
		}
	}
	badVar := -1
	if len(decls) > 0 && r.Chance(1, 8) {
		badVar = r.Intn(len(decls))
	}
	var members []string
	for i, d := range decls {
		if i != badVar && r.Chance(1, 8) {
			continue // not supplied
		}
		members = append(members, jstr(d.Name)+ws(r)+":"+ws(r)+genTyped(r, d.Type, 2, i == badVar))
	}
	if r.Chance(1, 8) {
		members = append(members, `"undeclared":`+genAny(r, 2))
	}
	hx.Shuffle(r, members)
	if len(members) > 0 || r.Chance(1, 4) {
		v := "{" + ws(r) + strings.Join(members, ","+ws(r)) + "}"
		if len(members) == 0 && r.Chance(1, 3) {
			v = "null"
		}
		return &v
	}
	return nil
}

// genOp builds one operation case: the document, an operation name and variable values.
func genOp(r *hx.Rand) (QSpec, Op) {
	var q QSpec
	nOps := 1
	if r.Chance(1, 5) {
		nOps = r.Range(2, 3)
	}
	vcount := 0
	usedNames := map[string]bool{}
	for i := 0; i < nOps; i++ {
		op := OpSpec{}
		isMut := r.Chance(1, 5)
		gens := querySelGens
		op.Kind = "query"
		if isMut {
			gens = mutationSelGens
			op.Kind = "mutation"
		}
		if nOps == 1 && !isMut && r.Chance(1, 4) {
			op.Kind = "" // shorthand
		}
		if op.Kind != "" && (nOps > 1 || r.Chance(1, 2)) {
			for {
				op.Name = hx.Pick(r, opNames)
				if op.Name == "Müller" && !r.Chance(1, 12) { // not a Name: a syntax error, keep it rare
					continue
				}
				if !usedNames[op.Name] || r.Chance(1, 10) {
					break
				}
			}
			usedNames[op.Name] = true
		}
		n := r.Range(1, 4)
		if r.Chance(1, 10) {
			n = r.Range(5, 9)
		}
		for j := 0; j < n; j++ {
			g := gens[r.Intn(len(gens))]
			nv := func(t string) string {
				vcount++
				return fmt.Sprintf("v%d", vcount)
			}
			s := g(r, fmt.Sprintf("f%d", j), nv)
			if op.Kind == "" {
				// the shorthand form cannot declare variables: spell literals instead
				for len(s.Vars) > 0 {
					s = g(r, fmt.Sprintf("f%d", j), nv)
					if len(s.Vars) > 0 && r.Chance(1, 20) {
						break // an undeclared variable: invalid document
					}
				}
			}
			op.Sels = append(op.Sels, s)
		}
		op.Frag = r.Chance(1, 8)
		q.Ops = append(q.Ops, op)
	}
	q.Prefix = hx.Pick(r, []string{"", "", "", "# comment ü\n", "\n\n  ", "\ufeff", "# c1\r\n# c2\r\n"})
	q.NL = hx.Pick(r, []string{"\n", "\n", "\r\n", " ", ", "})

	op := Op{Vars: genVars(r, q)}
	// operation name
	var names []string
	for _, o := range q.Ops {
		if o.Name != "" {
			names = append(names, o.Name)
		}
	}
	switch {
	case len(q.Ops) > 1 && len(names) > 0 && r.Chance(9, 10):
		op.OpName = hx.Pick(r, names)
	case len(names) > 0 && r.Chance(3, 5):
		op.OpName = hx.Pick(r, names)
	case r.Chance(1, 20):
		op.OpName = hx.Pick(r, []string{"Missing", "q", "Ünknown", " "})
	}
	if len(names) > 0 && r.Chance(1, 12) {
		// a near miss of a real name: must stay a miss on every transport (no trimming, no case folding)
		n := hx.Pick(r, names)
		op.OpName = hx.Pick(r, []string{n + " ", " " + n, strings.ToLower(n), strings.ToUpper(n) + "X", n + "\n", "\t" + n})
	}
	// make it invalid sometimes
	if r.Chance(1, 8) {
		text := []rune(q.render())
		m := &TextMut{}
		switch r.Intn(7) {
		case 6:
			m.Kind, m.Pos, m.Arg = "truncate-eol", r.Intn(len(text)+1), hx.Pick(r, []string{"\n", "\r\n", "\n\n", "\r", "\n\r\n ", "\n\n\n"})
		case 0:
			m.Kind, m.Pos = "truncate", r.Intn(len(text)+1)
		case 1:
			m.Kind, m.Pos = "delete", r.Intn(len(text))
		case 2:
			m.Kind, m.Pos, m.Arg = "insert", r.Intn(len(text)+1), hx.Pick(r, []string{"}", "{", "$", "\"", "@", "(", "!", " ", "...", "é"})
		case 3:
			m.Kind, m.Arg, m.With = "replace", hx.Pick(r, []string{"echoInt", "echoString", "things", "name", "dump", "bump", "withDefault"}), "noSuchField"
		case 4:
			m.Kind, m.Arg, m.With = "replace", hx.Pick(r, []string{": Int", ": String", ": Float", ": In", ": Boolean"}), hx.Pick(r, []string{": String", ": Int", ": Nope", ": [Int]", ": Int!"})
		case 5:
			m.Kind, m.Arg, m.With = "replace", hx.Pick(r, []string{"$v1", "$v2", "x:", "s:", "query", "mutation"}), hx.Pick(r, []string{"$zz", "y:", "subscription", "fragment"})
		}
		q.Mut = m
	}
	op.Query = q.render()
	return q, op
}

const typeRefSel = "kind name ofType { kind name ofType { kind name ofType { kind name } } }"

// handOps: fixed operations that every run evaluates (boundary shapes the generator reaches rarely).
func handOps() []Op {
	sp := func(s string) *string { return &s }
	return []Op{
		{Query: ""},
		{Query: "   "},
		{Query: "\n"},
		{Query: "\t\r\n ,"},
		{Query: "{ __typename }"},
		{Query: "{ gated featuresSeen requestCost }"},
		{Query: "{ things(n: 3) { id name scaled } requestCost }"},
		{Query: "query Q($n: Int = 4) { things(n: $n) { name must } requestCost }", OpName: "Q"},
		{Query: "query Q($n: Int = 4) { things(n: $n) { name must } requestCost }", OpName: "Q", Vars: sp(`{"n": 5}`)},
		{Query: "query Q($n: Int) { things(n: $n) { scaled } requestCost }", Vars: sp(`{"n": 1e0}`)},
		{Query: "query A { a: echoInt(x: 1) } query B { b: echoInt(x: 2) }", OpName: "B"},
		{Query: "query A { a: echoInt(x: 1) } query B { b: echoInt(x: 2) }"},
		{Query: "query A { a: echoInt(x: 1) } query B { b: echoInt(x: 2) }", OpName: "C"},
		{Query: "query A($x: Int) { echoInt(x: $x) } mutation B($x: Int!) { bump(by: $x) }", OpName: "B", Vars: sp(`{"x": 2147483647}`)},
		{Query: "query($v: Any) { dump(v: $v) anyBack(v: $v) }", Vars: sp(`{"v": {"big": 123456789012345678901234567890, "frac": 0.1, "neg0": -0.0, "exp": 1E2, "int": 1, "list": [1, 1.0, null, "s", {"deep": [[]]}], "u": "ü😀"}}`)},
		{Query: "query($v: Any) { dump(v: $v) }", Vars: sp(`{"v": 9007199254740993}`)},
		{Query: "query($v: Any) { dump(v: $v) }", Vars: sp(`{"v": 1.0}`)},
		{Query: "query($f: Float, $i: Int, $id: ID) { echoFloat(x: $f) echoInt(x: $i) echoID(id: $id) }", Vars: sp(`{"f": 1e308, "i": 2147483647.0, "id": 12345678901234567890}`)},
		{Query: "query($i: Int) { echoInt(x: $i) }", Vars: sp(`{"i": 2147483648}`)},
		{Query: "query($i: Int!) { needInt(x: $i) }"},
		{Query: "query($i: Int!) { needInt(x: $i) }", Vars: sp(`{"i": null}`)},
		{Query: "query($i: Int!) { needInt(x: $i) }", Vars: sp(`null`)},
		{Query: "query($i: Int!) { needInt(x: $i) }", Vars: sp(`{}`)},
		{Query: "query($in: In) { echoInput(in: $in) }", Vars: sp(`{"in": {"a": 1, "nested": {"nested": {"c": [0.5, 1, null]}, "any": [{"k": 1}]}, "e": "BLUE"}}`)},
		{Query: "query($in: In) { echoInput(in: $in) }", Vars: sp(`{"in": {"zzz": 1}}`)},
		{Query: "query($s: String) { echoString(s: $s) }", Vars: sp(`{"s": "\u0000 \" \\ \/ \b\f\n\r\t   𝄞 é"}`)},
		{Query: "query($b: Boolean!) { a: echoInt(x: 1) @skip(if: $b) b: echoInt(x: 2) @include(if: $b) }", Vars: sp(`{"b": true}`)},
		{Query: "query($b: Boolean!) { a: echoInt(x: 1) @skip(if: $b) }", Vars: sp(`{"b": "true"}`)},
		{Query: "mutation { a: bump(by: 1) b: bump(by: 2) note }"},
		{Query: "mutation M($s: String) { note(s: $s) }", OpName: "M", Vars: sp(`{"s": null}`)},
		{Query: "subscription { x }"},
		{Query: "{ thing { secret } }"},
		{Query: "{ fail(msg: \"x\") things { boom must(ok: false) } }"},
		{Query: "{ named { __typename name ... on Thing { id } } either { ... on Thing { id } } }"},
		{Query: `{ __type(name: "Thing") { fields { name } } }`},
		{Query: "{ withDefault a: withDefault(n: null) b: withDefault(e: BLUE, z: 1) }"},
		{Query: "{ echoString(s: \"\"\"\n  block\n    string\n  \"\"\") }"},
		{Query: "# only a comment"},
		{Query: "{ a: echoInt(x: 1) a: echoInt(x: 2) }"},
		{Query: "{ echoInt(x: \"s\") }"},
		{Query: "{ echoInt(x: $undefined) }"},
		{Query: "query Q { ...F } fragment F on Query { ...F }"},
		{Query: "{ ünï }"},
		{Query: "{ echoString(s: \"ünï 😀\") }"},
		{Query: "\ufeff{ __typename }"},
		{Query: "{\r\n  nope\r\n}"},
		{Query: "query Q { __typename }", OpName: "Q", Vars: sp(`{"unused": [1, 2, 3]}`)},
		// errors at the end of input, after trailing line terminators
		{Query: "{\n  echoInt(x: 1)\n"},
		{Query: "{\n  echoInt(x: 1)\r\n"},
		{Query: "{ echoInt(x: 1)\n\n\n"},
		{Query: "query Q(\n"},
		{Query: "query Q($a: Int\r\n\r\n"},
		{Query: "{ thing {\r"},
		{Query: "{ echoString(s: \"abc\n"},
		{Query: "{ __typename }\n\n"},
		{Query: "# comment only\n"},
		{Query: "\n"},
		{Query: "\r\n"},
		// asymmetric wrapper chains: [T!] vs [T]!
		{Query: "{ a: itemsA(withNull: true) { id } b: itemsB(withNull: true) { id } }"},
		{Query: "{ itemsA { id } itemsB { name } grid(withNull: true) { id } }"},
		{Query: "{ palette(withNull: true) paletteB(withNull: true) }"},
		{Query: "{ paint }"},
		{Query: "{ paintB }"},
		{Query: "{ a: paint(colors: [RED, null]) }"},
		{Query: "{ b: paintB(colors: [RED, null]) }"},
		{Query: "{ a: paint(colors: null) }"},
		{Query: "{ b: paintB(colors: null) }"},
		{Query: "query($c: [Color!]) { paint(colors: $c) }", Vars: sp(`{"c": ["RED", null]}`)},
		{Query: "query($c: [Color]!) { paintB(colors: $c) }", Vars: sp(`{"c": ["RED", null]}`)},
		{Query: "query($c: [Color]!) { paint(colors: $c) }", Vars: sp(`{"c": ["RED"]}`)},
		{Query: "query($c: [Color!]) { paintB(colors: $c) }", Vars: sp(`{"c": ["RED"]}`)},
		{Query: "{ insA(ins: [{a: 1}, null]) }"},
		{Query: "{ insB(ins: [{a: 1}, null]) }"},
		{Query: "{ insA insB }"},
		{Query: "{ a: echoBox(box: {req: [RED, null]}) b: echoBox(box: {}) c: echoBox(box: {req: [], items: [null]}) }"},
		{Query: "query($b: Box) { echoBox(box: $b) }", Vars: sp(`{"b": {"req": null}}`)},
		{Query: "query($b: Box) { echoBox(box: $b) }", Vars: sp(`{"b": {"req": ["RED", null], "items": [{"a": 1}], "deep": [["BLUE", null]]}}`)},
		{Query: "query($b: Box) { echoBox(box: $b) }", Vars: sp(`{"b": {"req": [], "items": [null], "deep": [null]}}`)},
		{Query: `{ __type(name: "Query") { fields { name args { name type { ` + typeRefSel + ` } } type { ` + typeRefSel + ` } } } }`},
		{Query: `{ __type(name: "Box") { inputFields { name type { ` + typeRefSel + ` } } } }`},
		{Query: "{ gated gatedB gatedAB featuresSeen }"},
		{Query: "{ gatedAB(x: 3) requestCost }"},
	}
}

func sortedKeys(m map[string]int) []string {
	var ks []string
	for k := range m {
		ks = append(ks, k)
	}
	sort.Strings(ks)
	return ks
}
