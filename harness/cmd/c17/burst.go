// C17 harness — phase P: bursts. Many operations are submitted back-to-back on ONE WebSocket
// connection while the client does not read; only afterwards the answers are collected. Every
// operation must be answered exactly like the transport-free run (and like HTTP, which the other
// phases compare with it): a transport that loses, truncates or reorders answers under load does
// not yield "the same response for the same operation". The answers are large (a resolver that
// returns n bytes for a small request), so that the server's socket writes stall and its outgoing
// buffer (100 frames) fills while the client is still silent; the client's receive buffer is made
// small for the same reason.
package main

import (
	"fmt"
	"net"
	"strings"
	"time"

	"github.com/gorilla/websocket"
)

// Burst is the replayable unit of phase P.
type Burst struct {
	Kind string `json:"kind"` // subprotocol
	N    int    `json:"n"`    // operations
	Size int    `json:"size"` // bytes each answer carries
}

const pObl = "oracle P: each of many operations submitted back-to-back on one WebSocket connection, answers read only afterwards, is answered like the transport-free run of that operation (none lost, none altered, each completed)"

func (h *harness) checkBurst(b Burst, fl Flags, verbose bool) *failure {
	w := h.world(fl)
	query := func(i int) string { return fmt.Sprintf("{ big(n: %d) i: echoInt(x: %d) }", b.Size, i) }
	c, err := dialWS(w.srv.URL, b.Kind, true, "")
	if err != nil {
		return &failure{"property", "burst: cannot connect: " + err.Error()}
	}
	defer c.close()
	if tc, ok := c.conn.UnderlyingConn().(*net.TCPConn); ok {
		tc.SetReadBuffer(16 << 10)
	}
	for i := 0; i < b.N; i++ {
		msg := fmt.Sprintf(`{"id":"p%d","type":%s,"payload":{"query":%s}}`, i, jstr(startType(b.Kind)), jstr(query(i)))
		c.conn.SetWriteDeadline(time.Now().Add(wsTimeout))
		if err := c.conn.WriteMessage(websocket.TextMessage, []byte(msg)); err != nil {
			return &failure{"property", fmt.Sprintf("burst over %s: the server stopped accepting operations after %d of %d: %v", b.Kind, i, b.N, err)}
		}
	}
	// only now read
	data := map[string][]string{}
	completed := map[string]bool{}
	var readErr error
	for len(completed) < b.N {
		f, err := c.read()
		if err != nil {
			readErr = err
			break
		}
		switch f.Type {
		case "data", "next":
			p, _ := canonResponse(f.Payload)
			data[f.ID] = append(data[f.ID], p)
		case "complete":
			completed[f.ID] = true
		default:
			data[f.ID] = append(data[f.ID], f.Type+":"+string(f.Payload))
		}
	}
	w.takeLogs()
	var bad []string
	for i := 0; i < b.N && len(bad) < 4; i++ {
		id := fmt.Sprintf("p%d", i)
		ref := w.direct(query(i), "", nil, nil, fl.Feat, "", defaultCost(fl.Cost))
		got := data[id]
		switch {
		case len(got) == 0:
			bad = append(bad, fmt.Sprintf("operation %s got no answer", id))
		case len(got) > 1:
			bad = append(bad, fmt.Sprintf("operation %s got %d answers", id, len(got)))
		case got[0] != ref.Resp:
			bad = append(bad, fmt.Sprintf("operation %s answered %s, transport-free %s", id, abbrev(got[0]), abbrev(ref.Resp)))
		case !completed[id]:
			bad = append(bad, fmt.Sprintf("operation %s was never completed", id))
		}
	}
	w.takeLogs()
	if verbose {
		fmt.Printf("  %s [%s]: %d operations, %d answered, %d completed, read error %v\n", b.Kind, fl, b.N, len(data), len(completed), readErr)
	}
	ok := len(bad) == 0
	h.run.Oblige(pObl, "oracle", b.N, ok, strings.Join(bad, "; "))
	if !ok {
		missing := 0
		for i := 0; i < b.N; i++ {
			if len(data[fmt.Sprintf("p%d", i)]) == 0 {
				missing++
			}
		}
		return &failure{"property", fmt.Sprintf("[%s] %d operations `{ big(n: %d) i: echoInt(x: k) }` submitted back-to-back over one %s connection, answers read afterwards: %d of them got no answer (%d completed; read ended with %v); %s — the same operation over HTTP / transport-free is answered",
			fl, b.N, b.Size, b.Kind, missing, len(completed), readErr, strings.Join(bad, "; "))}
	}
	return nil
}

func (h *harness) phaseP() {
	flags := allFlags()
	n := 0
	for _, kind := range []string{cGqlWs, cTransportWs} {
		for _, fl := range []Flags{flags[0], flags[7]} {
			b := Burst{Kind: kind, N: 240, Size: 96 << 10}
			fl := fl
			cs := Case{Kind: "burst", Burst: &b, Flags: &fl}
			h.report(cs, h.runCase(cs, false))
			n++
			if h.run.Tier != "thorough" {
				break // quick: one configuration per protocol
			}
		}
	}
	h.run.Note("phase P done at %.1fs (%d bursts)", h.run.Elapsed().Seconds(), n)
}
