// C17 harness — phase J: the byte-level JSON model (lean/ApiFu/C17/Json.lean) against the real
// decoders, on exhaustively enumerated short byte strings over a JSON-dense alphabet, exhaustively
// enumerated short token sequences, grammar-generated envelopes and frames, and single-byte
// corruptions of those.
//
//	post     graphql.NewRequestFromHTTP on a POST application/json request with these body bytes
//	map      graphql.NewRequestFromHTTP on a GET whose `variables` parameter is these bytes
//	payload  jsoniter.Unmarshal into the payload struct of the two Connection types (the struct is a
//	         copy: handleMessage is unexported; its fields, tags and decoder calls are compared with
//	         the source by the pipeline-shape extraction, and `ws` below goes through the real thing)
//	frame    json.Unmarshal into graphqlws.Message and graphqltransportws.Message (the real types)
//	ws       the frame through a real graphqlws / graphqltransportws Connection on a loopback socket
//	         with a recording handler (a sample: one socket per case)
package main

import (
	"bytes"
	"context"
	"encoding/hex"
	"encoding/json"
	"fmt"
	"io"
	"math/big"
	"net/http"
	"net/url"
	"os"
	"sort"
	"strconv"
	"strings"
	"time"
	"unicode/utf8"

	jsoniter "github.com/json-iterator/go"

	"github.com/ccbrown/api-fu/graphql"
	"github.com/ccbrown/api-fu/graphql/transport/graphqltransportws"
	"github.com/ccbrown/api-fu/graphql/transport/graphqlws"

	"verifharness/hx"
)

// JBytes is the replayable unit of phase J.
type JBytes struct {
	Op   string `json:"op"`             // post | map | payload | frame | ws
	Hex  string `json:"hex"`            // the bytes
	Kind string `json:"kind,omitempty"` // ws: the subprotocol
	Text string `json:"text,omitempty"` // the bytes as text, for the reader (not used)
}

func xhex(b []byte) string { return "x" + hex.EncodeToString(b) }

// jcanon writes a decoded Go value in the model's output format (linear: values can be 10000 deep).
func jcanon(v interface{}) string {
	var sb strings.Builder
	jcanonTo(&sb, v)
	return sb.String()
}

func jcanonTo(sb *strings.Builder, v interface{}) {
	switch x := v.(type) {
	case nil:
		sb.WriteString("null")
	case bool:
		if x {
			sb.WriteString("true")
		} else {
			sb.WriteString("false")
		}
	case float64:
		sb.WriteString("(num " + strconv.FormatFloat(x, 'g', -1, 64) + ")")
	case string:
		sb.WriteString("(str " + xhex([]byte(x)) + ")")
	case []interface{}:
		sb.WriteString("(arr")
		for _, e := range x {
			sb.WriteByte(' ')
			jcanonTo(sb, e)
		}
		sb.WriteByte(')')
	case map[string]interface{}:
		keys := make([]string, 0, len(x))
		for k := range x {
			keys = append(keys, k)
		}
		sort.Strings(keys)
		sb.WriteString("(obj")
		for _, k := range keys {
			sb.WriteString(" (" + xhex([]byte(k)) + " ")
			jcanonTo(sb, x[k])
			sb.WriteByte(')')
		}
		sb.WriteByte(')')
	default:
		sb.WriteString(fmt.Sprintf("(unexpected %T)", v))
	}
}

func jcanonMap(m map[string]interface{}) string {
	if m == nil {
		return "nil"
	}
	return jcanon(m)
}

// jnormModel rewrites the model's reply so that number literals appear as the float64 they denote
// (strconv.ParseFloat is the number parameter of the model).
func jnormModel(rep string) string {
	if !strings.Contains(rep, "(num ") {
		return rep
	}
	s, err := hx.ParseSexp(rep)
	if err != nil {
		return rep
	}
	var sb strings.Builder
	var walk func(x hx.Sexp)
	walk = func(x hx.Sexp) {
		if !x.IsList {
			sb.WriteString(x.Atom)
			return
		}
		if len(x.List) == 2 && !x.List[0].IsList && x.List[0].Atom == "num" && !x.List[1].IsList {
			f, err := strconv.ParseFloat(x.List[1].Atom, 64)
			if err != nil {
				sb.WriteString("(num !" + x.List[1].Atom + ")")
			} else {
				sb.WriteString("(num " + strconv.FormatFloat(f, 'g', -1, 64) + ")")
			}
			return
		}
		sb.WriteByte('(')
		for i, e := range x.List {
			if i > 0 {
				sb.WriteByte(' ')
			}
			walk(e)
		}
		sb.WriteByte(')')
	}
	walk(s)
	return sb.String()
}

type wsPayload struct {
	Query         string                 `json:"query"`
	Variables     map[string]interface{} `json:"variables"`
	OperationName string                 `json:"operationName"`
}

// jreal runs the real decoder. second result: an oracle failure (the property's malformed clause).
func (h *harness) jreal(c JBytes, b []byte) (out string, oracle string) {
	defer func() {
		if p := recover(); p != nil {
			out = fmt.Sprintf("panic: %v", p)
			oracle = out
		}
	}()
	switch c.Op {
	case "post", "map":
		var req *http.Request
		if c.Op == "post" {
			req = &http.Request{Method: "POST", URL: &url.URL{Path: "/graphql"}, Header: http.Header{"Content-Type": {"application/json"}},
				Body: io.NopCloser(bytes.NewReader(b)), ContentLength: int64(len(b))}
		} else {
			req = &http.Request{Method: "GET", URL: &url.URL{Path: "/graphql", RawQuery: "query=%7Ba%7D&variables=" + url.QueryEscape(string(b))}, Header: http.Header{}}
		}
		req = req.WithContext(context.Background())
		gr, code, err := graphql.NewRequestFromHTTP(req)
		// independent judgement "bad JSON": the first value of the text does not scan
		var raw json.RawMessage
		badJSON := json.NewDecoder(bytes.NewReader(b)).Decode(&raw) != nil
		if err != nil {
			if code < 400 || code > 499 || gr != nil {
				oracle = fmt.Sprintf("refused with status %d (request %v)", code, gr != nil)
			}
			want := "malformed request body"
			if c.Op == "map" {
				want = "malformed variables parameter"
			}
			if code == 400 && err.Error() == want {
				return "bad", oracle
			}
			return fmt.Sprintf("(reject %d %q)", code, err.Error()), oracle
		}
		if badJSON {
			oracle = "bad JSON accepted"
		}
		if gr == nil || code != 200 {
			return fmt.Sprintf("no error but code %d", code), "no error, no request"
		}
		if c.Op == "map" {
			return jcanonMap(gr.VariableValues), oracle
		}
		return fmt.Sprintf("(env %s %s %s %s)", xhex([]byte(gr.Query)), xhex([]byte(gr.OperationName)), jcanonMap(gr.VariableValues), jcanonMap(gr.Extensions)), oracle
	case "media":
		body := `{"query":"J"}`
		req := &http.Request{Method: "POST", URL: &url.URL{Path: "/graphql"}, Header: http.Header{"Content-Type": {string(b)}},
			Body: io.NopCloser(strings.NewReader(body)), ContentLength: int64(len(body))}
		gr, code, err := graphql.NewRequestFromHTTP(req.WithContext(context.Background()))
		switch {
		case err == nil && gr != nil && gr.Query == "J":
			return "json", ""
		case err == nil && gr != nil && gr.Query == body:
			return "graphql", ""
		case err != nil && code == 400 && err.Error() == "invalid content-type":
			return "other", ""
		}
		return fmt.Sprintf("unexpected: code %d err %v", code, err), ""
	case "payload":
		if !json.Valid(b) {
			// json-iterator only ever sees a json.RawMessage that encoding/json extracted from the
			// frame: what it would do with other bytes is not reachable through the transports
			return "bad", ""
		}
		var p wsPayload
		if err := jsoniter.Unmarshal(b, &p); err != nil {
			return "bad", ""
		}
		return fmt.Sprintf("(env %s %s %s nil)", xhex([]byte(p.Query)), xhex([]byte(p.OperationName)), jcanonMap(p.Variables)), ""
	case "frame":
		var m1 graphqlws.Message
		var m2 graphqltransportws.Message
		e1 := json.Unmarshal(b, &m1)
		e2 := json.Unmarshal(b, &m2)
		f := func(err error, id, ty string, p json.RawMessage) string {
			if err != nil {
				return "bad"
			}
			ps := "nil"
			if p != nil {
				ps = "(raw " + xhex(p) + ")"
			}
			return fmt.Sprintf("(msg %s %s %s)", xhex([]byte(id)), xhex([]byte(ty)), ps)
		}
		r1, r2 := f(e1, m1.Id, string(m1.Type), m1.Payload), f(e2, m2.Id, string(m2.Type), m2.Payload)
		if r1 != r2 {
			return "graphqlws " + r1 + " / graphqltransportws " + r2, ""
		}
		return r1, ""
	case "ws":
		return h.wsdec.realWSDecode(WSEnv{Kind: c.Kind, DidInit: true, Frame: string(b)}), ""
	}
	return "unknown op", ""
}

// jmodelLines: the driver lines that answer a case (ws needs two, the second depends on the first).
func jmodelLine(c JBytes) string {
	op := map[string]string{"post": "jpost", "map": "jmap", "payload": "jpayload", "frame": "jframe", "ws": "jframe", "media": "jmedia"}[c.Op]
	return "(" + op + " x" + c.Hex + ")"
}

// jexpectWS turns the model's answers into what the recording handler prints.
func (h *harness) jexpectWS(c JBytes, frameRep string) (string, bool) {
	if frameRep == "bad" {
		if c.Kind == "graphql-ws" {
			return "ignore", true
		}
		return `(close 4400 "unable to deserialize message")`, true
	}
	s, err := hx.ParseSexp(frameRep)
	if err != nil || len(s.List) != 4 {
		return "unreadable model reply " + frameRep, true
	}
	unx := func(a string) string { b, _ := hex.DecodeString(strings.TrimPrefix(a, "x")); return string(b) }
	id, ty := unx(s.List[1].Atom), unx(s.List[2].Atom)
	if ty != startType(c.Kind) {
		return "", false // another message type: not this phase's subject
	}
	bad := "ignore"
	if c.Kind != "graphql-ws" {
		bad = `(close 4400 "unable to deserialize payload")`
	}
	if !s.List[3].IsList {
		return bad, true
	}
	prep, ok := h.ask("(jpayload " + s.List[3].List[1].Atom + ")")
	if !ok {
		return "", false
	}
	if prep == "bad" {
		return bad, true
	}
	// the recording handler prints Go values: rebuild them from the real decoder's view of the
	// same payload and check that view against the model separately
	raw, _ := hex.DecodeString(strings.TrimPrefix(s.List[3].List[1].Atom, "x"))
	var p wsPayload
	if jsoniter.Unmarshal(raw, &p) != nil {
		return "model accepts a payload json-iterator refuses", true
	}
	libView := fmt.Sprintf("(env %s %s %s nil)", xhex([]byte(p.Query)), xhex([]byte(p.OperationName)), jcanonMap(p.Variables))
	if libView != jnormModel(prep) {
		return "payload: model " + prep + " library " + libView, true
	}
	return fmt.Sprintf("(start %s %s %s %s)", hx.A(id).String(), hx.A(p.Query).String(), mapDump(p.Variables), hx.A(p.OperationName).String()), true
}

// jSameRequest: the byte-level statement of the property on the real code (the model only says
// whether the payload is in the well-formed class of transport_same_request_bytes_wellformed):
// payload bytes p in a start / subscribe frame through a real Connection vs the same bytes as a
// POST application/json body through graphql.NewRequestFromHTTP — when both accept, the handler
// must receive the query, operationName and variables that NewRequestFromHTTP produced.
func (h *harness) jSameRequest(kind string, p []byte) *failure {
	wf, ok := h.ask("(jwf " + xhex(p) + ")")
	if !ok || wf != "true" {
		h.run.Count("J2:payload not in the well-formed class (skipped)")
		return nil
	}
	req := &http.Request{Method: "POST", URL: &url.URL{Path: "/graphql"}, Header: http.Header{"Content-Type": {"application/json"}},
		Body: io.NopCloser(bytes.NewReader(p)), ContentLength: int64(len(p))}
	gr, _, err := graphql.NewRequestFromHTTP(req.WithContext(context.Background()))
	frame := `{"id":"7","type":"` + startType(kind) + `","payload":` + string(p) + `}`
	ws := h.wsdec.realWSDecode(WSEnv{Kind: kind, DidInit: true, Frame: frame})
	if err != nil || !strings.HasPrefix(ws, "(start ") {
		h.run.Count("J2:not accepted by both (skipped)")
		return nil
	}
	viaHTTP := fmt.Sprintf("(start %s %s %s %s)", hx.A("7").String(), hx.A(gr.Query).String(), mapDump(gr.VariableValues), hx.A(gr.OperationName).String())
	same := viaHTTP == ws
	h.run.Case("j2:"+kind+string(p), true)
	h.run.Count("J2:compared")
	h.run.Oblige(jOblSame, "oracle", 1, same, fmt.Sprintf("%s payload %q: handler got %s, NewRequestFromHTTP on the same bytes gives %s", kind, p, ws, viaHTTP))
	if !same {
		return &failure{"property", fmt.Sprintf("the same well-formed envelope bytes %q reach the pipeline differently: %s hands the handler %s, HTTP POST application/json yields %s", p, kind, ws, viaHTTP)}
	}
	return nil
}

const (
	jOblSame   = "oracle J2: a well-formed envelope accepted both as POST application/json body and as start / subscribe payload reaches the pipeline with the same query, operationName and variables (real NewRequestFromHTTP vs real Connection + handler)"
	jOblCorr   = "correspondence J: byte-level JSON model (parse verdict, decoded envelope / map / frame) = encoding/json, json-iterator and the transports' decoding of the same bytes"
	jOblOracle = "oracle J: bad JSON ⇒ refused with 4xx (never accepted, never 5xx, no panic) — NewRequestFromHTTP on arbitrary bytes"
)

// jcheckBatch evaluates cases against model and code; batched for speed.
func (h *harness) jcheckBatch(cases []JBytes) {
	t0 := time.Now()
	defer func() {
		if os.Getenv("C17_DEBUG") != "" {
			fmt.Fprintf(os.Stderr, "J batch %d cases %.2fs (first %s %.40s)\n", len(cases), time.Since(t0).Seconds(), cases[0].Op, cases[0].Hex)
		}
	}()
	var replies []string
	if h.model != nil {
		lines := make([]string, len(cases))
		for i, c := range cases {
			lines[i] = jmodelLine(c)
		}
		var err error
		replies, err = h.model.AskAll(lines)
		if err != nil {
			fmt.Println("model driver failed:", err)
			replies = nil
		}
	}
	for i, c := range cases {
		rep := ""
		if replies != nil {
			rep = replies[i]
		}
		h.report(Case{Kind: "jbytes", JB: &cases[i]}, h.jcheckOne(c, rep, replies != nil, false))
	}
}

func (h *harness) jcheckOne(c JBytes, rep string, haveModel bool, verbose bool) *failure {
	b, err := hex.DecodeString(c.Hex)
	if err != nil {
		return &failure{"correspondence", "bad hex in case"}
	}
	if c.Op == "same" {
		return h.jSameRequest(c.Kind, b)
	}
	real, oracle := h.jreal(c, b)
	accepted := real != "bad" && real != "other" && !strings.HasPrefix(real, "(reject") && !strings.HasPrefix(real, "(close") && real != "ignore"
	h.run.Case("jb:"+c.Op+c.Kind+c.Hex, accepted || bytes.ContainsAny(b, "{["))
	if accepted {
		h.run.Count("J:" + c.Op + ":accepted")
	} else {
		h.run.Count("J:" + c.Op + ":refused")
	}
	if c.Op == "post" || c.Op == "map" {
		det := ""
		if oracle != "" {
			det = fmt.Sprintf("%s %q: %s", c.Op, b, oracle)
		}
		h.run.Oblige(jOblOracle, "oracle", 1, oracle == "", det)
		if oracle != "" {
			kind := "property"
			if strings.HasPrefix(oracle, "panic") {
				kind = "crash"
			}
			return &failure{kind, fmt.Sprintf("%s bytes %q: %s (implementation answers %s)", c.Op, b, oracle, real)}
		}
	}
	if !haveModel {
		return nil
	}
	var model string
	if c.Op == "ws" {
		exp, ok := h.jexpectWS(c, rep)
		if !ok {
			h.run.Count("J:ws:other message type (skipped)")
			return nil
		}
		model = exp
	} else {
		model = jnormModel(rep)
	}
	if verbose {
		fmt.Printf("  bytes:          %q\n  implementation: %s\n  model:          %s\n", b, real, model)
	}
	ok := real == model
	if ok {
		h.run.Oblige(jOblCorr, "correspondence", 1, true, "")
	}
	if !ok {
		h.run.Oblige(jOblCorr, "correspondence", 1, false, fmt.Sprintf("%s %q: implementation %s, model %s", c.Op+c.Kind, b, real, model))
		return &failure{"correspondence", fmt.Sprintf("%s bytes %q: implementation %s, model %s", c.Op+c.Kind, b, real, model)}
	}
	return nil
}

// ---- generators ---------------------------------------------------------------------------------

var jAlphabet = []byte("{}[]\":,\\10-.eu an")

func jEnumBytes(alpha []byte, maxLen int, f func([]byte)) {
	buf := make([]byte, 0, maxLen)
	var rec func()
	rec = func() {
		f(buf)
		if len(buf) == maxLen {
			return
		}
		for _, c := range alpha {
			buf = append(buf, c)
			rec()
			buf = buf[:len(buf)-1]
		}
	}
	rec()
}

var jTokens = []string{"{", "}", "[", "]", ":", ",", `"query"`, `"variables"`, `"operationName"`, `"a"`, `"{a}"`, "null", "1", "true", " ", `"Query"`, `"extensions"`, "-0", `"A"`, "1e999"}

var jKeys = []string{`"query"`, `"query"`, `"operationName"`, `"variables"`, `"variables"`, `"extensions"`, `"Query"`, `"QUERY"`, `"operationname"`, `"OperationName"`,
	`"VARIABLES"`, `"query"`, `"variable` + "ſ" + `"`, `"variableſ"`, `"` + "K" + `ey"`, `"x"`, `""`, `"id"`, `"type"`, `"payload"`, `"querY"`, `"query "`, `"quer"`, `"extensionS"`, `"Extension` + "ſ" + `"`}

var jStrings = []string{`"{a}"`, `""`, `"Q"`, `"a\"b\\c\/d\b\f\n\r\t"`, `"Aé中"`, `"😀"`, `"\ud800"`, `"\ude00"`, `"\ud800😀"`, `"\ud800A"`,
	`"\ud83d\ud83d"`, `"\ud800\\ud83d"`, `"\u0000"`, "\"\x7f\"", "\"é\"", "\"\xff\"", "\"\xc3\"", "\"\xe2\x82\"", "\"\xe2\x82\\u00ac\"", "\"\xed\xa0\x80\"", "\"\xf0\x9f\x98\x80\"", "\"\xc0\xaf\"", "\"\xf4\x90\x80\x80\"", `"query"`, `"😀x"`}

var jNumbers = []string{"0", "-0", "1", "-1", "1.5", "1e2", "1E2", "1e+2", "1e-2", "0.1", "123456789012345678901234567890", "1.7976931348623157e308", "1.7976931348623158e308",
	"1.797693134862315807e308", "1.7976931348623159e308", "17976931348623157e292", "17976931348623159e292", "0.17976931348623159e309", "1e308", "1e309", "-1e309", "1e400", "0e999", "0.0e999999999999999999", "1e-400", "4.9e-324", "2e-324", "9007199254740993",
	"179769313486231580793728971405303415079934132710037826936173778980444968292764750946649017977587207096330286416692887910946555547851940402630657488671505820681908902000708383676273854845817711531764475730270069855571366959622842914819860834936475292719074168444365510704342711559699508093042880177904174497791",
	"179769313486231580793728971405303415079934132710037826936173778980444968292764750946649017977587207096330286416692887910946555547851940402630657488671505820681908902000708383676273854845817711531764475730270069855571366959622842914819860834936475292719074168444365510704342711559699508093042880177904174497792",
	"1797693134862315807937289714053034150799341327100378269361737789804449682927647509466490179775872070963302864166928879109465555478519404026306574886715058206819089020007083836762738548458177115317644757302700698555713669596228429148198608349364752927190741684443655107043427115596995080930428801779041744977920e-1",
	"0.000000000000000000000000000000001e342", "100000000000000000000e289", "0.5e39", "0.1e39", "-0.5e39", "3.4028235e38", "0.34028236e39",
	"01", "1.", ".5", "+1", "1e", "1e+", "-", "0x10", "1.e1", "00", "-00", "1_0", "Infinity", "NaN"}

// jClean: the case being generated uses syntactically valid pieces only (3 of 4 cases; what is
// decoded then depends on types, names, duplicates, ranges — not on a syntax error somewhere)
var jClean bool

func jNumber(r *hx.Rand) string {
	ok := 0
	for jNumbers[ok] != "01" {
		ok++
	}
	if jClean {
		return jNumbers[r.Intn(ok)]
	}
	return jNumbers[r.Intn(len(jNumbers))]
}

func jws(r *hx.Rand) string {
	if !jClean && r.Intn(40) == 0 {
		return []string{"\f", "\v", "/**/", "\u00a0", "\x00"}[r.Intn(5)] // not JSON white space
	}
	return []string{"", "", "", "", " ", "\n", "\t", "\r\n", "  "}[r.Intn(9)]
}

func jValue(r *hx.Rand, depth int) string {
	k := r.Intn(12)
	if depth <= 0 && k >= 8 {
		k = r.Intn(8)
	}
	switch k {
	case 0, 1:
		return jStrings[r.Intn(len(jStrings))]
	case 2, 3:
		return jNumber(r)
	case 4:
		return "null"
	case 5:
		if jClean {
			return []string{"true", "false"}[r.Intn(2)]
		}
		return []string{"true", "false", "True", "nul", "tru", "nulll"}[r.Intn(6)]
	case 6:
		return "{}"
	case 7:
		return "[]"
	case 8, 9:
		return jObject(r, depth-1, []string{`"a"`, `"b"`, `"a"`, `"a"`, `"A"`, `""`, `"n"`})
	default:
		n := r.Intn(3) + 1
		parts := make([]string, n)
		for i := range parts {
			parts[i] = jws(r) + jValue(r, depth-1) + jws(r)
		}
		return "[" + strings.Join(parts, ",") + "]"
	}
}

func jObject(r *hx.Rand, depth int, keys []string) string {
	n := r.Intn(4)
	parts := make([]string, n)
	for i := range parts {
		parts[i] = jws(r) + keys[r.Intn(len(keys))] + jws(r) + ":" + jws(r) + jValue(r, depth) + jws(r)
	}
	return "{" + strings.Join(parts, ",") + "}"
}

// jEnvelope: an envelope object whose members are drawn per field with the value classes that matter.
func jEnvelope(r *hx.Rand) string {
	n := r.Intn(5)
	parts := make([]string, 0, n)
	for i := 0; i < n; i++ {
		key := jKeys[r.Intn(len(jKeys))]
		var val string
		switch r.Intn(8) {
		case 0, 1, 2:
			val = jStrings[r.Intn(len(jStrings))]
		case 3:
			val = "null"
		case 4, 5:
			val = jObject(r, 2, []string{`"a"`, `"n"`, `"a"`, `"a"`, `"s"`})
		default:
			val = jValue(r, 2)
		}
		parts = append(parts, jws(r)+key+jws(r)+":"+jws(r)+val+jws(r))
	}
	s := jws(r) + "{" + strings.Join(parts, ",") + "}"
	if jClean && r.Intn(4) > 0 {
		return s
	}
	switch r.Intn(10) {
	case 0:
		s += []string{" ", "\n", "x", "{}", "}", " null", ",", "\x00"}[r.Intn(8)]
	case 1:
		s = []string{"null", "nullx", "[]", "1", `"s"`, "true", "", " ", "\xef\xbb\xbf" + s, "//c\n" + s, "[" + s + "]"}[r.Intn(11)]
	}
	return s
}

// jTameEnvelope: an envelope inside the well-formed class (valid UTF-8, paired surrogates, ASCII
// member names, query / operationName at most once) — everything else varies.
func jTameEnvelope(r *hx.Rand) string {
	strs := []string{`"{a}"`, `""`, `"Q"`, `"a\"b\\c\/d\b\f\n\r\t"`, `"Aé中"`, `"😀"`, `"\ud83d\ude00"`, `"\u00e9\u0000"`, `"query Q { a }"`}
	var parts []string
	add := func(k, v string) { parts = append(parts, jws(r)+k+jws(r)+":"+jws(r)+v+jws(r)) }
	if r.Intn(6) > 0 {
		add([]string{`"query"`, `"Query"`, `"QUERY"`, `"\u0071uery"`}[r.Intn(4)], append(strs, "null")[r.Intn(len(strs)+1)])
	}
	if r.Intn(2) == 0 {
		add([]string{`"operationName"`, `"operationname"`, `"OPERATIONNAME"`}[r.Intn(3)], append(strs, "null", "null")[r.Intn(len(strs)+2)])
	}
	for n := r.Intn(3); n > 0; n-- {
		v := jObject(r, 2, []string{`"a"`, `"n"`, `"a"`, `"b"`, `"é"`})
		if r.Intn(5) == 0 {
			v = []string{"null", "{}", "[]", "1"}[r.Intn(4)]
		}
		add([]string{`"variables"`, `"Variables"`, `"variables"`}[r.Intn(3)], v)
	}
	if r.Intn(3) == 0 {
		add(`"extensions"`, []string{"null", "{}", `{"a":1}`}[r.Intn(3)])
	}
	if r.Intn(3) == 0 {
		add([]string{`"x"`, `"id"`, `"payload"`}[r.Intn(3)], jValue(r, 2))
	}
	for i := len(parts) - 1; i > 0; i-- {
		j := r.Intn(i + 1)
		parts[i], parts[j] = parts[j], parts[i]
	}
	return "{" + strings.Join(parts, ",") + "}"
}

func jFrame(r *hx.Rand, kind string) string {
	ty := startType(kind)
	if r.Intn(3) > 0 {
		// a decodable frame around an arbitrary envelope: member order, case and white space vary
		ms := []string{
			[]string{`"type"`, `"type"`, `"TYPE"`}[r.Intn(3)] + jws(r) + ":" + jws(r) + `"` + ty + `"`,
			[]string{`"id"`, `"ID"`, `"id"`}[r.Intn(3)] + ":" + []string{`"1"`, `"a b"`, `""`, "null", `"\u0041"`}[r.Intn(5)],
			[]string{`"payload"`, `"payload"`, `"Payload"`}[r.Intn(3)] + ":" + jws(r) + jEnvelope(r) + jws(r),
		}
		if r.Intn(5) == 0 {
			ms = append(ms, `"x":[1,{"y":null}]`)
		}
		for i := len(ms) - 1; i > 0; i-- {
			j := r.Intn(i + 1)
			ms[i], ms[j] = ms[j], ms[i]
		}
		return jws(r) + "{" + strings.Join(ms, ",") + "}" + jws(r)
	}
	types := []string{`"` + ty + `"`, `"` + ty + `"`, `"` + ty + `"`, `"` + ty + `"`, `"` + strings.ToUpper(ty) + `"`, "null", "5", `"stop"`, `"` + ty + ` "`, `"s` + ty[1:] + `"`}
	ids := []string{`"1"`, `"1"`, `""`, "null", "1", `"1"`, `"a b"`, "[]", `"é"`}
	var parts []string
	for _, m := range jPerm4(r) {
		switch m {
		case 0:
			if r.Intn(10) > 0 {
				parts = append(parts, []string{`"type"`, `"type"`, `"TYPE"`, `"Type"`}[r.Intn(4)]+jws(r)+":"+jws(r)+types[r.Intn(len(types))])
			}
		case 1:
			if r.Intn(4) > 0 {
				parts = append(parts, []string{`"id"`, `"id"`, `"ID"`, `"Id"`}[r.Intn(4)]+":"+ids[r.Intn(len(ids))])
			}
		case 2:
			if r.Intn(8) > 0 {
				p := jEnvelope(r)
				if r.Intn(8) == 0 {
					p = jValue(r, 1)
				}
				parts = append(parts, []string{`"payload"`, `"payload"`, `"payload"`, `"Payload"`, `"PAYLOAD"`}[r.Intn(5)]+":"+p)
			}
		case 3:
			if r.Intn(6) == 0 {
				parts = append(parts, []string{`"payload":{"query":"{b}"}`, `"x":1`, `"type":null`, `"id":null`, `"payload":null`}[r.Intn(5)])
			}
		}
	}
	s := jws(r) + "{" + strings.Join(parts, ","+jws(r)) + "}" + jws(r)
	if r.Intn(20) == 0 {
		s += []string{"x", "{}", ","}[r.Intn(3)]
	}
	return s
}

func jPerm4(r *hx.Rand) []int {
	p := []int{0, 1, 2, 3}
	for i := 3; i > 0; i-- {
		j := r.Intn(i + 1)
		p[i], p[j] = p[j], p[i]
	}
	return p
}

// payloads on which the two JSON libraries differ, or that sit on a boundary of the model
var jProbes = []string{
	`{"query":"x","query":null}`, `{"operationName":"O","operationName":null,"query":"{a}"}`, `{"query":null}`,
	`{"variableſ":{"a":1},"query":"{a}"}`, `{"VARIABLES":{"a":1},"query":"{a}"}`, `{"\u0051uery":"{a}"}`,
	`{"query":"\ud800\ud83d\ude00"}`, `{"query":"\ud800"}`, `{"query":"\ud83d\ude00"}`, `{"variables":{"s":"\ud800\ud83d\ude00"}}`,
	`{"x":0.5e39,"query":"{a}"}`, `{"x":0.1e39,"query":"{a}"}`, `{"x":1e39,"query":"{a}"}`, `{"x":1e309,"query":"{a}"}`, `{"x":[{"y":0e0,"z":-0.5e40}],"query":"{a}"}`,
	`{"x":1234567890123456789012345678901234567890123456789012345678901234567890123456789012345678901234567890123456789012345678901234567890123456789012345678901234567890123456789012345678901234567890123456789012345678901234567890123456789012345678901234567890123456789012345678901234567890123456789012345678901234567890,"query":"{a}"}`,
	`{"extensions":5,"query":"{a}"}`, `{"extensions":{"a":1e999},"query":"{a}"}`, `{"variables":{"n":1e309},"query":"{a}"}`, `{"variables":{"n":1.7976931348623157e308},"query":"{a}"}`,
	`{"variables":{"a":1},"variables":{"b":2},"query":"{a}"}`, `{"variables":{"a":1},"variables":null,"query":"{a}"}`, `{"variables":{"a":{"x":1},"a":{"y":2}}}`,
	`{"variables":[],"query":"{a}"}`, `{"query":5}`, `{"query":"{a}","operationName":5}`, `null`, `[]`, `"s"`, `{}`, ` { "query" : "{a}" } `,
	`{"query":"{a}","id":"9","type":"stop","payload":{"query":"{b}"}}`,
}

// pieces of Content-Type header values
var jMediaTokens = []string{"application/json", "application/graphql", "APPLICATION/JSON", "Application/GraphQL", "applİcation/json", "application/Kson", "application/jsonx", "text/plain",
	";", " ", "\t", "\u00a0", "\xa0", "\u2028", "charset", "=", "utf-8", "\"", "\\", "a", "A", "*", "*0", ",", "/", "\r", "\n", "x=1", "x=2", "X=1", "é", "\x00", "\x7f", "\"\"", "\"q;\\\"\"", "json"}

var jNasty = []byte{'"', '\\', '{', '}', '[', ']', ':', ',', 0, 0x1f, 0x20, 0x7f, 0x80, 0xbf, 0xc3, 0xff, '0', '1', 'e', '-', '.', 'u', 'n', '/', '\n', 'N', 0xef}

func jCorrupt(r *hx.Rand, s []byte) []byte {
	if len(s) == 0 {
		return []byte{jNasty[r.Intn(len(jNasty))]}
	}
	i := r.Intn(len(s))
	out := append([]byte{}, s...)
	switch r.Intn(4) {
	case 0: // replace
		out[i] = jNasty[r.Intn(len(jNasty))]
	case 1: // delete
		out = append(out[:i], out[i+1:]...)
	case 2: // insert
		out = append(out[:i], append([]byte{jNasty[r.Intn(len(jNasty))]}, out[i:]...)...)
	default: // truncate
		out = out[:i]
	}
	return out
}

func jThresholdLiterals() []string {
	var out []string
	for _, e := range [][2]uint{{1024, 970}, {128, 103}} {
		t := new(big.Int).Lsh(big.NewInt(1), e[0])
		t.Sub(t, new(big.Int).Lsh(big.NewInt(1), e[1]))
		for _, d := range []int64{-1, 0, 1} {
			v := new(big.Int).Add(t, big.NewInt(d))
			ds := v.String()
			n := len(ds)
			out = append(out, ds, "-"+ds, ds+".0", ds+"e0", ds+"0e-1", ds+"000E-3",
				ds[:1]+"."+ds[1:]+"e"+strconv.Itoa(n-1), ds[:1]+"."+ds[1:]+"E+"+strconv.Itoa(n-1),
				"0."+ds+"e"+strconv.Itoa(n), "0.000"+ds+"e"+strconv.Itoa(n+3), "-0."+ds+"e+"+strconv.Itoa(n),
				ds[:n-5]+"."+ds[n-5:]+"e5", ds+"e-0", "0"+"."+ds+"0e"+strconv.Itoa(n))
		}
	}
	return out
}

func jDeep(open, close string, n int, inner string) string {
	return strings.Repeat(open, n) + inner + strings.Repeat(close, n)
}

// phaseJ runs the byte-level correspondence.
func (h *harness) phaseJ() {
	run := h.run
	var batch []JBytes
	flush := func() {
		if len(batch) > 0 {
			h.jcheckBatch(batch)
			batch = batch[:0]
		}
	}
	add := func(op string, b []byte) {
		if op == "map" && len(b) == 0 {
			return // an empty parameter is skipped by NewRequestFromHTTP (model: JsonParam.empty)
		}
		batch = append(batch, JBytes{Op: op, Hex: hex.EncodeToString(b)})
		if len(batch) >= 4000 {
			flush()
		}
	}
	all := func(b []byte) {
		add("post", b)
		add("map", b)
		add("payload", b)
	}
	// J-a: exhaustive short byte strings; exhaustive short token sequences
	jEnumBytes(jAlphabet, run.Scale(3, 4), func(b []byte) { all(append([]byte{}, b...)) })
	run.Count("J:exhaustive byte strings up to length " + strconv.Itoa(run.Scale(3, 4)))
	var tokRec func(prefix string, left int)
	tokRec = func(prefix string, left int) {
		all([]byte(prefix))
		if left == 0 {
			return
		}
		for _, t := range jTokens {
			tokRec(prefix+t, left-1)
		}
	}
	tokRec("", run.Scale(3, 4))
	// every key × every string/null value, alone and after a first member for the same field
	for _, k := range jKeys {
		for _, v := range append(append([]string{"null", "1", "{}", `{"a":1}`, `{"a":{"b":[1,"\ud800"]}}`, "[]"}, jStrings...), jNumbers[:8]...) {
			all([]byte("{" + k + ":" + v + "}"))
			all([]byte(`{"query":"x","variables":{"z":0},"operationName":"O","extensions":{"e":1},` + k + ":" + v + "}"))
		}
	}
	for _, n := range jNumbers {
		all([]byte(`{"variables":{"n":` + n + `}}`))
		all([]byte(`{"n":` + n + `}`))
		all([]byte(`{"variables":{"n":[` + n + `]},"query":"q"}`))
	}
	// the exact float64 / float32 rounding thresholds (2^1024 − 2^970, 2^128 − 2^103) ± 1 in several
	// spellings: as integers, with a decimal point, with positive and negative exponents, as 0.ddd
	for _, lit := range jThresholdLiterals() {
		all([]byte(`{"variables":{"n":` + lit + `}}`))
		all([]byte(`{"unknown":` + lit + `,"query":"{a}"}`))
		all([]byte(`{"unknown":[{"deep":` + lit + `}],"query":"{a}"}`))
	}
	// nesting depth around encoding/json's limit (the payload sits one level deeper inside a frame)
	for _, d := range []int{9997, 9998, 9999, 10000, 10001} {
		all([]byte(`{"variables":{"a":` + jDeep("[", "]", d, "") + `}}`))
		all([]byte(jDeep(`{"a":`, "}", d, "1")))
		add("frame", []byte(`{"type":"start","payload":`+jDeep("[", "]", d, "")+`}`))
	}
	flush()
	// J-m: Content-Type header values: every sequence of up to 3 (thorough 4) pieces, random longer ones
	var medRec func(prefix string, left int)
	medRec = func(prefix string, left int) {
		add("media", []byte(prefix))
		if left == 0 {
			return
		}
		for _, t := range jMediaTokens {
			medRec(prefix+t, left-1)
		}
	}
	medRec("", 3)
	for i := 0; i < run.Scale(4000, 200000); i++ {
		r := run.Rand.Fork()
		var sb strings.Builder
		for n := 2 + r.Intn(9); n > 0; n-- {
			sb.WriteString(jMediaTokens[r.Intn(len(jMediaTokens))])
		}
		add("media", []byte(sb.String()))
		if r.Intn(3) == 0 {
			add("media", jCorrupt(r, []byte(sb.String())))
		}
		// structured: a media type, then parameters (duplicates, continuations, quoted values, junk)
		sp := func() string { return []string{"", "", " ", "\t", "\u00a0", "\u2028 ", "\r\n"}[r.Intn(7)] }
		m := sp() + []string{"application/json", "application/graphql", "APPLICATION/JSON", "Application/Graphql", "applİcation/json", "application/json", "application/jso", "application /json", "application/json/x"}[r.Intn(9)] + sp()
		for n := r.Intn(4); n > 0; n-- {
			name := []string{"charset", "Charset", "x", "X", "a*0", "a*1", "a*", "A*0", "", "é", "x y"}[r.Intn(11)]
			val := []string{"utf-8", "1", "2", "1", `"q"`, `""`, `"a\"b"`, `"a\qb"`, `"open`, "", "a/b", "\"x\ny\"", "é"}[r.Intn(13)]
			eq := []string{"=", "=", "=", " = ", "", ":"}[r.Intn(6)]
			m += ";" + sp() + name + eq + val + sp()
		}
		m += []string{"", "", "", ";", "; ", ";;", " ;\t", ",", ";x"}[r.Intn(9)]
		add("media", []byte(m))
		if r.Intn(4) == 0 {
			add("media", jCorrupt(r, []byte(m)))
		}
	}
	flush()
	// J-b: grammar-generated envelopes and frames; J-c: single-byte corruptions of them
	nGen := run.Scale(2500, 120000)
	for i := 0; i < nGen; i++ {
		r := run.Rand.Fork()
		jClean = i%4 != 3
		e := []byte(jEnvelope(r))
		all(e)
		c := jCorrupt(r, e)
		all(c)
		if r.Intn(3) == 0 {
			all(jCorrupt(r, c))
		}
		kind := []string{"graphql-ws", "graphql-transport-ws"}[i%2]
		f := []byte(jFrame(r, kind))
		add("frame", f)
		add("frame", jCorrupt(r, f))
		if r.Intn(2) == 0 {
			add("map", []byte(jObject(r, 2, []string{`"a"`, `"n"`, `"a"`, `"a"`})))
		}
	}
	flush()
	run.Note("phase J (library level) done at %.1fs", run.Elapsed().Seconds())
	// J-d: frames through the real Connection types on a loopback socket: first payloads of the
	// classes in which json-iterator and encoding/json differ (a transport that decoded its payload
	// with the other library would answer differently here), then a sample
	for _, kind := range []string{"graphql-ws", "graphql-transport-ws"} {
		for _, p := range jProbes {
			f := []byte(`{"id":"7","type":"` + startType(kind) + `","payload":` + p + `}`)
			if !utf8.Valid(f) {
				continue
			}
			c := JBytes{Op: "ws", Kind: kind, Hex: hex.EncodeToString(f)}
			rep, ok := h.ask(jmodelLine(c))
			h.report(Case{Kind: "jbytes", JB: &c}, h.jcheckOne(c, rep, ok, false))
		}
	}
	for i := 0; i < run.Scale(160, 1500); i++ {
		r := run.Rand.Fork()
		jClean = true
		kind := []string{"graphql-ws", "graphql-transport-ws"}[i%2]
		p := []byte(jEnvelope(r))
		if i%3 != 0 {
			p = []byte(jTameEnvelope(r))
		}
		if !utf8.Valid(p) {
			continue
		}
		c := JBytes{Op: "same", Kind: kind, Hex: hex.EncodeToString(p)}
		h.report(Case{Kind: "jbytes", JB: &c}, h.jSameRequest(kind, p))
	}
	nWS := run.Scale(120, 2000)
	for i := 0; i < nWS; i++ {
		r := run.Rand.Fork()
		jClean = i%4 != 3
		kind := []string{"graphql-ws", "graphql-transport-ws"}[i%2]
		var f []byte
		if i%3 == 0 {
			f = []byte(`{"id":"7","type":"` + startType(kind) + `","payload":` + jEnvelope(r) + `}`)
		} else {
			f = []byte(jFrame(r, kind))
		}
		if i%5 == 4 {
			f = jCorrupt(r, f)
		}
		if !utf8.Valid(f) {
			continue // a text frame; the byte-level cases above cover invalid UTF-8
		}
		c := JBytes{Op: "ws", Kind: kind, Hex: hex.EncodeToString(f)}
		rep, ok := h.ask(jmodelLine(c))
		h.report(Case{Kind: "jbytes", JB: &c}, h.jcheckOne(c, rep, ok, false))
	}
	run.Note("phase J done at %.1fs", run.Elapsed().Seconds())
}
