// Harness for C17 — every transport yields the same response for the same operation.
//
// Real side: apifu.API (8 configurations: preprocess hook × Features function × DefaultFieldCost)
// behind a loopback httptest.Server — HTTP GET, POST application/json, POST application/graphql,
// graphql-ws `start`, graphql-transport-ws `subscribe` (gorilla client) — plus the envelope decoders
// on their own (graphql.NewRequestFromHTTP; the two transport Connections with a recording handler).
// Model side: lean/ApiFu/C17 (driver c17model).
//
//	A1  http envelope: concrete request ↦ NewRequestFromHTTP  vs  decideHTTP on its abstract form
//	A2  ws envelope:   concrete frame   ↦ Connection→handler  vs  wsDecide
//	A3  http envelope through API.ServeGraphQL   vs  serveGraphQL's pipeline term evaluated with the real library
//	A4  ws envelope through API.ServeGraphQLWS   vs  serveWS's pipeline term
//	B   the property itself, model-free: one operation over all carriers × all configurations,
//	    canonical responses (+ resolver log, + RequestInfo.Cost) identical, clone path identical;
//	    and the model's serve_t term for each carrier evaluates to the same
//	oracles: malformed envelope ⇒ 4xx and empty resolver log (A3), ignored/closed and empty log (A4)
package main

import (
	"context"
	"encoding/json"
	"fmt"
	"io"
	"net/http"
	"net/http/httptest"
	"net/url"
	"os"
	"strings"
	"sync/atomic"
	"time"

	"github.com/gorilla/websocket"

	"github.com/ccbrown/api-fu/graphql"

	"verifharness/hx"
)

// Case is the replayable unit.
type Case struct {
	Kind  string   `json:"kind"` // op | http-env | ws-env | http-api | ws-api | url
	URL   *URLCase `json:"url,omitempty"`
	Seed  uint64   `json:"seed,omitempty"`
	Op    *Op      `json:"op,omitempty"`
	Spec  *QSpec   `json:"spec,omitempty"`
	HTTP  *HTTPEnv `json:"http,omitempty"`
	WS    *WSEnv   `json:"ws,omitempty"`
	Flags *Flags   `json:"flags,omitempty"`
	Feats string   `json:"feats,omitempty"` // op cases: the principal's features
	Hist  []Step   `json:"hist,omitempty"`  // hist cases
	Big   *BigSpec `json:"big,omitempty"`   // op cases: the document is rendered from this spec
	JB    *JBytes  `json:"jb,omitempty"`    // jbytes cases (phase J, jsonbytes.go)
	Burst *Burst   `json:"burst,omitempty"` // burst cases (phase P, burst.go)
}

type failure struct {
	kind string // property | correspondence | crash
	what string
}

type harness struct {
	run    *hx.Run
	model  *hx.Model
	worlds []*world
	wsdec  *wsDecoderServer
	quiet  bool

	reported map[string]int // failures reported so far, by kind
}

func (h *harness) world(f Flags) *world {
	for _, w := range h.worlds {
		if w.flags == f {
			return w
		}
	}
	return h.worlds[0] // that configuration could not be built (already reported)
}

func (h *harness) ask(line string) (string, bool) {
	if h.model == nil {
		return "", false
	}
	rep, err := h.model.Ask(line)
	if err != nil {
		fmt.Fprintln(os.Stderr, "model driver failed:", err)
		os.Exit(2)
	}
	return rep, true
}

// registerDump remembers the Go value behind a dump so that model terms can be evaluated.
func (h *harness) registerDump(text string) (MapAbs, bool) {
	n, err := parseOrdered([]byte(text))
	if err != nil {
		return MapAbs{}, false
	}
	if n.kind == 'l' && n.text == "null" {
		return MapAbs{Class: "null"}, true
	}
	if n.kind != 'o' {
		return MapAbs{}, false
	}
	var probe map[string]interface{}
	if json.Unmarshal([]byte(text), &probe) != nil {
		return MapAbs{}, false // e.g. a number outside float64: no transport can carry it
	}
	v := n.toGo().(map[string]interface{})
	d := dumpValue(v)
	dumpTable[d] = v
	return MapAbs{Class: "obj", Dump: d}, true
}

// ---- evaluation of the model's pipeline term ---------------------------------------------------------

type coreCall struct {
	hook, feat, cost bool
	feats            string // the principal's features in the request / connection context
	q, op            string
	vars, exts       string // "nil" or dump
}

func mapAtom(x hx.Sexp) (string, bool) {
	if !x.IsList && x.Atom == "nil" {
		return "nil", true
	}
	if x.IsList && len(x.List) == 2 && x.List[0].Atom == "obj" {
		return x.List[1].Atom, true
	}
	return "", false
}

// parseExecTerm reads (exec CTX SCHEMA FEAT (pv Q SCHEMA FEAT OP VARS COST) (req Q OP VARS EXT)).
func parseExecTerm(t hx.Sexp) (coreCall, error) {
	var c coreCall
	bad := func(why string) (coreCall, error) { return c, fmt.Errorf("%s in term %s", why, t.String()) }
	if !t.IsList || len(t.List) != 6 || t.List[0].Atom != "exec" {
		return bad("not an exec term")
	}
	ctx, schema, feat, pv, req := t.List[1], t.List[2], t.List[3], t.List[4], t.List[5]
	switch schema.String() {
	case "(build def)":
	case "(build (preprocess (clone def)))":
		c.hook = true
	default:
		return bad("unknown schema term")
	}
	switch feat.String() {
	case "nil":
	case "(fn " + ctx.String() + ")":
		c.feat = true
	default:
		return bad("unknown features term")
	}
	if !pv.IsList || len(pv.List) != 7 || pv.List[0].Atom != "pv" || !req.IsList || len(req.List) != 5 || req.List[0].Atom != "req" {
		return bad("malformed pv/req")
	}
	if pv.List[2].String() != schema.String() || pv.List[3].String() != feat.String() {
		return bad("parseAndValidate and execute see different schema/features")
	}
	switch pv.List[6].Atom {
	case "zero":
	case "default":
		c.cost = true
	default:
		return bad("unknown cost term")
	}
	c.q, c.op = req.List[1].Atom, req.List[2].Atom
	var ok1, ok2, ok3 bool
	c.vars, ok1 = mapAtom(req.List[3])
	c.exts, ok2 = mapAtom(req.List[4])
	pvVars, ok3 := mapAtom(pv.List[5])
	if !ok1 || !ok2 || !ok3 {
		return bad("malformed map")
	}
	if pv.List[1].Atom != c.q || pv.List[4].Atom != c.op || pvVars != c.vars {
		return bad("the cost rule and execute see different query/operationName/variables")
	}
	return c, nil
}

func (h *harness) evalCore(w *world, c coreCall) (Obs, error) {
	if c.hook != w.flags.Hook {
		return Obs{}, fmt.Errorf("model builds the schema %v the preprocess clone, this API %v", c.hook, w.flags.Hook)
	}
	get := func(d string) (map[string]interface{}, error) {
		if d == "nil" {
			return nil, nil
		}
		v, ok := dumpTable[d]
		if !ok {
			return nil, fmt.Errorf("model term mentions an unknown object %q", d)
		}
		return v, nil
	}
	vars, err := get(c.vars)
	if err != nil {
		return Obs{}, err
	}
	exts, err := get(c.exts)
	if err != nil {
		return Obs{}, err
	}
	return w.direct(c.q, c.op, vars, exts, c.feat, c.feats, defaultCost(c.cost)), nil
}

func cfgSexp(f Flags) string { return fmt.Sprintf("(cfg %v %v %v)", f.Hook, f.Feat, f.Cost) }

// ---- A1 / A3: HTTP envelopes ----------------------------------------------------------------------------

func (w *world) serveRecorder(s httpSpec) (o Obs) {
	w.resetLogs()
	defer func() {
		if p := recover(); p != nil {
			o = Obs{Status: -1, Resp: fmt.Sprintf("panic: %v", p)}
		}
	}()
	req := &http.Request{Method: s.Method, URL: &url.URL{Path: "/graphql", RawQuery: s.RawQuery}, Header: http.Header{},
		Body: io.NopCloser(strings.NewReader(s.Body)), ContentLength: int64(len(s.Body)), Proto: "HTTP/1.1", ProtoMajor: 1, ProtoMinor: 1}
	if s.ContentType != "" {
		req.Header.Set("Content-Type", s.ContentType)
	}
	req.Header.Set(featHeader, s.Feats)
	req = req.WithContext(w.baseContext(context.Background(), s.Feats))
	rec := httptest.NewRecorder()
	w.api.ServeGraphQL(rec, req)
	o.Status = rec.Code
	if rec.Code == 200 {
		o.Resp, _ = canonResponse(rec.Body.Bytes())
	} else {
		o.Resp = fmt.Sprintf("status %d %s", rec.Code, strings.TrimSpace(rec.Body.String()))
	}
	o.Calls, o.Costs = w.takeLogs()
	return o
}

// malformedByProperty: does the property statement call this envelope malformed?
// (bad JSON, unsupported content type, unsupported method)
func malformedByProperty(e HTTPEnv) bool {
	switch e.Method {
	case "get":
		return e.PVars.Class == "bad" || e.PExt.Class == "bad"
	case "post":
		if e.Media == "json" {
			return !e.BodyOK
		}
		return e.Media != "graphql"
	}
	return true
}

func (h *harness) checkHTTPEnv(e HTTPEnv) *failure {
	real := realNewRequestFromHTTP(e.Spec)
	exp := expectedHTTP(e)
	h.run.Count("http-env:method:" + e.Method)
	h.run.Count("http-env:media:" + e.Media)
	h.run.Count("http-env:vars:" + e.PVars.Class)
	if strings.HasPrefix(real, "panic") {
		return &failure{"crash", "NewRequestFromHTTP: " + real}
	}
	if strings.HasPrefix(real, "(reject") {
		h.run.Count("http-env:outcome:" + strings.SplitN(real, "\"", 3)[1])
	} else {
		h.run.Count("http-env:outcome:request")
	}
	var f *failure
	if malformedByProperty(e) {
		ok := strings.HasPrefix(real, "(reject 4") && len(strings.Fields(real)[1]) == 3
		h.run.Oblige("oracle: malformed envelope ⇒ NewRequestFromHTTP returns 4xx and no request", "oracle", 1, ok, real)
		if !ok {
			f = &failure{"property", fmt.Sprintf("malformed HTTP envelope (%s %s?%s, Content-Type %q, body %q) is not rejected with 4xx: %s", e.Spec.Method, "/graphql", e.Spec.RawQuery, e.Spec.ContentType, e.Spec.Body, real)}
		}
	}
	model, have := h.ask("(http " + e.absSexp() + ")")
	if have {
		ok := model == real
		h.run.Oblige("correspondence A1: graphql.NewRequestFromHTTP = model decideHTTP (status, message | query, operationName, variables, extensions)", "correspondence", 1, ok, fmt.Sprintf("implementation %s, model %s", real, model))
		if !ok && f == nil {
			// does this concrete request still behave like the operation it carries?
			if pf := h.httpEnvProperty(e, exp); pf != nil {
				f = pf
			} else {
				f = &failure{"correspondence", fmt.Sprintf("NewRequestFromHTTP disagrees with the model on %s ?%s (Content-Type %q, body %q): implementation %s, model %s", e.Spec.Method, e.Spec.RawQuery, e.Spec.ContentType, e.Spec.Body, real, model)}
			}
		}
	}
	if exp != real && f == nil {
		// harness's own envelope rules (also used when no model is available)
		h.run.Oblige("oracle: envelope decodes to the request it spells (harness's statement of GraphQL-over-HTTP)", "oracle", 1, false, fmt.Sprintf("implementation %s, expected %s", real, exp))
		if pf := h.httpEnvProperty(e, exp); pf != nil {
			f = pf
		} else {
			f = &failure{"correspondence", fmt.Sprintf("NewRequestFromHTTP decodes %s ?%s (Content-Type %q, body %q) to %s, expected %s", e.Spec.Method, e.Spec.RawQuery, e.Spec.ContentType, e.Spec.Body, real, exp)}
		}
	} else {
		h.run.Oblige("oracle: envelope decodes to the request it spells (harness's statement of GraphQL-over-HTTP)", "oracle", 1, true, "")
	}
	return f
}

// alternativeReadings: POST requests that also carry a `query` URL parameter name two query texts.
// The code lets the body win (even an absent / empty `query` member); the property statement does
// not say which one "the operation" is, so the oracle accepts either reading (the correspondence
// with the model still pins the code's choice).
func alternativeReadings(e HTTPEnv, c coreCall) []coreCall {
	out := []coreCall{c}
	if e.Method == "post" && e.PQuery != nil && *e.PQuery != c.q {
		alt := c
		alt.q = *e.PQuery
		out = append(out, alt)
	}
	return out
}

// expectedCall turns the harness's expectation "(req …)" into the pipeline call of world w.
func expectedCall(w *world, exp string, feats string) (coreCall, bool) {
	x, err := hx.ParseSexp(exp)
	if err != nil || !x.IsList || len(x.List) != 5 || x.List[0].Atom != "req" {
		return coreCall{}, false
	}
	c := coreCall{hook: w.flags.Hook, feat: w.flags.Feat, cost: w.flags.Cost, feats: feats, q: x.List[1].Atom, op: x.List[2].Atom}
	c.vars, _ = mapAtom(x.List[3])
	c.exts, _ = mapAtom(x.List[4])
	return c, true
}

// httpEnvProperty evaluates the property on one concrete HTTP request through the full API:
// rejected envelopes must give 4xx with nothing executed, accepted ones must answer like the
// operation they carry (run without a transport).
func (h *harness) httpEnvProperty(e HTTPEnv, exp string) *failure {
	w := h.worlds[len(h.worlds)-1]
	o := w.serveRecorder(e.Spec)
	desc := fmt.Sprintf("%s ?%s (Content-Type %q, body %q)", e.Spec.Method, e.Spec.RawQuery, e.Spec.ContentType, e.Spec.Body)
	if o.Status == -1 {
		return &failure{"crash", "ServeGraphQL " + desc + ": " + o.Resp}
	}
	if malformedByProperty(e) {
		if o.Status < 400 || o.Status > 499 || len(o.Calls) > 0 || len(o.Costs) > 0 {
			return &failure{"property", fmt.Sprintf("malformed envelope %s: status %d, resolver log %q (want 4xx and nothing executed)", desc, o.Status, o.Calls)}
		}
		return nil
	}
	c, ok := expectedCall(w, exp, e.Spec.Feats)
	if !ok {
		return nil
	}
	var d Obs
	for _, alt := range alternativeReadings(e, c) {
		var err error
		d, err = h.evalCore(w, alt)
		if err != nil {
			return nil
		}
		if o.key() == d.key() {
			return nil
		}
	}
	return &failure{"property", fmt.Sprintf("%s answers %s; the operation it carries (query %q, operationName %q, variables %s) answers %s", desc, o.key(), c.q, c.op, c.vars, d.key())}
}

// checkHTTPAPI (A3): the envelope through API.ServeGraphQL of one configuration.
func (h *harness) checkHTTPAPI(e HTTPEnv, fl Flags) *failure {
	w := h.world(fl)
	o := w.serveRecorder(e.Spec)
	desc := fmt.Sprintf("[%s] %s ?%s (Content-Type %q, body %q)", fl, e.Spec.Method, e.Spec.RawQuery, e.Spec.ContentType, e.Spec.Body)
	if o.Status == -1 {
		return &failure{"crash", "ServeGraphQL " + desc + ": " + o.Resp}
	}
	exp := expectedHTTP(e)
	var f *failure
	// property oracles, model-free
	if malformedByProperty(e) {
		ok := o.Status >= 400 && o.Status <= 499 && len(o.Calls) == 0 && len(o.Costs) == 0
		h.run.Oblige("oracle: malformed HTTP envelope ⇒ status 4xx and empty resolver log (API.ServeGraphQL)", "oracle", 1, ok, desc+" → "+o.key())
		h.run.Count("http-api:malformed")
		if !ok {
			f = &failure{"property", fmt.Sprintf("malformed envelope %s: status %d, resolver log %q, execute calls %d (want 4xx and nothing executed)", desc, o.Status, o.Calls, len(o.Costs))}
		}
	} else if c, ok := expectedCall(w, exp, e.Spec.Feats); ok {
		same := false
		var d Obs
		for _, alt := range alternativeReadings(e, c) {
			var err error
			d, err = h.evalCore(w, alt)
			if err == nil && d.key() == o.key() {
				same = true
				break
			}
		}
		h.run.Oblige("oracle: well-formed HTTP envelope answers like the operation it carries (API.ServeGraphQL vs transport-free run)", "oracle", 1, same, desc)
		h.run.Count("http-api:wellformed")
		if !same {
			f = &failure{"property", fmt.Sprintf("%s answers %s; the operation it carries (query %q, operationName %q, variables %s) answers %s", desc, o.key(), c.q, c.op, c.vars, d.key())}
		}
	}
	// correspondence with the model's serveGraphQL
	rep, have := h.ask("(serve-http " + cfgSexp(fl) + " " + e.absSexp() + ")")
	if have {
		ok, detail := h.compareServed(w, rep, o, e.Spec.Feats)
		h.run.Oblige("correspondence A3: API.ServeGraphQL = model serveGraphQL (status+message | pipeline term evaluated with the real library)", "correspondence", 1, ok, desc+": "+detail)
		if !ok && f == nil {
			f = &failure{"correspondence", desc + ": " + detail}
		}
	}
	return f
}

// compareServed compares a model reply of serve-http / serve-ws with what the implementation did.
func (h *harness) compareServed(w *world, rep string, o Obs, feats string) (bool, string) {
	x, err := hx.ParseSexp(rep)
	if err != nil {
		return false, "unreadable model reply " + rep
	}
	if !x.IsList {
		switch x.Atom {
		case "nothing":
			return o.Resp == "ignored" && len(o.Calls) == 0, fmt.Sprintf("model: message ignored; implementation: %s", o.key())
		}
		return false, "unexpected model reply " + rep
	}
	switch x.List[0].Atom {
	case "status":
		want := fmt.Sprintf("status %s %s", x.List[1].Atom, x.List[2].Atom)
		return o.Resp == want && len(o.Calls) == 0 && len(o.Costs) == 0, fmt.Sprintf("model: %s, nothing executed; implementation: %s", want, o.key())
	case "closed":
		want := fmt.Sprintf("closed %s %s", x.List[1].Atom, x.List[2].Atom)
		return o.Resp == want && len(o.Calls) == 0, fmt.Sprintf("model: %s; implementation: %s", want, o.key())
	case "ok", "data":
		term := x.List[len(x.List)-1]
		c, err := parseExecTerm(term)
		if err != nil {
			return false, err.Error()
		}
		c.feats = feats
		d, err := h.evalCore(w, c)
		if err != nil {
			return false, err.Error()
		}
		return d.key() == o.key(), fmt.Sprintf("model: %s which evaluates to %s; implementation: %s", term.String(), d.key(), o.key())
	}
	return false, "unexpected model reply " + rep
}

// ---- A2 / A4: WebSocket envelopes -------------------------------------------------------------------------

func (h *harness) checkWSEnv(e WSEnv) *failure {
	real := h.wsdec.realWSDecode(e)
	exp := expectedWS(e)
	h.run.Count("ws-env:" + kindAtom(e.Kind) + ":" + strings.Fields(strings.Trim(exp, "()"))[0])
	model, have := h.ask("(ws " + e.absSexp() + ")")
	desc := fmt.Sprintf("%s didInit=%v frame %q", e.Kind, e.DidInit, e.Frame)
	var f *failure
	if have {
		ok := model == real
		h.run.Oblige("correspondence A2: graphqlws/graphqltransportws Connection → handler = model wsDecide (ignore | close code text | HandleStart arguments)", "correspondence", 1, ok, fmt.Sprintf("%s: implementation %s, model %s", desc, real, model))
		if !ok {
			f = &failure{"correspondence", fmt.Sprintf("%s: implementation %s, model %s", desc, real, model)}
		}
	}
	ok := exp == real
	h.run.Oblige("oracle: WebSocket start/subscribe frame reaches the handler as the request it spells (or not at all when malformed)", "oracle", 1, ok, fmt.Sprintf("%s: implementation %s, expected %s", desc, real, exp))
	if !ok {
		// the decoder hands the handler something else than the frame spells: evaluate the property through the API
		if pf := h.checkWSAPI(e, h.worlds[len(h.worlds)-1].flags, true); pf != nil && pf.kind == "property" {
			return pf
		}
		if f == nil {
			f = &failure{"correspondence", fmt.Sprintf("%s: implementation %s, expected %s", desc, real, exp)}
		}
	}
	return f
}

// doWSFrame sends one frame on a fresh connection, then a sentinel operation; it reports what the
// server did about the frame: "ignored", "closed <code> <text>", or the canonical response content.
func (w *world) doWSFrame(e WSEnv, expectClose bool) Obs {
	w.resetLogs()
	c, err := dialWS(w.srv.URL, e.Kind, e.DidInit, e.Feats)
	if err != nil {
		return Obs{Resp: "dial error: " + err.Error()}
	}
	defer c.close()
	send := func(t string) { c.conn.WriteMessage(1, []byte(t)) }
	send(e.Frame)
	var o Obs
	var payloads []string
	completed := false
	if !e.DidInit {
		send(`{"type":"connection_init"}`)
	}
	// the sentinel fails validation: it is answered (data frame with errors, then complete) without
	// any resolver or Execute call, so the logs below are those of the frame under test
	send(`{"id":"` + sentinelID + `","type":` + jstr(startType(e.Kind)) + `,"payload":{"query":"{ c17sentinel }"}}`)
	for {
		f, err := c.read()
		if err != nil {
			o.Resp = describeWSErr(err)
			if len(payloads) > 0 {
				o.Resp += fmt.Sprintf(" after %q", payloads)
			}
			break
		}
		if f.Type == "connection_ack" {
			continue
		}
		if f.ID == sentinelID {
			if f.Type == "complete" {
				if expectClose {
					// the close frame is written by the writer goroutine, possibly after the sentinel's
					// frames: give it time (the connection must close on the unchanged code)
					c.conn.SetReadDeadline(time.Now().Add(closeWait))
					if _, _, err := c.conn.ReadMessage(); err != nil {
						if _, isClose := err.(*websocket.CloseError); isClose {
							o.Resp = describeWSErr(err)
							break
						}
						waitExpired()
					}
				}
				switch {
				case len(payloads) == 0 && !completed:
					o.Resp = "ignored"
				case len(payloads) == 1 && completed:
					o.Resp = payloads[0]
				default:
					o.Resp = fmt.Sprintf("%d data frames, complete=%v: %q", len(payloads), completed, payloads)
				}
				break
			}
			continue
		}
		if !e.Undecodable && f.ID == e.ID {
			switch f.Type {
			case "data", "next":
				p, _ := canonResponse(f.Payload)
				payloads = append(payloads, p)
			case "error":
				p, _ := canonResponse([]byte(`{"errors":` + string(f.Payload) + `}`))
				payloads = append(payloads, p)
				if e.Kind == cTransportWs {
					completed = true
				}
			case "complete":
				completed = true
			}
			continue
		}
		payloads = append(payloads, fmt.Sprintf("stray frame %s:%s:%s", f.ID, f.Type, f.Payload))
	}
	o.Calls, o.Costs = w.takeLogs()
	return o
}

// checkWSAPI (A4): the frame through API.ServeGraphQLWS of one configuration.
func (h *harness) checkWSAPI(e WSEnv, fl Flags, oracleOnly bool) *failure {
	w := h.world(fl)
	exp := expectedWS(e)
	o := w.doWSFrame(e, strings.HasPrefix(exp, "(close"))
	desc := fmt.Sprintf("[%s] %s didInit=%v frame %q", fl, e.Kind, e.DidInit, e.Frame)
	var f *failure
	switch {
	case exp == "ignore" || strings.HasPrefix(exp, "(close"):
		// the property: no response is delivered and nothing runs. Whether the frame is ignored
		// (graphql-ws) or the connection closed with 4400 (graphql-transport-ws) is the protocol's
		// choice; the exact choice is pinned by the correspondence below, not by the property.
		ok := (o.Resp == "ignored" || strings.HasPrefix(o.Resp, "closed ")) && len(o.Calls) == 0 && len(o.Costs) == 0
		if !oracleOnly {
			h.run.Oblige("oracle: malformed / premature WebSocket start ⇒ no data frame, empty resolver log (API.ServeGraphQLWS)", "oracle", 1, ok, desc+" → "+o.key())
		}
		if !ok {
			f = &failure{"property", fmt.Sprintf("%s must be refused (ignored or connection closed) with nothing executed; got %s", desc, o.key())}
		}
	default:
		x, _ := hx.ParseSexp(exp)
		c := coreCall{hook: fl.Hook, feat: fl.Feat, cost: fl.Cost, feats: e.Feats, q: x.List[2].Atom, op: x.List[4].Atom, exts: "nil"}
		c.vars, _ = mapAtom(x.List[3])
		d, err := h.evalCore(w, c)
		same := err == nil && d.key() == o.key()
		if !oracleOnly {
			h.run.Oblige("oracle: well-formed WebSocket start answers like the operation it carries (API.ServeGraphQLWS vs transport-free run)", "oracle", 1, same, desc)
		}
		if !same {
			f = &failure{"property", fmt.Sprintf("%s answers %s; the operation it carries (query %q, operationName %q, variables %s) answers %s", desc, o.key(), c.q, c.op, c.vars, d.key())}
		}
	}
	if oracleOnly {
		return f
	}
	rep, have := h.ask("(serve-ws " + cfgSexp(fl) + " " + e.absSexp() + ")")
	if have {
		ok, detail := h.compareServed(w, rep, o, e.Feats)
		h.run.Oblige("correspondence A4: API.ServeGraphQLWS = model serveWS (nothing | closed code text | pipeline term evaluated with the real library)", "correspondence", 1, ok, desc+": "+detail)
		if !ok && f == nil {
			f = &failure{"correspondence", desc + ": " + detail}
		}
	}
	return f
}

// ---- B: the property over all carriers and configurations -----------------------------------------------

// absForCarrier: the abstract envelope the model is asked about for carrier c carrying op.
func (h *harness) modelLineForCarrier(c string, op Op, vars MapAbs, fl Flags) string {
	q := op.Query
	switch c {
	case cGet:
		pv := MapAbs{Class: "absent"}
		if op.Vars != nil {
			pv = vars
		}
		e := HTTPEnv{Method: "get", PQuery: &q, PVars: pv, POp: &op.OpName, PExt: MapAbs{Class: "absent"}, Media: "unparsable"}
		return "(serve-http " + cfgSexp(fl) + " " + e.absSexp() + ")"
	case cPostJSON:
		bv := MapAbs{Class: "null"}
		if op.Vars != nil {
			bv = vars
		}
		e := HTTPEnv{Method: "post", PVars: MapAbs{Class: "absent"}, PExt: MapAbs{Class: "absent"}, Media: "json", BodyOK: true,
			BQuery: q, BOp: op.OpName, BVars: bv, BExt: MapAbs{Class: "null"}}
		return "(serve-http " + cfgSexp(fl) + " " + e.absSexp() + ")"
	case cPostGraphQL:
		e := HTTPEnv{Method: "post", PVars: MapAbs{Class: "absent"}, PExt: MapAbs{Class: "absent"}, Media: "graphql"}
		e.Spec.Body = q
		return "(serve-http " + cfgSexp(fl) + " " + e.absSexp() + ")"
	default:
		v := MapAbs{Class: "null"}
		if op.Vars != nil {
			v = vars
		}
		e := WSEnv{Kind: c, DidInit: true, ID: "op", PayloadOK: true, Query: q, OpName: op.OpName, Vars: v}
		return "(serve-ws " + cfgSexp(fl) + " " + e.absSexp() + ")"
	}
}

func (h *harness) runCarrier(w *world, c string, op Op, feats string, sp *hx.Rand) Obs {
	switch c {
	case cGet, cPostJSON, cPostGraphQL:
		spec := httpEnvelope(sp, c, op)
		spec.Feats = feats
		return w.doHTTP(spec)
	default:
		return w.doWS(sp, c, feats, envelopeJSON(sp, op, true))
	}
}

func spellRand(seed uint64, salt string) *hx.Rand {
	s := seed
	for _, b := range []byte(salt) {
		s = s*1099511628211 + uint64(b)
	}
	return hx.NewRand(s)
}

type opResult struct {
	fail      *failure
	executed  bool
	byCarrier map[string]string // for -replay printing
	reference string
	nondeterm bool
}

// checkOp evaluates the property for one operation.
func (h *harness) checkOp(cs Case, verbose bool) opResult {
	op := *cs.Op
	res := opResult{byCarrier: map[string]string{}}
	vars := MapAbs{Class: "absent"}
	if op.Vars != nil {
		var ok bool
		vars, ok = h.registerDump(*op.Vars)
		if !ok {
			res.fail = &failure{"correspondence", "the case's variables are not a JSON object: " + *op.Vars}
			return res
		}
	}
	varsAtom := "nil"
	if vars.Class == "obj" {
		varsAtom = vars.Dump
	}
	refs := map[Flags]Obs{}
	large := len(op.Query) > 1<<18
	for _, w := range h.worlds {
		fl := w.flags
		if cs.Flags != nil && (fl.Feat != cs.Flags.Feat || fl.Cost != cs.Flags.Cost || fl.NoExec != cs.Flags.NoExec) {
			continue // restricted to one (features, cost) family: both its plain and its preprocessed API
		}
		// the operation run without any transport
		ref, err := h.evalCore(w, coreCall{hook: fl.Hook, feat: fl.Feat, cost: fl.Cost, feats: cs.Feats, q: op.Query, op: op.OpName, vars: varsAtom, exts: "nil"})
		if err != nil {
			res.fail = &failure{"correspondence", err.Error()}
			return res
		}
		refs[fl] = ref
		if strings.HasPrefix(ref.Resp, "panic: ") {
			// the pipeline itself crashes on this operation (C03's subject, not a transport matter);
			// on the WebSocket path the same panic would take the process down: do not send it
			h.run.Count("op:pipeline-panics (skipped, see C03)")
			res.nondeterm = true
			return res
		}
		if len(ref.Calls) > 0 {
			res.executed = true
		}
		if verbose {
			fmt.Printf("  [%s] transport-free: %s\n", fl, abbrev(ref.key()))
		}
		res.reference = ref.key()
		for _, c := range carriers {
			if !canCarry(c, op) {
				continue
			}
			sp := spellRand(cs.Seed, c+fl.String())
			o := h.runCarrier(w, c, op, cs.Feats, sp)
			res.byCarrier[fl.String()+"/"+c] = o.key()
			if verbose {
				fmt.Printf("  [%s] %-22s %s\n", fl, c+":", abbrev(o.key()))
			}
			h.run.Count("op:carrier:" + c)
			same := o.key() == ref.key()
			if !same {
				// rule out nondeterminism of the pipeline itself (map-order dependent error choice)
				stable := true
				for i := 0; i < 4 && stable; i++ {
					r2, _ := h.evalCore(w, coreCall{hook: fl.Hook, feat: fl.Feat, cost: fl.Cost, feats: cs.Feats, q: op.Query, op: op.OpName, vars: varsAtom, exts: "nil"})
					o2 := h.runCarrier(w, c, op, cs.Feats, spellRand(cs.Seed, c+fl.String()))
					if r2.key() != ref.key() || o2.key() != o.key() {
						stable = false
					}
					if r2.key() == o2.key() || r2.key() == o.key() || o2.key() == ref.key() {
						stable = false
					}
				}
				if stable {
					// the pipeline itself may answer this request differently from run to run (e.g. which of
					// two invalid input fields is reported: Go map order); four agreeing re-runs happen by
					// chance once in a few hundred such cases — ask the transport-free run twelve more times
					seen := map[string]bool{ref.key(): true}
					for i := 0; i < 12; i++ {
						r3, _ := h.evalCore(w, coreCall{hook: fl.Hook, feat: fl.Feat, cost: fl.Cost, feats: cs.Feats, q: op.Query, op: op.OpName, vars: varsAtom, exts: "nil"})
						seen[r3.key()] = true
					}
					if len(seen) > 1 {
						stable = false
					}
				}
				if strings.HasPrefix(o.Resp, "closed ") {
					// the server closed a kept connection on a well-formed operation: the re-run above
					// went over a fresh connection and proves nothing — never dismissed as nondeterminism
					stable = true
				}
				if !stable {
					if os.Getenv("C17_DEBUG") != "" {
						fmt.Printf("UNSTABLE [%s] %s\n  first carrier: %s\n  first ref:     %s\n  query %q vars %s\n", fl, c, o.key(), ref.key(), op.Query, strPtr(op.Vars))
					}
					h.run.Count("op:nondeterministic-pipeline (skipped)")
					res.nondeterm = true
					continue
				}
			}
			h.run.Oblige("oracle B: every carrier answers like the transport-free run of the operation (response, resolver log, RequestInfo.Cost) — five-way differential", "oracle", 1, same, "")
			if !same && res.fail == nil {
				res.fail = &failure{"property", fmt.Sprintf("[%s] %s answers %s; the same operation run without a transport answers %s (query %q, operationName %q, variables %v)", fl, c, abbrev(o.key()), abbrev(ref.key()), abbrev(op.Query), op.OpName, strPtr(op.Vars))}
			}
			// the model's serve_t for this carrier
			if large {
				h.run.Count("op:large-document: model line skipped")
			} else if rep, have := h.ask(h.modelLineForCarrier(c, op, vars, fl)); have {
				if verbose {
					fmt.Printf("  [%s] %-22s model: %s\n", fl, c+":", rep)
				}
				ok, detail := h.compareServedCached(w, rep, o, ref, coreCall{hook: fl.Hook, feat: fl.Feat, cost: fl.Cost, feats: cs.Feats, q: op.Query, op: op.OpName, vars: varsAtom, exts: "nil"})
				h.run.Oblige("correspondence B: model serve_t(encode_t r) — its pipeline term evaluated with the real library — equals what carrier t delivered", "correspondence", 1, ok, detail)
				if !ok && res.fail == nil {
					res.fail = &failure{"correspondence", fmt.Sprintf("[%s] %s: %s", fl, c, detail)}
				}
			}
		}
	}
	// the clone path: same response with and without the preprocess hook
	for _, w := range h.worlds {
		if !w.flags.Hook {
			continue
		}
		plain := w.flags
		plain.Hook = false
		if _, ok := refs[plain]; !ok {
			continue
		}
		a, b := refs[w.flags], refs[plain]
		same := a.key() == b.key()
		if !same && res.nondeterm {
			continue
		}
		if !same {
			// nondeterminism check
			a2, _ := h.evalCore(w, coreCall{hook: true, feat: plain.Feat, cost: plain.Cost, feats: cs.Feats, q: op.Query, op: op.OpName, vars: varsAtom, exts: "nil"})
			b2, _ := h.evalCore(h.world(plain), coreCall{hook: false, feat: plain.Feat, cost: plain.Cost, feats: cs.Feats, q: op.Query, op: op.OpName, vars: varsAtom, exts: "nil"})
			if a2.key() != a.key() || b2.key() != b.key() {
				if os.Getenv("C17_DEBUG") != "" {
					fmt.Printf("UNSTABLE-CLONE [%s]\n  a:  %s\n  a2: %s\n  b:  %s\n  b2: %s\n  query %q vars %s\n", plain, a.key(), a2.key(), b.key(), b2.key(), op.Query, strPtr(op.Vars))
				}
				h.run.Count("op:nondeterministic-pipeline (skipped)")
				continue
			}
		}
		h.run.Oblige("oracle B: API built through the preprocess (clone) path answers like the API built without it", "oracle", 1, same, "")
		if !same && res.fail == nil {
			res.fail = &failure{"property", fmt.Sprintf("clone path differs [%s]: with hook %s; without %s (query %q, operationName %q, variables %v)", plain, abbrev(a.key()), abbrev(b.key()), abbrev(op.Query), op.OpName, strPtr(op.Vars))}
		}
	}
	return res
}

func strPtr(s *string) string {
	if s == nil {
		return "<none>"
	}
	return *s
}

// compareServedCached is compareServed for phase B: when the model's term is exactly the call the
// harness already evaluated (ref), that evaluation is reused.
func (h *harness) compareServedCached(w *world, rep string, o Obs, ref Obs, refCall coreCall) (bool, string) {
	x, err := hx.ParseSexp(rep)
	if err == nil && x.IsList && (x.List[0].Atom == "ok" || x.List[0].Atom == "data") {
		if c, err := parseExecTerm(x.List[len(x.List)-1]); err == nil {
			c.feats = refCall.feats
			if c != refCall {
				return h.compareServed(w, rep, o, refCall.feats)
			}
			return ref.key() == o.key(), fmt.Sprintf("model: %s which evaluates to %s; implementation: %s", x.List[len(x.List)-1].String(), ref.key(), o.key())
		}
	}
	return h.compareServed(w, rep, o, refCall.feats)
}

// ---- shrinking of op cases -------------------------------------------------------------------------------

func (h *harness) failsLike(cs Case, kind string) (*failure, bool) {
	r := h.checkOp(cs, false)
	return r.fail, r.fail != nil && r.fail.kind == kind
}

func dropVarKey(text string, i int) (string, bool) {
	n, err := parseOrdered([]byte(text))
	if err != nil || n.kind != 'o' || i >= len(n.keys) {
		return "", false
	}
	n.keys = append(append([]string{}, n.keys[:i]...), n.keys[i+1:]...)
	n.items = append(append([]jnode{}, n.items[:i]...), n.items[i+1:]...)
	var b strings.Builder
	n.write(&b, false)
	return b.String(), true
}

func (h *harness) shrinkOp(cs Case, f *failure) (Case, *failure) {
	h.quiet = true
	defer func() { h.quiet = false }()
	try := func(cand Case) bool {
		if cand.Spec != nil {
			q := cand.Spec.render()
			o := *cand.Op
			o.Query = q
			cand.Op = &o
		}
		if f2, ok := h.failsLike(cand, f.kind); ok {
			cs, f = cand, f2
			return true
		}
		return false
	}
	for changed, rounds := true, 0; changed && rounds < 40; rounds++ {
		changed = false
		if cs.Spec != nil {
			sp := *cs.Spec
			for i := range sp.Ops {
				if len(sp.Ops) > 1 {
					c := cs
					s2 := sp
					s2.Ops = append(append([]OpSpec{}, sp.Ops[:i]...), sp.Ops[i+1:]...)
					c.Spec = &s2
					if try(c) {
						changed = true
						break
					}
				}
				for j := range sp.Ops[i].Sels {
					if len(sp.Ops[i].Sels) > 1 {
						c := cs
						s2 := sp
						s2.Ops = append([]OpSpec{}, sp.Ops...)
						o2 := s2.Ops[i]
						o2.Sels = append(append([]Sel{}, o2.Sels[:j]...), o2.Sels[j+1:]...)
						s2.Ops[i] = o2
						c.Spec = &s2
						if try(c) {
							changed = true
							break
						}
					}
				}
				if changed {
					break
				}
			}
			if changed {
				continue
			}
			if sp.Mut != nil || sp.Prefix != "" || sp.NL != "" {
				for _, f := range []func(*QSpec){func(q *QSpec) { q.Mut = nil }, func(q *QSpec) { q.Prefix = "" }, func(q *QSpec) { q.NL = "" }} {
					s2 := sp
					f(&s2)
					if s2.render() == sp.render() {
						continue
					}
					c := cs
					c.Spec = &s2
					if try(c) {
						changed = true
						break
					}
				}
				if changed {
					continue
				}
			}
		}
		if cs.Op.Vars != nil {
			for i := 0; ; i++ {
				t, ok := dropVarKey(*cs.Op.Vars, i)
				if !ok {
					break
				}
				c := cs
				o := *cs.Op
				o.Vars = &t
				c.Op = &o
				if try(c) {
					changed = true
					break
				}
			}
			if changed {
				continue
			}
			c := cs
			o := *cs.Op
			o.Vars = nil
			c.Op = &o
			if try(c) {
				changed = true
				continue
			}
		}
		if cs.Op.OpName != "" {
			c := cs
			o := *cs.Op
			o.OpName = ""
			c.Op = &o
			if try(c) {
				changed = true
			}
		}
	}
	return cs, f
}

// ---- driver -----------------------------------------------------------------------------------------------

func (h *harness) runCase(cs Case, verbose bool) *failure {
	if h.reported["property"]+h.reported["crash"] >= 40 {
		// the property is already shown violated many times over (three cases are kept); a change that
		// breaks a whole route makes every further exchange slow (timeouts, closed connections):
		// the rest of the run would add nothing
		h.run.Count("cases skipped after 40 property failures")
		return nil
	}
	switch cs.Kind {
	case "op":
		if cs.Big != nil {
			o := cs.Big.render()
			cs.Op = &o
		}
		r := h.checkOp(cs, verbose)
		key, _ := json.Marshal(cs.Op)
		if cs.Big != nil {
			key, _ = json.Marshal(cs.Big)
		}
		h.run.Case("op:"+string(key), r.executed && (cs.Op.Vars != nil || cs.Op.OpName != ""))
		if r.executed {
			h.run.Count("op:executed-resolvers")
		} else {
			h.run.Count("op:no-resolver-ran")
			if os.Getenv("C17_DEBUG") != "" {
				ref := r.reference
				if i := strings.Index(ref, `"message":"`); i >= 0 {
					ref = ref[i+11:]
				}
				if len(ref) > 48 {
					ref = ref[:48]
				}
				h.run.Count("op:rejected:" + ref)
			}
		}
		return r.fail
	case "jbytes":
		rep, ok := h.ask(jmodelLine(*cs.JB))
		return h.jcheckOne(*cs.JB, rep, ok, verbose)
	case "srcfacts":
		return h.phaseS(verbose)
	case "burst":
		fl := Flags{}
		if cs.Flags != nil {
			fl = *cs.Flags
		}
		f := h.checkBurst(*cs.Burst, fl, verbose)
		h.run.Case(fmt.Sprintf("burst:%s:%v:%d:%d", fl, cs.Burst.Kind, cs.Burst.N, cs.Burst.Size), true)
		return f
	case "late-clone":
		f := h.checkLateClone(cs, verbose)
		key, _ := json.Marshal(cs.Hist)
		h.run.Case("late-clone:"+string(key), true)
		return f
	case "hist":
		f := h.checkHist(cs, verbose)
		key, _ := json.Marshal(cs.Hist)
		h.run.Case("hist:"+string(key), histNontrivial(cs.Hist))
		return f
	case "url":
		f := h.checkURL(*cs.URL, verbose)
		h.run.Case("url:"+cs.URL.Raw+fmt.Sprint(cs.URL.Pairs), strings.ContainsAny(cs.URL.Raw, "%+;") || len(cs.URL.Pairs) > 0)
		return f
	case "http-env":
		f := h.checkHTTPEnv(*cs.HTTP)
		h.run.Case("http-env:"+cs.HTTP.Spec.Method+cs.HTTP.Spec.RawQuery+"|"+cs.HTTP.Spec.ContentType+"|"+cs.HTTP.Spec.Body, cs.HTTP.PVars.Class == "obj" || cs.HTTP.BVars.Class == "obj" || malformedByProperty(*cs.HTTP))
		if verbose {
			fmt.Printf("  implementation: %s\n  expected:       %s\n", realNewRequestFromHTTP(cs.HTTP.Spec), expectedHTTP(*cs.HTTP))
			if m, ok := h.ask("(http " + cs.HTTP.absSexp() + ")"); ok {
				fmt.Printf("  model:          %s\n", m)
			}
		}
		return f
	case "http-api":
		fl := Flags{}
		if cs.Flags != nil {
			fl = *cs.Flags
		}
		h.registerEnvDumps(cs.HTTP)
		f := h.checkHTTPAPI(*cs.HTTP, fl)
		h.run.Case("http-api:"+fl.String()+cs.HTTP.Spec.Method+cs.HTTP.Spec.RawQuery+"|"+cs.HTTP.Spec.ContentType+"|"+cs.HTTP.Spec.Body, true)
		if verbose {
			fmt.Printf("  implementation: %s\n", h.world(fl).serveRecorder(cs.HTTP.Spec).key())
			if m, ok := h.ask("(serve-http " + cfgSexp(fl) + " " + cs.HTTP.absSexp() + ")"); ok {
				fmt.Printf("  model:          %s\n", m)
			}
		}
		return f
	case "ws-env":
		f := h.checkWSEnv(*cs.WS)
		h.run.Case("ws-env:"+cs.WS.Kind+fmt.Sprint(cs.WS.DidInit)+cs.WS.Frame, true)
		if verbose {
			fmt.Printf("  implementation: %s\n  expected:       %s\n", h.wsdec.realWSDecode(*cs.WS), expectedWS(*cs.WS))
			if m, ok := h.ask("(ws " + cs.WS.absSexp() + ")"); ok {
				fmt.Printf("  model:          %s\n", m)
			}
		}
		return f
	case "ws-api":
		fl := Flags{}
		if cs.Flags != nil {
			fl = *cs.Flags
		}
		f := h.checkWSAPI(*cs.WS, fl, false)
		h.run.Case("ws-api:"+fl.String()+cs.WS.Kind+fmt.Sprint(cs.WS.DidInit)+cs.WS.Frame, true)
		if verbose {
			fmt.Printf("  implementation: %s\n", h.world(fl).doWSFrame(*cs.WS, strings.HasPrefix(expectedWS(*cs.WS), "(close")).key())
			if m, ok := h.ask("(serve-ws " + cfgSexp(fl) + " " + cs.WS.absSexp() + ")"); ok {
				fmt.Printf("  model:          %s\n", m)
			}
		}
		return f
	}
	return &failure{"correspondence", "unknown case kind " + cs.Kind}
}

// registerEnvDumps: replayed envelope cases carry dumps whose Go values must be known again.
func (h *harness) registerEnvDumps(e *HTTPEnv) {
	// the dumps were produced from texts inside the spec; recover them by decoding every JSON
	// object found in the raw query and in the body
	tryText := func(t string) {
		if n, err := parseOrdered([]byte(t)); err == nil && n.kind == 'o' {
			if v, ok := n.toGo().(map[string]interface{}); ok {
				dumpTable[dumpValue(v)] = v
				for _, k := range []string{"variables", "extensions", "VARIABLES", "EXTENSIONS", "Variables", "Extensions"} {
					if m, ok := v[k].(map[string]interface{}); ok {
						dumpTable[dumpValue(m)] = m
					}
				}
			}
		}
	}
	if vals, err := url.ParseQuery(e.Spec.RawQuery); err == nil || vals != nil {
		for _, vs := range vals {
			for _, v := range vs {
				tryText(v)
			}
		}
	}
	dec := json.NewDecoder(strings.NewReader(e.Spec.Body))
	var raw json.RawMessage
	if dec.Decode(&raw) == nil {
		tryText(string(raw))
	}
}

func (h *harness) registerWSDumps(e *WSEnv) {
	var m struct {
		Payload json.RawMessage `json:"payload"`
	}
	if json.Unmarshal([]byte(e.Frame), &m) == nil && m.Payload != nil {
		var p struct {
			Variables json.RawMessage `json:"variables"`
		}
		if json.Unmarshal(m.Payload, &p) == nil && p.Variables != nil {
			h.registerDump(string(p.Variables))
		}
	}
}

func (h *harness) report(cs Case, f *failure) {
	if f == nil {
		return
	}
	// hx keeps three violations per kind: shrinking (many replays) is only worth it for those — a
	// change that breaks most cases must not stall the run
	if h.reported == nil {
		h.reported = map[string]int{}
	}
	h.reported[f.kind]++
	if h.reported[f.kind] <= 3 {
		if cs.Kind == "op" && cs.Big == nil && cs.Op != nil && len(cs.Op.Query) < 1<<16 {
			cs, f = h.shrinkOp(cs, f)
		}
		if cs.Kind == "hist" && f.kind == "property" {
			cs, f = h.shrinkHist(cs, f)
		}
	}
	h.run.Violate(f.kind, f.what, "", f.kind == "correspondence", cs)
}

func main() {
	run := hx.Init("C17")
	h := &harness{run: run}
	if os.Getenv("C17_SRCFACTS_WRITE") != "" {
		h.phaseS(false) // writes the pipeline-shape table of $VERIF_REPO and nothing else
		return
	}
	if run.ModelPath != "" {
		m, err := hx.StartModel(run.ModelPath)
		if err != nil {
			fmt.Fprintln(os.Stderr, "cannot start model:", err)
			os.Exit(2)
		}
		h.model = m
		defer m.Close()
	} else {
		run.Note("no model driver: correspondence obligations skipped, oracles only")
	}
	// The plain and the preprocessed API of each (features, cost) family are built from the *same*
	// definition objects (as an application that serves both would): building one must not disturb
	// the other. Half of the families build the plain API first, half the preprocessed one.
	built := map[Flags]*world{}
	for _, fam := range allFlags() {
		if fam.Hook {
			continue
		}
		d := newDefs()
		order := []bool{false, true}
		if fam.Cost {
			order = []bool{true, false}
		}
		for _, hook := range order {
			fl := fam
			fl.Hook = hook
			w, err := newWorld(fl, d)
			if err != nil {
				// an API that cannot even be built in one configuration (e.g. only through the clone path)
				run.Oblige("oracle B: API built through the preprocess (clone) path answers like the API built without it", "oracle", 1, false, err.Error())
				run.Violate("property", fmt.Sprintf("apifu.NewAPI fails in configuration [%s] (definitions shared with the other API of its family): %v", fl, err), "", false, Case{Kind: "op", Flags: &fl, Op: &Op{Query: "{ __typename }"}})
				continue
			}
			built[fl] = w
		}
	}
	for _, fl := range allFlags() {
		if w := built[fl]; w != nil {
			h.worlds = append(h.worlds, w)
		}
	}
	if len(h.worlds) == 0 {
		run.Finish(h.model)
		return
	}
	h.wsdec = newWSDecoderServer()
	defer func() {
		for _, w := range h.worlds {
			w.close()
		}
		h.wsdec.srv.Close()
	}()
	run.SetRule("A0: raw query strings (escapes valid and invalid, separators, repeated names) against net/url; A1: HTTP requests spelled from abstract classes (method × 4 URL parameters × media type × body class; exhaustive over the classes, spellings from the PRNG); " +
		"A2/A4: start/subscribe frames (kind × didInit × payload class); A3: the A1 envelopes through API.ServeGraphQL of rotating configurations; " +
		"L: the plain API of a family serves 1-3 requests, then the preprocessed API is built from the same definition objects and serves them too; " +
		"H: histories of 2-4 requests on freshly built API instances (same query text, features / variables / operation name / transport varied between steps); " +
		"B: operations (query, operationName, variables) generated type-directed from an argument-echoing schema, sent over the 5 carriers × 8 API configurations. " +
		"distinct = distinct concrete case; non-trivial = (op) at least one resolver ran and the operation carries variables or an operation name, " +
		"(envelope) the envelope carries a JSON object or is malformed by the property's definition")

	if run.Replay != "" {
		var cs Case
		if err := hx.LoadReplayCase(run.Replay, &cs); err != nil {
			fmt.Fprintln(os.Stderr, err)
			os.Exit(2)
		}
		if cs.HTTP != nil {
			h.registerEnvDumps(cs.HTTP)
		}
		if cs.WS != nil {
			h.registerWSDumps(cs.WS)
		}
		fmt.Printf("replay %s case:\n", cs.Kind)
		f := h.runCase(cs, true)
		if f != nil {
			fmt.Printf("replay: kind=%q what=%q\n", f.kind, f.what)
			run.Violate(f.kind, f.what, "", f.kind == "correspondence", cs)
		} else {
			fmt.Println("replay: no failure")
		}
		run.Finish(h.model)
		return
	}

	for _, file := range run.CorpusFiles() {
		var cs Case
		if hx.LoadReplayCase(file, &cs) == nil && cs.Kind != "" {
			if cs.HTTP != nil {
				h.registerEnvDumps(cs.HTTP)
			}
			if cs.WS != nil {
				h.registerWSDumps(cs.WS)
			}
			h.report(cs, h.runCase(cs, false))
			run.Count("corpus")
		}
	}

	flags := allFlags()

	// A0: the URL codec transliteration against net/url
	for i := 0; i < run.Scale(3000, 60000); i++ {
		r := run.Rand.Fork()
		var c URLCase
		if i%4 == 3 {
			c.Pairs = genURLPairs(r)
			if c.Pairs == nil {
				c.Pairs = [][2]string{}
			}
		} else {
			c.Raw, c.Keys = genRawQuery(r)
		}
		cs := Case{Kind: "url", URL: &c}
		h.report(cs, h.runCase(cs, false))
	}
	run.Note("phase A0 done at %.1fs", run.Elapsed().Seconds())

	// S: the shape of the pipelines in the current source against the committed table (srcfacts.go).
	// The obligation rows are recorded now; a changed shape is *reported* at the end of the run and
	// only when no differential phase produced a concrete failing input (that input is the better
	// replay: a shape change alone is "no failing input found").
	shapeFailures := h.phaseSAll(false)
	reportShape := func() {
		if len(shapeFailures) == 0 {
			return
		}
		if h.reported["property"]+h.reported["crash"] > 0 {
			run.Note("pipeline shape changed in %d function(s); concrete failing inputs were found, the shape change is not reported separately: %s", len(shapeFailures), shapeFailures[0].what)
			return
		}
		for _, f := range shapeFailures {
			h.report(Case{Kind: "srcfacts"}, f)
		}
	}

	// J: the byte-level JSON model against the real decoders (jsonbytes.go)
	h.phaseJ()
	if os.Getenv("C17_ONLY") == "SJ" { // development aid: only the phases above
		reportShape()
		run.Finish(h.model)
		return
	}

	// H: histories on fresh API instances (before the phases that share long-lived instances: a
	// history replays by itself, so it is the better witness of a defect that depends on earlier requests)
	for i, op := range featureOps() {
		// every feature-dependent operation: privileged caller first, then the same text with fewer
		// features over another transport, then privileged again
		cs := Case{Kind: "hist", Seed: uint64(i) + 1, Hist: []Step{
			{Op: op, Feats: "featA,featB", Carrier: carriersFor(op)[i%len(carriersFor(op))]},
			{Op: op, Feats: []string{"", "featA", "featB"}[i%3], Carrier: carriersFor(op)[(i+1)%len(carriersFor(op))]},
			{Op: op, Feats: "featA,featB", Carrier: carriersFor(op)[(i+2)%len(carriersFor(op))]},
			{Op: op, Feats: "", Carrier: carriersFor(op)[i%len(carriersFor(op))]},
		}}
		h.report(cs, h.runCase(cs, false))
	}
	for i := 0; i < run.Scale(300, 12000); i++ {
		r := run.Rand.Fork()
		cs := Case{Kind: "hist", Seed: r.Uint64(), Hist: genHist(r)}
		h.report(cs, h.runCase(cs, false))
		if i == 0 {
			run.Sample(cs)
		}
	}
	for i, op := range fragmentOps() {
		cs := Case{Kind: "late-clone", Seed: uint64(i), Hist: []Step{{Op: op, Feats: featChoices[i%len(featChoices)], Carrier: carriersFor(op)[i%len(carriersFor(op))]}}}
		h.report(cs, h.runCase(cs, false))
	}
	for i := 0; i < run.Scale(60, 3000); i++ {
		r := run.Rand.Fork()
		cs := Case{Kind: "late-clone", Seed: r.Uint64(), Hist: genLateClone(r)}
		h.report(cs, h.runCase(cs, false))
	}
	run.Note("phase H done at %.1fs", run.Elapsed().Seconds())
	// A1 (+A3 on a rotating configuration): exhaustive over abstract classes
	mapClasses := []string{"absent", "empty", "null", "obj", "bad"}
	n := 0
	for _, method := range []string{"get", "post", "other"} {
		for _, pq := range []bool{false, true} {
			for _, pv := range mapClasses {
				for _, po := range []bool{false, true} {
					for _, pe := range mapClasses {
						for _, media := range []string{"json", "graphql", "other", "unparsable"} {
							for _, body := range []string{"ok", "null", "bad"} {
								r := run.Rand.Fork()
								e := buildHTTPEnv(r, method, pq, pv, po, pe, media, body)
								h.report(Case{Kind: "http-env", HTTP: &e}, h.runCase(Case{Kind: "http-env", HTTP: &e}, false))
								n++
								if n%run.Scale(3, 1) == 0 {
									fl := flags[r.Intn(len(flags))]
									h.report(Case{Kind: "http-api", HTTP: &e, Flags: &fl}, h.runCase(Case{Kind: "http-api", HTTP: &e, Flags: &fl}, false))
								}
							}
						}
					}
				}
			}
		}
	}
	run.SetExhaustive(false)
	run.Note("A1 enumerated all %d combinations of abstract envelope classes (spellings random)", n)
	// more random spellings, biased to the accepting branches
	for i := 0; i < run.Scale(5000, 60000); i++ {
		r := run.Rand.Fork()
		method := hx.Pick(r, []string{"get", "get", "post", "post", "post", "other"})
		e := buildHTTPEnv(r, method, r.Chance(3, 4), hx.Pick(r, []string{"absent", "empty", "null", "obj", "obj", "obj", "bad"}), r.Bool(),
			hx.Pick(r, []string{"absent", "absent", "empty", "null", "obj", "bad"}), hx.Pick(r, []string{"json", "json", "json", "graphql", "other", "unparsable"}),
			hx.Pick(r, []string{"ok", "ok", "ok", "null", "bad"}))
		h.report(Case{Kind: "http-env", HTTP: &e}, h.runCase(Case{Kind: "http-env", HTTP: &e}, false))
		fl := flags[r.Intn(len(flags))]
		h.report(Case{Kind: "http-api", HTTP: &e, Flags: &fl}, h.runCase(Case{Kind: "http-api", HTTP: &e, Flags: &fl}, false))
		if i < 2 {
			run.Sample(Case{Kind: "http-api", HTTP: &e, Flags: &fl})
		}
	}

	run.Note("phase A1/A3 done at %.1fs", run.Elapsed().Seconds())
	// A2 / A4: WebSocket envelopes
	for i := 0; i < run.Scale(960, 12000); i++ {
		r := run.Rand.Fork()
		kind := []string{cGqlWs, cTransportWs}[i%2]
		didInit := (i/2)%4 != 0
		class := []string{"undecodable", "absent", "bad", "null", "ok", "ok", "ok"}[(i/8)%7]
		e := buildWSEnv(r, kind, didInit, class)
		h.registerWSDumps(&e)
		h.report(Case{Kind: "ws-env", WS: &e}, h.runCase(Case{Kind: "ws-env", WS: &e}, false))
		fl := flags[r.Intn(len(flags))]
		h.report(Case{Kind: "ws-api", WS: &e, Flags: &fl}, h.runCase(Case{Kind: "ws-api", WS: &e, Flags: &fl}, false))
		if i == 40 {
			run.Sample(Case{Kind: "ws-api", WS: &e, Flags: &fl})
		}
	}

	run.Note("phase A2/A4 done at %.1fs", run.Elapsed().Seconds())

	// P: bursts of operations on one WebSocket connection, answers read only afterwards (burst.go)
	h.phaseP()
	// B: the differential
	for i, op := range handOps() {
		op := op
		cs := Case{Kind: "op", Seed: uint64(i) + 1, Op: &op, Feats: featChoices[(i+int(run.Seed))%len(featChoices)]}
		h.report(cs, h.runCase(cs, false))
		run.Count("op:hand-written")
	}
	for i, b := range bigSpecs(run.Thorough()) {
		b := b
		for k := 0; k < b.Families; k++ {
			fam := allFlags()[((i+k+int(run.Seed))%4)*2]
			cs := Case{Kind: "op", Seed: uint64(i) + 1, Big: &b.Spec, Flags: &fam, Feats: featChoices[(i+k)%len(featChoices)]}
			t0 := time.Now()
			h.report(cs, h.runCase(cs, false))
			if os.Getenv("C17_DEBUG") != "" {
				fmt.Printf("BIG %+v fam=%v %.2fs\n", b.Spec, fam, time.Since(t0).Seconds())
			}
			run.Count("op:large-document")
		}
	}
	run.Note("large documents done at %.1fs", run.Elapsed().Seconds())
	for i := 0; i < run.Scale(450, 12000); i++ {
		r := run.Rand.Fork()
		spec, op := genOp(r)
		cs := Case{Kind: "op", Seed: r.Uint64(), Op: &op, Spec: &spec, Feats: hx.Pick(r, featChoices)}
		h.report(cs, h.runCase(cs, false))
		if i < 3 {
			run.Sample(cs)
		}
		if spec.Mut != nil {
			run.Count("op:text-mutated")
		}
		if len(spec.Ops) > 1 {
			run.Count("op:multi-operation")
		}
		if op.Vars != nil {
			run.Count("op:with-variables")
		}
		if op.OpName != "" {
			run.Count("op:with-operation-name")
		}
	}
	run.Note("phase B done at %.1fs", run.Elapsed().Seconds())
	if n := atomic.LoadInt64(&orphanLogs); n > 0 {
		run.Violate("correspondence", fmt.Sprintf("%d resolver calls ran with a context that did not come from the request (harness cannot attribute them)", n), "", true, Case{Kind: "op", Op: &Op{Query: "{ __typename }"}})
	}

	reportShape()
	run.Finish(h.model)
}

var _ = graphql.NewFeatureSet
