package main

// Histories across API construction: the preprocessed (clone-path) API of a family is built *late*,
// from definition objects that the plain API has already served requests with. Anything the
// library remembers inside the definitions on first use (and Clone then copies) must not make the
// late-built API answer differently from the plain one; and building it must not change what the
// plain API answers afterwards.

import (
	"fmt"

	"verifharness/hx"
)

// fragmentOps: operations whose result depends on interface / union / object type conditions.
func fragmentOps() []Op {
	sp := func(s string) *string { return &s }
	return []Op{
		{Query: "{ named { __typename name ... on Thing { id n } ... on Other { extra } } }"},
		{Query: "{ named { ... on Named { name } } }"},
		{Query: "{ either { __typename ... on Named { name } ... on Other { extra } } o: either(other: true) { ... on Named { name } ... on Other { extra } } }"},
		{Query: "{ either { ... on ThingOrOther { __typename ... on Thing { id } } } }"},
		{Query: "{ things(n: 2) { ... on Named { name } ... on ThingOrOther { __typename } ...F } } fragment F on Thing { id ... on Named { n: name } }"},
		{Query: "{ thing { ... on Named { name } ... on Thing { id } } itemsB { ... on Named { name } } }"},
		{Query: "query($o: Boolean) { either(other: $o) { ... on Named { name } ... on Thing { n } } }", Vars: sp(`{"o": true}`)},
		{Query: "query($c: Color, $in: In) { color(c: $c) echoInput(in: $in) named { ... on Other { extra } } }", Vars: sp(`{"c": "RED", "in": {"e": "BLUE", "nested": {"a": 1}}}`)},
		{Query: `{ __type(name: "Thing") { interfaces { name } } u: __type(name: "ThingOrOther") { possibleTypes { name } } n: __type(name: "Named") { possibleTypes { name } } }`},
	}
}

func genLateClone(r *hx.Rand) []Step {
	n := r.Range(1, 3)
	var steps []Step
	for i := 0; i < n; i++ {
		var op Op
		if r.Chance(2, 3) {
			op = hx.Pick(r, fragmentOps())
		} else {
			_, op = genOp(r)
		}
		steps = append(steps, Step{Op: op, Feats: hx.Pick(r, featChoices), Carrier: hx.Pick(r, carriersFor(op))})
	}
	return steps
}

// playLateClone: plain API first, serves the steps; only then the preprocessed API is built from the
// same definitions and serves the same steps; then the plain one once more.
func (h *harness) playLateClone(steps []Step, fam Flags, seed uint64, verbose bool) *failure {
	d := newDefs()
	fam.Hook = false
	wp, err := newWorld(fam, d)
	if err != nil {
		return nil
	}
	defer wp.close()
	type stepRef struct {
		call coreCall
		ref  Obs
	}
	serve := func(w *world, phase string, want []stepRef) ([]stepRef, *failure) {
		var out []stepRef
		for i, st := range steps {
			varsAtom := "nil"
			if st.Op.Vars != nil {
				vars, ok := h.registerDump(*st.Op.Vars)
				if !ok {
					return nil, &failure{"correspondence", "the step's variables are not a JSON object: " + *st.Op.Vars}
				}
				if vars.Class == "obj" {
					varsAtom = vars.Dump
				}
			}
			fl := w.flags
			call := coreCall{hook: fl.Hook, feat: fl.Feat, cost: fl.Cost, feats: st.Feats, q: st.Op.Query, op: st.Op.OpName, vars: varsAtom, exts: "nil"}
			ref, err := h.evalCore(w, call)
			if err != nil {
				return nil, &failure{"correspondence", err.Error()}
			}
			if len(ref.Resp) > 6 && ref.Resp[:7] == "panic: " {
				return nil, nil
			}
			o := h.runCarrier(w, st.Carrier, st.Op, st.Feats, spellRand(seed, fmt.Sprint(i, st.Carrier, phase)))
			if verbose {
				fmt.Printf("  %s [%s] step %d features=%q via %s\n      transport-free: %s\n      delivered:      %s\n", phase, fl, i, st.Feats, st.Carrier, abbrev(ref.key()), abbrev(o.key()))
			}
			if o.key() != ref.key() {
				return nil, &failure{"property", fmt.Sprintf("%s [%s] step %d: %s with features %q answers %s; that request run without a transport answers %s (query %q, variables %s)",
					phase, fl, i, st.Carrier, st.Feats, abbrev(o.key()), abbrev(ref.key()), abbrev(st.Op.Query), strPtr(st.Op.Vars))}
			}
			if want != nil && want[i].ref.key() != ref.key() {
				return nil, &failure{"property", fmt.Sprintf("%s [%s] step %d answers %s; the plain API built from the same definitions answered %s before the preprocessed API existed (query %q, operationName %q, variables %s, features %q)",
					phase, fl, i, abbrev(ref.key()), abbrev(want[i].ref.key()), abbrev(st.Op.Query), st.Op.OpName, strPtr(st.Op.Vars), st.Feats)}
			}
			out = append(out, stepRef{call, ref})
		}
		return out, nil
	}
	first, f := serve(wp, "plain API (before the clone)", nil)
	if f != nil || first == nil {
		return f
	}
	fam.Hook = true
	wh, err := newWorld(fam, d)
	if err != nil {
		return &failure{"property", fmt.Sprintf("apifu.NewAPI fails for the preprocessed API [%s] built after the plain API has served requests from the same definitions: %v", fam, err)}
	}
	defer wh.close()
	if _, f := serve(wh, "preprocessed API built late", first); f != nil {
		return f
	}
	_, f = serve(wp, "plain API (after the clone)", first)
	return f
}

func (h *harness) checkLateClone(cs Case, verbose bool) *failure {
	fam := allFlags()[int(cs.Seed%5)*2]
	if cs.Flags != nil {
		fam = *cs.Flags
	}
	f := h.playLateClone(cs.Hist, fam, cs.Seed, verbose)
	if f != nil && f.kind == "property" {
		// confirm on fresh definitions (rules out run-to-run nondeterminism)
		f2 := h.playLateClone(cs.Hist, fam, cs.Seed, false)
		if f2 == nil || f2.what != f.what || h.pipelineNondeterministic(cs.Hist, fam) {
			h.run.Count("op:nondeterministic-pipeline (skipped)")
			return nil
		}
	}
	h.run.Oblige("oracle L: a preprocessed API built late — from definitions the plain API has already served requests with — answers like the plain one, and the plain one is unchanged afterwards", "oracle", len(cs.Hist), f == nil || f.kind != "property", "")
	return f
}
