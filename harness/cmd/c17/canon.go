package main

// Canonical form of a GraphQL response: `data` keeps its key order and list order (both are part
// of the response), numbers keep the text the server wrote (decoded with UseNumber semantics: no
// float round trip), every error object is written with sorted keys and only the members the
// property names (message, locations, path) plus extensions; top level is data then errors.

import (
	"bytes"
	"encoding/json"
	"fmt"
	"io"
	"sort"
	"strings"
)

type jnode struct {
	kind  byte // 'o' 'a' 's' 'n' (number) 'l' (true/false/null literal)
	text  string
	keys  []string
	items []jnode
}

func parseOrdered(data []byte) (jnode, error) {
	dec := json.NewDecoder(bytes.NewReader(data))
	dec.UseNumber()
	n, err := parseNode(dec)
	if err != nil {
		return n, err
	}
	if _, err := dec.Token(); err != io.EOF {
		return n, fmt.Errorf("trailing data")
	}
	return n, nil
}

func parseNode(dec *json.Decoder) (jnode, error) {
	tok, err := dec.Token()
	if err != nil {
		return jnode{}, err
	}
	switch t := tok.(type) {
	case json.Delim:
		switch t {
		case '{':
			n := jnode{kind: 'o'}
			for dec.More() {
				kt, err := dec.Token()
				if err != nil {
					return n, err
				}
				k, ok := kt.(string)
				if !ok {
					return n, fmt.Errorf("non-string key")
				}
				v, err := parseNode(dec)
				if err != nil {
					return n, err
				}
				n.keys = append(n.keys, k)
				n.items = append(n.items, v)
			}
			_, err := dec.Token()
			return n, err
		case '[':
			n := jnode{kind: 'a'}
			for dec.More() {
				v, err := parseNode(dec)
				if err != nil {
					return n, err
				}
				n.items = append(n.items, v)
			}
			_, err := dec.Token()
			return n, err
		}
		return jnode{}, fmt.Errorf("unexpected delimiter %v", t)
	case string:
		return jnode{kind: 's', text: t}, nil
	case json.Number:
		return jnode{kind: 'n', text: t.String()}, nil
	case bool:
		if t {
			return jnode{kind: 'l', text: "true"}, nil
		}
		return jnode{kind: 'l', text: "false"}, nil
	case nil:
		return jnode{kind: 'l', text: "null"}, nil
	}
	return jnode{}, fmt.Errorf("unexpected token %v", tok)
}

// sortLists orders every list below n by the canonical text of its items (inner lists first).
func (n jnode) sortLists() jnode {
	out := n
	out.items = make([]jnode, len(n.items))
	for i, e := range n.items {
		out.items[i] = e.sortLists()
	}
	if n.kind == 'a' {
		texts := make([]string, len(out.items))
		for i, e := range out.items {
			var b strings.Builder
			e.write(&b, false)
			texts[i] = b.String()
		}
		idx := make([]int, len(texts))
		for i := range idx {
			idx[i] = i
		}
		sort.SliceStable(idx, func(a, c int) bool { return texts[idx[a]] < texts[idx[c]] })
		sorted := make([]jnode, len(idx))
		for j, i := range idx {
			sorted[j] = out.items[i]
		}
		out.items = sorted
	}
	return out
}

// introspectionKey: response keys under which the data comes from the introspection system, whose
// lists (types, fields, args, enumValues, …) are produced by ranging over Go maps: their order is
// arbitrary from one execution to the next and carries no meaning.
func introspectionKey(k string) bool {
	return strings.HasPrefix(k, "__") || strings.HasPrefix(k, "introspection_")
}

func (n jnode) get(key string) (jnode, bool) {
	for i, k := range n.keys {
		if k == key {
			return n.items[i], true
		}
	}
	return jnode{}, false
}

func (n jnode) write(b *strings.Builder, sortKeys bool) {
	switch n.kind {
	case 'o':
		idx := make([]int, len(n.keys))
		for i := range idx {
			idx[i] = i
		}
		if sortKeys {
			sort.SliceStable(idx, func(a, c int) bool { return n.keys[idx[a]] < n.keys[idx[c]] })
		}
		b.WriteByte('{')
		for j, i := range idx {
			if j > 0 {
				b.WriteByte(',')
			}
			k, _ := json.Marshal(n.keys[i])
			b.Write(k)
			b.WriteByte(':')
			n.items[i].write(b, sortKeys)
		}
		b.WriteByte('}')
	case 'a':
		b.WriteByte('[')
		for i, e := range n.items {
			if i > 0 {
				b.WriteByte(',')
			}
			e.write(b, sortKeys)
		}
		b.WriteByte(']')
	case 's':
		k, _ := json.Marshal(n.text)
		b.Write(k)
	default:
		b.WriteString(n.text)
	}
}

// canonResponse canonicalises the JSON text of a graphql.Response. ok=false: not a response object.
func canonResponse(raw []byte) (string, bool) {
	n, err := parseOrdered(raw)
	if err != nil || n.kind != 'o' {
		return "unparseable:" + string(raw), false
	}
	var b strings.Builder
	b.WriteString("{")
	first := true
	if d, ok := n.get("data"); ok {
		b.WriteString(`"data":`)
		if d.kind == 'o' {
			d.items = append([]jnode{}, d.items...)
			for i, k := range d.keys {
				if introspectionKey(k) {
					d.items[i] = d.items[i].sortLists()
				}
			}
		}
		d.write(&b, false)
		first = false
	}
	if e, ok := n.get("errors"); ok {
		if !first {
			b.WriteString(",")
		}
		b.WriteString(`"errors":`)
		e.write(&b, true)
		first = false
	}
	for i, k := range n.keys {
		if k != "data" && k != "errors" {
			if !first {
				b.WriteString(",")
			}
			kk, _ := json.Marshal(k)
			b.Write(kk)
			b.WriteString(":")
			n.items[i].write(&b, true)
			first = false
		}
	}
	b.WriteString("}")
	return b.String(), true
}

// canonJSON re-encodes arbitrary JSON text with sorted keys (used for decoded variables, where
// object member order carries no meaning).
func canonJSON(raw []byte) string {
	n, err := parseOrdered(raw)
	if err != nil {
		return "unparseable:" + string(raw)
	}
	var b strings.Builder
	n.write(&b, true)
	return b.String()
}
