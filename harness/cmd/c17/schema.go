package main

// The API under test: a schema whose resolvers echo their (coerced) arguments with Go type
// information, so that any difference in how a transport decodes variables shows in the response,
// plus everything the configurations of C17 can influence: a feature-gated field, cost functions
// with a multiplier, argument / input-field defaults, an enum, an interface with two
// implementations, a union, @skip/@include, a mutation type.

import (
	"context"
	"encoding/json"
	"fmt"
	"math"
	"net/http"
	"net/http/httptest"
	"sort"
	"strconv"
	"strings"
	"sync"
	"sync/atomic"

	apifu "github.com/ccbrown/api-fu"
	"github.com/ccbrown/api-fu/graphql"
	"github.com/ccbrown/api-fu/graphql/ast"
	"github.com/ccbrown/api-fu/graphql/schema"
	"github.com/sirupsen/logrus"
)

type ctxKey string

const (
	featKey ctxKey = "c17-features"
	costKey ctxKey = "c17-cost"
)

// Flags selects one API configuration.
type Flags struct {
	Hook bool `json:"hook"` // PreprocessGraphQLSchemaDefinition set (forces the clone path)
	Feat bool `json:"feat"` // Features function set
	Cost bool `json:"cost"` // DefaultFieldCost = {Resolver: 1}
	// NoExec: Config.Execute is left unset (the library's default graphql.Execute runs; the cost is
	// then not observable, but everything the cost rule does to the *response* still is)
	NoExec bool `json:"noexec,omitempty"`
}

func (f Flags) String() string {
	if f.NoExec {
		return fmt.Sprintf("hook=%v,feat=%v,cost=%v,no Execute hook", f.Hook, f.Feat, f.Cost)
	}
	return fmt.Sprintf("hook=%v,feat=%v,cost=%v", f.Hook, f.Feat, f.Cost)
}

func allFlags() []Flags {
	var out []Flags
	for i := 0; i < 8; i++ {
		out = append(out, Flags{Hook: i&1 != 0, Feat: i&2 != 0, Cost: i&4 != 0})
	}
	// one more family without an Execute hook (kept after the first eight: code indexes those)
	out = append(out, Flags{Feat: true, Cost: true, NoExec: true}, Flags{Hook: true, Feat: true, Cost: true, NoExec: true})
	return out
}

// world is one API instance with its loopback server and its logs.
type world struct {
	flags Flags
	api   *apifu.API
	srv   *httptest.Server

	mu    sync.Mutex
	calls []string // resolver call log
	costs []int    // RequestInfo.Cost as handed to Config.Execute

	ws map[string]*wsClient // persistent client connection per subprotocol
}

func (w *world) logCall(s string) {
	w.mu.Lock()
	w.calls = append(w.calls, s)
	w.mu.Unlock()
}

func (w *world) resetLogs() {
	w.mu.Lock()
	w.calls, w.costs = nil, nil
	w.mu.Unlock()
}

func (w *world) takeLogs() ([]string, []int) {
	w.mu.Lock()
	defer w.mu.Unlock()
	c, k := w.calls, w.costs
	w.calls, w.costs = nil, nil
	return c, k
}

// dumpValue renders a Go value with its dynamic types (float64 vs int vs json.Number vs string…),
// maps with sorted keys.
func dumpValue(v interface{}) string {
	var b strings.Builder
	var rec func(v interface{})
	rec = func(v interface{}) {
		switch x := v.(type) {
		case nil:
			b.WriteString("nil")
		case map[string]interface{}:
			keys := make([]string, 0, len(x))
			for k := range x {
				keys = append(keys, k)
			}
			sort.Strings(keys)
			b.WriteString("map{")
			for i, k := range keys {
				if i > 0 {
					b.WriteString(",")
				}
				b.WriteString(strconv.Quote(k) + ":")
				rec(x[k])
			}
			b.WriteString("}")
		case []interface{}:
			b.WriteString("list[")
			for i, e := range x {
				if i > 0 {
					b.WriteString(",")
				}
				rec(e)
			}
			b.WriteString("]")
		case float64:
			b.WriteString("float64(" + strconv.FormatFloat(x, 'g', -1, 64))
			if math.Signbit(x) && x == 0 {
				b.WriteString(" negzero")
			}
			b.WriteString(")")
		case string:
			b.WriteString("string(" + strconv.QuoteToASCII(x) + ")")
		default:
			fmt.Fprintf(&b, "%T(%v)", v, v)
		}
	}
	rec(v)
	return b.String()
}

func argsDump(args map[string]interface{}) string { return dumpValue(map[string]interface{}(args)) }

type thing struct {
	ID   string
	Name string
	N    int
}
type other struct{ Name string }

func literalToGo(v ast.Value) interface{} {
	switch v := v.(type) {
	case *ast.IntValue:
		return "int-literal:" + v.Value
	case *ast.FloatValue:
		return "float-literal:" + v.Value
	case *ast.StringValue:
		return "string-literal:" + v.Value
	case *ast.BooleanValue:
		return v.Value
	case *ast.EnumValue:
		return "enum-literal:" + v.Value
	case *ast.ListValue:
		out := []interface{}{}
		for _, e := range v.Values {
			out = append(out, literalToGo(e))
		}
		return out
	case *ast.ObjectValue:
		out := map[string]interface{}{}
		for _, f := range v.Fields {
			out[f.Name.Name] = literalToGo(f.Value)
		}
		return out
	}
	return nil
}

// defs is one set of type and field definition objects. Two APIs may be built from the *same* set
// (one through the preprocess / clone path, one without): the resolvers therefore find the world
// they are running for in the request context instead of closing over it.
type namedField struct {
	name string
	def  *graphql.FieldDefinition
}

type defs struct {
	query, mutation []namedField
	named           []graphql.NamedType
}

const worldKey ctxKey = "c17-world"

var orphanLogs int64 // resolver calls whose context did not carry a world (must stay 0)

func logCtx(ctx context.Context, s string) {
	if w, ok := ctx.Value(worldKey).(*world); ok && w != nil {
		w.logCall(s)
		return
	}
	atomic.AddInt64(&orphanLogs, 1)
}

func newDefs() *defs {
	d := &defs{}
	echo := func(name, arg string) func(graphql.FieldContext) (interface{}, error) {
		return func(ctx graphql.FieldContext) (interface{}, error) {
			logCtx(ctx.Context, name+argsDump(ctx.Arguments))
			return ctx.Arguments[arg], nil
		}
	}
	dump := func(name string) func(graphql.FieldContext) (interface{}, error) {
		return func(ctx graphql.FieldContext) (interface{}, error) {
			logCtx(ctx.Context, name+argsDump(ctx.Arguments))
			return argsDump(ctx.Arguments), nil
		}
	}

	colorType := &graphql.EnumType{
		Name: "Color",
		Values: map[string]*graphql.EnumValueDefinition{
			"RED":   {Value: "red"},
			"GREEN": {Value: "green"},
			"BLUE":  {Value: "blue", DeprecationReason: "no blue"},
		},
	}
	anyType := &graphql.ScalarType{
		Name:                  "Any",
		LiteralCoercion:       func(v ast.Value) interface{} { return literalToGo(v) },
		VariableValueCoercion: func(v interface{}) interface{} { return v },
		// results are rendered as a dump string: json-iterator writes Go maps in map-iteration order,
		// which would make the response text differ from run to run for reasons unrelated to transports
		ResultCoercion: func(v interface{}) interface{} { return dumpValue(v) },
	}
	inType := &graphql.InputObjectType{Name: "In"}
	inType.Fields = map[string]*graphql.InputValueDefinition{
		"a":      {Type: graphql.IntType},
		"b":      {Type: graphql.StringType, DefaultValue: "bee"},
		"c":      {Type: graphql.NewListType(graphql.FloatType)},
		"e":      {Type: colorType},
		"nested": {Type: inType},
		"any":    {Type: anyType},
		"id":     {Type: graphql.IDType},
		"flag":   {Type: graphql.BooleanType, DefaultValue: schema.Null},
	}
	namedIface := &graphql.InterfaceType{
		Name:   "Named",
		Fields: map[string]*graphql.FieldDefinition{"name": {Type: graphql.StringType}},
	}
	thingType := &graphql.ObjectType{
		Name:                  "Thing",
		ImplementedInterfaces: []*graphql.InterfaceType{namedIface},
		IsTypeOf:              func(v interface{}) bool { _, ok := v.(*thing); return ok },
	}
	thingType.Fields = map[string]*graphql.FieldDefinition{
		"id": {Type: graphql.NewNonNullType(graphql.IDType), Cost: graphql.FieldResolverCost(0), Resolve: func(ctx graphql.FieldContext) (interface{}, error) {
			return ctx.Object.(*thing).ID, nil
		}},
		"name": {Type: graphql.StringType, Resolve: func(ctx graphql.FieldContext) (interface{}, error) {
			logCtx(ctx.Context, "Thing.name")
			return ctx.Object.(*thing).Name, nil
		}},
		"n": {Type: graphql.IntType, Resolve: func(ctx graphql.FieldContext) (interface{}, error) {
			return ctx.Object.(*thing).N, nil
		}},
		"boom": {Type: graphql.StringType, Resolve: func(ctx graphql.FieldContext) (interface{}, error) {
			logCtx(ctx.Context, "Thing.boom")
			return nil, fmt.Errorf("boom %v", ctx.Object.(*thing).ID)
		}},
		"must": {Type: graphql.NewNonNullType(graphql.StringType),
			Arguments: map[string]*graphql.InputValueDefinition{"ok": {Type: graphql.BooleanType, DefaultValue: true}},
			Resolve: func(ctx graphql.FieldContext) (interface{}, error) {
				logCtx(ctx.Context, "Thing.must"+argsDump(ctx.Arguments))
				if ok, _ := ctx.Arguments["ok"].(bool); ok {
					return "must", nil
				}
				return nil, fmt.Errorf("must failed")
			}},
		"scaled": {Type: graphql.FloatType,
			Arguments: map[string]*graphql.InputValueDefinition{"by": {Type: graphql.FloatType, DefaultValue: 1.5}},
			Cost:      graphql.FieldResolverCost(3),
			Resolve: func(ctx graphql.FieldContext) (interface{}, error) {
				by, _ := ctx.Arguments["by"].(float64)
				return float64(ctx.Object.(*thing).N) * by, nil
			}},
		"secret": {Type: graphql.StringType, RequiredFeatures: graphql.NewFeatureSet("featA"), Resolve: func(ctx graphql.FieldContext) (interface{}, error) {
			logCtx(ctx.Context, "Thing.secret")
			return "s3cret", nil
		}},
	}
	otherType := &graphql.ObjectType{
		Name:                  "Other",
		ImplementedInterfaces: []*graphql.InterfaceType{namedIface},
		IsTypeOf:              func(v interface{}) bool { _, ok := v.(*other); return ok },
		Fields: map[string]*graphql.FieldDefinition{
			"name": {Type: graphql.StringType, Resolve: func(ctx graphql.FieldContext) (interface{}, error) {
				return ctx.Object.(*other).Name, nil
			}},
			"extra": {Type: graphql.IntType, Resolve: func(ctx graphql.FieldContext) (interface{}, error) { return 42, nil }},
		},
	}
	unionType := &graphql.UnionType{Name: "ThingOrOther", MemberTypes: []*graphql.ObjectType{thingType, otherType}}

	q := func(name string, def *graphql.FieldDefinition) { d.query = append(d.query, namedField{name, def}) }
	args := func(name string, t graphql.Type) map[string]*graphql.InputValueDefinition {
		return map[string]*graphql.InputValueDefinition{name: {Type: t}}
	}
	q("echoInt", &graphql.FieldDefinition{Type: graphql.IntType, Arguments: args("x", graphql.IntType), Resolve: echo("echoInt", "x")})
	q("echoFloat", &graphql.FieldDefinition{Type: graphql.FloatType, Arguments: args("x", graphql.FloatType), Resolve: echo("echoFloat", "x")})
	q("echoString", &graphql.FieldDefinition{Type: graphql.StringType, Arguments: args("s", graphql.StringType), Resolve: echo("echoString", "s")})
	// big(n): n bytes for a small request (phase P: answers that stall the server's socket writes)
	q("big", &graphql.FieldDefinition{Type: graphql.StringType,
		Arguments: map[string]*graphql.InputValueDefinition{"n": {Type: graphql.NewNonNullType(graphql.IntType)}},
		Resolve: func(ctx graphql.FieldContext) (interface{}, error) {
			n, _ := ctx.Arguments["n"].(int)
			if n < 0 || n > 1<<20 {
				return nil, fmt.Errorf("n out of range: %v", n)
			}
			return strings.Repeat("x", n), nil
		}})
	q("echoBool", &graphql.FieldDefinition{Type: graphql.BooleanType, Arguments: args("b", graphql.BooleanType), Resolve: echo("echoBool", "b")})
	q("echoID", &graphql.FieldDefinition{Type: graphql.IDType, Arguments: args("id", graphql.IDType), Resolve: echo("echoID", "id")})
	q("echoList", &graphql.FieldDefinition{Type: graphql.NewListType(graphql.IntType), Arguments: args("xs", graphql.NewListType(graphql.IntType)), Resolve: echo("echoList", "xs")})
	q("echoFloats", &graphql.FieldDefinition{Type: graphql.NewListType(graphql.FloatType),
		Arguments: args("xs", graphql.NewListType(graphql.NewNonNullType(graphql.FloatType))), Resolve: echo("echoFloats", "xs")})
	q("needInt", &graphql.FieldDefinition{Type: graphql.IntType, Arguments: args("x", graphql.NewNonNullType(graphql.IntType)), Resolve: echo("needInt", "x")})
	q("echoInput", &graphql.FieldDefinition{Type: graphql.StringType, Arguments: args("in", inType), Resolve: dump("echoInput")})
	q("echoInputs", &graphql.FieldDefinition{Type: graphql.StringType, Arguments: args("ins", graphql.NewListType(inType)), Resolve: dump("echoInputs")})
	q("dump", &graphql.FieldDefinition{Type: graphql.StringType, Arguments: args("v", anyType), Resolve: dump("dump")})
	q("anyBack", &graphql.FieldDefinition{Type: anyType, Arguments: args("v", anyType), Resolve: echo("anyBack", "v")})
	q("color", &graphql.FieldDefinition{Type: colorType, Arguments: args("c", colorType), Resolve: echo("color", "c")})
	q("withDefault", &graphql.FieldDefinition{Type: graphql.StringType,
		Arguments: map[string]*graphql.InputValueDefinition{
			"n": {Type: graphql.IntType, DefaultValue: 7},
			"s": {Type: graphql.StringType, DefaultValue: "dflt"},
			"e": {Type: colorType, DefaultValue: "green"},
			"z": {Type: graphql.FloatType, DefaultValue: schema.Null},
		},
		Resolve: dump("withDefault")})
	// asymmetric wrapper chains around user-defined types, at output, argument and input-field
	// positions ([T!] vs [T]!, [[T!]]!): a clone that rebuilds the chain differently changes nullability
	boxType := &graphql.InputObjectType{Name: "Box"}
	boxType.Fields = map[string]*graphql.InputValueDefinition{
		"items": {Type: graphql.NewListType(graphql.NewNonNullType(inType))},
		"req":   {Type: graphql.NewNonNullType(graphql.NewListType(colorType))},
		"deep":  {Type: graphql.NewListType(graphql.NewNonNullType(graphql.NewListType(colorType)))},
	}
	mkThings := func(ctx graphql.FieldContext) (interface{}, error) {
		logCtx(ctx.Context, "mkThings"+argsDump(ctx.Arguments))
		out := []interface{}{&thing{ID: "i0", Name: "item 0", N: 0}}
		if b, _ := ctx.Arguments["withNull"].(bool); b {
			out = append(out, nil)
		}
		return append(out, &thing{ID: "i2", Name: "item 2", N: 2}), nil
	}
	withNull := map[string]*graphql.InputValueDefinition{"withNull": {Type: graphql.BooleanType, DefaultValue: false}}
	q("itemsA", &graphql.FieldDefinition{Type: graphql.NewListType(graphql.NewNonNullType(thingType)), Arguments: withNull, Resolve: mkThings})
	q("itemsB", &graphql.FieldDefinition{Type: graphql.NewNonNullType(graphql.NewListType(thingType)), Arguments: withNull, Resolve: mkThings})
	q("grid", &graphql.FieldDefinition{Type: graphql.NewNonNullType(graphql.NewListType(graphql.NewListType(graphql.NewNonNullType(thingType)))), Arguments: withNull,
		Resolve: func(ctx graphql.FieldContext) (interface{}, error) {
			row, _ := mkThings(ctx)
			return []interface{}{row, nil}, nil
		}})
	q("palette", &graphql.FieldDefinition{Type: graphql.NewListType(graphql.NewNonNullType(colorType)), Arguments: withNull,
		Resolve: func(ctx graphql.FieldContext) (interface{}, error) {
			if b, _ := ctx.Arguments["withNull"].(bool); b {
				return []interface{}{"red", nil}, nil
			}
			return []interface{}{"red", "blue"}, nil
		}})
	q("paletteB", &graphql.FieldDefinition{Type: graphql.NewNonNullType(graphql.NewListType(colorType)), Arguments: withNull,
		Resolve: func(ctx graphql.FieldContext) (interface{}, error) {
			if b, _ := ctx.Arguments["withNull"].(bool); b {
				return []interface{}{"red", nil}, nil
			}
			return []interface{}{"green"}, nil
		}})
	q("paint", &graphql.FieldDefinition{Type: graphql.StringType, Arguments: args("colors", graphql.NewListType(graphql.NewNonNullType(colorType))), Resolve: dump("paint")})
	q("paintB", &graphql.FieldDefinition{Type: graphql.StringType, Arguments: args("colors", graphql.NewNonNullType(graphql.NewListType(colorType))), Resolve: dump("paintB")})
	q("insA", &graphql.FieldDefinition{Type: graphql.StringType, Arguments: args("ins", graphql.NewListType(graphql.NewNonNullType(inType))), Resolve: dump("insA")})
	q("insB", &graphql.FieldDefinition{Type: graphql.StringType, Arguments: args("ins", graphql.NewNonNullType(graphql.NewListType(inType))), Resolve: dump("insB")})
	q("echoBox", &graphql.FieldDefinition{Type: graphql.StringType, Arguments: args("box", boxType), Resolve: dump("echoBox")})
	q("gatedB", &graphql.FieldDefinition{Type: graphql.StringType, RequiredFeatures: graphql.NewFeatureSet("featB"),
		Resolve: func(ctx graphql.FieldContext) (interface{}, error) {
			logCtx(ctx.Context, "gatedB")
			return "behind featB", nil
		}})
	q("gatedAB", &graphql.FieldDefinition{Type: graphql.IntType, RequiredFeatures: graphql.NewFeatureSet("featA", "featB"), Cost: graphql.FieldResolverCost(4),
		Arguments: map[string]*graphql.InputValueDefinition{"x": {Type: graphql.IntType, DefaultValue: 1}},
		Resolve: func(ctx graphql.FieldContext) (interface{}, error) {
			logCtx(ctx.Context, "gatedAB"+argsDump(ctx.Arguments))
			return ctx.Arguments["x"], nil
		}})
	q("gated", &graphql.FieldDefinition{Type: graphql.StringType, RequiredFeatures: graphql.NewFeatureSet("featA"),
		Resolve: func(ctx graphql.FieldContext) (interface{}, error) {
			logCtx(ctx.Context, "gated")
			return "behind featA", nil
		}})
	q("featuresSeen", &graphql.FieldDefinition{Type: graphql.StringType,
		Resolve: func(ctx graphql.FieldContext) (interface{}, error) {
			var fs []string
			for f := range ctx.Features {
				fs = append(fs, f)
			}
			sort.Strings(fs)
			return strings.Join(fs, ","), nil
		}})
	q("fail", &graphql.FieldDefinition{Type: graphql.StringType, Arguments: args("msg", graphql.StringType),
		Resolve: func(ctx graphql.FieldContext) (interface{}, error) {
			logCtx(ctx.Context, "fail"+argsDump(ctx.Arguments))
			return nil, fmt.Errorf("failed: %v", ctx.Arguments["msg"])
		}})
	q("requestCost", &graphql.FieldDefinition{Type: graphql.IntType, Cost: graphql.FieldResolverCost(0),
		Resolve: func(ctx graphql.FieldContext) (interface{}, error) {
			if c, ok := ctx.Context.Value(costKey).(int); ok {
				return c, nil
			}
			return nil, nil
		}})
	q("things", &graphql.FieldDefinition{Type: graphql.NewListType(thingType),
		Arguments: map[string]*graphql.InputValueDefinition{"n": {Type: graphql.IntType, DefaultValue: 2}},
		Cost: func(ctx graphql.FieldCostContext) graphql.FieldCost {
			n, _ := ctx.Arguments["n"].(int)
			return graphql.FieldCost{Resolver: 1, Multiplier: n}
		},
		Resolve: func(ctx graphql.FieldContext) (interface{}, error) {
			logCtx(ctx.Context, "things"+argsDump(ctx.Arguments))
			n, _ := ctx.Arguments["n"].(int)
			if n < 0 || n > 5 {
				return nil, fmt.Errorf("n out of range: %v", n)
			}
			var out []interface{}
			for i := 0; i < n; i++ {
				out = append(out, &thing{ID: "t" + strconv.Itoa(i), Name: "thing " + strconv.Itoa(i), N: i})
			}
			return out, nil
		}})
	q("thing", &graphql.FieldDefinition{Type: thingType,
		Resolve: func(ctx graphql.FieldContext) (interface{}, error) { return &thing{ID: "t9", Name: "nine", N: 9}, nil }})
	q("named", &graphql.FieldDefinition{Type: graphql.NewListType(namedIface),
		Resolve: func(ctx graphql.FieldContext) (interface{}, error) {
			return []interface{}{&thing{ID: "t1", Name: "one", N: 1}, &other{Name: "an other"}}, nil
		}})
	q("either", &graphql.FieldDefinition{Type: unionType,
		Arguments: map[string]*graphql.InputValueDefinition{"other": {Type: graphql.BooleanType, DefaultValue: false}},
		Resolve: func(ctx graphql.FieldContext) (interface{}, error) {
			if b, _ := ctx.Arguments["other"].(bool); b {
				return &other{Name: "o"}, nil
			}
			return &thing{ID: "t3", Name: "three", N: 3}, nil
		}})
	d.mutation = append(d.mutation, namedField{"bump", &graphql.FieldDefinition{Type: graphql.IntType,
		Arguments: map[string]*graphql.InputValueDefinition{"by": {Type: graphql.NewNonNullType(graphql.IntType)}},
		Cost:      graphql.FieldResolverCost(5),
		Resolve: func(ctx graphql.FieldContext) (interface{}, error) {
			logCtx(ctx.Context, "bump"+argsDump(ctx.Arguments))
			by, _ := ctx.Arguments["by"].(int)
			return by + 1, nil
		}}})
	d.mutation = append(d.mutation, namedField{"note", &graphql.FieldDefinition{Type: graphql.StringType,
		Arguments: map[string]*graphql.InputValueDefinition{"s": {Type: graphql.StringType, DefaultValue: "none"}, "in": {Type: inType}},
		Resolve:   dump("note")}})
	d.named = append(d.named, otherType)
	return d
}

// newWorld builds an API (from the shared definitions d when given, else from fresh ones) and its
// loopback server.
func newWorld(flags Flags, d *defs) (*world, error) {
	w := &world{flags: flags, ws: map[string]*wsClient{}}
	cfg := &apifu.Config{}
	lg := logrus.New()
	lg.SetOutput(discard{})
	cfg.Logger = lg
	if d == nil {
		d = newDefs()
	}
	for _, f := range d.query {
		cfg.AddQueryField(f.name, f.def)
	}
	for _, f := range d.mutation {
		cfg.AddMutation(f.name, f.def)
	}
	for _, t := range d.named {
		cfg.AddNamedType(t)
	}

	if flags.Hook {
		// identity-like: documentation only (what the hook is documented for); forces Clone()
		cfg.PreprocessGraphQLSchemaDefinition = func(def *graphql.SchemaDefinition) error {
			def.Query.Description = "preprocessed"
			return nil
		}
	}
	if flags.Feat {
		cfg.Features = featuresFromContext
	}
	if flags.Cost {
		cfg.DefaultFieldCost = defaultCost(true)
	}
	if !flags.NoExec {
		cfg.Execute = w.executeHook
	}
	api, err := apifu.NewAPI(cfg)
	if err != nil {
		return nil, err
	}
	w.api = api
	mux := http.NewServeMux()
	withFeat := func(f func(http.ResponseWriter, *http.Request)) http.HandlerFunc {
		return func(rw http.ResponseWriter, r *http.Request) {
			f(rw, r.WithContext(w.baseContext(r.Context(), r.Header.Get(featHeader))))
		}
	}
	mux.HandleFunc("/graphql", withFeat(api.ServeGraphQL))
	mux.HandleFunc("/ws", withFeat(api.ServeGraphQLWS))
	w.srv = httptest.NewServer(mux)
	return w, nil
}

func defaultCost(on bool) graphql.FieldCost {
	if on {
		return graphql.FieldCost{Resolver: 1}
	}
	return graphql.FieldCost{}
}

// featHeader carries the principal's features on every incoming request (HTTP request, WebSocket
// upgrade): a comma-separated list. The server wrapper puts them into the request context, where
// Config.Features (when configured) reads them — per request on HTTP, once per connection on
// WebSocket.
const featHeader = "X-C17-Features"

var featChoices = []string{"", "featA", "featA,featB", "featB"}

func parseFeats(s string) graphql.FeatureSet {
	var fs []string
	for _, f := range strings.Split(s, ",") {
		if f != "" {
			fs = append(fs, f)
		}
	}
	return graphql.NewFeatureSet(fs...)
}

func (w *world) baseContext(ctx context.Context, feats string) context.Context {
	return context.WithValue(context.WithValue(ctx, worldKey, w), featKey, parseFeats(feats))
}

func featuresFromContext(ctx context.Context) graphql.FeatureSet {
	fs, _ := ctx.Value(featKey).(graphql.FeatureSet)
	return fs
}

// executeHook is Config.Execute: it exposes RequestInfo.Cost to the schema (field requestCost)
// and records it.
func (w *world) executeHook(r *graphql.Request, info *apifu.RequestInfo) *graphql.Response {
	w.mu.Lock()
	w.costs = append(w.costs, info.Cost)
	w.mu.Unlock()
	r2 := *r
	r2.Context = context.WithValue(r.Context, costKey, info.Cost)
	return graphql.Execute(&r2)
}

func (w *world) close() {
	for _, c := range w.ws {
		c.close()
	}
	w.api.CloseHijackedConnections()
	httpClient.CloseIdleConnections()
	w.srv.Close()
}

type discard struct{}

func (discard) Write(p []byte) (int, error) { return len(p), nil }

var _ = json.Marshal
