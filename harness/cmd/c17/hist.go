package main

// Histories: the property must hold for every request of a *sequence* served by one API instance —
// an answer may depend on the operation, its variables, operation name and the caller's features,
// never on what was served before or through which transport. A history is 2–4 requests that
// mostly repeat one query text while features / variables / operation name / transport vary; it is
// run on freshly built API instances (so that it replays by itself), each answer is compared with
// the transport-free run of *that* request.

import (
	"fmt"
	"strings"

	"verifharness/hx"
)

type Step struct {
	Op      Op     `json:"op"`
	Feats   string `json:"feats"`
	Carrier string `json:"carrier"`
}

// featureOps: operations whose validity / result depends on the caller's features, with and
// without variables and operation names.
func featureOps() []Op {
	sp := func(s string) *string { return &s }
	return []Op{
		{Query: "{ gated }"},
		{Query: "{ foo: featuresSeen gated }"},
		{Query: "{ gated gatedB }"},
		{Query: "{ gatedB gatedAB }"},
		{Query: "{ thing { secret name } requestCost }"},
		{Query: "{ things(n: 2) { id secret } featuresSeen }"},
		{Query: "query Q { gated gatedAB(x: 3) requestCost }", OpName: "Q"},
		{Query: "query Q { gated gatedAB(x: 3) requestCost }"},
		{Query: "query A { gated } query B { gatedB }", OpName: "A"},
		{Query: "query A { gated } query B { gatedB }", OpName: "B"},
		{Query: "query($x: Int) { gatedAB(x: $x) gated }", Vars: sp(`{"x": 5}`)},
		{Query: "query($x: Int) { gatedAB(x: $x) gated }"},
		{Query: "query($x: Int) { gatedAB(x: $x) gated }", Vars: sp(`{}`)},
		{Query: "query($b: Boolean!) { gated @include(if: $b) featuresSeen }", Vars: sp(`{"b": true}`)},
		{Query: "query($b: Boolean!) { gated @include(if: $b) featuresSeen }", Vars: sp(`{"b": false}`)},
		{Query: `{ __type(name: "Query") { fields { name } } }`},
		{Query: `{ __type(name: "Thing") { fields { name } } featuresSeen }`},
		{Query: "{ __typename gatedB }"},
		{Query: "mutation { bump(by: 1) }"},
		{Query: "{ echoInt(x: 1) requestCost }"},
	}
}

func carriersFor(op Op) []string {
	var out []string
	for _, c := range carriers {
		if canCarry(c, op) {
			out = append(out, c)
		}
	}
	return out
}

// genHist draws one history.
func genHist(r *hx.Rand) []Step {
	var base Op
	var spec *QSpec
	if r.Chance(3, 5) {
		base = hx.Pick(r, featureOps())
	} else {
		q, op := genOp(r)
		base, spec = op, &q
	}
	n := r.Range(2, 4)
	var steps []Step
	for i := 0; i < n; i++ {
		op := base
		switch r.Intn(8) {
		case 0: // the same text without variables
			op.Vars = nil
		case 1: // the same text, other variable values
			if spec != nil {
				op.Vars = genVars(r, *spec)
			} else if op.Vars != nil {
				v := hx.Pick(r, []string{`{"x": 7}`, `{"x": null}`, `{"b": true}`, `{"b": false}`, `{}`, `null`})
				op.Vars = &v
			}
		case 2: // the same text, another operation name
			op.OpName = hx.Pick(r, []string{"", "Q", "A", "B"})
		case 3: // something else in between
			if r.Bool() {
				op = hx.Pick(r, featureOps())
			} else {
				_, op = genOp(r)
			}
		}
		feats := hx.Pick(r, featChoices)
		if i == 0 && r.Bool() {
			feats = "featA,featB" // a privileged caller first
		}
		steps = append(steps, Step{Op: op, Feats: feats, Carrier: hx.Pick(r, carriersFor(op))})
	}
	return steps
}

func histNontrivial(steps []Step) bool {
	for i := range steps {
		for j := i + 1; j < len(steps); j++ {
			a, b := steps[i], steps[j]
			if a.Op.Query == b.Op.Query && (a.Feats != b.Feats || a.Carrier != b.Carrier || a.Op.OpName != b.Op.OpName || strPtr(a.Op.Vars) != strPtr(b.Op.Vars)) {
				return true
			}
		}
	}
	return false
}

// playHist runs the history on a fresh API instance of configuration fl. It returns the index of the
// first step whose answer differs from the transport-free run of that step (-1: none).
func (h *harness) playHist(steps []Step, fl Flags, seed uint64, verbose, withModel bool) (int, *failure) {
	w, err := newWorld(fl, nil)
	if err != nil {
		return -1, nil // reported at start-up
	}
	defer w.close()
	for i, st := range steps {
		vars := MapAbs{Class: "absent"}
		varsAtom := "nil"
		if st.Op.Vars != nil {
			var ok bool
			vars, ok = h.registerDump(*st.Op.Vars)
			if !ok {
				return i, &failure{"correspondence", "the step's variables are not a JSON object: " + *st.Op.Vars}
			}
			if vars.Class == "obj" {
				varsAtom = vars.Dump
			}
		}
		call := coreCall{hook: fl.Hook, feat: fl.Feat, cost: fl.Cost, feats: st.Feats, q: st.Op.Query, op: st.Op.OpName, vars: varsAtom, exts: "nil"}
		ref, err := h.evalCore(w, call)
		if err != nil {
			return i, &failure{"correspondence", err.Error()}
		}
		if strings.HasPrefix(ref.Resp, "panic: ") {
			h.run.Count("op:pipeline-panics (skipped, see C03)")
			return -1, nil
		}
		o := h.runCarrier(w, st.Carrier, st.Op, st.Feats, spellRand(seed, fmt.Sprint(i, st.Carrier, fl)))
		if verbose {
			fmt.Printf("  [%s] step %d features=%q via %s\n      transport-free: %s\n      delivered:      %s\n", fl, i, st.Feats, st.Carrier, ref.key(), o.key())
		}
		h.run.Count("hist:carrier:" + st.Carrier)
		if o.key() != ref.key() {
			return i, &failure{"property", fmt.Sprintf("[%s] step %d of a %d-step history on one API instance: %s with features %q answers %s; that request run without a transport answers %s (query %q, operationName %q, variables %s; earlier steps: %s)",
				fl, i, len(steps), st.Carrier, st.Feats, o.key(), ref.key(), st.Op.Query, st.Op.OpName, strPtr(st.Op.Vars), describeSteps(steps[:i]))}
		}
		if withModel {
			if rep, have := h.ask(h.modelLineForCarrier(st.Carrier, st.Op, vars, fl)); have {
				if verbose {
					fmt.Printf("      model:          %s\n", rep)
				}
				ok, detail := h.compareServedCached(w, rep, o, ref, call)
				h.run.Oblige("correspondence H: the (stateless) model's serve_t for every step of a history equals what the carrier delivered", "correspondence", 1, ok, detail)
				if !ok {
					return i, &failure{"correspondence", fmt.Sprintf("[%s] step %d: %s", fl, i, detail)}
				}
			}
		}
	}
	return -1, nil
}

func describeSteps(steps []Step) string {
	var parts []string
	for _, s := range steps {
		parts = append(parts, fmt.Sprintf("%s features=%q %q", s.Carrier, s.Feats, s.Op.Query))
	}
	return "[" + strings.Join(parts, "; ") + "]"
}

// histFlags: the configurations a history is played on — all four with a Features function (the
// request's features matter there) and one without.
func histFlags(seed uint64) []Flags {
	var out []Flags
	for _, fl := range allFlags() {
		if fl.Feat {
			out = append(out, fl)
		}
	}
	extra := allFlags()[:8][int(seed%4)]
	extra.Feat = false
	extra.Hook = seed&4 != 0
	extra.Cost = seed&8 != 0
	return append(out, extra)
}

// pipelineNondeterministic: does the transport-free run of some step answer differently from run to
// run on one and the same API? (Observed on the unchanged tree: a variable of an input-object type
// with two invalid fields is refused with the message of whichever field Go's map iteration
// visits first.) Such a request has no single "same response": a disagreement on it is not a
// finding. The harness's resolvers are stateless, so repeating a run is harmless.
func (h *harness) pipelineNondeterministic(steps []Step, fl Flags) bool {
	w, err := newWorld(fl, nil)
	if err != nil {
		return false
	}
	defer w.close()
	for _, st := range steps {
		varsAtom := "nil"
		if st.Op.Vars != nil {
			vars, ok := h.registerDump(*st.Op.Vars)
			if !ok {
				continue
			}
			if vars.Class == "obj" {
				varsAtom = vars.Dump
			}
		}
		call := coreCall{hook: fl.Hook, feat: fl.Feat, cost: fl.Cost, feats: st.Feats, q: st.Op.Query, op: st.Op.OpName, vars: varsAtom, exts: "nil"}
		seen := map[string]bool{}
		for k := 0; k < 16; k++ {
			ref, err := h.evalCore(w, call)
			if err != nil {
				break
			}
			seen[ref.key()] = true
		}
		if len(seen) > 1 {
			return true
		}
	}
	return false
}

// checkHist plays one history in several configurations; a failure is confirmed by replaying the
// history on fresh instances (which also rules out run-to-run nondeterminism of the pipeline).
func (h *harness) checkHist(cs Case, verbose bool) *failure {
	flags := histFlags(cs.Seed)
	if cs.Flags != nil {
		flags = []Flags{*cs.Flags}
	}
	for _, fl := range flags {
		at, f := h.playHist(cs.Hist, fl, cs.Seed, verbose, true)
		if f != nil && f.kind == "property" {
			confirmed := true
			for k := 0; k < 2 && confirmed; k++ {
				at2, f2 := h.playHist(cs.Hist, fl, cs.Seed, false, false)
				if f2 == nil || at2 != at || f2.what != f.what {
					confirmed = false
				}
			}
			if confirmed && h.pipelineNondeterministic(cs.Hist, fl) {
				confirmed = false
			}
			if !confirmed {
				h.run.Count("op:nondeterministic-pipeline (skipped)")
				continue
			}
		}
		h.run.Oblige("oracle H: every request of a history on one API instance answers like the transport-free run of that request (features, variables, operation name, transport varied between steps)", "oracle", len(cs.Hist), f == nil || f.kind != "property", "")
		if f != nil {
			return f
		}
	}
	return nil
}

// shrinkHist drops steps (never the failing one's identity: the last step must still fail the same way).
func (h *harness) shrinkHist(cs Case, f *failure) (Case, *failure) {
	fails := func(c Case) *failure {
		for _, fl := range histFlags(c.Seed) {
			if c.Flags != nil {
				fl = *c.Flags
			}
			if _, f2 := h.playHist(c.Hist, fl, c.Seed, false, false); f2 != nil && f2.kind == f.kind {
				fl2 := fl
				c.Flags = &fl2
				return f2
			}
			if c.Flags != nil {
				break
			}
		}
		return nil
	}
	// pin the configuration first
	if f2 := fails(cs); f2 != nil {
		for _, fl := range histFlags(cs.Seed) {
			c := cs
			fl := fl
			c.Flags = &fl
			if f3 := fails(c); f3 != nil {
				cs, f = c, f3
				break
			}
		}
	}
	for changed := true; changed; {
		changed = false
		for i := range cs.Hist {
			if len(cs.Hist) <= 1 {
				break
			}
			c := cs
			c.Hist = append(append([]Step{}, cs.Hist[:i]...), cs.Hist[i+1:]...)
			if f2 := fails(c); f2 != nil {
				cs, f, changed = c, f2, true
				break
			}
		}
	}
	return cs, f
}
