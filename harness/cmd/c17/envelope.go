package main

// Envelope correspondence (tie a): concrete HTTP requests and WebSocket frames whose abstract form
// (decoder outcomes) is known *by construction* are given to the real decoders
// (graphql.NewRequestFromHTTP; graphqlws / graphqltransportws Connection with a recording handler)
// and, in abstract form, to the model (decideHTTP / wsDecide).

import (
	"context"
	"encoding/json"
	"fmt"
	"io"
	"net/http"
	"net/http/httptest"
	"net/url"
	"strconv"
	"strings"
	"time"

	"github.com/ccbrown/api-fu/graphql"
	"github.com/ccbrown/api-fu/graphql/transport/graphqltransportws"
	"github.com/ccbrown/api-fu/graphql/transport/graphqlws"
	"github.com/gorilla/websocket"

	"verifharness/hx"
)

// ---- expected Go value of a JSON text, built without encoding/json's value decoder ---------------

func (n jnode) toGo() interface{} {
	switch n.kind {
	case 'o':
		m := map[string]interface{}{}
		for i, k := range n.keys {
			m[k] = n.items[i].toGo() // duplicate keys: the last one wins
		}
		return m
	case 'a':
		out := []interface{}{}
		for _, e := range n.items {
			out = append(out, e.toGo())
		}
		return out
	case 's':
		return n.text
	case 'n':
		f, _ := strconv.ParseFloat(n.text, 64)
		return f
	default:
		switch n.text {
		case "true":
			return true
		case "false":
			return false
		}
		return nil
	}
}

// dumpTable remembers the Go value behind every dump, so that model terms (which mention objects
// by their dump) can be evaluated with the real library.
var dumpTable = map[string]map[string]interface{}{}

// expectDump is the type-annotated dump of the Go value a JSON object text decodes to.
func expectDump(text string) string {
	n, err := parseOrdered([]byte(text))
	if err != nil || n.kind != 'o' {
		panic("generator produced something else than a JSON object: " + text)
	}
	v := n.toGo().(map[string]interface{})
	d := dumpValue(v)
	dumpTable[d] = v
	return d
}

// ---- abstract pieces ---------------------------------------------------------------------------------

// MapAbs: absent | empty | bad | null | obj (with Dump).
type MapAbs struct {
	Class string `json:"class"`
	Dump  string `json:"dump,omitempty"`
}

func (m MapAbs) sexpParam() string {
	if m.Class == "obj" {
		return hx.N("obj", hx.A(m.Dump)).String()
	}
	return m.Class
}

// sexpMap renders a decoded member (nil map or object).
func (m MapAbs) sexpMap() string {
	if m.Class == "obj" {
		return hx.N("obj", hx.A(m.Dump)).String()
	}
	return "nil"
}

func optStr(s *string) string {
	if s == nil {
		return "none"
	}
	return hx.N("s", hx.A(*s)).String()
}

// HTTPEnv is one concrete HTTP request together with its abstract form.
type HTTPEnv struct {
	Spec    httpSpec `json:"spec"`
	Method  string   `json:"method"` // get | post | other
	PQuery  *string  `json:"p_query"`
	PVars   MapAbs   `json:"p_vars"`
	POp     *string  `json:"p_op"`
	PExt    MapAbs   `json:"p_ext"`
	Media   string   `json:"media"`
	BodyOK  bool     `json:"body_ok"`
	BQuery  string   `json:"b_query"`
	BOp     string   `json:"b_op"`
	BVars   MapAbs   `json:"b_vars"` // nil (class "null") | obj
	BExt    MapAbs   `json:"b_ext"`
	Comment string   `json:"comment,omitempty"`
}

func (e HTTPEnv) absSexp() string {
	body := "bad"
	if e.BodyOK {
		body = fmt.Sprintf("(ok %s %s %s %s)", hx.A(e.BQuery).String(), hx.A(e.BOp).String(), e.BVars.sexpMap(), e.BExt.sexpMap())
	}
	return fmt.Sprintf("%s %s %s %s %s %s %s %s", e.Method, optStr(e.PQuery), e.PVars.sexpParam(), optStr(e.POp), e.PExt.sexpParam(), e.Media, body, hx.A(e.Spec.Body).String())
}

// dumpQuery echoes the variables the envelope generators use and needs an operation name, so that a
// transport that loses either shows in the response.
const dumpQuery = "query Q($a: Any, $b: Any, $v1: Any) { a: dump(v: $a) b: dump(v: $b) c: dump(v: $v1) featuresSeen requestCost } query R { __typename }"

// ---- spelling ----------------------------------------------------------------------------------------

var badMapTexts = []string{"{", "[1]", `"x"`, "5", `{"a":1} x`, `{"a":1e400}`, `{'a':1}`, `{"a":01}`, "nul", `{"a":"\x"}`, "true", `{"a":1,}`, "\ufeff{}", "}", `{"a" 1}`, `{"a":+1}`, `{"a":.5}`, "{\"a\":\"line\nbreak\"}"}

func genObjText(r *hx.Rand) string {
	n := r.Intn(4)
	var items []string
	for i := 0; i < n; i++ {
		k := hx.Pick(r, []string{"a", "b", "persistedQuery", "v1", "ключ", "", "a"})
		items = append(items, spellString(r, k)+ws(r)+":"+ws(r)+genAny(r, 2))
	}
	return ws(r) + "{" + ws(r) + strings.Join(items, ","+ws(r)) + "}" + ws(r)
}

// spellMapParam spells a JSON-valued URL parameter of the given class; it returns the raw
// `name=value` pairs (none for absent) and the abstract outcome.
func spellMapParam(r *hx.Rand, name, class string) ([]string, MapAbs) {
	esc := func(v string) string {
		if r.Bool() {
			return url.QueryEscape(v)
		}
		return strings.ReplaceAll(url.QueryEscape(v), "+", "%20")
	}
	switch class {
	case "absent":
		switch r.Intn(4) {
		case 0:
			return []string{name + "=%zz"}, MapAbs{Class: "absent"} // malformed escape: url.ParseQuery drops the pair
		case 1:
			return []string{name + "={;}"}, MapAbs{Class: "absent"} // raw semicolon: the pair is dropped
		}
		return nil, MapAbs{Class: "absent"}
	case "empty":
		if r.Chance(1, 3) {
			return []string{name}, MapAbs{Class: "empty"}
		}
		return []string{name + "="}, MapAbs{Class: "empty"}
	case "null":
		return []string{name + "=" + esc(ws(r)+"null"+ws(r))}, MapAbs{Class: "null"}
	case "bad":
		return []string{name + "=" + esc(hx.Pick(r, badMapTexts))}, MapAbs{Class: "bad"}
	case "obj":
		t := genObjText(r)
		pairs := []string{name + "=" + esc(t)}
		if r.Chance(1, 5) {
			pairs = append(pairs, name+"="+esc(hx.Pick(r, badMapTexts))) // a repeated parameter: the first one counts
		}
		return pairs, MapAbs{Class: "obj", Dump: expectDump(t)}
	}
	panic(class)
}

var queryTexts = []string{dumpQuery, dumpQuery, dumpQuery, "{ gated featuresSeen gatedB }", "{ gatedAB requestCost }", "{ a\n", "{ __typename }\n", "query Q(\r\n", "{ x {\n\n", "{ y\r", "{a}", "{ __typename }", "", "query Q { echoInt(x: 1) }", "{ ü }", "a+b&c=d%e;f#g", "{\n  x\n}", "😀", " "}

func spellStrParam(r *hx.Rand, name string, present bool) ([]string, *string) {
	if !present {
		if r.Chance(1, 4) {
			return []string{name + "=%f"}, nil // dropped pair
		}
		return nil, nil
	}
	v := hx.Pick(r, queryTexts)
	if name == "operationName" {
		v = hx.Pick(r, []string{"Q", "Q", "", "Op Name", "Ü", "a&b", "Q ", " Q", "q"})
	}
	pairs := []string{name + "=" + url.QueryEscape(v)}
	if r.Chance(1, 6) {
		pairs = append(pairs, name+"=second")
	}
	return pairs, &v
}

var mediaSpellings = map[string][]string{
	"json":       {"application/json", "application/json; charset=utf-8", "APPLICATION/JSON", " application/json", "application/json ;charset=x", "application/json;", "application/json; charset", "application/json;;", `application/json; charset="utf-8`},
	"graphql":    {"application/graphql", "application/graphql;charset=utf-8", "Application/GraphQL", "application/graphql; q"},
	"other":      {"text/plain", "application/jsonx", "multipart/form-data; boundary=x", "application/graphql+json", "json", "application/x-www-form-urlencoded", "application/xml"},
	"unparsable": {"", ";", "a/b/c", "application/json; a=1; a=2", "application/json, text/plain", "application / json"},
}

var methodSpellings = map[string][]string{
	"get":   {"GET"},
	"post":  {"POST"},
	"other": {"PUT", "DELETE", "PATCH", "HEAD", "OPTIONS", "get", "Post", "QUERY", "TRACE", "GETT", ""},
}

var badBodies = []string{"", " ", "{", "[]", `"str"`, "5", `{"query":5}`, `{"variables":[]}`, `{"variables":"x"}`, `{"operationName":{}}`, `{"query":"a",}`,
	`{"variables":{"a":1e400}}`, `{"query":"\x"}`, "\ufeff{}", `{"extensions":[1]}`, `{"query":"{a}"`, `{"query":"{a}","variables":{"a":}}`, "query={a}", `{"query":true}`, "{\"query\":\"a\nb\"}", `[{"query":"{a}"}]`, "nul", `{"extensions":5}`}

// spellBody spells a JSON body with a known decoding: class "ok" (members drawn at random),
// "null" (top-level null / empty object) or "bad".
func spellBody(r *hx.Rand, class string, e *HTTPEnv) string {
	e.BVars, e.BExt = MapAbs{Class: "null"}, MapAbs{Class: "null"}
	switch class {
	case "bad":
		e.BodyOK = false
		return hx.Pick(r, badBodies)
	case "null":
		e.BodyOK = true
		return hx.Pick(r, []string{"null", "{}", " null\n", "{ }", `{"other":1}`, `{"query":null,"variables":null,"operationName":null,"extensions":null}`})
	}
	e.BodyOK = true
	type member struct{ k, v string }
	var ms []member
	key := func(k string) string {
		switch r.Intn(8) {
		case 0:
			return strings.ToUpper(k) // encoding/json matches member names case-insensitively
		case 1:
			return strings.ToUpper(k[:1]) + k[1:]
		}
		return k
	}
	if r.Chance(5, 6) {
		e.BQuery = hx.Pick(r, queryTexts)
		ms = append(ms, member{key("query"), spellString(r, e.BQuery)})
	}
	if r.Chance(1, 2) {
		e.BOp = hx.Pick(r, []string{"Q", "Q", "", "Op Name", "Ü", "Q ", " Q", "q"})
		ms = append(ms, member{key("operationName"), spellString(r, e.BOp)})
	}
	for _, which := range []string{"variables", "extensions"} {
		abs := MapAbs{Class: "null"}
		switch r.Intn(4) {
		case 0:
		case 1:
			ms = append(ms, member{key(which), "null"})
		default:
			t := genObjText(r)
			ms = append(ms, member{key(which), t})
			abs = MapAbs{Class: "obj", Dump: expectDump(t)}
		}
		if which == "variables" {
			e.BVars = abs
		} else {
			e.BExt = abs
		}
	}
	if r.Chance(1, 4) {
		ms = append(ms, member{"unknownMember", genAny(r, 2)})
	}
	hx.Shuffle(r, ms)
	var parts []string
	for _, m := range ms {
		parts = append(parts, ws(r)+jstr(m.k)+ws(r)+":"+ws(r)+m.v)
	}
	body := ws(r) + "{" + strings.Join(parts, ",") + ws(r) + "}"
	switch r.Intn(6) {
	case 0:
		body += " trailing bytes are not read" // Decoder.Decode stops after the first value
		e.Comment = "trailing bytes"
	case 1:
		body += "\n{\"query\":\"second value\"}"
	}
	return body
}

// buildHTTPEnv spells one HTTP request of the given abstract classes.
func buildHTTPEnv(r *hx.Rand, method string, pq bool, pv string, po bool, pe string, media string, body string) HTTPEnv {
	e := HTTPEnv{Method: method, Media: media}
	e.Spec.Method = hx.Pick(r, methodSpellings[method])
	var pairs []string
	p, s := spellStrParam(r, "query", pq)
	pairs, e.PQuery = append(pairs, p...), s
	p, m := spellMapParam(r, "variables", pv)
	pairs, e.PVars = append(pairs, p...), m
	p, s = spellStrParam(r, "operationName", po)
	pairs, e.POp = append(pairs, p...), s
	p, m = spellMapParam(r, "extensions", pe)
	pairs, e.PExt = append(pairs, p...), m
	if r.Chance(1, 4) {
		pairs = append(pairs, "unrelated=1")
	}
	// keep the relative order of repeated parameters (the first one counts), shuffle the groups
	groups := map[string][]string{}
	var names []string
	for _, p := range pairs {
		n := strings.SplitN(p, "=", 2)[0]
		if _, ok := groups[n]; !ok {
			names = append(names, n)
		}
		groups[n] = append(groups[n], p)
	}
	hx.Shuffle(r, names)
	var out []string
	for _, n := range names {
		out = append(out, groups[n]...)
	}
	e.Spec.RawQuery = strings.Join(out, "&")
	e.Spec.ContentType = hx.Pick(r, mediaSpellings[media])
	e.Spec.Feats = hx.Pick(r, featChoices)
	if media == "graphql" && body != "bad" {
		e.Spec.Body = hx.Pick(r, queryTexts)
		// the abstract JSON outcome of that body (not consulted on this branch)
		e.BodyOK = false
		e.BVars, e.BExt = MapAbs{Class: "null"}, MapAbs{Class: "null"}
	} else {
		e.Spec.Body = spellBody(r, body, &e)
	}
	return e
}

// ---- the real decoder --------------------------------------------------------------------------------

func mapDump(m map[string]interface{}) string {
	if m == nil {
		return "nil"
	}
	return hx.N("obj", hx.A(dumpValue(m))).String()
}

func realNewRequestFromHTTP(s httpSpec) (out string) {
	defer func() {
		if p := recover(); p != nil {
			out = fmt.Sprintf("panic: %v", p)
		}
	}()
	req := &http.Request{Method: s.Method, URL: &url.URL{Path: "/graphql", RawQuery: s.RawQuery}, Header: http.Header{},
		Body: io.NopCloser(strings.NewReader(s.Body)), ContentLength: int64(len(s.Body))}
	if s.ContentType != "" {
		req.Header.Set("Content-Type", s.ContentType)
	}
	req = req.WithContext(context.Background())
	gr, code, err := graphql.NewRequestFromHTTP(req)
	if err != nil {
		if gr != nil {
			return fmt.Sprintf("error %d with a non-nil request", code)
		}
		return hx.N("reject", hx.I(int64(code)), hx.A(err.Error())).String()
	}
	if code != 200 || gr == nil {
		return fmt.Sprintf("no error but code %d / request %v", code, gr)
	}
	return fmt.Sprintf("(req %s %s %s %s)", hx.A(gr.Query).String(), hx.A(gr.OperationName).String(), mapDump(gr.VariableValues), mapDump(gr.Extensions))
}

// expectedHTTP is the harness's own statement of the envelope rules (used without the model and
// as a cross-check of the generator): GraphQL-over-HTTP as NewRequestFromHTTP documents it.
func expectedHTTP(e HTTPEnv) string {
	rej := func(code int, msg string) string { return hx.N("reject", hx.I(int64(code)), hx.A(msg)).String() }
	str := func(s *string) string {
		if s == nil {
			return ""
		}
		return *s
	}
	switch e.Method {
	case "get":
		if e.PVars.Class == "bad" {
			return rej(400, "malformed variables parameter")
		}
		if e.PExt.Class == "bad" {
			return rej(400, "malformed extensions parameter")
		}
		return fmt.Sprintf("(req %s %s %s %s)", hx.A(str(e.PQuery)).String(), hx.A(str(e.POp)).String(), e.PVars.sexpMap(), e.PExt.sexpMap())
	case "post":
		switch e.Media {
		case "json":
			if !e.BodyOK {
				return rej(400, "malformed request body")
			}
			return fmt.Sprintf("(req %s %s %s %s)", hx.A(e.BQuery).String(), hx.A(e.BOp).String(), e.BVars.sexpMap(), e.BExt.sexpMap())
		case "graphql":
			return fmt.Sprintf("(req %s %s nil nil)", hx.A(e.Spec.Body).String(), `""`)
		}
		return rej(400, "invalid content-type")
	}
	return rej(405, "method not allowed")
}

// ---- WebSocket envelopes -------------------------------------------------------------------------------

type WSEnv struct {
	Kind    string `json:"kind"` // graphql-ws | graphql-transport-ws
	DidInit bool   `json:"did_init"`
	Frame   string `json:"frame"`
	// abstract
	Undecodable bool   `json:"undecodable"`
	ID          string `json:"id"`
	PayloadOK   bool   `json:"payload_ok"`
	Query       string `json:"query"`
	OpName      string `json:"op_name"`
	Vars        MapAbs `json:"vars"`
	Feats       string `json:"feats,omitempty"` // the principal's features on the upgrade request
}

func kindAtom(kind string) string {
	if kind == cTransportWs {
		return "tws"
	}
	return "gql"
}

func (e WSEnv) absSexp() string {
	msg := "undecodable"
	if !e.Undecodable {
		p := "bad"
		if e.PayloadOK {
			p = fmt.Sprintf("(ok %s %s %s)", hx.A(e.Query).String(), e.Vars.sexpMap(), hx.A(e.OpName).String())
		}
		msg = fmt.Sprintf("(start %s %s)", hx.A(e.ID).String(), p)
	}
	return fmt.Sprintf("%s %v %s", kindAtom(e.Kind), e.DidInit, msg)
}

var undecodableFrames = []string{"{", "", "[]", `"x"`, "nul", `{"type":5}`, `{"id":5,"type":"start"}`, `{"type":"start","payload":}`, "\ufeff{}", `{"type":"start"} x`, `{"type":"start","payload":{"query":"{a}"}`}
var badPayloads = []string{"[]", `"x"`, "5", `{"query":5}`, `{"variables":[]}`, `{"variables":"x"}`, `{"operationName":{}}`, `{"variables":{"a":1e400}}`, "true", `{"query":["{a}"]}`, `{"operationName":1}`}

func buildWSEnv(r *hx.Rand, kind string, didInit bool, class string) WSEnv {
	e := WSEnv{Kind: kind, DidInit: didInit, Vars: MapAbs{Class: "null"}, Feats: hx.Pick(r, featChoices)}
	if class == "undecodable" {
		e.Undecodable = true
		e.Frame = hx.Pick(r, undecodableFrames)
		return e
	}
	e.ID = hx.Pick(r, []string{"1", "", "op-ü", "a b", "0"})
	payload := ""
	switch class {
	case "absent":
		payload = ""
	case "bad":
		payload = hx.Pick(r, badPayloads)
	case "null":
		e.PayloadOK = true
		payload = hx.Pick(r, []string{"null", "{}", `{"extensions":{"persistedQuery":{"version":1}}}`, `{"query":null,"variables":null}`})
	case "ok":
		e.PayloadOK = true
		type member struct{ k, v string }
		var ms []member
		if r.Chance(5, 6) {
			e.Query = hx.Pick(r, queryTexts)
			ms = append(ms, member{"query", spellString(r, e.Query)})
		}
		if r.Chance(1, 2) {
			e.OpName = hx.Pick(r, []string{"Q", "Q", "", "Op Name", "Ü", "Q ", " Q", "q"})
			ms = append(ms, member{"operationName", spellString(r, e.OpName)})
		}
		switch r.Intn(4) {
		case 0:
		case 1:
			ms = append(ms, member{"variables", "null"})
		default:
			t := genObjText(r)
			ms = append(ms, member{"variables", t})
			e.Vars = MapAbs{Class: "obj", Dump: expectDump(t)}
		}
		if r.Chance(1, 4) {
			ms = append(ms, member{"extensions", genObjText(r)})
		}
		hx.Shuffle(r, ms)
		var parts []string
		for _, m := range ms {
			parts = append(parts, ws(r)+jstr(m.k)+ws(r)+":"+ws(r)+m.v)
		}
		payload = "{" + strings.Join(parts, ",") + ws(r) + "}"
	}
	ms := [][2]string{{"type", jstr(startType(kind))}}
	if e.ID != "" || r.Bool() {
		ms = append(ms, [2]string{"id", jstr(e.ID)})
	}
	if payload != "" {
		ms = append(ms, [2]string{"payload", payload})
	}
	if r.Chance(1, 5) {
		ms = append(ms, [2]string{"extra", "[1]"})
	}
	hx.Shuffle(r, ms)
	var parts []string
	for _, m := range ms {
		parts = append(parts, ws(r)+jstr(m[0])+":"+ws(r)+m[1])
	}
	e.Frame = "{" + strings.Join(parts, ",") + "}" + ws(r)
	return e
}

func expectedWS(e WSEnv) string {
	tws := e.Kind == cTransportWs
	if e.Undecodable {
		if tws {
			return `(close 4400 "unable to deserialize message")`
		}
		return "ignore"
	}
	if !e.DidInit {
		return "ignore"
	}
	if !e.PayloadOK {
		if tws {
			return `(close 4400 "unable to deserialize payload")`
		}
		return "ignore"
	}
	return fmt.Sprintf("(start %s %s %s %s)", hx.A(e.ID).String(), hx.A(e.Query).String(), e.Vars.sexpMap(), hx.A(e.OpName).String())
}

// recHandler records what the real Connection hands to its handler.
type recHandler struct {
	events chan string
}

func (h *recHandler) HandleInit(json.RawMessage) error { return nil }
func (h *recHandler) HandleStart(id, query string, variables map[string]interface{}, operationName string) {
	h.events <- fmt.Sprintf("(start %s %s %s %s)", hx.A(id).String(), hx.A(query).String(), mapDump(variables), hx.A(operationName).String())
}
func (h *recHandler) HandleStop(id string) {}
func (h *recHandler) LogError(err error)   {}
func (h *recHandler) Cancel() {
	select {
	case h.events <- "cancel": // beginClosing ran (synchronously, before any later frame is handled)
	default:
	}
}
func (h *recHandler) HandleClose() {}

type wsDecoderServer struct {
	srv *httptest.Server
	cur chan *recHandler
}

func newWSDecoderServer() *wsDecoderServer {
	s := &wsDecoderServer{cur: make(chan *recHandler, 1)}
	up := websocket.Upgrader{Subprotocols: []string{graphqlws.WebSocketSubprotocol, graphqltransportws.WebSocketSubprotocol}}
	s.srv = httptest.NewServer(http.HandlerFunc(func(w http.ResponseWriter, r *http.Request) {
		conn, err := up.Upgrade(w, r, nil)
		if err != nil {
			return
		}
		h := &recHandler{events: make(chan string, 16)}
		s.cur <- h
		if conn.Subprotocol() == graphqltransportws.WebSocketSubprotocol {
			(&graphqltransportws.Connection{Handler: h}).Serve(conn)
		} else {
			(&graphqlws.Connection{Handler: h}).Serve(conn)
		}
	}))
	return s
}

const sentinelID = "c17-sentinel"

// realWSDecode sends the frame to a real Connection and reports what reached the handler.
func (s *wsDecoderServer) realWSDecode(e WSEnv) string {
	d := &websocket.Dialer{HandshakeTimeout: wsTimeout, Subprotocols: []string{e.Kind}}
	conn, _, err := d.Dial("ws"+strings.TrimPrefix(s.srv.URL, "http"), nil)
	if err != nil {
		return "dial error: " + err.Error()
	}
	defer conn.Close()
	h := <-s.cur
	closed := make(chan string, 1)
	go func() {
		for {
			conn.SetReadDeadline(time.Now().Add(wsTimeout))
			if _, _, err := conn.ReadMessage(); err != nil {
				if ce, ok := err.(*websocket.CloseError); ok {
					closed <- hx.N("close", hx.I(int64(ce.Code)), hx.A(ce.Text)).String()
				} else {
					closed <- "read error: " + err.Error()
				}
				return
			}
		}
	}()
	send := func(t string) { conn.WriteMessage(websocket.TextMessage, []byte(t)) }
	if e.DidInit {
		send(`{"type":"connection_init"}`)
	}
	send(e.Frame)
	if !e.DidInit {
		send(`{"type":"connection_init"}`)
	}
	send(`{"id":"` + sentinelID + `","type":` + jstr(startType(e.Kind)) + `,"payload":{"query":"sentinel"}}`)
	var got []string
	cancelled := false
	for {
		select {
		case ev := <-h.events:
			if ev == "cancel" {
				cancelled = true
				continue
			}
			if strings.HasPrefix(ev, "(start "+sentinelID+" ") {
				if cancelled {
					// the connection began closing before the sentinel was handled: the close frame is on its way
					select {
					case c := <-closed:
						if len(got) > 0 {
							return fmt.Sprintf("%s after handler calls %q", c, got)
						}
						return c
					case <-time.After(wsTimeout):
						waitExpired()
						return "timeout waiting for the close frame"
					}
				}
				conn.WriteControl(websocket.CloseMessage, websocket.FormatCloseMessage(websocket.CloseNormalClosure, ""), time.Now().Add(time.Second))
				switch len(got) {
				case 0:
					return "ignore"
				case 1:
					return got[0]
				}
				return fmt.Sprintf("several handler calls: %q", got)
			}
			got = append(got, ev)
		case c := <-closed:
			// drain handler events that were delivered before the close
			for {
				select {
				case ev := <-h.events:
					if ev != "cancel" && !strings.HasPrefix(ev, "(start "+sentinelID+" ") {
						got = append(got, ev)
					}
					continue
				default:
				}
				break
			}
			if len(got) > 0 {
				return fmt.Sprintf("%s after handler calls %q", c, got)
			}
			return c
		case <-time.After(wsTimeout):
			waitExpired()
			return "timeout"
		}
	}
}
