package main

// Tie A0: the net/url transliteration in lean/ApiFu/C17/UrlCodec.lean (goUrlGet / goUrlEncode, for
// which the url_get law is proved) against the real net/url on generated query strings.

import (
	"fmt"
	"net/url"
	"strings"
	"unicode/utf8"

	"verifharness/hx"
)

type URLCase struct {
	Raw   string      `json:"raw,omitempty"`
	Keys  []string    `json:"keys,omitempty"`
	Pairs [][2]string `json:"pairs,omitempty"` // for the encoder direction
}

var urlAtoms = []string{"a", "b", "query", "variables", "", "k%20x", "%7B%22a%22%3A1%7D", "ü", "%C3%BC", "+", "%2B", "%", "%2", "%zz", "%4g", "%e4%b8%96",
	";", "%3B", "=", "%3D", "&", "%26", "{", "}", " ", "%20", "a+b", "x=y", "%00", "\t", "#", "?", "/", "日本", "~-_.", "%7e", "%7E", "null", "1e400", "%41%42", "%FF"}

func genRawQuery(r *hx.Rand) (string, []string) {
	n := r.Intn(6)
	var parts, keys []string
	for i := 0; i < n; i++ {
		k := hx.Pick(r, urlAtoms)
		for j := r.Intn(3); j > 0; j-- {
			k += hx.Pick(r, urlAtoms)
		}
		switch r.Intn(5) {
		case 0:
			parts = append(parts, k) // no '='
		default:
			v := ""
			for j := r.Intn(4); j > 0; j-- {
				v += hx.Pick(r, urlAtoms)
			}
			parts = append(parts, k+"="+v)
		}
		if dk, err := url.QueryUnescape(strings.SplitN(k, "=", 2)[0]); err == nil {
			keys = append(keys, dk)
		}
	}
	if r.Chance(1, 4) && len(parts) > 0 {
		parts = append(parts, parts[r.Intn(len(parts))]) // repeated parameter
	}
	raw := strings.Join(parts, hx.Pick(r, []string{"&", "&", "&", "&&", ";"}))
	keys = append(keys, "missing", "")
	return raw, keys
}

func (h *harness) checkURL(c URLCase, verbose bool) *failure {
	if h.model == nil {
		return nil
	}
	if c.Pairs != nil {
		var want []string
		line := "(url-encode"
		for _, p := range c.Pairs {
			want = append(want, url.QueryEscape(p[0])+"="+url.QueryEscape(p[1]))
			line += " (" + hx.A(p[0]).String() + " " + hx.A(p[1]).String() + ")"
		}
		line += ")"
		rep, _ := h.ask(line)
		exp := hx.N("raw", hx.A(strings.Join(want, "&"))).String()
		if verbose {
			fmt.Printf("  net/url: %s\n  model:   %s\n", exp, rep)
		}
		ok := rep == exp
		h.run.Oblige("correspondence A0: net/url QueryEscape / ParseQuery+Get = model goUrlEncode / goUrlGet (UrlCodec.lean)", "correspondence", 1, ok, fmt.Sprintf("encode %q: net/url %s, model %s", c.Pairs, exp, rep))
		if !ok {
			return &failure{"correspondence", fmt.Sprintf("url encoding of %q: net/url %s, model %s", c.Pairs, exp, rep)}
		}
		return nil
	}
	if !utf8.ValidString(c.Raw) {
		return nil
	}
	vals, _ := url.ParseQuery(c.Raw) // errors are ignored by URL.Query() as well
	for _, k := range c.Keys {
		if !utf8.ValidString(k) {
			continue
		}
		exp := "none"
		if vs, ok := vals[k]; ok {
			if !utf8.ValidString(vs[0]) {
				h.run.Count("url:value-not-utf8 (skipped)")
				continue
			}
			exp = hx.N("s", hx.A(vs[0])).String()
			h.run.Count("url:get:present")
		} else {
			h.run.Count("url:get:absent")
		}
		rep, _ := h.ask("(url-get " + hx.A(c.Raw).String() + " " + hx.A(k).String() + ")")
		if verbose {
			fmt.Printf("  key %q: net/url %s, model %s\n", k, exp, rep)
		}
		ok := rep == exp
		h.run.Oblige("correspondence A0: net/url QueryEscape / ParseQuery+Get = model goUrlEncode / goUrlGet (UrlCodec.lean)", "correspondence", 1, ok, fmt.Sprintf("raw %q key %q: net/url %s, model %s", c.Raw, k, exp, rep))
		if !ok {
			return &failure{"correspondence", fmt.Sprintf("URL.Query() of %q under %q: net/url %s, model %s", c.Raw, k, exp, rep)}
		}
	}
	return nil
}

func genURLPairs(r *hx.Rand) [][2]string {
	n := r.Range(0, 4)
	var out [][2]string
	pool := append(append([]string{}, stringPool...), queryTexts...)
	pool = append(pool, "variables", "query", "{\"a\":[1,2,{\"b\":\"é\"}]}", "a=b&c=d;e", "100%", "+", "~-_.")
	for i := 0; i < n; i++ {
		out = append(out, [2]string{hx.Pick(r, pool), hx.Pick(r, pool)})
	}
	return out
}
