package main

// Very large documents: the same operation padded with ignored tokens (white space, commas, line
// terminators, a comment) so that significant tokens sit just before, across and just after round
// sizes (64 KiB, 1 MiB, 4 MiB) — limits on request size, where a route has one, must reject the
// request, never serve a prefix of it. The documents are described by a small spec and rendered at
// run time, so replay files stay small.

import (
	"fmt"
	"net/url"
	"strings"
)

type BigSpec struct {
	Shape string `json:"shape"` // continue | second-operation | split-name | long-string
	Pad   string `json:"pad"`   // space | comma | newline | crlf | tab | comment
	Total int    `json:"total"` // length of the whole document in bytes
}

func (b BigSpec) render() Op {
	prefix, suffix := "{ a: echoInt(x: 1)", " b: echoInt(x: 2) }"
	switch b.Shape {
	case "second-operation":
		// two anonymous operations: invalid as a whole; the first alone would run resolver a
		prefix, suffix = "{ a: echoInt(x: 1) }", "{ b: echoInt(x: 2) }"
	case "split-name":
		prefix, suffix = "{ a: echoInt(x: 1) ", "bbbbbbbbbbbb: echoInt(x: 2) }"
	case "long-string":
		prefix, suffix = `{ a: echoInt(x: 1) s: echoString(s: "`, `") b: echoInt(x: 2) }`
	}
	n := b.Total - len(prefix) - len(suffix)
	if n < 0 {
		n = 0
	}
	var pad string
	switch {
	case b.Shape == "long-string":
		pad = strings.Repeat("x", n)
	case b.Pad == "comma":
		pad = strings.Repeat(",", n)
	case b.Pad == "newline":
		pad = strings.Repeat("\n", n)
	case b.Pad == "crlf":
		pad = strings.Repeat("\r\n", n/2) + strings.Repeat(" ", n%2)
	case b.Pad == "tab":
		pad = strings.Repeat("\t", n)
	case b.Pad == "comment":
		if n >= 2 {
			pad = "#" + strings.Repeat("c", n-2) + "\n"
		} else {
			pad = strings.Repeat(" ", n)
		}
	default:
		pad = strings.Repeat(" ", n)
	}
	return Op{Query: prefix + pad + suffix}
}

// bigSpecs: totals around each round size T: T-1, T, T+1, and "the suffix starts exactly at T".
func bigSpecs(thorough bool) []struct {
	Spec     BigSpec
	Families int // how many (features, cost) families run it (cost control)
} {
	type item = struct {
		Spec     BigSpec
		Families int
	}
	var out []item
	pads := []string{"space", "comma", "newline", "crlf", "tab", "comment"}
	k := 0
	add := func(shape string, total, fam int) {
		out = append(out, item{BigSpec{Shape: shape, Pad: pads[k%len(pads)], Total: total}, fam})
		k++
	}
	for _, shape := range []string{"continue", "second-operation", "split-name"} {
		sfx := len(" b: echoInt(x: 2) }")
		for _, d := range []int{-1, 0, 1, sfx, sfx + 7} {
			add(shape, 1<<16+d, 2)
		}
	}
	add("long-string", 1<<12+5, 1) // string literals are scanned slowly by the library (C12): keep it small
	for _, shape := range []string{"continue", "second-operation", "split-name"} {
		for _, d := range []int{0, 1, 23} {
			add(shape, 1<<20+d, 1)
		}
	}
	add("second-operation", 1<<22+9, 1)
	if thorough {
		add("continue", 1<<22+1, 1)
		for _, shape := range []string{"continue", "second-operation", "split-name"} {
			for _, t := range []int{1 << 16, 1 << 17, 1 << 19, 1 << 20, 1 << 21, 1 << 22} {
				for _, d := range []int{-1, 0, 1, 19} {
					add(shape, t+d, 1)
				}
			}
		}
	}
	return out
}

// getCanCarry: net/http refuses request lines + headers above 1 MiB (DefaultMaxHeaderBytes), so a
// GET cannot carry a document whose escaped form approaches that — the server's limit, not the
// library's.
func getCanCarry(op Op) bool {
	if len(op.Query) < 200000 {
		return true
	}
	n := len(url.QueryEscape(op.Query))
	if op.Vars != nil {
		n += len(url.QueryEscape(*op.Vars))
	}
	return n < 900000
}

// abbrev shortens huge texts in messages.
func abbrev(s string) string {
	if len(s) <= 400 {
		return s
	}
	return fmt.Sprintf("%s …(%d bytes)… %s", s[:160], len(s), s[len(s)-120:])
}
