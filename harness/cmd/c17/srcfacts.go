// C17 harness — phase S: the shape of the pipelines, read from the CURRENT source of the repository
// under test ($VERIF_REPO) with go/parser, compared with the committed table
// pipeline_expected.json whose rows name the model definition / theorem hypothesis each statement
// justifies.
//
// The Lean model of the two pipelines (Model.lean: decideHTTP, wsDecide, serveGraphQL, handleStart,
// Api.schema) is a transliteration of seven Go functions. The differential phases tie the model's
// *behaviour* to the code on generated inputs; this phase ties its *shape*: each entry point's
// statements — calls, their argument sources, assignments to request fields, struct tags of the
// decode targets, guards, status codes — are linearised from the AST (comments, blank lines, line
// breaks and indentation do not matter: every simple statement is re-printed canonically and
// white space is collapsed; compound statements contribute their header) and must equal the table.
// A difference is an undischarged obligation: the theorems were proved about the old shape
// (reported as a correspondence violation, no failing input, unless a differential phase finds one).
//
// Not part of the shape (skipped, marked in the table): the subscription branch of HandleStart and
// the message types other than start / subscribe (C08), pure logging statements.
//
// C17_SRCFACTS_WRITE=<file> writes the table extracted from $VERIF_REPO (justifications carried
// over from the committed table row by row where the statement text is unchanged).
package main

import (
	"bytes"
	_ "embed"
	"encoding/json"
	"fmt"
	"go/ast"
	"go/parser"
	"go/printer"
	"go/scanner"
	"go/token"
	"go/types"
	"os"
	"path/filepath"
	"regexp"
	"sort"
	"strings"
)

//go:embed pipeline_expected.json
var pipelineExpectedJSON []byte

type srcRow struct {
	E string `json:"e"`           // canonical statement / header
	J string `json:"j,omitempty"` // what it justifies (defaults to the target's)
}

type srcTarget struct {
	File      string   `json:"file"`
	Func      string   `json:"func"`           // name; methods as Recv.Name
	Justifies string   `json:"justifies"`      // model definition / theorem hypothesis
	SkipThen  []string `json:"skip_then"`      // `if` conditions (substring) whose then-branch is another property's subject
	OnlyCases []string `json:"only_cases"`     // for `switch msg.Type`: the case labels that belong to this property
	Locals    []string `json:"locals"`         // the function's parameters and local variables, in order of declaration (compared up to renaming)
	Rows      []srcRow `json:"rows"`           // expected shape
	Note      string   `json:"note,omitempty"` // free text
}

type srcTable struct {
	About   string      `json:"about"`
	Targets []srcTarget `json:"targets"`
}

// calls that only log (their presence, absence or wording is not part of the shape)
var srcLogCallees = []string{"c.Handler.LogError", "h.Logger.", "api.logger.", "api.config.Logger", "logrus."}

// srcOneLine: the node as its token sequence (go/printer output re-scanned: comments, line breaks,
// indentation, alignment, trailing commas and automatic semicolons do not matter), tokens joined so
// that the result still reads like Go.
func srcOneLine(fset *token.FileSet, n ast.Node) string {
	var buf bytes.Buffer
	(&printer.Config{Mode: printer.RawFormat}).Fprint(&buf, fset, n)
	src := buf.Bytes()
	fs := token.NewFileSet()
	file := fs.AddFile("", fs.Base(), len(src))
	var sc scanner.Scanner
	sc.Init(file, src, nil, 0)
	type tk struct {
		tok token.Token
		lit string
	}
	var toks []tk
	for {
		_, tok, lit := sc.Scan()
		if tok == token.EOF {
			break
		}
		if lit == "" || tok == token.SEMICOLON {
			lit = tok.String()
		}
		toks = append(toks, tk{tok, lit})
	}
	closer := func(t token.Token) bool { return t == token.RPAREN || t == token.RBRACE || t == token.RBRACK }
	var out []tk
	for i, t := range toks {
		last := i == len(toks)-1
		if (t.tok == token.COMMA || t.tok == token.SEMICOLON) && (last || closer(toks[i+1].tok)) {
			continue
		}
		out = append(out, t)
	}
	var sb strings.Builder
	for i, t := range out {
		if i > 0 {
			p := out[i-1].tok
			tight := t.tok == token.COMMA || t.tok == token.SEMICOLON || t.tok == token.PERIOD || p == token.PERIOD ||
				t.tok == token.RPAREN || p == token.LPAREN || t.tok == token.RBRACK || p == token.LBRACK ||
				(t.tok == token.LPAREN && (p == token.IDENT || p == token.RPAREN || p == token.RBRACK || p == token.FUNC)) ||
				(t.tok == token.LBRACK && (p == token.IDENT || p == token.RBRACK)) ||
				((p == token.AND || p == token.NOT || p == token.MUL || p == token.ARROW) && i >= 2 && !operand(out[i-2].tok)) ||
				((p == token.AND || p == token.NOT || p == token.MUL || p == token.SUB) && i == 1)
			if !tight {
				sb.WriteByte(' ')
			}
		}
		sb.WriteString(t.lit)
	}
	return sb.String()
}

// operand: a token after which a following & ! * - is a binary operator.
func operand(t token.Token) bool {
	return t == token.IDENT || t == token.INT || t == token.FLOAT || t == token.STRING || t == token.CHAR ||
		t == token.RPAREN || t == token.RBRACK || t == token.RBRACE
}

type srcWalker struct {
	fset *token.FileSet
	t    *srcTarget
	out  []string
}

func (w *srcWalker) emit(s string) { w.out = append(w.out, s) }

func isLogCall(e ast.Expr) bool {
	c, ok := e.(*ast.CallExpr)
	if !ok {
		return false
	}
	name := types.ExprString(c.Fun)
	for _, p := range srcLogCallees {
		if strings.HasPrefix(name, p) {
			return true
		}
	}
	return false
}

func (w *srcWalker) header(kw string, init ast.Stmt, x ast.Node) string {
	s := kw
	if init != nil {
		s += " " + srcOneLine(w.fset, init) + ";"
	}
	if x != nil {
		s += " " + srcOneLine(w.fset, x)
	}
	return s + " {"
}

func (w *srcWalker) stmts(list []ast.Stmt) {
	for _, s := range list {
		w.stmt(s, "")
	}
}

func (w *srcWalker) stmt(s ast.Stmt, prefix string) {
	switch x := s.(type) {
	case *ast.BlockStmt:
		w.stmts(x.List)
	case *ast.IfStmt:
		cond := srcOneLine(w.fset, x.Cond)
		w.emit(prefix + w.header("if", x.Init, x.Cond))
		skipped := false
		for _, sub := range w.t.SkipThen {
			if strings.Contains(cond, sub) {
				skipped = true
			}
		}
		if skipped {
			w.emit("(then-branch: not this property's subject)")
		} else {
			w.stmts(x.Body.List)
		}
		switch e := x.Else.(type) {
		case nil:
			w.emit("}")
		case *ast.IfStmt:
			w.stmt(e, "} else ")
		default:
			w.emit("} else {")
			w.stmt(e, "")
			w.emit("}")
		}
	case *ast.SwitchStmt:
		tag := ""
		if x.Tag != nil {
			tag = srcOneLine(w.fset, x.Tag)
		}
		w.emit(w.header("switch", x.Init, x.Tag))
		for _, c := range x.Body.List {
			cc := c.(*ast.CaseClause)
			label := "default:"
			if cc.List != nil {
				parts := make([]string, len(cc.List))
				for i, e := range cc.List {
					parts[i] = srcOneLine(w.fset, e)
				}
				label = "case " + strings.Join(parts, ", ") + ":"
				if tag == "msg.Type" && len(w.t.OnlyCases) > 0 {
					keep := false
					for _, oc := range w.t.OnlyCases {
						for _, p := range parts {
							if p == oc {
								keep = true
							}
						}
					}
					if !keep {
						continue
					}
				}
			} else if tag == "msg.Type" && len(w.t.OnlyCases) > 0 {
				continue
			}
			w.emit(label)
			w.stmts(cc.Body)
		}
		w.emit("}")
	case *ast.TypeSwitchStmt:
		w.emit(w.header("switch", x.Init, x.Assign))
		for _, c := range x.Body.List {
			cc := c.(*ast.CaseClause)
			w.emit(srcOneLine(w.fset, &ast.CaseClause{List: cc.List}))
			w.stmts(cc.Body)
		}
		w.emit("}")
	case *ast.ForStmt:
		h := "for"
		if x.Init != nil || x.Post != nil {
			h += " " + nodeOrEmpty(w.fset, x.Init) + "; " + nodeOrEmpty(w.fset, x.Cond) + "; " + nodeOrEmpty(w.fset, x.Post)
		} else if x.Cond != nil {
			h += " " + srcOneLine(w.fset, x.Cond)
		}
		w.emit(h + " {")
		w.stmts(x.Body.List)
		w.emit("}")
	case *ast.RangeStmt:
		h := "for "
		if x.Key != nil {
			h += srcOneLine(w.fset, x.Key)
			if x.Value != nil {
				h += ", " + srcOneLine(w.fset, x.Value)
			}
			h += " " + x.Tok.String() + " "
		}
		w.emit(h + "range " + srcOneLine(w.fset, x.X) + " {")
		w.stmts(x.Body.List)
		w.emit("}")
	case *ast.SelectStmt:
		w.emit("select {")
		for _, c := range x.Body.List {
			cc := c.(*ast.CommClause)
			if cc.Comm == nil {
				w.emit("default:")
			} else {
				w.emit("case " + srcOneLine(w.fset, cc.Comm) + ":")
			}
			w.stmts(cc.Body)
		}
		w.emit("}")
	case *ast.LabeledStmt:
		w.emit(x.Label.Name + ":")
		w.stmt(x.Stmt, "")
	case *ast.ExprStmt:
		if isLogCall(x.X) {
			return
		}
		w.emit(srcOneLine(w.fset, x))
	case *ast.AssignStmt:
		if len(x.Rhs) == 1 {
			if fl, ok := x.Rhs[0].(*ast.FuncLit); ok {
				lhs := make([]string, len(x.Lhs))
				for i, e := range x.Lhs {
					lhs[i] = srcOneLine(w.fset, e)
				}
				w.emit(strings.Join(lhs, ", ") + " " + x.Tok.String() + " " + srcOneLine(w.fset, fl.Type) + " {")
				w.stmts(fl.Body.List)
				w.emit("}")
				return
			}
		}
		w.emit(srcOneLine(w.fset, x))
	default:
		w.emit(srcOneLine(w.fset, s))
	}
}

func nodeOrEmpty(fset *token.FileSet, n ast.Node) string {
	if n == nil || n == ast.Stmt(nil) || n == ast.Expr(nil) {
		return ""
	}
	switch v := n.(type) {
	case ast.Stmt:
		if v == nil {
			return ""
		}
	case ast.Expr:
		if v == nil {
			return ""
		}
	}
	return srcOneLine(fset, n)
}

// srcLocals: parameters, results and local variables of a function, in order of declaration.
func srcLocals(fd *ast.FuncDecl) []string {
	var out []string
	seen := map[string]bool{}
	add := func(id *ast.Ident) {
		if id != nil && id.Name != "_" && !seen[id.Name] {
			seen[id.Name] = true
			out = append(out, id.Name)
		}
	}
	fields := func(fl *ast.FieldList) {
		if fl != nil {
			for _, f := range fl.List {
				for _, n := range f.Names {
					add(n)
				}
			}
		}
	}
	fields(fd.Recv)
	ast.Inspect(fd, func(n ast.Node) bool {
		switch x := n.(type) {
		case *ast.FuncType:
			fields(x.Params)
			fields(x.Results)
		case *ast.AssignStmt:
			if x.Tok == token.DEFINE {
				for _, l := range x.Lhs {
					if id, ok := l.(*ast.Ident); ok {
						add(id)
					}
				}
			}
		case *ast.ValueSpec:
			for _, n := range x.Names {
				add(n)
			}
		case *ast.RangeStmt:
			if x.Tok == token.DEFINE {
				if id, ok := x.Key.(*ast.Ident); ok {
					add(id)
				}
				if id, ok := x.Value.(*ast.Ident); ok {
					add(id)
				}
			}
		}
		return true
	})
	return out
}

// srcAlpha rewrites a row so that the k-th local is spelled ·k (selectors x.name are left alone).
func srcAlpha(row string, locals []string) string {
	idx := map[string]int{}
	for i, l := range locals {
		idx[l] = i
	}
	src := []byte(row)
	fs := token.NewFileSet()
	file := fs.AddFile("", fs.Base(), len(src))
	var sc scanner.Scanner
	sc.Init(file, src, nil, 0)
	var parts []string
	prev := token.ILLEGAL
	for {
		_, tok, lit := sc.Scan()
		if tok == token.EOF {
			break
		}
		if tok == token.SEMICOLON && lit == "\n" {
			continue
		}
		if lit == "" || tok == token.SEMICOLON {
			lit = tok.String()
		}
		if tok == token.IDENT && prev != token.PERIOD {
			if k, ok := idx[lit]; ok {
				lit = fmt.Sprintf("·%d", k)
			}
		}
		parts = append(parts, lit)
		prev = tok
	}
	return strings.Join(parts, " ")
}

var srcPlainAssign = regexp.MustCompile(`^([\w·]+)((?: \. [\w·]+)+) = ([\w·]+)((?: \. [\w·]+)*)$`)

// srcNormalize: rows after renaming of locals, with every run of consecutive *plain field copies*
// (`a.f = b.g`, no calls, no indexing; the roots written in the run are not read in it) sorted —
// such statements are independent of one another, their order is not part of the shape.
func srcNormalize(rows []string, locals []string) []string {
	out := make([]string, len(rows))
	for i, r := range rows {
		out[i] = srcAlpha(r, locals)
	}
	for i := 0; i < len(out); {
		j := i
		written, read := map[string]bool{}, map[string]bool{}
		for j < len(out) {
			m := srcPlainAssign.FindStringSubmatch(out[j])
			if m == nil {
				break
			}
			written[m[1]] = true
			read[m[3]] = true
			j++
		}
		ok := j-i >= 2
		for w := range written {
			if read[w] {
				ok = false
			}
		}
		if ok {
			sort.Strings(out[i:j])
		}
		if j == i {
			j++
		}
		i = j
	}
	return out
}

// srcExtract linearises one target from the tree at root.
func srcExtract(root string, t *srcTarget) ([]string, error) {
	rows, _, err := srcExtractL(root, t)
	return rows, err
}

func srcExtractL(root string, t *srcTarget) ([]string, []string, error) {
	fset := token.NewFileSet()
	f, err := parser.ParseFile(fset, filepath.Join(root, t.File), nil, parser.SkipObjectResolution)
	if err != nil {
		return nil, nil, err
	}
	if strings.HasPrefix(t.Func, "type ") {
		for _, d := range f.Decls {
			gd, ok := d.(*ast.GenDecl)
			if !ok || gd.Tok != token.TYPE {
				continue
			}
			for _, sp := range gd.Specs {
				if ts := sp.(*ast.TypeSpec); "type "+ts.Name.Name == t.Func {
					return []string{"type " + srcOneLine(fset, ts)}, nil, nil
				}
			}
		}
		return nil, nil, fmt.Errorf("%s not found in %s", t.Func, t.File)
	}
	for _, d := range f.Decls {
		fd, ok := d.(*ast.FuncDecl)
		if !ok || fd.Body == nil {
			continue
		}
		name := fd.Name.Name
		if fd.Recv != nil && len(fd.Recv.List) == 1 {
			rt := fd.Recv.List[0].Type
			if st, ok := rt.(*ast.StarExpr); ok {
				rt = st.X
			}
			name = types.ExprString(rt) + "." + name
		}
		if name != t.Func {
			continue
		}
		w := &srcWalker{fset: fset, t: t}
		w.emit("func " + name + strings.TrimPrefix(srcOneLine(fset, fd.Type), "func"))
		w.stmts(fd.Body.List)
		return w.out, srcLocals(fd), nil
	}
	return nil, nil, fmt.Errorf("function %s not found in %s", t.Func, t.File)
}

func srcRepoRoot() string {
	if r := os.Getenv("VERIF_REPO"); r != "" {
		return r
	}
	return "/repo"
}

const srcObl = "source shape S: the statements of NewRequestFromHTTP, ServeGraphQL, ServeGraphQLWS, HandleInit, HandleStart, both handleMessage (start/subscribe) and graphqlSchemaDefinition, linearised from the current source, equal the committed table the model was transliterated from"

// phaseS: the first shape difference (replay of a srcfacts case).
func (h *harness) phaseS(verbose bool) *failure {
	if fs := h.phaseSAll(verbose); len(fs) > 0 {
		return fs[0]
	}
	return nil
}

// phaseSAll compares every target; with C17_SRCFACTS_WRITE set it writes the current table instead.
func (h *harness) phaseSAll(verbose bool) []*failure {
	var tab srcTable
	if err := json.Unmarshal(pipelineExpectedJSON, &tab); err != nil {
		return []*failure{{"correspondence", "pipeline_expected.json unreadable: " + err.Error()}}
	}
	root := srcRepoRoot()
	write := os.Getenv("C17_SRCFACTS_WRITE")
	var fails []*failure
	rows := 0
	for ti := range tab.Targets {
		t := &tab.Targets[ti]
		got, locals, err := srcExtractL(root, t)
		if write != "" {
			t.Locals = locals
			old := map[string]string{}
			for _, r := range t.Rows {
				if r.J != "" {
					old[r.E] = r.J
				}
			}
			t.Rows = nil
			for _, e := range got {
				t.Rows = append(t.Rows, srcRow{E: e, J: old[e]})
			}
			continue
		}
		h.run.Case("src:"+t.File+":"+t.Func, true)
		var what string
		if err != nil {
			what = fmt.Sprintf("%s: %v", t.File, err)
		} else {
			rows += len(got)
			n := len(got)
			if len(t.Rows) < n {
				n = len(t.Rows)
			}
			expRows := make([]string, len(t.Rows))
			for i, r := range t.Rows {
				expRows[i] = r.E
			}
			gotN, expN := srcNormalize(got, locals), srcNormalize(expRows, t.Locals)
			for i := 0; i < n && what == ""; i++ {
				if gotN[i] != expN[i] {
					j := t.Rows[i].J
					if j == "" {
						j = t.Justifies
					}
					what = fmt.Sprintf("%s %s, statement %d: the model was written for `%s` (it justifies: %s), the source now has `%s`", t.File, t.Func, i+1, t.Rows[i].E, j, got[i])
				}
			}
			if what == "" && len(got) != len(t.Rows) {
				if len(got) > len(t.Rows) {
					what = fmt.Sprintf("%s %s: %d statements more than the model was written for, first `%s`", t.File, t.Func, len(got)-len(t.Rows), got[n])
				} else {
					what = fmt.Sprintf("%s %s: %d statements fewer than the model was written for, first missing `%s` (it justifies: %s)", t.File, t.Func, len(t.Rows)-len(got), t.Rows[n].E, t.Justifies)
				}
			}
		}
		if verbose {
			fmt.Printf("  %s %s: %d statements, %s\n", t.File, t.Func, len(got), map[bool]string{true: "as expected", false: what}[what == ""])
		}
		h.run.Oblige(srcObl, "correspondence", 1, what == "", what)
		if what != "" {
			h.run.Count("S:changed " + t.Func)
			fails = append(fails, &failure{"correspondence", "pipeline shape changed (undischarged: the theorems speak about the old shape) — " + what})
		}
	}
	if write != "" {
		b, _ := json.MarshalIndent(tab, "", " ")
		if err := os.WriteFile(write, append(b, '\n'), 0o644); err != nil {
			fmt.Fprintln(os.Stderr, "cannot write", write, err)
		}
		return nil
	}
	h.run.CountN("S:statements compared", rows)
	return fails
}
