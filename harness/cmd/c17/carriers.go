package main

// The five transports (real code, loopback server) and the transport-free evaluation of the
// model's pipeline term with the real library.

import (
	"bytes"
	"context"
	"encoding/json"
	"fmt"
	"io"
	"net/http"
	"net/url"
	"os"
	"strings"
	"time"

	apifu "github.com/ccbrown/api-fu"
	"github.com/ccbrown/api-fu/graphql"
	"github.com/gorilla/websocket"
	jsoniter "github.com/json-iterator/go"

	"verifharness/hx"
)

// Op is the abstract operation of the property: (query, variables, operationName).
type Op struct {
	Query  string  `json:"query"`
	OpName string  `json:"operation_name"`
	Vars   *string `json:"variables"` // JSON text (an object, or "null"); nil = no variables
}

const (
	cGet         = "http-get"
	cPostJSON    = "http-post-json"
	cPostGraphQL = "http-post-graphql"
	cGqlWs       = "graphql-ws"
	cTransportWs = "graphql-transport-ws"
)

var carriers = []string{cGet, cPostJSON, cPostGraphQL, cGqlWs, cTransportWs}

// canCarry: application/graphql has no place for variables or an operation name.
func canCarry(c string, op Op) bool {
	if c == cPostGraphQL {
		return op.Vars == nil && op.OpName == ""
	}
	if c == cGet {
		return getCanCarry(op)
	}
	return true
}

// Obs is what one exchange produced.
type Obs struct {
	Status int      `json:"status,omitempty"` // HTTP status (0 for WebSocket / direct)
	Resp   string   `json:"resp"`             // canonical response, or a description of what happened instead
	Calls  []string `json:"calls"`            // resolver call log
	Costs  []int    `json:"costs"`            // RequestInfo.Cost seen by Config.Execute
}

func (o Obs) key() string {
	return fmt.Sprintf("%s | calls=%q | costs=%v", o.Resp, o.Calls, o.Costs)
}

// ---- JSON spelling helpers ---------------------------------------------------------------------

func jstr(s string) string {
	var b bytes.Buffer
	enc := json.NewEncoder(&b)
	enc.SetEscapeHTML(false)
	enc.Encode(s)
	return strings.TrimRight(b.String(), "\n")
}

// jstrSpelled spells a JSON string with random \uXXXX escapes for some characters (same value).
func jstrSpelled(r *hx.Rand, s string) string {
	if r == nil || !r.Chance(1, 3) {
		return jstr(s)
	}
	var b strings.Builder
	b.WriteByte('"')
	for _, c := range s {
		switch {
		case c == '"' || c == '\\':
			b.WriteByte('\\')
			b.WriteRune(c)
		case c < 0x20:
			fmt.Fprintf(&b, `\u%04x`, c)
		case c > 0xffff:
			if r.Chance(1, 2) {
				c -= 0x10000
				fmt.Fprintf(&b, `\u%04x\u%04x`, 0xd800+(c>>10), 0xdc00+(c&0x3ff))
			} else {
				b.WriteRune(c)
			}
		case (c > 126 || c == '/' || c == 'e') && r.Chance(1, 2):
			fmt.Fprintf(&b, `\u%04X`, c)
		default:
			b.WriteRune(c)
		}
	}
	b.WriteByte('"')
	return b.String()
}

func ws(r *hx.Rand) string {
	if r == nil {
		return ""
	}
	return hx.Pick(r, []string{"", "", "", " ", "\n", "\t ", "\r\n"})
}

// envelopeJSON spells the JSON object carrying an operation (POST body, WebSocket payload): member
// order, whitespace, escapes, and how an empty operationName / absent variables are written vary.
func envelopeJSON(r *hx.Rand, op Op, withExtras bool) string {
	type member struct{ k, v string }
	var ms []member
	ms = append(ms, member{"query", jstrSpelled(r, op.Query)})
	if op.OpName != "" {
		ms = append(ms, member{"operationName", jstrSpelled(r, op.OpName)})
	} else {
		switch r.Intn(3) {
		case 0:
			ms = append(ms, member{"operationName", `""`})
		case 1:
			ms = append(ms, member{"operationName", `null`})
		}
	}
	if op.Vars != nil {
		ms = append(ms, member{"variables", *op.Vars})
	} else if r.Chance(1, 3) {
		ms = append(ms, member{"variables", "null"})
	}
	if withExtras && r.Chance(1, 4) {
		ms = append(ms, member{"somethingElse", `{"a":[1,2,{"b":null}]}`})
	}
	hx.Shuffle(r, ms)
	var b strings.Builder
	b.WriteString(ws(r) + "{")
	for i, m := range ms {
		if i > 0 {
			b.WriteString(",")
		}
		b.WriteString(ws(r) + jstr(m.k) + ws(r) + ":" + ws(r) + m.v + ws(r))
	}
	b.WriteString("}" + ws(r))
	return b.String()
}

// ---- HTTP --------------------------------------------------------------------------------------

var httpClient = &http.Client{Timeout: 20 * time.Second}

type httpSpec struct {
	Method      string `json:"method"`
	RawQuery    string `json:"raw_query"`
	ContentType string `json:"content_type"` // "" = no header
	Body        string `json:"body"`
	Feats       string `json:"feats,omitempty"` // the principal's features (header X-C17-Features)
}

func (w *world) doHTTP(s httpSpec) Obs {
	var o Obs
	for attempt := 0; attempt < 3; attempt++ {
		o = w.doHTTPOnce(s)
		if !strings.HasPrefix(o.Resp, "client error: ") {
			break
		}
	}
	return o
}

func (w *world) doHTTPOnce(s httpSpec) Obs {
	w.resetLogs()
	u := w.srv.URL + "/graphql"
	if s.RawQuery != "" {
		u += "?" + s.RawQuery
	}
	req, err := http.NewRequest(s.Method, u, strings.NewReader(s.Body))
	if err != nil {
		return Obs{Resp: "client error: " + err.Error()}
	}
	if s.ContentType != "" {
		req.Header.Set("Content-Type", s.ContentType)
	}
	req.Header.Set(featHeader, s.Feats)
	resp, err := httpClient.Do(req)
	if err != nil {
		return Obs{Resp: "client error: " + err.Error()}
	}
	body, _ := io.ReadAll(resp.Body)
	resp.Body.Close()
	o := Obs{Status: resp.StatusCode}
	if resp.StatusCode == 200 {
		o.Resp, _ = canonResponse(body)
	} else {
		o.Resp = fmt.Sprintf("status %d %s", resp.StatusCode, strings.TrimSpace(string(body)))
	}
	o.Calls, o.Costs = w.takeLogs()
	return o
}

func qpairs(r *hx.Rand, kv [][2]string) string {
	hx.Shuffle(r, kv)
	var parts []string
	for _, p := range kv {
		parts = append(parts, url.QueryEscape(p[0])+"="+url.QueryEscape(p[1]))
	}
	return strings.Join(parts, "&")
}

// httpEnvelope spells op for one of the HTTP carriers.
func httpEnvelope(r *hx.Rand, c string, op Op) httpSpec {
	switch c {
	case cGet:
		kv := [][2]string{}
		if op.Query != "" || r.Chance(1, 2) {
			kv = append(kv, [2]string{"query", op.Query})
		}
		if op.OpName != "" || r.Chance(1, 3) {
			kv = append(kv, [2]string{"operationName", op.OpName})
		}
		if op.Vars != nil {
			kv = append(kv, [2]string{"variables", *op.Vars})
		} else if r.Chance(1, 4) {
			kv = append(kv, [2]string{"variables", ""})
		}
		if r.Chance(1, 5) {
			kv = append(kv, [2]string{"unrelated", "x=1&y"})
		}
		return httpSpec{Method: "GET", RawQuery: qpairs(r, kv)}
	case cPostJSON:
		s := httpSpec{Method: "POST", ContentType: hx.Pick(r, []string{"application/json", "application/json", "application/json; charset=utf-8", "Application/JSON"}), Body: envelopeJSON(r, op, true)}
		if op.Query != "" && r.Chance(1, 5) {
			// a URL query parameter is overwritten by the body's member (only spelled when the body
			// names a non-empty query: with an empty one the request would name two operations)
			s.RawQuery = "query=" + url.QueryEscape("{ __typename }")
		}
		return s
	case cPostGraphQL:
		return httpSpec{Method: "POST", ContentType: hx.Pick(r, []string{"application/graphql", "application/graphql; charset=utf-8"}), Body: op.Query}
	}
	panic("not an HTTP carrier: " + c)
}

// ---- WebSocket -------------------------------------------------------------------------------------

type wsClient struct {
	kind string
	conn *websocket.Conn
	n    int
}

func (c *wsClient) close() {
	if c.conn != nil {
		c.conn.WriteControl(websocket.CloseMessage, websocket.FormatCloseMessage(websocket.CloseNormalClosure, "bye"), time.Now().Add(time.Second))
		c.conn.Close()
		c.conn = nil
	}
}

// How long the harness waits for something the unchanged code always sends. Once a wait has
// expired (which already is a reported failure) later waits are cut short, so that a changed tree
// that stops answering does not stall the whole run.
var wsTimeout = 20 * time.Second
var closeWait = 10 * time.Second

func waitExpired() {
	wsTimeout = 2 * time.Second
	closeWait = 300 * time.Millisecond
}

type wsFrame struct {
	ID      string          `json:"id"`
	Type    string          `json:"type"`
	Payload json.RawMessage `json:"payload"`
}

func dialWS(base, kind string, init bool, feats string) (*wsClient, error) {
	d := &websocket.Dialer{HandshakeTimeout: wsTimeout, Subprotocols: []string{kind}}
	var conn *websocket.Conn
	var err error
	for attempt := 0; attempt < 50; attempt++ {
		conn, _, err = d.Dial("ws"+strings.TrimPrefix(base, "http")+"/ws", http.Header{featHeader: []string{feats}})
		if err == nil {
			break
		}
		time.Sleep(10 * time.Millisecond)
	}
	if err != nil {
		return nil, err
	}
	if conn.Subprotocol() != kind {
		conn.Close()
		return nil, fmt.Errorf("server chose subprotocol %q, wanted %q", conn.Subprotocol(), kind)
	}
	c := &wsClient{kind: kind, conn: conn}
	if init {
		if err := conn.WriteMessage(websocket.TextMessage, []byte(`{"type":"connection_init","payload":{}}`)); err != nil {
			conn.Close()
			return nil, err
		}
		f, err := c.read()
		if err != nil || f.Type != "connection_ack" {
			conn.Close()
			return nil, fmt.Errorf("no connection_ack: %v %v", f, err)
		}
	}
	return c, nil
}

// read returns the next frame that is not a keep-alive.
func (c *wsClient) read() (wsFrame, error) {
	// one deadline for the whole wait: keep-alive frames must not extend it
	deadline := time.Now().Add(wsTimeout)
	for {
		c.conn.SetReadDeadline(deadline)
		_, data, err := c.conn.ReadMessage()
		if err != nil {
			if ne, ok := err.(interface{ Timeout() bool }); ok && ne.Timeout() {
				waitExpired()
			}
			return wsFrame{}, err
		}
		var f wsFrame
		if err := json.Unmarshal(data, &f); err != nil {
			return wsFrame{}, fmt.Errorf("server sent an undecodable frame %q", data)
		}
		if f.Type == "ka" || f.Type == "pong" || f.Type == "ping" {
			continue
		}
		return f, nil
	}
}

func startType(kind string) string {
	if kind == cTransportWs {
		return "subscribe"
	}
	return "start"
}

// wsMessage spells a start / subscribe message around a raw payload ("" = no payload member).
func wsMessage(r *hx.Rand, kind, id, payload string) string {
	ms := [][2]string{{"id", jstr(id)}, {"type", jstr(startType(kind))}}
	if payload != "" {
		ms = append(ms, [2]string{"payload", payload})
	}
	hx.Shuffle(r, ms)
	var parts []string
	for _, m := range ms {
		parts = append(parts, ws(r)+jstr(m[0])+":"+ws(r)+m[1])
	}
	return "{" + strings.Join(parts, ",") + "}"
}

// collect reads frames until the operation `id` completes. It returns the canonical payloads of the
// data / next / error frames carrying that id, and any frame with another id.
func (c *wsClient) collect(id string) (payloads []string, strays []string, err error) {
	for {
		f, err := c.read()
		if err != nil {
			return payloads, strays, err
		}
		if f.ID != id {
			strays = append(strays, fmt.Sprintf("%s:%s:%s", f.ID, f.Type, f.Payload))
			continue
		}
		switch f.Type {
		case "data", "next":
			p, _ := canonResponse(f.Payload)
			payloads = append(payloads, p)
		case "error":
			// the protocols' error frame carries the errors list (graphql-transport-ws) or an
			// error object (graphql-ws); as response content that is {"errors": …}
			p, _ := canonResponse([]byte(`{"errors":` + string(f.Payload) + `}`))
			payloads = append(payloads, p)
			if c.kind == cTransportWs {
				return payloads, strays, nil // error terminates the operation in graphql-transport-ws
			}
		case "complete":
			return payloads, strays, nil
		default:
			strays = append(strays, fmt.Sprintf("%s:%s:%s", f.ID, f.Type, f.Payload))
		}
	}
}

// wsConn: one persistent connection per (subprotocol, principal's features).
func (w *world) wsConn(kind, feats string) (*wsClient, error) {
	key := kind + "|" + feats
	if c := w.ws[key]; c != nil && c.conn != nil {
		return c, nil
	}
	c, err := dialWS(w.srv.URL, kind, true, feats)
	if err != nil {
		return nil, err
	}
	w.ws[key] = c
	return c, nil
}

func describeWSErr(err error) string {
	if ce, ok := err.(*websocket.CloseError); ok {
		return fmt.Sprintf("closed %d %s", ce.Code, ce.Text)
	}
	return "read error: " + err.Error()
}

// doWS sends one start / subscribe message with the given raw payload over the persistent
// connection of that subprotocol and reports the GraphQL response content it got back.
func (w *world) doWS(r *hx.Rand, kind, feats string, payload string) Obs {
	w.resetLogs()
	c, err := w.wsConn(kind, feats)
	if err != nil {
		return Obs{Resp: "dial error: " + err.Error()}
	}
	c.n++
	// a small pool of ids, reused on the kept connection: an id is free again once its operation has
	// completed (both protocols), so completed ids recur — every second operation (starting with
	// the second on a connection) repeats the id of the one just completed, the others rotate
	id := fmt.Sprintf("op%d", ((c.n+1)/2)%3)
	if err := c.conn.WriteMessage(websocket.TextMessage, []byte(wsMessage(r, kind, id, payload))); err != nil {
		c.close()
		return Obs{Resp: "write error: " + err.Error()}
	}
	t0 := time.Now()
	payloads, strays, err := c.collect(id)
	if d := time.Since(t0); d > time.Second && os.Getenv("C17_DEBUG") != "" {
		fmt.Printf("SLOW-WS %s id=%s %.1fs err=%v payload=%.120q\n", kind, id, d.Seconds(), err, payload)
	}
	var o Obs
	switch {
	case err != nil:
		c.close()
		o.Resp = describeWSErr(err)
	case len(strays) > 0:
		o.Resp = fmt.Sprintf("stray frames %q, payloads %q", strays, payloads)
	case len(payloads) != 1:
		o.Resp = fmt.Sprintf("%d data frames before complete: %q", len(payloads), payloads)
	default:
		o.Resp = payloads[0]
	}
	o.Calls, o.Costs = w.takeLogs()
	return o
}

// ---- transport-free evaluation -------------------------------------------------------------------

func decodeVars(text *string) (map[string]interface{}, error) {
	if text == nil {
		return nil, nil
	}
	var m map[string]interface{}
	if err := json.Unmarshal([]byte(*text), &m); err != nil {
		return nil, err
	}
	return m, nil
}

// direct runs the shared pipeline on the abstract request with the real library, no transport:
// ParseAndValidate with the cost rule, then the configured execute function; the response is
// marshalled the way every transport marshals it.
func (w *world) direct(query, opName string, vars, exts map[string]interface{}, useFeaturesFn bool, feats string, cost graphql.FieldCost) (o Obs) {
	w.resetLogs()
	defer func() {
		if p := recover(); p != nil {
			o = Obs{Resp: fmt.Sprintf("panic: %v", p)}
			w.takeLogs()
		}
	}()
	ctx := w.baseContext(context.Background(), feats)
	var feat graphql.FeatureSet
	if useFeaturesFn {
		feat = featuresFromContext(ctx)
	}
	req := &graphql.Request{Context: ctx, Query: query, Schema: w.api.Schema(), OperationName: opName,
		VariableValues: vars, Features: feat, Extensions: exts}
	var info apifu.RequestInfo
	var resp *graphql.Response
	if doc, errs := graphql.ParseAndValidate(req.Query, req.Schema, req.Features, req.ValidateCost(-1, &info.Cost, cost)); len(errs) > 0 {
		resp = &graphql.Response{Errors: errs}
	} else {
		req.Document = doc
		if w.flags.NoExec {
			resp = graphql.Execute(req) // what NewAPI installs when Config.Execute is nil
		} else {
			resp = w.executeHook(req, &info)
		}
	}
	body, err := jsoniter.Marshal(resp)
	if err != nil {
		o.Resp = "marshal error: " + err.Error()
	} else {
		o.Resp, _ = canonResponse(body)
	}
	o.Calls, o.Costs = w.takeLogs()
	return o
}
