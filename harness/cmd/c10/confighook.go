// Config part: the one place where the library itself uses Clone (config.go).
//
// apifu.Config.PreprocessGraphQLSchemaDefinition "is executed on a clone of the schema and can be used
// to make last minute modifications to types". The generated definition is configured through the
// public Config API (AddQueryField / AddMutation / AddSubscription / AddNamedType), NewAPI is called
// three times with different hooks:
//
//	destructive  the hook overwrites everything reachable from what it is given (mutateAll): the
//	             configured types must be unchanged afterwards (typed extraction), and what the hook
//	             was given must not share a container with them (address walk);
//	gentle       the hook appends "~hook" to the description of every named type it is given except
//	             the built-in singletons: the API serves the modified schema (introspection over
//	             ServeGraphQL: every non-built-in type's description ends in "~hook") and the
//	             configured types are unchanged;
//	failing      the hook returns an error: NewAPI fails.
//
// Known finding F-10i applies as in the clone part (types Inspect does not reach stay shared).
package main

import (
	"bytes"
	"encoding/json"
	"errors"
	"fmt"
	"io"
	"net/http/httptest"
	"reflect"
	"sort"
	"strings"

	apifu "github.com/ccbrown/api-fu"
	"github.com/ccbrown/api-fu/graphql"
	"github.com/ccbrown/api-fu/graphql/schema"
	"github.com/ccbrown/api-fu/graphql/schema/introspection"
	"github.com/sirupsen/logrus"
)

// configSDef describes the definition a Config built from d amounts to, as far as reachability is
// concerned: no custom directive is listed (the definitions stay reachable through the directives
// applied somewhere), the root objects are the Config's own (their type-level directives are gone),
// AdditionalTypes = the SDef's additional types plus whatever could not be reached by pointer from
// the roots otherwise. ok = false: one object as two roots (the Config API cannot express it).
func configSDef(d *SDef) (*SDef, bool) {
	if d.Mutation == d.Query || d.Subscription == d.Query || (d.Mutation != "" && d.Mutation == d.Subscription) {
		return nil, false
	}
	b, _ := json.Marshal(d)
	var c SDef
	json.Unmarshal(b, &c)
	var listed []DirDef
	for _, dd := range c.Dirs {
		if dd.Builtin == "" {
			c.UDirs = append(c.UDirs, dd)
		} else {
			listed = append(listed, dd)
		}
	}
	c.Dirs = listed
	roots := map[string]bool{c.Query: true, c.Mutation: true, c.Subscription: true}
	for i := range c.Types {
		if roots[c.Types[i].Name] {
			c.Types[i].Dirs = nil
		}
	}
	reach := d.reach(true)
	fromRoots := c.reachFrom(true, false, []string{c.Query, c.Mutation, c.Subscription})
	additional := map[string]bool{}
	for _, n := range d.Additional {
		additional[n] = true
	}
	c.Additional = nil
	for _, t := range c.Types {
		if !roots[t.Name] && reach[t.Name] && (additional[t.Name] || !fromRoots[t.Name]) {
			c.Additional = append(c.Additional, t.Name)
		}
	}
	return &c, true
}

// configure puts a freshly built definition into a Config.
func configure(bt *built, cd *SDef) (cfg *apifu.Config) {
	d := bt.sdef
	quiet := logrus.New()
	quiet.SetOutput(io.Discard)
	cfg = &apifu.Config{Logger: quiet}
	add := func(root string, f func(string, *graphql.FieldDefinition)) {
		if root == "" {
			return
		}
		obj := bt.types[root].(*schema.ObjectType)
		names := []string{}
		for n := range obj.Fields {
			names = append(names, n)
		}
		sort.Strings(names)
		for _, n := range names {
			f(n, obj.Fields[n])
		}
	}
	add(d.Query, cfg.AddQueryField)
	add(d.Mutation, cfg.AddMutation)
	add(d.Subscription, cfg.AddSubscription)
	for _, n := range cd.Additional {
		cfg.AddNamedType(bt.types[n])
	}
	return cfg
}

func configuredRoots(cfg *apifu.Config, bt *built) []schema.NamedType {
	var out []schema.NamedType
	names := []string{}
	for n := range bt.types {
		names = append(names, n)
	}
	sort.Strings(names)
	for _, n := range names {
		out = append(out, bt.types[n])
	}
	out = append(out, cfg.QueryType(), cfg.NodeInterface())
	if bt.sdef.Mutation != "" {
		out = append(out, cfg.MutationType())
	}
	return out
}

func (h *harness) configPart(c *Case) (fails []failure) {
	fail := func(f failure) { fails = append(fails, f) }
	defer func() {
		if p := recover(); p != nil {
			fail(failure{Part: "config", Kind: "crash", Class: "config-panic", What: fmt.Sprintf("panic: %v", p)})
		}
	}()
	defer resetBuiltinDirectives()
	// the definition must be acceptable without a hook
	cd, ok := configSDef(c.S)
	if !ok {
		h.count("config:not-expressible")
		return nil
	}
	bt0 := build(c.S)
	cfg0 := configure(bt0, cd)
	if _, err := apifu.NewAPI(cfg0); err != nil {
		h.count("config:rejected-without-hook")
		return nil
	}
	h.count("config:cases")
	known := func(bt *built) map[string]bool {
		if ni := cd.notInspected(); len(ni) > 0 && !h.clonesAll {
			var ts []schema.NamedType
			for _, n := range ni {
				if t, ok := bt.types[n]; ok {
					ts = append(ts, t)
				}
			}
			return collectFrom(ts).keys()
		}
		return nil
	}

	// destructive hook
	{
		bt := build(c.S)
		cfg := configure(bt, cd)
		before, xerr := extract(bt.def, newIDAlloc(1))
		f10i := known(bt)
		calls := 0
		cfg.PreprocessGraphQLSchemaDefinition = func(def *graphql.SchemaDefinition) error {
			calls++
			w1, w2 := collectFrom(configuredRoots(cfg, bt)), collect(def)
			var other, kn []container
			for _, c := range shared(w1, w2) {
				if f10i[fmt.Sprintf("%s:%x", c.Kind, c.Addr)] {
					kn = append(kn, c)
				} else {
					other = append(other, c)
				}
			}
			if len(other) > 0 {
				fail(failure{Part: "config", Kind: "property", Class: "config-hook-shares", What: fmt.Sprintf("the definition handed to PreprocessGraphQLSchemaDefinition shares %d mutable container(s) with the configured types, e.g. %s %s at %s", len(other), other[0].Kind, other[0].Type, other[0].Path)})
			}
			if len(kn) > 0 {
				fail(failure{Part: "config", Kind: "property", Class: "config-hook-shares", Finding: "F-10i-clone-shares-types-inspect-does-not-reach", What: fmt.Sprintf("the definition handed to PreprocessGraphQLSchemaDefinition shares %d mutable container(s) with the configured types, e.g. %s %s at %s", len(kn), kn[0].Kind, kn[0].Type, kn[0].Path)})
			} else {
				f10i = nil
			}
			if err := mutateAll(def, f10i); err != nil {
				fail(failure{Part: "config", Kind: "crash", Class: "mutate-panic", What: err.Error()})
			}
			return errors.New("stop here") // the overwritten definition is not meant to be built
		}
		_, err := apifu.NewAPI(cfg)
		if calls != 1 {
			fail(failure{Part: "config", Kind: "property", Class: "config-hook-calls", What: fmt.Sprintf("PreprocessGraphQLSchemaDefinition was called %d times while the schema was built", calls)})
		}
		if err == nil {
			fail(failure{Part: "config", Kind: "property", Class: "config-hook-error-lost", What: "PreprocessGraphQLSchemaDefinition returned an error, NewAPI succeeded"})
		}
		after, xerr2 := extract(bt.def, newIDAlloc(1))
		if xerr == nil && (xerr2 != nil || before.String() != after.String()) {
			what := "a PreprocessGraphQLSchemaDefinition hook that overwrites what it is given changed the configured types"
			if xerr2 == nil {
				what += ": " + firstDiff(before.String(), after.String())
			} else {
				what += ": " + xerr2.Error()
			}
			fail(failure{Part: "config", Kind: "property", Class: "config-hook-visible", What: what})
		}
		resetBuiltinDirectives()
	}

	// failing hook: nothing is modified, the hook refuses
	{
		bt := build(c.S)
		cfg := configure(bt, cd)
		cfg.PreprocessGraphQLSchemaDefinition = func(def *graphql.SchemaDefinition) error { return errors.New("hook refuses") }
		if api, err := apifu.NewAPI(cfg); err == nil && api != nil {
			fail(failure{Part: "config", Kind: "property", Class: "config-hook-error-lost", What: "PreprocessGraphQLSchemaDefinition returned an error, NewAPI succeeded"})
		}
	}

	// gentle hook
	{
		bt := build(c.S)
		cfg := configure(bt, cd)
		before, xerr := extract(bt.def, newIDAlloc(1))
		f10i := known(bt)
		cfg.PreprocessGraphQLSchemaDefinition = func(def *graphql.SchemaDefinition) error {
			w := collect(def)
			for i, c := range w.out {
				if c.Kind != "ptr" || f10i[fmt.Sprintf("%s:%x", c.Kind, c.Addr)] {
					continue
				}
				v := w.vals[i]
				if _, ok := v.Interface().(schema.NamedType); !ok {
					continue
				}
				if f := v.Elem().FieldByName("Description"); f.IsValid() && f.Kind() == reflect.String && f.CanSet() {
					f.SetString(f.String() + "~hook")
				}
			}
			return nil
		}
		api, err := apifu.NewAPI(cfg)
		if err != nil {
			fail(failure{Part: "config", Kind: "property", Class: "config-gentle-rejected", What: "with a hook that only appends to descriptions NewAPI fails although the same configuration is accepted without hook: " + err.Error()})
			return fails
		}
		body, _ := json.Marshal(map[string]string{"query": string(introspection.Query)})
		req := httptest.NewRequest("POST", "/graphql", bytes.NewReader(body))
		req.Header.Set("Content-Type", "application/json")
		rec := httptest.NewRecorder()
		api.ServeGraphQL(rec, req)
		var resp struct {
			Data   json.RawMessage   `json:"data"`
			Errors []json.RawMessage `json:"errors"`
		}
		if err := json.Unmarshal(rec.Body.Bytes(), &resp); err != nil || len(resp.Errors) > 0 || resp.Data == nil {
			fail(failure{Part: "config", Kind: "property", Class: "config-intro-fails", What: fmt.Sprintf("introspection through the API fails: status %d %.200s", rec.Code, rec.Body.String())})
			return fails
		}
		intro, err := parseIntro(resp.Data)
		if err != nil {
			fail(failure{Part: "config", Kind: "property", Class: "config-intro-shape", What: err.Error()})
			return fails
		}
		for _, t := range intro.Types {
			if isBuiltinScalar(t.Name) || strings.HasPrefix(t.Name, "__") {
				continue
			}
			if t.Desc == nil || !strings.HasSuffix(*t.Desc, "~hook") {
				got := "null"
				if t.Desc != nil {
					got = fmt.Sprintf("%q", *t.Desc)
				}
				fail(failure{Part: "config", Kind: "property", Class: "config-hook-ignored", What: fmt.Sprintf("the API's schema does not have the hook's modification: type %s has description %s", t.Name, got)})
				break
			}
		}
		after, xerr2 := extract(bt.def, newIDAlloc(1))
		if xerr == nil && (xerr2 != nil || before.String() != after.String()) {
			what := "a PreprocessGraphQLSchemaDefinition hook that appends to descriptions changed the configured types"
			if xerr2 == nil {
				what += ": " + firstDiff(before.String(), after.String())
			}
			fail(failure{Part: "config", Kind: "property", Class: "config-hook-visible", What: what})
		}
	}
	return fails
}
