// Tie of the heap model of Clone (lean/ApiFu/C10/CloneHeap.lean, driver op `heapclone`).
//
// A real definition is written down as the pointer graph it is: every pointed-to struct, map and
// slice backing array reachable from the *SchemaDefinition is a node with an address (numbered in
// first-visit order), a label (its Go type and everything in it that is not a pointer: strings,
// booleans, map keys, locations, which pointer fields are set) and the addresses it points at, in a
// fixed order (struct fields in declaration order, map entries by key, slice elements by index).
// Pointers to the six named-type structs are `named` nodes. Nothing is exempt except what Clone
// shares by design and the model does not represent: function values and the opaque application
// values (DefaultValue, enum Value, Argument.Value).
//
// The model is given that graph, the address above it (base) and what pass 1 of Clone collects
// (the named types Inspect reaches, computed from the SDef: appdirs.go reach(false)); it answers
// with the nodes its clone allocates. The real clone is walked with the same address allocator
// (structs shared with the original keep their number, everything else is numbered from base) and
// the two rooted, ordered, labelled graphs must be isomorphic with every address below base fixed:
// same contents, same sharing with the original, same allocation granularity (one copy per path
// for inner structs, one per name for named types).
package main

import (
	"fmt"
	"reflect"
	"sort"
	"strconv"
	"strings"

	"github.com/ccbrown/api-fu/graphql/schema"

	"verifharness/hx"
)

type hnode struct {
	Addr  int
	Named bool
	Name  string
	Label string
	Kids  []int
}

type hwalk struct {
	byKey map[string]int
	next  int
	nodes map[int]*hnode
	order []int
}

func newHWalk() *hwalk { return &hwalk{byKey: map[string]int{}, next: 0, nodes: map[int]*hnode{}} }

func (w *hwalk) addr(kind string, v reflect.Value) (int, bool) {
	key := fmt.Sprintf("%s:%x:%s", kind, v.Pointer(), v.Type())
	if a, ok := w.byKey[key]; ok {
		return a, false
	}
	a := w.next
	w.next++
	w.byKey[key] = a
	return a, true
}

func (w *hwalk) node(a int) *hnode {
	n := &hnode{Addr: a}
	w.nodes[a] = n
	w.order = append(w.order, a)
	return n
}

// walk returns the address of the container v denotes, or -1 (nil, not a container).
func (w *hwalk) walk(v reflect.Value) int {
	switch v.Kind() {
	case reflect.Interface:
		if v.IsNil() {
			return -1
		}
		return w.walk(v.Elem())
	case reflect.Ptr:
		if v.IsNil() || v.Elem().Kind() != reflect.Struct {
			return -1
		}
		a, fresh := w.addr("ptr", v)
		if !fresh {
			return a
		}
		n := w.node(a)
		if nt, ok := v.Interface().(schema.NamedType); ok {
			n.Named, n.Name = true, nt.TypeName()
		}
		s := v.Elem()
		t := s.Type()
		var lb strings.Builder
		lb.WriteString("*" + t.Name())
		for i := 0; i < t.NumField(); i++ {
			f := t.Field(i)
			if !f.IsExported() || opaqueFields[t.Name()+"."+f.Name] {
				continue
			}
			fv := s.Field(i)
			switch fv.Kind() {
			case reflect.String:
				fmt.Fprintf(&lb, " %s=%q", f.Name, fv.String())
			case reflect.Bool:
				fmt.Fprintf(&lb, " %s=%v", f.Name, fv.Bool())
			case reflect.Int, reflect.Int64:
				fmt.Fprintf(&lb, " %s=%d", f.Name, fv.Int())
			case reflect.Func:
				// shared by design, not represented
			default:
				if k := w.walk(fv); k >= 0 {
					lb.WriteString(" " + f.Name + ">")
					n.Kids = append(n.Kids, k)
				}
			}
		}
		n.Label = lb.String()
		return a
	case reflect.Map:
		if v.IsNil() {
			return -1
		}
		a, fresh := w.addr("map", v)
		if !fresh {
			return a
		}
		n := w.node(a)
		keys := v.MapKeys()
		sort.Slice(keys, func(i, j int) bool { return fmt.Sprint(keys[i]) < fmt.Sprint(keys[j]) })
		var lb strings.Builder
		lb.WriteString(v.Type().String())
		for _, k := range keys {
			fmt.Fprintf(&lb, " %q", fmt.Sprint(k))
			if kid := w.walk(v.MapIndex(k)); kid >= 0 {
				lb.WriteString(">")
				n.Kids = append(n.Kids, kid)
			}
		}
		n.Label = lb.String()
		return a
	case reflect.Slice:
		if v.IsNil() || v.Cap() == 0 {
			return -1
		}
		a, fresh := w.addr("slice", v)
		if !fresh {
			return a
		}
		n := w.node(a)
		var lb strings.Builder
		fmt.Fprintf(&lb, "%s len=%d", v.Type().String(), v.Len())
		for i := 0; i < v.Len(); i++ {
			e := v.Index(i)
			if e.Kind() == reflect.String {
				fmt.Fprintf(&lb, " %q", e.String())
				continue
			}
			if kid := w.walk(e); kid >= 0 {
				lb.WriteString(" >")
				n.Kids = append(n.Kids, kid)
			} else {
				lb.WriteString(" nil")
			}
		}
		n.Label = lb.String()
		return a
	}
	return -1
}

func (n *hnode) sexp() hx.Sexp {
	xs := []hx.Sexp{hx.I(int64(n.Addr))}
	if n.Named {
		xs = append(xs, hx.A("n"), hx.A(n.Name))
	} else {
		xs = append(xs, hx.A("i"))
	}
	xs = append(xs, hx.A(n.Label))
	for _, k := range n.Kids {
		xs = append(xs, hx.I(int64(k)))
	}
	return hx.L(xs...)
}

func hnodeOf(x hx.Sexp) (*hnode, error) {
	if !x.IsList || len(x.List) < 3 {
		return nil, fmt.Errorf("bad node %s", x.String())
	}
	a, err := strconv.Atoi(x.List[0].Atom)
	if err != nil {
		return nil, err
	}
	n := &hnode{Addr: a}
	rest := x.List[2:]
	switch x.List[1].Atom {
	case "n":
		if len(rest) < 2 {
			return nil, fmt.Errorf("bad node %s", x.String())
		}
		n.Named, n.Name, n.Label = true, rest[0].Atom, rest[1].Atom
		rest = rest[2:]
	case "i":
		n.Label = rest[0].Atom
		rest = rest[1:]
	default:
		return nil, fmt.Errorf("bad node %s", x.String())
	}
	for _, k := range rest {
		v, err := strconv.Atoi(k.Atom)
		if err != nil {
			return nil, err
		}
		n.Kids = append(n.Kids, v)
	}
	return n, nil
}

// isoFrom compares the graph below a (model) with the graph below b (implementation): addresses
// below base are the original's and must be equal, the others are matched one to one.
func isoFrom(m, r map[int]*hnode, a, b, base int, fwd, bwd map[int]int, path string) string {
	if a < base || b < base {
		if a != b {
			return fmt.Sprintf("at %s: model points at %s, implementation at %s", path, whose(a, base), whose(b, base))
		}
		return ""
	}
	if x, ok := fwd[a]; ok {
		if x != b {
			return fmt.Sprintf("at %s: the model reaches one copy on two paths where the implementation has two copies (or the reverse)", path)
		}
		return ""
	}
	if _, ok := bwd[b]; ok {
		return fmt.Sprintf("at %s: the implementation reaches one copy on two paths where the model has two copies", path)
	}
	fwd[a], bwd[b] = b, a
	mn, rn := m[a], r[b]
	if mn == nil || rn == nil {
		return fmt.Sprintf("at %s: node missing (model %v, implementation %v)", path, mn != nil, rn != nil)
	}
	if mn.Named != rn.Named || mn.Name != rn.Name || mn.Label != rn.Label {
		return fmt.Sprintf("at %s: contents differ: model %q %q, implementation %q %q", path, mn.Name, mn.Label, rn.Name, rn.Label)
	}
	if len(mn.Kids) != len(rn.Kids) {
		return fmt.Sprintf("at %s (%s): model has %d pointers, implementation %d", path, mn.Label, len(mn.Kids), len(rn.Kids))
	}
	for i := range mn.Kids {
		if d := isoFrom(m, r, mn.Kids[i], rn.Kids[i], base, fwd, bwd, fmt.Sprintf("%s/%d", path, i)); d != "" {
			return d
		}
	}
	return ""
}

func whose(a, base int) string {
	if a < base {
		return fmt.Sprintf("the original's struct #%d", a)
	}
	return "a new struct"
}

// tieHeapClone: the model's clone over the explicit heap vs the real Clone.
func (h *harness) tieHeapClone(c *Case, bt *built, cl *schema.SchemaDefinition) *failure {
	w := newHWalk()
	root := w.walk(reflect.ValueOf(bt.def))
	base := w.next
	// pass 1: the named types Inspect reaches, by name, with the address of their struct
	reach := c.S.reach(h.clonesAll)
	var names []string
	for n := range reach {
		if !isBuiltinScalar(n) && bt.types[n] != nil {
			names = append(names, n)
		}
	}
	sort.Strings(names)
	tbl := []hx.Sexp{hx.A("tbl")}
	for _, n := range names {
		a, fresh := w.addr("ptr", reflect.ValueOf(bt.types[n]))
		if fresh {
			return corr("heap-extract", "a named type Inspect reaches is not reachable by pointer: "+n)
		}
		tbl = append(tbl, hx.L(hx.A(n), hx.I(int64(a))))
	}
	heap := []hx.Sexp{hx.A("heap")}
	for _, a := range w.order {
		heap = append(heap, w.nodes[a].sexp())
	}
	origNodes := len(w.order)
	rep, f := h.ask(hx.N("heapclone", hx.I(64), hx.I(int64(base)), hx.I(int64(root)), hx.L(tbl...), hx.L(heap...)).String())
	if f != nil {
		return f
	}
	h.count("model:heapclone")
	if !rep.IsList || len(rep.List) < 3 || rep.List[0].Atom != "cloned" {
		return corr("model-heapclone", "the heap model's clone gives no result: "+rep.String())
	}
	mroot, _ := strconv.Atoi(rep.List[1].Atom)
	mnodes := map[int]*hnode{}
	for _, x := range rep.List[3:] {
		n, err := hnodeOf(x)
		if err != nil {
			return corr("model-driver", "unreadable heapclone reply: "+err.Error())
		}
		mnodes[n.Addr] = n
	}
	// the real clone, numbered with the same allocator
	rroot := w.walk(reflect.ValueOf(cl))
	if !h.quiet {
		h.run.CountN("model:heapclone:nodes-original", origNodes)
		h.run.CountN("model:heapclone:nodes-allocated-by-clone", len(w.order)-origNodes)
	}
	if d := isoFrom(mnodes, w.nodes, mroot, rroot, base, map[int]int{}, map[int]int{}, "clone"); d != "" {
		return corr("model-heapclone", "the clone as a pointer graph (heap model vs implementation): "+d)
	}
	if len(mnodes) != len(w.order)-origNodes {
		return corr("model-heapclone", fmt.Sprintf("the heap model's clone allocates %d structs, the implementation's clone consists of %d new structs", len(mnodes), len(w.order)-origNodes))
	}
	return nil
}
