// Correspondence with the Lean model (driver c10model).
package main

import (
	"github.com/ccbrown/api-fu/graphql/schema"
)

func (h *harness) modelIntroLine(bt *built, s *schema.Schema, F []string) (string, error) {
	return "", nil
}

func (h *harness) tieIntro(bt *built, s *schema.Schema, F []string, got *IntroD) *failure { return nil }

func (h *harness) tieRebuild(bt *built, s *schema.Schema, data []byte) *failure { return nil }

func (h *harness) tieClone(bt *built, cl *schema.SchemaDefinition) *failure { return nil }
