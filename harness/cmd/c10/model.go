// Correspondence with the Lean model (driver c10model): the model is fed the *real* definition
// (typed extraction, extract.go) and the registries of the *real* schema.New; its answers are
// compared with what the implementation did.
package main

import (
	"encoding/json"
	"fmt"
	"sort"
	"strconv"

	"github.com/ccbrown/api-fu/graphql/schema"

	"verifharness/hx"
)

func registrySexps(s *schema.Schema) (hx.Sexp, hx.Sexp) {
	names := []string{}
	for n := range s.NamedTypes() {
		names = append(names, n)
	}
	sort.Strings(names)
	reg := []hx.Sexp{}
	impls := []hx.Sexp{}
	for _, n := range names {
		reg = append(reg, hx.A(n))
		if _, ok := s.NamedTypes()[n].(*schema.InterfaceType); ok {
			xs := []hx.Sexp{hx.A(n)}
			for _, o := range s.InterfaceImplementations(n) {
				xs = append(xs, hx.A(o.Name))
			}
			if len(xs) > 1 {
				impls = append(impls, hx.L(xs...))
			}
		}
	}
	return hx.N("registry", reg...), hx.N("impls", impls...)
}

func featuresSexp(F []string) hx.Sexp {
	xs := []hx.Sexp{}
	for _, f := range F {
		xs = append(xs, hx.A(f))
	}
	return hx.N("features", xs...)
}

func (h *harness) modelIntroLine(bt *built, s *schema.Schema, F []string) (string, error) {
	x, err := extract(bt.def, newIDAlloc(1))
	if err != nil {
		return "", err
	}
	reg, impls := registrySexps(s)
	return hx.N("introspect", x, reg, impls, featuresSexp(F)).String(), nil
}

// ---- decoding the model's IntroData -----------------------------------------------------------

func optStrOf(x hx.Sexp) (*string, error) {
	if !x.IsList {
		if x.Atom == "none" {
			return nil, nil
		}
		return nil, fmt.Errorf("bad optional string %v", x)
	}
	if len(x.List) == 2 && x.List[0].Atom == "some" && !x.List[1].IsList {
		s := x.List[1].Atom
		return &s, nil
	}
	return nil, fmt.Errorf("bad optional string %v", x)
}

func refOf(x hx.Sexp) (RefD, error) {
	if !x.IsList || len(x.List) < 2 {
		return RefD{}, fmt.Errorf("bad ref %v", x)
	}
	switch x.List[0].Atom {
	case "named":
		if len(x.List) != 3 {
			return RefD{}, fmt.Errorf("bad ref %v", x)
		}
		n := x.List[2].Atom
		return RefD{Kind: x.List[1].Atom, Name: &n}, nil
	case "wrap":
		if len(x.List) != 3 {
			return RefD{}, fmt.Errorf("bad ref %v", x)
		}
		in, err := refOf(x.List[2])
		if err != nil {
			return RefD{}, err
		}
		return RefD{Kind: x.List[1].Atom, OfType: &in}, nil
	case "cut":
		return RefD{Kind: x.List[1].Atom}, nil
	}
	return RefD{}, fmt.Errorf("bad ref %v", x)
}

func ivOf(x hx.Sexp) (InputValueD, error) {
	if !x.IsList || len(x.List) != 5 || x.List[0].Atom != "iv" {
		return InputValueD{}, fmt.Errorf("bad input value %v", x)
	}
	d, err := optStrOf(x.List[2])
	if err != nil {
		return InputValueD{}, err
	}
	r, err := refOf(x.List[3])
	if err != nil {
		return InputValueD{}, err
	}
	out := InputValueD{Name: x.List[1].Atom, Desc: d, Type: r}
	if !x.List[4].IsList && x.List[4].Atom == "error" {
		e := "<the defaultValue resolver fails>"
		out.Default = &e
	} else if out.Default, err = optStrOf(x.List[4]); err != nil {
		return InputValueD{}, err
	}
	return out, nil
}

func ivsOf(xs []hx.Sexp) ([]InputValueD, error) {
	out := []InputValueD{}
	for _, x := range xs {
		iv, err := ivOf(x)
		if err != nil {
			return nil, err
		}
		out = append(out, iv)
	}
	return out, nil
}

// optListOf decodes none | (some x…).
func optListOf(x hx.Sexp) ([]hx.Sexp, bool, error) {
	if !x.IsList {
		if x.Atom == "none" {
			return nil, false, nil
		}
		return nil, false, fmt.Errorf("bad optional list %v", x)
	}
	if len(x.List) >= 1 && x.List[0].Atom == "some" {
		return x.List[1:], true, nil
	}
	return nil, false, fmt.Errorf("bad optional list %v", x)
}

func introOf(x hx.Sexp) (*IntroD, error) {
	if !x.IsList || len(x.List) != 6 || x.List[0].Atom != "intro" {
		return nil, fmt.Errorf("unexpected reply %.200s", x.String())
	}
	out := &IntroD{Types: []TypeD{}, Directives: []DirectiveD{}}
	q, err := optStrOf(x.List[1])
	if err != nil || q == nil {
		return nil, fmt.Errorf("bad queryType")
	}
	out.QueryType = NameD{*q}
	if m, err := optStrOf(x.List[2]); err != nil {
		return nil, err
	} else if m != nil {
		out.MutationType = &NameD{*m}
	}
	if s, err := optStrOf(x.List[3]); err != nil {
		return nil, err
	} else if s != nil {
		out.SubscriptionType = &NameD{*s}
	}
	for _, t := range x.List[4].List[1:] {
		if !t.IsList || len(t.List) != 9 {
			return nil, fmt.Errorf("bad type %v", t)
		}
		td := TypeD{Kind: t.List[1].Atom, Name: t.List[2].Atom}
		if td.Desc, err = optStrOf(t.List[3]); err != nil {
			return nil, err
		}
		if fs, ok, err := optListOf(t.List[4]); err != nil {
			return nil, err
		} else if ok {
			out := []FieldD{}
			for _, f := range fs {
				if !f.IsList || len(f.List) != 7 {
					return nil, fmt.Errorf("bad field %v", f)
				}
				fd := FieldD{Name: f.List[1].Atom, IsDeprecated: f.List[5].Atom == "true"}
				if fd.Desc, err = optStrOf(f.List[2]); err != nil {
					return nil, err
				}
				if fd.Args, err = ivsOf(f.List[3].List[1:]); err != nil {
					return nil, err
				}
				if fd.Type, err = refOf(f.List[4]); err != nil {
					return nil, err
				}
				if fd.Depr, err = optStrOf(f.List[6]); err != nil {
					return nil, err
				}
				out = append(out, fd)
			}
			td.Fields = &out
		}
		if xs, ok, err := optListOf(t.List[5]); err != nil {
			return nil, err
		} else if ok {
			ivs, err := ivsOf(xs)
			if err != nil {
				return nil, err
			}
			td.InputFields = &ivs
		}
		refs := func(x hx.Sexp) (*[]RefD, error) {
			xs, ok, err := optListOf(x)
			if err != nil || !ok {
				return nil, err
			}
			out := []RefD{}
			for _, r := range xs {
				rd, err := refOf(r)
				if err != nil {
					return nil, err
				}
				out = append(out, rd)
			}
			return &out, nil
		}
		if td.Interfaces, err = refs(t.List[6]); err != nil {
			return nil, err
		}
		if xs, ok, err := optListOf(t.List[7]); err != nil {
			return nil, err
		} else if ok {
			out := []EnumValueD{}
			for _, v := range xs {
				if !v.IsList || len(v.List) != 5 {
					return nil, fmt.Errorf("bad enum value %v", v)
				}
				e := EnumValueD{Name: v.List[1].Atom, IsDeprecated: v.List[3].Atom == "true"}
				if e.Desc, err = optStrOf(v.List[2]); err != nil {
					return nil, err
				}
				if e.Depr, err = optStrOf(v.List[4]); err != nil {
					return nil, err
				}
				out = append(out, e)
			}
			td.EnumValues = &out
		}
		if td.PossibleTypes, err = refs(t.List[8]); err != nil {
			return nil, err
		}
		out.Types = append(out.Types, td)
	}
	for _, d := range x.List[5].List[1:] {
		if !d.IsList || len(d.List) != 5 {
			return nil, fmt.Errorf("bad directive %v", d)
		}
		dd := DirectiveD{Name: d.List[1].Atom, Locations: []string{}}
		if dd.Desc, err = optStrOf(d.List[2]); err != nil {
			return nil, err
		}
		for _, l := range d.List[3].List[1:] {
			dd.Locations = append(dd.Locations, l.Atom)
		}
		if dd.Args, err = ivsOf(d.List[4].List[1:]); err != nil {
			return nil, err
		}
		out.Directives = append(out.Directives, dd)
	}
	sortIntro(out)
	return out, nil
}

// ---- ties ---------------------------------------------------------------------------------------

// useDef makes bt's extracted definition the driver's current one (sent once per build; requests
// then say `cur`). The driver keeps exactly one definition: curDef remembers the serial number of
// the build it belongs to (not its address, which the garbage collector may reuse).
func (h *harness) useDef(bt *built) (hx.Sexp, *failure) {
	if bt.defSexp == nil {
		x, err := extract(bt.def, newIDAlloc(1))
		if err != nil {
			return hx.Sexp{}, corr("extract", "the definition cannot be abstracted for the model: "+err.Error())
		}
		bt.defSexp = &x
	}
	if h.curDef != bt.serial {
		rep, err := h.model.Ask(hx.N("def", *bt.defSexp).String())
		if err != nil || rep != "ok" {
			return hx.Sexp{}, corr("model-driver", fmt.Sprintf("model driver did not accept the definition: %q %v", rep, err))
		}
		h.curDef = bt.serial
	}
	return hx.A("cur"), nil
}

func corr(class, what string) *failure {
	return &failure{Part: "model", Kind: "correspondence", Class: class, What: what}
}

func (h *harness) ask(line string) (hx.Sexp, *failure) {
	rep, err := h.model.Ask(line)
	if err != nil {
		return hx.Sexp{}, corr("model-driver", "model driver failed: "+err.Error())
	}
	x, err := hx.ParseSexp(rep)
	if err != nil {
		return hx.Sexp{}, corr("model-driver", fmt.Sprintf("unreadable model reply %.200q: %v", rep, err))
	}
	return x, nil
}

// tieIntro compares the model's `introspect` (and, for the first feature set of a schema, the
// model's registries and the acceptance predicate) with the implementation.
func (h *harness) tieIntro(bt *built, s *schema.Schema, F []string, got *IntroD) *failure {
	x, f0 := h.useDef(bt)
	if f0 != nil {
		return f0
	}
	reg, impls := registrySexps(s)
	if bt.tied == 0 {
		bt.tied++
		// registries: the model's Inspect traversal vs the real one (as sets)
		rep, f := h.ask(hx.N("new", x).String())
		if f != nil {
			return f
		}
		h.count("model:new")
		if a, b := canonRegistries(rep), canonRegistries(hx.N("reg", reg, impls)); a != b {
			return corr("model-new", "registries differ: model "+a+", implementation "+b)
		}
		// acceptance: the invariant the theorems assume must hold of every schema schema.New returned
		rep, f = h.ask(hx.N("accepted", x, reg, impls).String())
		if f != nil {
			return f
		}
		h.count("model:accepted")
		if rep.String() != "(accepted true true true true true true)" {
			return corr("model-accepted", "the acceptance predicate the theorems assume (wf closed implsExact kindsOk featuresOk namesOk) is false of a schema schema.New accepted: "+rep.String())
		}
	}
	rep, f := h.ask(hx.N("introspect", x, reg, impls, featuresSexp(F)).String())
	if f != nil {
		return f
	}
	h.count("model:introspect")
	want, err := introOf(rep)
	if err != nil {
		return corr("model-intro", "model reply: "+err.Error())
	}
	b, _ := json.Marshal(got)
	var g IntroD
	json.Unmarshal(b, &g)
	canonDefaults(want)
	canonDefaults(&g)
	if d := diff(want, &g); d != "" {
		return corr("model-intro", fmt.Sprintf("features %v: model and implementation disagree at %s (want = model)", F, d))
	}
	return nil
}

func canonRegistries(x hx.Sexp) string {
	if !x.IsList || len(x.List) != 3 {
		return x.String()
	}
	names := []string{}
	for _, n := range x.List[1].List[1:] {
		names = append(names, n.Atom)
	}
	sort.Strings(names)
	impls := []string{}
	for _, p := range x.List[2].List[1:] {
		os := []string{}
		for _, o := range p.List[1:] {
			os = append(os, o.Atom)
		}
		sort.Strings(os)
		impls = append(impls, fmt.Sprintf("%s<-%v", p.List[0].Atom, os))
	}
	sort.Strings(impls)
	return fmt.Sprintf("types%v impls%v", names, impls)
}

var idTags = map[string]bool{"self": true, "feat": true, "dirs": true, "args": true, "fields": true, "ifaces": true, "members": true,
	"values": true, "inputs": true, "locs": true, "additional": true, "directives": true, "t": true}

// canonIDs replaces identities >= base by "new" (containers the clone allocated) and sorts the
// names of `additional` (their order is immaterial and the rebuilt one comes out of a Go map).
// sortMemberLists: also sort the names of `ifaces` and `members` (set while a definition rebuilt
// from a reordered introspection result is compared: their order follows the result's).
var sortMemberLists bool

func canonIDs(x hx.Sexp, base int, sortAdditional bool) hx.Sexp {
	if !x.IsList {
		return x
	}
	out := hx.Sexp{IsList: true, List: make([]hx.Sexp, len(x.List))}
	for i, e := range x.List {
		out.List[i] = canonIDs(e, base, sortAdditional)
	}
	if len(out.List) >= 2 && !out.List[0].IsList && idTags[out.List[0].Atom] && !out.List[1].IsList {
		if n, err := strconv.Atoi(out.List[1].Atom); err == nil && n >= base {
			out.List[1] = hx.A("new")
		}
		if sortAdditional && (out.List[0].Atom == "additional" || (sortMemberLists && (out.List[0].Atom == "ifaces" || out.List[0].Atom == "members"))) {
			rest := out.List[2:]
			sort.Slice(rest, func(i, j int) bool { return rest[i].Atom < rest[j].Atom })
		}
	}
	return out
}

// tieClone compares contents and sharing pattern of the real clone with the model's.
func (h *harness) tieClone(bt *built, cl *schema.SchemaDefinition) *failure {
	ids := newIDAlloc(1)
	x1, err := extract(bt.def, ids)
	if err != nil {
		return corr("extract", "the definition cannot be abstracted for the model: "+err.Error())
	}
	base := ids.next
	x2, err := extract(cl, ids)
	if err != nil {
		return corr("extract", "the clone cannot be abstracted for the model: "+err.Error())
	}
	rep, f := h.ask(hx.N("clone", hx.I(int64(base)), x1).String())
	if f != nil {
		return f
	}
	h.count("model:clone")
	a, b := canonIDs(rep, base, false).String(), canonIDs(x2, base, false).String()
	if a != b {
		return corr("model-clone", "contents / sharing pattern of the clone differ (identities below the base are shared with the original): model vs implementation "+firstDiff(a, b))
	}
	return nil
}

// tieRebuild compares the real rebuilt definition with the model's rebuild (introspect S ⊤).
func (h *harness) tieRebuild(bt *built, s *schema.Schema, def2 *schema.SchemaDefinition, reordered bool) *failure {
	x2, err := extract(def2, newIDAlloc(1))
	if err != nil {
		return corr("extract", "the rebuilt definition cannot be abstracted for the model: "+err.Error())
	}
	x, f0 := h.useDef(bt)
	if f0 != nil {
		return f0
	}
	reg, impls := registrySexps(s)
	variant := "drop"
	if h.keepDefaults {
		variant = "keep"
	}
	rep, f := h.ask(hx.N("rebuild", x, reg, impls, featuresSexp(bt.sdef.allFeatures()), hx.A(variant)).String())
	if f != nil {
		return f
	}
	h.count("model:rebuild:" + variant)
	sortMemberLists = reordered
	a, b := canonValues(canonIDs(rep, 1<<40, true)), canonValues(canonIDs(eraseIDs(x2), 1<<40, true))
	sortMemberLists = false
	st := &wildStats{}
	if where := matchWild(a, b, "", st); where != "" {
		return corr("model-rebuild", "rebuilt definitions differ at "+where+": model vs implementation "+firstDiff(a.String(), b.String()))
	}
	if !h.quiet {
		h.run.CountN("model:rebuild:defaults-determined", st.exact)
		h.run.CountN("model:rebuild:defaults-not-determined-by-model", st.wild)
	}
	return nil
}

// canonValues prepares default values for comparison between the model's rebuilt definition and the
// real one: an enum value is the string of its name in a rebuilt definition, and the fields of an
// input-object value come out of a Go map (sorted by name here).
func canonValues(x hx.Sexp) hx.Sexp {
	if !x.IsList {
		return x
	}
	out := hx.Sexp{IsList: true, List: make([]hx.Sexp, len(x.List))}
	for i, e := range x.List {
		out.List[i] = canonValues(e)
	}
	if len(out.List) >= 1 && !out.List[0].IsList {
		switch out.List[0].Atom {
		case "enum":
			out.List[0] = hx.A("str")
		case "obj":
			rest := out.List[1:]
			sort.SliceStable(rest, func(i, j int) bool {
				if len(rest[i].List) == 0 || len(rest[j].List) == 0 {
					return false
				}
				return rest[i].List[0].Atom < rest[j].List[0].Atom
			})
		}
	}
	return out
}

type wildStats struct{ exact, wild int }

func isWild(x hx.Sexp) bool {
	return x.IsList && len(x.List) == 2 && !x.List[0].IsList && x.List[0].Atom == "float"
}

func hasWild(x hx.Sexp) bool {
	if isWild(x) {
		return true
	}
	for _, e := range x.List {
		if hasWild(e) {
			return true
		}
	}
	return false
}

// matchWild compares the model's expression with the implementation's; `(float "text")` on the
// model's side (a default value, or part of one, that the model does not determine) matches
// anything, and `(default (float …))` also matches an absent default. It returns the path of the
// first mismatch ("" = match).
func matchWild(model, real hx.Sexp, path string, st *wildStats) string {
	if isWild(model) {
		return ""
	}
	if model.IsList != real.IsList {
		return path
	}
	if !model.IsList {
		if model.Atom != real.Atom {
			return path + " (" + model.Atom + " vs " + real.Atom + ")"
		}
		return ""
	}
	if len(model.List) >= 1 && !model.List[0].IsList && model.List[0].Atom == "default" && len(model.List) == 2 {
		if isWild(model.List[1]) {
			st.wild++
			return ""
		}
		if model.List[1].IsList || model.List[1].Atom != "none" {
			if hasWild(model.List[1]) {
				st.wild++
			} else {
				st.exact++
			}
		}
	}
	// an input-object value: the model's entries whose value it does not determine (a field filled
	// in from a default that is itself not determined, e.g. one whose literal does not parse) may be
	// absent on the implementation's side
	if len(model.List) >= 1 && !model.List[0].IsList && model.List[0].Atom == "obj" && real.IsList && len(real.List) >= 1 && !real.List[0].IsList && real.List[0].Atom == "obj" {
		realBy := map[string]hx.Sexp{}
		for _, e := range real.List[1:] {
			if e.IsList && len(e.List) == 2 && !e.List[0].IsList {
				realBy[e.List[0].Atom] = e.List[1]
			}
		}
		seen := 0
		for _, e := range model.List[1:] {
			if !e.IsList || len(e.List) != 2 || e.List[0].IsList {
				return path + " (malformed object value)"
			}
			k := e.List[0].Atom
			rv, ok := realBy[k]
			if !ok {
				if isWild(e.List[1]) {
					continue
				}
				return path + "/obj (field " + k + " missing)"
			}
			seen++
			if w := matchWild(e.List[1], rv, path+"/obj/"+k, st); w != "" {
				return w
			}
		}
		if seen != len(realBy) {
			return path + "/obj (extra fields on the implementation's side)"
		}
		return ""
	}
	if len(model.List) != len(real.List) {
		return path + " (length)"
	}
	for i := range model.List {
		p := path
		if i == 0 && !model.List[0].IsList {
			continue
		}
		if !model.List[0].IsList {
			p = path + "/" + model.List[0].Atom
			if len(model.List) > 1 && !model.List[1].IsList && i > 1 {
				p = path + "/" + model.List[0].Atom + ":" + model.List[1].Atom
			}
		}
		if w := matchWild(model.List[i], real.List[i], p, st); w != "" {
			return w
		}
	}
	if len(model.List) > 0 && !model.List[0].IsList && !real.List[0].IsList && model.List[0].Atom != real.List[0].Atom {
		return path + " (" + model.List[0].Atom + " vs " + real.List[0].Atom + ")"
	}
	return ""
}

// tieRoundTrip ties the literal specification of the theorems (Literal.lean: parseLit, coerceLit)
// to reality on a printed default: for a value of the classes default_roundtrip covers, the
// specification parser must read the implementation's text as the literal denoting the configured
// value, and that literal must coerce back to it.
func (h *harness) tieRoundTrip(bt *built, cd confDefault, path, text string) *failure {
	x, f0 := h.useDef(bt)
	if f0 != nil {
		return f0
	}
	e := &extractor{ids: newIDAlloc(1), types: map[string]schema.NamedType{}}
	ts := e.typ(cd.Typ)
	vs := e.valOfT(cd.Conf, cd.Typ)
	if e.err != nil {
		return nil
	}
	rep, f := h.ask(hx.N("roundtrip", x, ts, vs, hx.A(canonLiteral(text))).String())
	if f != nil {
		return f
	}
	h.count("model:roundtrip")
	if !rep.IsList || len(rep.List) != 5 || rep.List[0].Atom != "rt" {
		return corr("model-roundtrip", "unexpected reply "+rep.String())
	}
	covered, nf, parses, coerces := rep.List[1].Atom == "true", rep.List[2].Atom == "true", rep.List[3].Atom == "true", rep.List[4].Atom == "true"
	if !covered || !nf {
		h.count("model:roundtrip:outside-covered-classes")
		return nil
	}
	h.count("model:roundtrip:covered")
	if !parses || !coerces {
		return corr("model-roundtrip", fmt.Sprintf("%s: the literal specification does not reproduce the round trip on the implementation's text %q (parses=%v coerces=%v)", path, text, parses, coerces))
	}
	return nil
}
