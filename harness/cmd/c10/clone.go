// Clone part: a reflection walk that collects the address of every map, slice backing array and
// pointer reachable from a definition, and a mutator that writes through every container of a
// definition.
//
// What counts as mutable structure of a definition: every pointed-to struct, map and slice of the
// types declared in package schema that is reachable from the *SchemaDefinition. Exempt (shared by
// design or not structure): the five built-in scalar singletons (schema.New insists on pointer
// identity for them), function values, and the opaque application values stored in
// InputValueDefinition.DefaultValue, EnumValueDefinition.Value and Argument.Value.
package main

import (
	"fmt"
	"reflect"
	"sort"

	"github.com/ccbrown/api-fu/graphql/schema"
)

type container struct {
	Addr uintptr
	Kind string // ptr | map | slice
	Type string
	Path string
}

var opaqueFields = map[string]bool{
	"InputValueDefinition.DefaultValue": true,
	"EnumValueDefinition.Value":         true,
	"Argument.Value":                    true,
}

func isBuiltinPtr(v reflect.Value) bool {
	if v.Kind() != reflect.Ptr || v.IsNil() {
		return false
	}
	for _, b := range schema.BuiltInTypes {
		if v.Pointer() == reflect.ValueOf(b).Pointer() {
			return true
		}
	}
	return false
}

type walker struct {
	seen map[string]bool
	out  []container
	vals []reflect.Value // the container values, same order as out
}

func (w *walker) record(v reflect.Value, kind, path string) bool {
	key := fmt.Sprintf("%s:%x:%s", kind, v.Pointer(), v.Type())
	if w.seen[key] {
		return false
	}
	w.seen[key] = true
	w.out = append(w.out, container{Addr: v.Pointer(), Kind: kind, Type: v.Type().String(), Path: path})
	w.vals = append(w.vals, v)
	return true
}

func (w *walker) walk(v reflect.Value, path string) {
	switch v.Kind() {
	case reflect.Interface:
		if !v.IsNil() {
			w.walk(v.Elem(), path)
		}
	case reflect.Ptr:
		if v.IsNil() || isBuiltinPtr(v) {
			return
		}
		if v.Elem().Kind() != reflect.Struct {
			return
		}
		if w.record(v, "ptr", path) {
			w.walk(v.Elem(), path)
		}
	case reflect.Struct:
		t := v.Type()
		for i := 0; i < t.NumField(); i++ {
			f := t.Field(i)
			if !f.IsExported() || opaqueFields[t.Name()+"."+f.Name] {
				continue
			}
			w.walk(v.Field(i), path+"."+f.Name)
		}
	case reflect.Map:
		if v.IsNil() {
			return
		}
		if !w.record(v, "map", path) {
			return
		}
		keys := v.MapKeys()
		sort.Slice(keys, func(i, j int) bool { return fmt.Sprint(keys[i]) < fmt.Sprint(keys[j]) })
		for _, k := range keys {
			w.walk(v.MapIndex(k), fmt.Sprintf("%s[%v]", path, k))
		}
	case reflect.Slice:
		if v.IsNil() || v.Cap() == 0 {
			return
		}
		if !w.record(v, "slice", path) {
			return
		}
		for i := 0; i < v.Len(); i++ {
			w.walk(v.Index(i), fmt.Sprintf("%s[%d]", path, i))
		}
	}
}

func collect(def *schema.SchemaDefinition) *walker {
	w := &walker{seen: map[string]bool{}}
	w.walk(reflect.ValueOf(def), "def")
	return w
}

// collectFrom walks from the given named types (everything reachable from them by pointer).
func collectFrom(types []schema.NamedType) *walker {
	w := &walker{seen: map[string]bool{}}
	for _, t := range types {
		w.walk(reflect.ValueOf(t), "type "+t.TypeName())
	}
	return w
}

func (w *walker) keys() map[string]bool {
	out := map[string]bool{}
	for _, c := range w.out {
		out[fmt.Sprintf("%s:%x", c.Kind, c.Addr)] = true
	}
	return out
}

// shared lists the containers of b whose address is also the address of a container of a
// (of the same kind).
func shared(a, b *walker) []container {
	in := map[string]bool{}
	for _, c := range a.out {
		in[fmt.Sprintf("%s:%x", c.Kind, c.Addr)] = true
	}
	var out []container
	for _, c := range b.out {
		if in[fmt.Sprintf("%s:%x", c.Kind, c.Addr)] {
			out = append(out, c)
		}
	}
	return out
}

// mutateAll writes through every container reachable from def: string fields of pointed-to structs
// are overwritten, every map gets a new entry and has its entries replaced by zero values, every
// slice element is overwritten with the zero value.
func mutateAll(def *schema.SchemaDefinition, except map[string]bool) (err error) {
	defer func() {
		if p := recover(); p != nil {
			err = fmt.Errorf("panic while mutating: %v", p)
		}
	}()
	w := collect(def)
	if len(except) > 0 {
		// containers already reported as shared under a known finding are left alone
		kept := &walker{}
		for i, c := range w.out {
			if !except[fmt.Sprintf("%s:%x", c.Kind, c.Addr)] {
				kept.out = append(kept.out, c)
				kept.vals = append(kept.vals, w.vals[i])
			}
		}
		w = kept
	}
	for i, c := range w.out {
		v := w.vals[i]
		switch c.Kind {
		case "ptr":
			s := v.Elem()
			for j := 0; j < s.NumField(); j++ {
				f := s.Field(j)
				if f.Kind() == reflect.String && f.CanSet() {
					f.SetString(f.String() + "~mutated")
				}
			}
		}
	}
	for i, c := range w.out {
		v := w.vals[i]
		switch c.Kind {
		case "map":
			zero := reflect.Zero(v.Type().Elem())
			for _, k := range v.MapKeys() {
				v.SetMapIndex(k, zero)
			}
			if v.Type().Key().Kind() == reflect.String {
				v.SetMapIndex(reflect.ValueOf("mutated__").Convert(v.Type().Key()), zero)
			}
			// and drop one of the original keys
			if ks := v.MapKeys(); len(ks) > 1 {
				sort.Slice(ks, func(a, b int) bool { return fmt.Sprint(ks[a]) < fmt.Sprint(ks[b]) })
				v.SetMapIndex(ks[0], reflect.Value{})
			}
		case "slice":
			zero := reflect.Zero(v.Type().Elem())
			full := v.Slice(0, v.Cap())
			for j := 0; j < full.Len(); j++ {
				if full.Index(j).CanSet() {
					full.Index(j).Set(zero)
				}
			}
		}
	}
	return nil
}
