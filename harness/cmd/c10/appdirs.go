// Applied directives and the types only they lead to.
//
// A *schema.Directive attached to a definition points at a *schema.DirectiveDefinition, which need
// not be an entry of SchemaDefinition.Directives, and whose arguments refer to named types — some of
// them referenced by nothing else in the whole definition. Everything behind such a pointer is part
// of the definition: schema.Inspect follows the directives applied to enum and scalar types (so
// schema.New registers what they lead to, introspection lists it, Clone must copy it), and whatever
// is reachable by pointer is "mutable structure" a clone must not share.
//
// This file has: the generator of custom directive definitions (listed and unlisted), of argument
// types of their own (an enum / an input object that refers on to types the rest of the schema uses,
// to itself, to a further type of its own), the enumeration of every element that can carry applied
// directives, and the two reachability notions computed from an SDef (by pointer / by Inspect).
package main

import (
	"fmt"
	"regexp"
	"sort"
	"strings"

	"github.com/ccbrown/api-fu/graphql/schema"

	"verifharness/hx"
)

// customDir draws a custom directive definition (its arguments may use scalars and enums; input
// objects are generated later, see exclusiveArgTypes).
func (g *gen) customDir(name string, add func(TypeDef)) DirDef {
	r, d := g.r, g.d
	dd := DirDef{Name: name, Desc: g.desc()}
	locs := append([]string{}, allLocations...)
	hx.Shuffle(r, locs)
	dd.Locs = locs[:r.Range(1, 4)]
	if r.Chance(1, 8) {
		dd.Locs = append([]string{}, allLocations...)
	}
	for j, k := 0, r.Intn(3); j < k; j++ {
		// directive arguments: ungated leaves only (directives are not feature-gated)
		saveInputs := g.inputs
		g.inputs = nil
		// (1 in 8: any leaf, so that schema.New's refusal of gated directive argument types is exercised)
		var allowed []string
		if r.Chance(1, 8) {
			allowed = g.feat
		}
		iv := g.inputVal(g.name("d", j), allowed, 1<<30)
		g.inputs = saveInputs
		if r.Chance(1, 3) {
			// an enum nothing but directive arguments refers to (history.go gates it afterwards)
			if d.typeByName("EnD") == nil {
				add(TypeDef{Kind: "enum", Name: "EnD", Values: []EnumVal{{Name: "FAST"}, {Name: "SLOW", Depr: "slow"}}})
			}
			iv.Type = TRef{W: hx.Pick(r, []string{"", "N", "L", "LN"}), N: "EnD"}
			iv.Def = nil
			if r.Bool() && !iv.Type.nonNull() {
				iv.Def = &Val{K: "null"}
			} else if r.Bool() && iv.Type.W == "" {
				iv.Def = &Val{K: "enum", S: "FAST"}
			}
		}
		dd.Args = append(dd.Args, iv)
	}
	return dd
}

// exclusiveArgTypes gives half of the custom directive definitions (listed and unlisted) an
// argument `x` whose type nothing else in the definition refers to: an enum, or an input object whose
// fields refer on — to types the rest of the schema uses as well (with defaults), to itself, to a
// further enum of its own. Runs when every ordinary type is complete.
func (g *gen) exclusiveArgTypes(add func(TypeDef)) {
	r, d := g.r, g.d
	k := 0
	give := func(dd *DirDef) {
		if !r.Chance(1, 2) {
			return
		}
		var name string
		var feat []string
		if r.Chance(1, 3) {
			name = g.name("XEn", k)
			if r.Chance(1, 6) {
				feat = g.featSet()
			}
			vs := []EnumVal{{Name: "P_" + name, Desc: g.desc()}, {Name: "Q_" + name, Depr: g.depr()}}
			g.reservedEnumValue(vs)
			add(TypeDef{Kind: "enum", Name: name, Desc: g.desc(), Feat: feat, Values: vs})
		} else {
			name = g.name("XIn", k)
			if r.Chance(1, 5) {
				feat = g.featSet()
			}
			g.tfeat[name] = feat
			rank := 1<<20 + k
			g.inputRank[name] = rank
			add(TypeDef{Kind: "input", Name: name, Desc: g.desc(), Feat: feat})
			var fields []InputVal
			for i, n := 0, r.Range(1, 3); i < n; i++ {
				fn := g.name("x", i)
				switch r.Intn(5) {
				case 0: // a further type of its own
					en := name + "E"
					if d.typeByName(en) == nil {
						add(TypeDef{Kind: "enum", Name: en, Feat: feat, Values: []EnumVal{{Name: "ONLY_" + en}}})
					}
					iv := InputVal{Name: fn, Type: TRef{W: hx.Pick(r, []string{"", "N", "L"}), N: en}}
					if r.Bool() {
						iv.Def = &Val{K: "enum", S: "ONLY_" + en}
						if iv.Type.W == "L" {
							iv.Def = &Val{K: "list", L: []Val{{K: "enum", S: "ONLY_" + en}}}
						}
					}
					fields = append(fields, iv)
				case 1: // itself
					fields = append(fields, InputVal{Name: fn, Desc: g.desc(), Type: TRef{W: hx.Pick(r, []string{"", "L", "LN"}), N: name}})
				default: // a type the rest of the schema may use as well
					fields = append(fields, g.inputVal(fn, feat, rank))
				}
			}
			for i := range fields {
				fields[i].Dirs = g.applied("INPUT_FIELD_DEFINITION")
			}
			tp := d.typeByName(name)
			tp.Inputs = fields
			tp.Dirs = g.applied("INPUT_OBJECT")
			g.complete[name] = true
		}
		arg := InputVal{Name: "x", Desc: g.desc(), Type: TRef{W: hx.Pick(r, []string{"", "", "N", "L", "NLN"}), N: name}}
		if r.Chance(1, 3) {
			v := g.value(arg.Type, 0, true)
			arg.Def = &v
		}
		dd.Args = append(dd.Args, arg)
		k++
	}
	for i := range d.Dirs {
		if d.Dirs[i].Builtin == "" {
			give(&d.Dirs[i])
		}
	}
	for i := range d.UDirs {
		give(&d.UDirs[i])
	}
	// directives that were applied before the argument existed: half of them get a value for it
	for _, c := range d.carriers() {
		for i := range *c.dirs {
			ad := &(*c.dirs)[i]
			dd := d.dirByName(ad.Def)
			if dd == nil {
				continue
			}
			for _, a := range dd.Args {
				if a.Name == "x" && r.Bool() {
					ad.Args = append(ad.Args, AppliedArg{Name: "x", V: g.value(a.Type, 2, false)})
					ad.NilArgs = false
				}
			}
		}
	}
}

// carrier is an element of a definition that has a Directives field.
type carrier struct {
	loc  string
	typ  string // the named type it belongs to
	dirs *[]AppliedDir
}

var kindLoc = map[string]string{"scalar": "SCALAR", "object": "OBJECT", "interface": "INTERFACE", "union": "UNION", "enum": "ENUM", "input": "INPUT_OBJECT"}

// carriers lists every element of the definition that can carry applied directives: the six kinds
// of named types, fields, arguments, enum values, input fields.
func (d *SDef) carriers() []carrier {
	var out []carrier
	for i := range d.Types {
		t := &d.Types[i]
		out = append(out, carrier{kindLoc[t.Kind], t.Name, &t.Dirs})
		for j := range t.Fields {
			out = append(out, carrier{"FIELD_DEFINITION", t.Name, &t.Fields[j].Dirs})
			for k := range t.Fields[j].Args {
				out = append(out, carrier{"ARGUMENT_DEFINITION", t.Name, &t.Fields[j].Args[k].Dirs})
			}
		}
		for j := range t.Values {
			out = append(out, carrier{"ENUM_VALUE", t.Name, &t.Values[j].Dirs})
		}
		for j := range t.Inputs {
			out = append(out, carrier{"INPUT_FIELD_DEFINITION", t.Name, &t.Inputs[j].Dirs})
		}
	}
	return out
}

// applyUnlisted makes sure every unlisted definition is the Definition of at least one applied
// directive (otherwise it is not part of the definition at all): an unused one is applied to an
// element of a uniformly drawn kind.
func (g *gen) applyUnlisted() {
	d := g.d
	if len(d.UDirs) == 0 {
		return
	}
	used := map[string]bool{}
	cs := d.carriers()
	for _, c := range cs {
		for _, ad := range *c.dirs {
			used[ad.Def] = true
		}
	}
	byLoc := map[string][]carrier{}
	var locs []string
	for _, c := range cs {
		if _, ok := byLoc[c.loc]; !ok {
			locs = append(locs, c.loc)
		}
		byLoc[c.loc] = append(byLoc[c.loc], c)
	}
	sort.Strings(locs)
	for _, dd := range d.UDirs {
		if used[dd.Name] {
			continue
		}
		c := hx.Pick(g.r, byLoc[hx.Pick(g.r, locs)])
		ad := AppliedDir{Def: dd.Name}
		for _, a := range dd.Args {
			if g.r.Bool() {
				ad.Args = append(ad.Args, AppliedArg{Name: a.Name, V: g.value(a.Type, 2, false)})
			}
		}
		if len(ad.Args) == 0 && g.r.Bool() {
			ad.NilArgs = true
		}
		*c.dirs = append(*c.dirs, ad)
	}
}

// reach computes the named types of the definition reachable from the listed directive
// definitions, the root operation types and the additional types.
//
//	everyPointer = false: what schema.Inspect visits (schema.New registers exactly these, inspect.go):
//	    field / argument / input-field types, interfaces, union members, and the argument types of
//	    the definitions of the directives applied to ENUM and SCALAR types;
//	everyPointer = true: what can be reached by following pointers — additionally the definitions of
//	    the directives applied to any other element (object, interface, union, input object, field,
//	    argument, enum value, input field).
func (d *SDef) reach(everyPointer bool) map[string]bool {
	starts := append([]string{d.Query, d.Mutation, d.Subscription}, d.Additional...)
	return d.reachFrom(everyPointer, true, starts)
}

// reachFrom: the same from the given named types (and, with dirs, the listed directive definitions).
func (d *SDef) reachFrom(everyPointer, dirs bool, starts []string) map[string]bool {
	seen := map[string]bool{}
	var visit func(n string)
	visitIVs := func(ivs []InputVal) {
		for _, iv := range ivs {
			visit(iv.Type.N)
		}
	}
	visitApplied := func(ads []AppliedDir) {
		for _, ad := range ads {
			if dd := d.dirByName(ad.Def); dd != nil {
				visitIVs(dd.Args)
			}
		}
	}
	visit = func(n string) {
		if n == "" || seen[n] {
			return
		}
		seen[n] = true
		t := d.typeByName(n)
		if t == nil {
			return
		}
		if everyPointer || t.Kind == "enum" || t.Kind == "scalar" {
			visitApplied(t.Dirs)
		}
		for _, f := range t.Fields {
			visit(f.Type.N)
			visitIVs(f.Args)
			if everyPointer {
				visitApplied(f.Dirs)
				for _, a := range f.Args {
					visitApplied(a.Dirs)
				}
			}
		}
		visitIVs(t.Inputs)
		if everyPointer {
			for _, f := range t.Inputs {
				visitApplied(f.Dirs)
			}
			for _, v := range t.Values {
				visitApplied(v.Dirs)
			}
		}
		for _, i := range t.Ifaces {
			visit(i)
		}
		for _, m := range t.Members {
			visit(m)
		}
	}
	if dirs {
		for _, dd := range d.Dirs {
			visitIVs(dd.Args)
		}
	}
	for _, a := range starts {
		visit(a)
	}
	return seen
}

// notInspected lists the named types that are part of the definition by pointer but are not
// visited by schema.Inspect (sorted).
func (d *SDef) notInspected() []string {
	insp, ptr := d.reach(false), d.reach(true)
	var out []string
	for n := range ptr {
		if !insp[n] && !isBuiltinScalar(n) && d.typeByName(n) != nil {
			out = append(out, n)
		}
	}
	sort.Strings(out)
	return out
}

// appliedStats counts the applied directives of a definition by carrier kind, by whether their
// definition is listed, and by what kind of argument types the definition has.
func (h *harness) appliedStats(d *SDef) {
	insp := d.reach(false)
	refs := map[string]int{} // how many type references to each named type outside directive definitions
	for _, t := range d.Types {
		for _, f := range t.Fields {
			refs[f.Type.N]++
			for _, a := range f.Args {
				refs[a.Type.N]++
			}
		}
		for _, f := range t.Inputs {
			if f.Type.N != t.Name {
				refs[f.Type.N]++
			}
		}
	}
	for _, c := range d.carriers() {
		if !insp[c.typ] {
			continue
		}
		for _, ad := range *c.dirs {
			dd := d.dirByName(ad.Def)
			if dd == nil {
				continue
			}
			listed := "listed"
			if d.isUnlisted(ad.Def) {
				listed = "unlisted"
			}
			h.count(fmt.Sprintf("applied:%s:%s", c.loc, listed))
			for _, a := range dd.Args {
				switch {
				case isBuiltinScalar(a.Type.N):
				case refs[a.Type.N] == 0:
					h.count(fmt.Sprintf("applied:%s:%s:arg-type-used-nowhere-else", c.loc, listed))
				default:
					h.count(fmt.Sprintf("applied:%s:%s:arg-type-also-used-elsewhere", c.loc, listed))
				}
			}
		}
	}
	if n := len(d.notInspected()); n > 0 {
		h.count("schema:has-types-reachable-by-pointer-only")
	}
}

func (d *SDef) isUnlisted(n string) bool {
	for _, dd := range d.UDirs {
		if dd.Name == n {
			return true
		}
	}
	return false
}

// clonesUninspectedTypes probes the implementation: does Clone copy a named type that is part of
// the definition only through a directive applied to an object type (which Inspect does not look
// into)? false on a tree with finding F-10i, true once it is repaired; the harness then expects such
// types to be copied like all others (no finding attributed, pass 1 of the heap model = every named
// type reachable by pointer).
func clonesUninspectedTypes() (copied bool) {
	defer func() {
		if recover() != nil {
			copied = false
		}
	}()
	only := &schema.EnumType{Name: "Only", Values: map[string]*schema.EnumValueDefinition{"A": {Value: "A"}}}
	dd := &schema.DirectiveDefinition{Locations: []schema.DirectiveLocation{schema.DirectiveLocationObject},
		Arguments: map[string]*schema.InputValueDefinition{"a": {Type: only}}}
	def := &schema.SchemaDefinition{Query: &schema.ObjectType{Name: "Query",
		Fields:     map[string]*schema.FieldDefinition{"f": {Type: schema.IntType}},
		Directives: []*schema.Directive{{Definition: dd}}}}
	cl := def.Clone()
	return cl.Query.Directives[0].Definition.Arguments["a"].Type != schema.Type(only)
}

var legalNameRE = regexp.MustCompile(`^[_A-Za-z][_0-9A-Za-z]*$`)

// legalName: the June-2018 rules schema.New enforces — a Name that does not start with "__"; an
// enum value in addition is none of true / false / null (those may start with "__").
func legalName(n string, enumValue bool) bool {
	if !legalNameRE.MatchString(n) {
		return false
	}
	if enumValue {
		return n != "true" && n != "false" && n != "null"
	}
	return !strings.HasPrefix(n, "__")
}

// illegalNameUnseen reports whether the definition has an illegal name at a position schema.New
// does not look at: inside a named type Inspect does not reach, or an argument of an unlisted
// directive definition that is applied to nothing but elements Inspect does not look into. (The
// generator does not produce such definitions: the name rules are about the registered schema.)
func (d *SDef) illegalNameUnseen() bool {
	insp := d.reach(false)
	for _, t := range d.Types {
		bad := !legalName(t.Name, false)
		for _, f := range t.Fields {
			bad = bad || !legalName(f.Name, false)
			for _, a := range f.Args {
				bad = bad || !legalName(a.Name, false)
			}
		}
		for _, f := range t.Inputs {
			bad = bad || !legalName(f.Name, false)
		}
		for _, v := range t.Values {
			bad = bad || !legalName(v.Name, true)
		}
		if bad && !insp[t.Name] {
			return true
		}
	}
	seen := map[string]bool{}
	for _, t := range d.Types {
		if (t.Kind == "enum" || t.Kind == "scalar") && insp[t.Name] {
			for _, ad := range t.Dirs {
				seen[ad.Def] = true
			}
		}
	}
	for _, dd := range d.UDirs {
		for _, a := range dd.Args {
			if !legalName(a.Name, false) && !seen[dd.Name] {
				return true
			}
		}
	}
	return false
}

// hasIllegalName: some name of the definition breaks the rules (anywhere).
func (d *SDef) hasIllegalName() bool {
	for _, t := range d.Types {
		if !legalName(t.Name, false) {
			return true
		}
		for _, f := range t.Fields {
			if !legalName(f.Name, false) {
				return true
			}
			for _, a := range f.Args {
				if !legalName(a.Name, false) {
					return true
				}
			}
		}
		for _, f := range t.Inputs {
			if !legalName(f.Name, false) {
				return true
			}
		}
		for _, v := range t.Values {
			if !legalName(v.Name, true) {
				return true
			}
		}
	}
	for _, dd := range append(append([]DirDef{}, d.Dirs...), d.UDirs...) {
		for _, a := range dd.Args {
			if !legalName(a.Name, false) {
				return true
			}
		}
	}
	for _, dd := range d.Dirs {
		if !legalName(dd.Name, false) {
			return true
		}
	}
	return false
}

// fewerSelfReferences: a directive applied to an enum / scalar type whose definition has an argument
// type that leads back to that type makes schema.New refuse the whole definition ("directive is
// self-referencing"); three in four of those applications are taken out again so that the refusal
// stays a small share of the generated definitions.
func (g *gen) fewerSelfReferences() {
	d := g.d
	for i := range d.Types {
		t := &d.Types[i]
		if t.Kind != "enum" && t.Kind != "scalar" {
			continue
		}
		var kept []AppliedDir
		for _, ad := range t.Dirs {
			dd := d.dirByName(ad.Def)
			self := false
			if dd != nil {
				var starts []string
				for _, a := range dd.Args {
					starts = append(starts, a.Type.N)
				}
				self = d.reachFrom(false, false, starts)[t.Name]
			}
			if self && g.r.Chance(3, 4) {
				continue
			}
			kept = append(kept, ad)
		}
		if len(kept) != len(t.Dirs) {
			t.Dirs = kept
		}
	}
}
