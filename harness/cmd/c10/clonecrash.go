// Clone in a child process.
//
// A definition in which a directive definition's own argument carries a directive with that same
// definition (`directive @d(a: Int @d)`) is accepted by schema.New (Inspect does not look into the
// directives applied to an input value), but fixNamedTypePointers follows Directive -> Definition ->
// Arguments -> Directives -> Definition … without end: Clone dies with Go's fatal "stack overflow",
// which cannot be recovered. Such a case (Parts = ["clonecrash"]) is therefore run in a child
// process: this binary with C10_CLONE_CHILD=<case file> builds the definition, calls schema.New and
// Clone with a small stack limit, and reports through its exit status.
// Open finding F-10j; the typed extraction (extract.go) would not terminate on such a definition
// either, so no other part is run on it and the generator does not produce it.
package main

import (
	"bytes"
	"encoding/json"
	"fmt"
	"os"
	"os/exec"
	"runtime/debug"
	"strings"
	"time"

	"github.com/ccbrown/api-fu/graphql/schema"

	"verifharness/hx"
)

func cloneChild(path string) {
	var c Case
	if err := hx.LoadReplayCase(path, &c); err != nil || c.S == nil {
		fmt.Fprintln(os.Stderr, "clone child: cannot load case:", err)
		os.Exit(4)
	}
	bt := build(c.S)
	if _, err := schema.New(bt.def); err != nil {
		fmt.Fprintln(os.Stderr, "clone child: schema.New:", err)
		os.Exit(3)
	}
	debug.SetMaxStack(32 << 20) // a terminating Clone of a generated definition needs a few kilobytes
	cl := bt.def.Clone()
	if _, err := schema.New(cl); err != nil {
		fmt.Fprintln(os.Stderr, "clone child: schema.New(clone):", err)
		os.Exit(5)
	}
	os.Exit(0)
}

// selfApplied: some directive definition has an argument that carries a directive with that same
// definition.
func selfApplied(d *SDef) bool {
	for _, dd := range append(append([]DirDef{}, d.Dirs...), d.UDirs...) {
		for _, a := range dd.Args {
			for _, ad := range a.Dirs {
				if ad.Def == dd.Name {
					return true
				}
			}
		}
	}
	return false
}

func (h *harness) cloneCrashPart(c *Case) (fails []failure) {
	f, err := os.CreateTemp("", "c10-clonechild-*.json")
	if err != nil {
		return nil
	}
	defer os.Remove(f.Name())
	b, _ := json.Marshal(map[string]interface{}{"case": c})
	f.Write(b)
	f.Close()
	cmd := exec.Command(os.Args[0])
	cmd.Env = append(os.Environ(), "C10_CLONE_CHILD="+f.Name())
	var stderr bytes.Buffer
	cmd.Stderr = &stderr
	done := make(chan error, 1)
	if err := cmd.Start(); err != nil {
		return nil
	}
	go func() { done <- cmd.Wait() }()
	var werr error
	select {
	case werr = <-done:
	case <-time.After(120 * time.Second):
		cmd.Process.Kill()
		<-done
		return []failure{{Part: "clone", Kind: "crash", Class: "clone-hangs", What: "Clone of a definition schema.New accepts does not return within 120 s (child process)"}}
	}
	h.count("clone:child-process-runs")
	if werr == nil {
		return nil
	}
	msg := stderr.String()
	code := -1
	if ee, ok := werr.(*exec.ExitError); ok {
		code = ee.ExitCode()
	}
	switch {
	case code == 3:
		h.count("clone:child:schema.New-rejects")
		return nil
	case code == 5:
		return []failure{{Part: "clone", Kind: "property", Class: "clone-rejected", What: "schema.New rejects the clone of an accepted definition (child process): " + firstLine(msg)}}
	case strings.Contains(msg, "stack overflow") || strings.Contains(msg, "stack exceeds"):
		fl := failure{Part: "clone", Kind: "crash", Class: "clone-stack-overflow", What: "Clone of a definition schema.New accepts dies with a fatal stack overflow (unrecoverable; child process): " + firstLine(msg)}
		if selfApplied(c.S) {
			fl.Finding = "F-10j-clone-stack-overflow-self-applied-directive"
		}
		return []failure{fl}
	}
	return []failure{{Part: "clone", Kind: "crash", Class: "clone-child-died", What: fmt.Sprintf("Clone of a definition schema.New accepts kills the process (child exit %d): %s", code, firstLine(msg))}}
}

func firstLine(s string) string {
	s = strings.TrimSpace(s)
	if i := strings.Index(s, "\n"); i >= 0 {
		s = s[:i]
	}
	if len(s) > 200 {
		s = s[:200]
	}
	return s
}
